"""C01 — every honestly produced signature verifies (SQIsign2D-West dimension-2 variant, all levels).

Proof part: SqiProps.C01 — the bookkeeping signer and verifier must agree on, in the abstract torsion model
(challenge kernel round trip, lengths, response-matrix round trip, kernel-pair invariance, small-chain kernel choice,
auxiliary degree).  End-to-end acceptance needs Deuring / Kani / theta theory and is SAMPLED here: keygen / sign /
verify over seeds x levels x message lengths x many messages per key in one process x forced v2 / backtracking /
hints >= 20 (hooks H1, H2b).  Any `sign = 1 and verify = 0` is a violation with replay (seed, level, message, env).
The hypotheses the theorems put on the transmitted matrix are checked on every real signature (tie H)."""
import os, re, json, time
import vlib, signlib
import c04 as base

LENS = [0, 1, 31, 32, 33, 135, 136, 137, 10000]


def v2int(x):
    return (x & -x).bit_length() - 1 if x else -1


def run(ctx):
    ctx.trusted += ["Deuring correspondence, Kani's lemma, theta-isogeny formulas: NOT formalised (end-to-end acceptance is sampled)",
                    "hooks H1/H2b (add-only, guarded), probe driver tools/harness/drv_sign.c, AES-CTR-DRBG of libsqisign_common_test"]
    vlib.proof_stage(ctx, ["SqiProps.C01"], searcher=None)
    P = {l: base.level_params(l) for l in (1, 3, 5)}
    quick = ctx.quick
    b = ctx.build_repo("ref", san=False)
    exes = signlib.compile_all(ctx, b, False, variants=("dim2",))
    rng = ctx.rng.fork("c01")
    # (level -> number of keys, messages per key)
    plan = {1: (8, 18), 3: (5, 9), 5: (4, 6)} if quick else {1: (48, 60), 3: (24, 30), 5: (16, 20)}
    jobs = []
    for l, (nkeys, nmsg) in plan.items():
        for i in range(nkeys):
            seed = 1 + rng.below(10**9)
            ops = ["seed %d" % seed]
            hint20 = (i % 4 == 3)
            if hint20:
                ops.append("setenv SQI_VERIF_HINT20 1")
            ops.append("keygen")
            msgs = []
            for j in range(nmsg):
                ln = LENS[(i + j) % len(LENS)] if (j < len(LENS) or not quick) else 32
                if l == 5 and quick and ln == 10000 and j > 2:
                    ln = 137
                ms = rng.below(10**9)
                msgs.append((ln, ms))
                ops += ["msg %d %d" % (ln, ms), "sign", "siginfo", "verify"]
            jobs.append((("plain", l, seed, hint20), exes[(l, "dim2")], ops, None, 300, msgs))
        # steering: one key, several forced valuations / backtrackings in one process (commitment reused)
        vm = base.vmax(P[l], "dim2")
        ks = sorted({0, 1, 2 + rng.below(3), 5 + rng.below(3)} | ({8 + rng.below(3), vm} if (l == 1 or not quick) else set()))
        if not quick:
            ks = list(range(0, min(vm, 12 if l == 1 else 10) + 1))
        for part, chunk in enumerate([ks[i::2] for i in range(2)]):
            seed = 1 + rng.below(10**9)
            ops = ["seed %d" % seed, "keygen", "setenv SQI_VERIF_H1_REUSE_COMMIT 1"]
            msgs = []
            for k in chunk:
                ops += ["setenv SQI_VERIF_H1_V2 %d" % k, "signsteer %d 32 %d" % (6000, 10**6 * (k + 1)), "siginfo", "verify"]
                msgs.append(("v2", k))
            ops += ["unsetenv SQI_VERIF_H1_V2"]
            for bt in ([1, 2] if l == 1 else [1]):
                ops += ["setenv SQI_VERIF_H1_BT %d" % bt, "signsteer %d 32 %d" % (4000, 10**7 * (bt + 1)), "siginfo", "verify"]
                msgs.append(("bt", bt))
            jobs.append((("steer", l, seed, part), exes[(l, "dim2")], ops, None, 300 if quick else 3000, msgs))
    # rare branches reached by steering (hooks H1 ODD / UV_BRANCH):
    #  * responses whose content in O0 has an odd part (about 1.2 % of signatures): lattice_content must be divided by the 2-part only
    #  * ideals for which find_uv re-orders the reduced basis (branches 1, 2, 3; branch 2 is taken by 0.27 % of the ideals),
    #    for the secret ideal (keygen) and for the commitment ideal (sign)
    for l in plan:
        seed = 1 + rng.below(10**9)
        ops = ["seed %d" % seed, "keygen", "setenv SQI_VERIF_H1_REUSE_COMMIT 1", "setenv SQI_VERIF_H1_ODD 1"]
        msgs = []
        for i in range(4 if (l == 1 or not quick) else 2):
            ops += ["signsteer 6000 32 %d" % (10**6 * (i + 1)), "siginfo", "verify"]
            msgs.append(("odd", i))
        jobs.append((("odd", l, seed, 0), exes[(l, "dim2")], ops, None, 300 if quick else 3000, msgs))
        for k in (1, 2, 3):
            nk = (3 if k == 2 else 1) if (l == 1 or not quick) else (1 if k == 2 else 0)
            for rep in range(nk):
                seed = 1 + rng.below(10**9)
                ops = ["seed %d" % seed, "setenv SQI_VERIF_UV_BRANCH %d" % k, "keygen", "unsetenv SQI_VERIF_UV_BRANCH"]
                msgs = []
                for i in range(2):
                    ops += ["msg 32 %d" % rng.below(10**9), "sign", "siginfo", "verify"]
                    msgs.append(("uv-keygen", k))
                jobs.append((("uvk", l, seed, k), exes[(l, "dim2")], ops, None, 300 if quick else 3000, msgs))
                seed = 1 + rng.below(10**9)
                ops = ["seed %d" % seed, "keygen", "setenv SQI_VERIF_UV_BRANCH %d" % k]
                msgs = []
                for i in range(2):
                    ops += ["msg 32 %d" % rng.below(10**9), "sign", "siginfo", "verify"]
                    msgs.append(("uv-commit", k))
                jobs.append((("uvc", l, seed, k), exes[(l, "dim2")], ops, None, 300 if quick else 3000, msgs))
    if quick:
        # more plain level-1 samples in one process each (many messages per key)
        for i in range(6):
            seed = 1 + rng.below(10**9)
            ops = ["seed %d" % seed, "keygen"]
            msgs = []
            for j in range(40):
                ms = rng.below(10**9)
                ops += ["msg 32 %d" % ms, "sign", "siginfo", "verify"]
                msgs.append((32, ms))
            jobs.append((("plain", 1, seed, False), exes[(1, "dim2")], ops, None, 300, msgs))
    for j in jobs:      # signer dump (H3s) and verifier taps (H4) on for every signature
        j[2].insert(j[2].index("keygen") + 1, "setenv SQI_VERIF_TRACE 1")
    ctx.lake(["driver"])
    ctx.log("running %d processes (%d sign calls planned)" % (len(jobs), sum(len(j[5]) for j in jobs)))
    res = signlib.run_many([(j[0], j[1], j[2], j[3], j[4]) for j in jobs], workers=16, keep=True)
    hist, nsig, nfail, nunmet = {}, 0, 0, 0

    def note(k):
        hist[k] = hist.get(k, 0) + 1
    bad_inv = []
    book = []
    for j in jobs:
        key, exe, ops, env, to, msgs = j
        r = res[key]
        l = key[1]
        lines = r["results"]
        if r["crash"]:
            ctx.violation("crash:%s" % re.sub(r"0x[0-9a-f]+", "", r["crash"])[:100], "signer/verifier crashed (%s) during %s" % (r["crash"], r["where"]),
                          dict(level=l, variant="dim2", ops=ops, build="ref, hooks on", driver="tools/harness/drv_sign.c"))
            note("crash")
        # signer dumps, one entry per sign op (the last dump of the op: signsteer may try several messages)
        sdumps = []
        for chunk in r["stderr_full"].split("drv-mark: ")[1:]:
            if chunk.startswith("sign"):
                m = re.findall(r"verif-sig:([^\n]*)", chunk)
                sdumps.append(dict(kv.split("=", 1) for kv in m[-1].split()) if m else None)
        vtap = None
        # walk the result stream: sign ... [sig ...] verify ...
        idx = 0
        cur = None
        tries = None
        for ln in lines:
            if ln.startswith("tries "):
                tries = ln
            if ln.startswith("sign ret="):
                cur = signlib.parse_sign(ln)
                cur["msg"] = msgs[idx] if idx < len(msgs) else None
                cur["tries"] = tries
                idx += 1
                if cur["ret"] == 0:
                    nfail += 1; note("L%d:explicit-failure" % l)
                elif cur["ret"] == -1:
                    nunmet += 1; note("L%d:steering-unmet" % l)
            elif ln.startswith("vtap "):
                vtap = dict(kv.split("=", 1) for kv in ln.split()[1:])
            elif ln.startswith("sig ") and cur and cur["ret"] == 1:
                f = ln.split()
                cb = int(f[1]); coeff = int(f[2], 16); m = [int(x, 16) for x in f[3:7]]
                cur["coeff"], cur["mat"], cur["dump"] = coeff, m, (sdumps[idx - 1] if idx - 1 < len(sdumps) else None)
                n = P[l]["resp"] + 2
                det = (m[0] * m[3] - m[1] * m[2]) % (1 << n)
                inv = dict(chall_b0=cb == 0, range=all(0 <= x < (1 << n) for x in m), not_zero_mod2=any(x & 1 for x in m),
                           coeff_fits=0 <= coeff < (1 << (64 * (P[l]["f"] // 64 + 1))))
                note("L%d:v2(det)-v=%s" % (l, "0" if det and v2int(det) == cur["v2"] else "other"))
                if not all(inv.values()):
                    bad_inv.append(dict(level=l, key=list(key), msg=cur["msg"], invariants=inv))
            elif ln.startswith("verify ") and cur:
                if ln == "verify skipped":
                    cur = None
                    continue
                nsig += 1
                ctx.case(("sig", l, cur["v2"], cur["bt"], min(max(cur.get("hints", "0,0,0,0") and max(int(h) for h in str(cur["hints"]).split(",")), 0), 20)))
                note("L%d:v2=%d" % (l, cur["v2"])); note("L%d:bt=%d" % (l, cur["bt"]))
                if any(int(h) >= 20 for h in str(cur["hints"]).split(",")):
                    note("L%d:hint>=20" % l)
                if cur["msg"] and isinstance(cur["msg"][0], str) and cur["msg"][0] not in ("v2", "bt"):
                    note("L%d:%s:%s" % (l, cur["msg"][0], cur["msg"][1] if cur["msg"][0].startswith("uv") else "x"))
                if cur["msg"] and not isinstance(cur["msg"][0], str):
                    note("len=%d" % cur["msg"][0])
                taps_ok = vtap is not None and (vtap.get("have") == "1111111" or (vtap.get("have") == "1011111" and cur["v2"] == 0))
                if ln == "verify 1" and cur.get("mat") and cur.get("dump") and taps_ok:
                    book.append((l, key, idx, dict(cur), dict(vtap)))
                elif ln == "verify 1":
                    note("book:incomplete-taps")
                vtap = None
                if ln != "verify 1":
                    ctx.violation("dim2:L%d:sign-ok-verify-rejects:v2=%d:bt=%d" % (l, cur["v2"], cur["bt"]),
                                  "honest signature rejected: level %d, v2=%d, backtracking=%d, message %s" % (l, cur["v2"], cur["bt"], cur["msg"]),
                                  dict(level=l, variant="dim2", ops=ops, failing_sign_index=idx, message=cur["msg"], tries=cur["tries"],
                                       build="ref, hooks on", driver="tools/harness/drv_sign.c"))
                    note("REJECTED")
                elif len(ctx.samples) < 6:
                    ctx.sample(dict(level=l, seed=key[2], message=cur["msg"], v2=cur["v2"], bt=cur["bt"], hints=cur["hints"], verify=1))
                cur = None
    # ---- per-signature bookkeeping correspondence: model predictions (SigBook) vs signer dump vs verifier taps
    blines = ["sigbook.predict %s %x %x %x %x %x %x" % (base.phex(P[l]), c["bt"], c["v2"], *c["mat"]) for (l, key, idx, c, t) in book]
    bout = ctx.driver(blines) if blines else []
    drift = []
    for (l, key, idx, c, t), out in zip(book, bout):
        chl, pw, n, inr, col, op, oq, codd, detok = out.split()
        d = c["dump"]
        v = c["v2"]
        exp = []      # (name, model / signer side, implementation / verifier side)
        exp += [("phi_chall.length", chl, t["challlen"]), ("pow_dim2_deg_resp", pw, t["pow"]), ("matrix entries < 2^(resp+2)", "1", inr),
                ("det = 2^v * odd (dual chain exists)", "1", detok), ("chosen column has an odd coordinate", "1", codd),
                ("order of P' exactly 2^n", op, t["ordP"]), ("order of Q' exactly 2^n", oq, t["ordQ"]),
                ("six kernel components of exact order 2^(pow+2)", "111111", t["ord"]),
                ("challenge kernel: biscalar (1,H) = ladder(chall_coeff)", "1", t["kerpk"]), ("challenge kernel of order 2^f", "1", t["kerpkord"]),
                ("j(E_com) signer = verifier", d["jcom"], t["jcom"]), ("j(E_chall) signer = verifier", d["jchall"], t["jchall"]),
                ("j(codomain.E2 of the signer) = j(E1 of the verifier)", d["jchall2"], t["je1"]), ("j(E_aux2) = j(E2)", d["jaux2"], t["je2"]),
                ("x(P') = x(B_resp_two.P)", d["xP"], t["xP"]), ("x(Q')", d["xQ"], t["xQ"]), ("x(P'-Q')", d["xPmQ"], t["xPmQ"]),
                ("signer vec_chall = (1, chall_coeff)", "1,%x" % c["coeff"], d["vecchall"]), ("verifier hash = (1, chall_coeff)", "1,%x" % c["coeff"], t["chk"])]
        if v > 0:
            exp += [("small-chain kernel column", col, t["kercol"]), ("small-chain kernel of exact order 2^v", "1", t["kerord"]), ("small chain length", str(v), t["kerlen"])]
            a, b = [int(x, 16) for x in d["vecresp"].split(",")]
            exp.append(("signer's small kernel (a,b) primitive", "1", "1" if (a | b) & 1 else "0"))
        else:
            exp.append(("v = 0: tapped T1/T2/T1m2.P1 are the applied canonical basis", "111", t["eqT"]))
        ma = [int(x, 16) for x in d["maux"].split(",")]
        q = int(d["q"], 16)
        exp += [("det(mat_Baux2_to_Baux2_can) odd (kernel_pair_invariant)", "1", str((ma[0] * ma[3] - ma[1] * ma[2]) & 1)),
                ("q odd and q < 2^pow (aux_degree)", "1", "1" if (q & 1) and q < (1 << int(pw)) else "0")]
        bad = [(nm, a, b) for nm, a, b in exp if a != b]
        note("book:col=%s" % (col if v > 0 else "-"))
        if bad:
            drift.append(dict(level=l, key=list(key), sign_index=idx, v2=v, bt=c["bt"], disagreements=[(nm, a[:40], b[:40]) for nm, a, b in bad[:6]]))
    ctx.evaluations += len(book) * 20
    ctx.obligation("per-signature bookkeeping: model (SigBook) = signer dump = verifier taps on %d signatures (about 20 values each)" % len(book),
                   len(book) > 0 and not drift, json.dumps(drift[:2])[:700])
    for d in drift[:4]:
        ctx.violation("drift:c01-bookkeeping:%s" % d["disagreements"][0][0][:60], "the code's bookkeeping and the model's disagree on a signature (level %d, v2=%d, bt=%d): %s"
                      % (d["level"], d["v2"], d["bt"], d["disagreements"][0]), d, found=False)
    ctx.coverage["bookkeeping_signatures"] = len(book)
    ctx.obligation("hypotheses of the C01 theorems hold on every real signature (chall_b = 0, entries < 2^(resp+2), matrix not 0 mod 2)",
                   not bad_inv, json.dumps(bad_inv[:3]))
    for d in bad_inv[:3]:
        ctx.violation("model-mismatch:c01-invariant:%s" % json.dumps(d["invariants"])[:60], "a signature violates a hypothesis of the bookkeeping theorems but verifies",
                      d, found=False)
    ctx.obligation("sampled end-to-end acceptance (%d signatures verified)" % nsig, nsig > 0 and "REJECTED" not in hist and "crash" not in hist, "")
    ctx.coverage["histogram"] = dict(sorted(hist.items()))
    ctx.coverage["signatures_verified"] = nsig
    ctx.coverage["explicit_failures"] = nfail
    ctx.coverage["steering_unmet"] = nunmet
    return dict(level="proof", rule="theorems: all H, all matrices, all (bt, v); sampled part: one case = one (level, v2, backtracking, hint class) of a signature that was produced and verified",
                explanation="PARTIAL: end-to-end acceptance is sampled (needs Deuring/Kani/theta theory); the bookkeeping both sides share is proved")

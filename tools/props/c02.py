"""C02 — verification accepts only what was signed (binding, no structural forgery), incl. the NIST-style entry points.

Proof: SqiProps/C02.lean — decision logic (`accept_iff_*`), binding modulo hash injectivity (`binding_msg_pk_*`),
structural forgery theorems in the abstract torsion model for all sizes and entries, `code_checks_kernel_orders`
about the validity checks re-extracted from the C text (tie T: tools/translate/verif_guard.py), negation witness for
the pinned verifier (`pinned_accepts_zero_matrix_dim2`), `nist_api_fails_closed`.
Tie H: for honest (pk, m, sig) from the library's own keygen/sign (deterministic DRBG): tampering catalogue, other
(pk', m'), catalogue of secret-free constructions with the challenge fitted after the fact (hook H4 taps); every
verdict *and the stage at which the C function returned* is compared with the Lean decision model (`verif.dec`)
fed with the tapped values; the recomputed challenge is cross-checked with an independent SHAKE256."""
import json, os
import vlib
import verif_common as vc


def tamperings(rng, lvl, variant, sig):
    """(label, class, new tokens); class 'alters' = must be rejected, 'repr' = representation change (compared with the model only)"""
    V = vc.VAR[variant]
    c = vc.CONST[lvl]
    d0 = vc.sig_dict(variant, sig)
    out = []

    def add(label, cls, **kw):
        d = dict(d0); d.update(kw)
        out.append((label, cls, vc.sig_tokens(variant, d)))
    for f in V["ints"]:
        for dl in (1, -1, 3):
            add("%s%+d" % (f, dl), "alters", **{f: d0[f] + dl})
    width = {"chall": 64 * c["nw"]}
    for f in V["bigs"]:
        w = width.get(f, c["resp"] + 2 if variant == "dim2" else c["f"])
        for dl in (1, -1, 3):
            add("%s%+d" % (f, dl), "alters", **{f: d0[f] + dl})
        for b in sorted({0, 1, w // 2, max(d0[f].bit_length() - 1, 0), rng.below(max(w, 2))}):
            add("%s^bit%d" % (f, b), "alters", **{f: d0[f] ^ (1 << b)})
        add("%s^bit%d(above width)" % (f, w + 3), "repr", **{f: d0[f] ^ (1 << (w + 3))})
    # swaps of the hint pairs
    add("swap(ha0,ha1)", "alters" if d0["ha0"] != d0["ha1"] else "repr", ha0=d0["ha1"], ha1=d0["ha0"])
    if variant == "dim2":
        add("swap(hc0,hc1)", "alters" if d0["hc0"] != d0["hc1"] else "repr", hc0=d0["hc1"], hc1=d0["hc0"])
        add("swap(hint_aux,hint_chall)", "alters" if (d0["ha0"], d0["ha1"]) != (d0["hc0"], d0["hc1"]) else "repr",
            ha0=d0["hc0"], ha1=d0["hc1"], hc0=d0["ha0"], hc1=d0["ha1"])
        add("swap(m01,m10)", "alters", m01=d0["m10"], m10=d0["m01"])
        add("swap(columns)", "alters", m00=d0["m01"], m01=d0["m00"], m10=d0["m11"], m11=d0["m10"])
    # re-encoding of the challenge through the other branch of the final comparison: the same kernel subgroup
    # <P + cQ> = <Q + c^-1 P> (c odd), so every validity check still passes; only the comparison can reject it
    if variant == "dim2" and d0["chall_b"] == 0 and d0["chall"] % 2 == 1:
        add("chall_b=1 re-encoding (chall := chall^-1 mod 2^f)", "alters", chall_b=1, chall=pow(d0["chall"], -1, 2 ** c["f"]))
    if variant == "heur" and d0["hint_b"] == 0 and d0["x"] % 2 == 1:
        add("hint_b=1 re-encoding (x := x^-1 mod 2^len)", "alters", hint_b=1, x=pow(d0["x"], -1, 2 ** c["hc"]))
    p = c["p"]
    # E_aux -> other / isomorphic curves
    add("E_aux.A+1", "alters", Are=(d0["Are"] + 1) % p)
    add("E_aux.A^bit", "alters", Aim=d0["Aim"] ^ (1 << rng.below(c["f"])))
    add("E_aux:=E0", "alters", Are=0, Aim=0)
    add("E_aux:=-A (isomorphic curve, other model)", "repr", Are=(-d0["Are"]) % p, Aim=(-d0["Aim"]) % p)
    add("E_aux:=(2A:2) (same curve, C != 1)", "repr", Are=(2 * d0["Are"]) % p, Aim=(2 * d0["Aim"]) % p, Cre=2, Cim=0)
    add("E_aux:=conj(A) (Galois conjugate)", "alters", Aim=(-d0["Aim"]) % p)
    return out


def constructions(lvl, variant, pk, other_curve):
    """secret-free signatures: zero / even / rank-deficient response matrices x auxiliary curves x two_resp_length;
    the challenge is fitted after a first run (see run())"""
    c = vc.CONST[lvl]
    pd = vc.pk_dict(pk)
    p = c["p"]
    curves = [("pk", (pd["Are"], pd["Aim"])), ("E0", (0, 0)), ("A=6(j=1728 nbr)", (6, 0)), ("A=3", (3, 0)), ("ordinary?A=1+i", (1, 1)),
              ("singular A=2", (2, 0)), ("singular A=-2", (p - 2, 0)), ("other honest", other_curve)]
    out = []
    if variant == "dim2":
        k = c["resp"] + 2
        mats = [("zero", (0, 0, 0, 0)), ("even", (2, 4, 6, 2 ** (k - 1))), ("rank-def mod 2", (1, 1, 3, 5)), ("rank1 P only", (1, 0, 0, 0)),
                ("2^(k-1)*I", (2 ** (k - 1), 0, 0, 2 ** (k - 1))), ("identity", (1, 0, 0, 1)), ("antidiagonal", (0, 1, 1, 0)),
                ("diag(1,-1)", (1, 0, 0, 2 ** k - 1))]
        for cn, (are, aim) in curves:
            for mn, (a, b, cc, d) in mats:
                for trl in (0, 1, 2):
                    if trl and (cn not in ("pk", "E0") or mn not in ("zero", "even")):
                        continue
                    dd = dict(Are=are, Aim=aim, Cre=1, Cim=0, bt=0, trl=trl, m00=a, m01=b, m10=cc, m11=d, chall=0, chall_b=0,
                              ha0=pd["h0"], ha1=pd["h1"], hc0=pd["h0"], hc1=pd["h1"])
                    out.append(("%s|%s|trl=%d" % (mn, cn, trl), vc.sig_tokens(variant, dd)))
    else:
        n0 = c["f"] - c["hc"]
        vals = [("zero", dict(b0=0, d0=0, b1=0, d1=0, c0=0, e0=0)), ("even", dict(b0=2, d0=4, b1=6, d1=2, c0=0, e0=0)),
                ("rank-def", dict(b0=1, d0=1, b1=0, d1=0, c0=0, e0=0)), ("identity-like", dict(b0=1, d0=0, b1=0, d1=1, c0=0, e0=0)), ("top-bit", dict(b0=2 ** (n0 - 3), d0=0, b1=0, d1=2 ** 100, c0=0, e0=0))]
        for cn, (are, aim) in curves:
            for mn, kw in vals:
                for trl in (0, 1):
                    if trl and cn not in ("pk", "E0"):
                        continue
                    dd = dict(Are=are, Aim=aim, Cre=1, Cim=0, trl=trl, ha0=pd["h0"], ha1=pd["h1"], x=0, hint_b=0)
                    dd.update(kw)
                    out.append(("%s|%s|trl=%d" % (mn, cn, trl), vc.sig_tokens(variant, dd)))
    return out


def fit(lvl, variant, sig, kv):
    """fit the challenge field to the hash the verifier recomputed in a first run"""
    if kv.get("H", "-") == "-":
        return None
    d = vc.sig_dict(variant, sig)
    H = int(kv["H"], 16)
    if variant == "dim2":
        d["chall"] = H
    else:
        d["x"] = H % (2 ** vc.CONST[lvl]["hc"])
    return vc.sig_tokens(variant, d)


# ---------------------------------------------------------------------------------------------------------------
# kernel families with valid public hints: for each of the kernel-order tests, the response shapes that make exactly
# that point trivial / short while the other points keep full order — a verifier that skips one test is hit by its family.
def dim2_families(k):
    """(label, (m00, m01, m10, m11)); columns P' = (m00, m10), Q' = (m01, m11) in the canonical basis of E_chall[2^k]"""
    return [("T1.P1=O first column zero [[0,5],[0,3]]", (0, 5, 0, 3)),
            ("T1.P1=O first column zero [[0,0],[0,1]]", (0, 0, 0, 1)),
            ("T2.P1=O second column zero [[3,0],[5,0]]", (3, 0, 5, 0)),
            ("T1m2.P1=O equal columns [[3,3],[5,5]]", (3, 3, 5, 5)),
            ("T1.P1 short: first column even [[2,5],[4,3]]", (2, 5, 4, 3)),
            ("T2.P1 short: second column even [[3,2],[5,4]]", (3, 2, 5, 4)),
            ("T1m2.P1 short: columns congruent mod 2 [[3,5],[5,7]]", (3, 5, 5, 7)),
            ("T1.P1 order 2: [[2^(k-1),1],[0,1]]", (2 ** (k - 1), 1, 0, 1)),
            ("invertible non-isotropic [[3,1],[1,2]]", (3, 1, 1, 2))]


def heur_families(lvl, trl):
    """compressed responses of the heuristic variant: mat00 = b0, mat01 = d0, mat10 = 2^n b1 + (b0 x mod 2^a) + 2^a c0, …"""
    return [("T1.P1=O first column zero", dict(b0=0, b1=0, c0=0, d0=1, d1=0, e0=0)),
            ("T2.P1=O second column zero", dict(b0=1, b1=0, c0=0, d0=0, d1=0, e0=0)),
            ("T1m2.P1=O equal columns", dict(b0=1, b1=3, c0=0, d0=1, d1=3, e0=0)),
            ("T1.P1 short: first column even", dict(b0=2, b1=2, c0=0, d0=1, d1=0, e0=0)),
            ("invertible non-isotropic", dict(b0=1, b1=0, c0=0, d0=2, d1=1, e0=0))]


def _hints(exe, are, aim, f):
    st, o, err = vc.run_lines(exe, ["hints %s %s %d" % (vc.hx(are), vc.hx(aim), f)], 120)
    if st != "ok" or not o:
        return None
    return int(o[0].split()[1]), int(o[0].split()[2])


def short_aux_hints(exe, lvl, variant, pk, h6):
    """second factor: public hints on y^2 = x^3 + 6x^2 + x whose canonical point has *short* order (the x-coordinate i + hint
    is on the curve but the point is a double), found by scanning hints >= 20 and reading the order bits the driver reports:
    returns {(which point): (ha0, ha1)} for T1.P2 and T2.P2"""
    c = vc.CONST[lvl]
    pd = vc.pk_dict(pk)
    out = {}
    lines, cands = [], []
    for which in (0, 1):
        for h in range(20, 44):
            ha = (h, h6[1]) if which == 0 else (h6[0], h)
            if variant == "dim2":
                d = dict(Are=6, Aim=0, Cre=1, Cim=0, bt=0, trl=0, m00=3, m01=1, m10=1, m11=2, chall=5, chall_b=0, ha0=ha[0], ha1=ha[1],
                         hc0=pd["h0"], hc1=pd["h1"])
            else:
                d = dict(Are=6, Aim=0, Cre=1, Cim=0, trl=0, ha0=ha[0], ha1=ha[1], x=1, hint_b=0, b0=1, d0=2, b1=0, d1=1, c0=0, e0=0)
            lines.append(vc.verify_line(variant, pk, vc.sig_tokens(variant, d), "00")); cands.append((which, ha))
    st, o, err = vc.run_lines(exe, lines, 600)
    for (which, ha), l in zip(cands, o):
        ordb = vc.parse_kv(l).get("ord", "-")
        if len(ordb) == 6 and ordb[3 + which] == "0" and ordb[4 - which] == "1" and which not in out:
            out[which] = ha
    return out


def family_constructions(ctx, drivers, honest, rng, quick, levels=None):
    """Secret-free constructions with *valid* public hints (library basis routines through the driver op `hints`):
    kernel families x E_aux in {pk curve + pk hints, y^2 = x^3 + 6x^2 + x + its hints, the same with a wrong aux hint}
    x two_resp_length x starting challenge in {precomputed H(0 || j(pk) || m) for a degenerate commitment, random};
    the challenge is then re-fitted to the tapped hash up to two more times. Returns Runner-style results."""
    jobs = []
    for (lvl, variant), hs in sorted(honest.items()):
        if levels and lvl not in levels:
            continue
        c = vc.CONST[lvl]
        exe = drivers[(lvl, variant)]
        pk = hs[0]["pk"]; pd = vc.pk_dict(pk)
        fB = c["resp"] + 2 if variant == "dim2" else c["f"]
        h6 = _hints(exe, 6, 0, fB)
        auxes = [("pk", pd["Are"], pd["Aim"], pd["h0"], pd["h1"])]
        if h6:
            auxes += [("A=6", 6, 0, h6[0], h6[1]), ("A=6,hint_aux[0]+1", 6, 0, h6[0] + 1, h6[1])]
            # second-factor families: a kernel point on E_aux of short order / on a singular cubic
            sh = short_aux_hints(exe, lvl, variant, pk, h6)
            if 0 in sh:
                auxes.append(("A=6,T1.P2 short (hint_aux[0]=%d)" % sh[0][0], 6, 0, sh[0][0], sh[0][1]))
            if 1 in sh:
                auxes.append(("A=6,T2.P2 short (hint_aux[1]=%d)" % sh[1][1], 6, 0, sh[1][0], sh[1][1]))
            auxes += [("singular A=2,hints 0,0", 2, 0, 0, 0), ("singular A=-2,hints 1,2", c["p"] - 2, 0, 1, 2)]
        msg = "666f726765642023%02x" % lvl
        # j-invariant bytes of the public key (any run reports them)
        st, o, err = vc.run_lines(exe, [vc.verify_line(variant, pk, hs[0]["sig"], "00")], 120)
        jpk = vc.parse_kv(o[0])["jpk"] if o else None
        pre = vc.challenge_py(lvl, variant, "00" * (len(jpk) // 2), jpk, msg) if jpk else 1
        fams = dim2_families(fB) if variant == "dim2" else None
        trls = (0, 1, 3) if (lvl == 1 or not quick) else (0, 1)
        for trl in trls:
            for an, are, aim, ha0, ha1 in (auxes if (lvl == 1 or not quick) else auxes[:2] + auxes[3:5]):
                for fi, (fl, fam) in enumerate(fams if fams else heur_families(lvl, trl)):
                    if quick and lvl != 1 and fi not in (0, 2, 3):
                        continue
                    if an != "pk" and trl == 3:
                        continue
                    if ("short" in an or "singular" in an) and fi not in (0, 8):
                        continue            # second-factor variants: with the T1.P1 = O family and with a full-order first factor
                    for start in ("pre", "rand"):
                        if start == "rand" and (fi not in (0, 3, 8) or an == "A=6,hint_aux[0]+1" or "singular" in an):
                            continue
                        jobs.append((lvl, variant, exe, pk, msg, trl, an, are, aim, ha0, ha1, fl, fam, start,
                                     pre if start == "pre" else rng.bits(64 * c["nw"] - 9) | 1))

    def one(job):
        lvl, variant, exe, pk, msg, trl, an, are, aim, ha0, ha1, fl, fam, start, chall = job
        c = vc.CONST[lvl]
        res = []
        if variant == "dim2":
            d = dict(Are=are, Aim=aim, Cre=1, Cim=0, bt=0, trl=trl, m00=fam[0], m01=fam[1], m10=fam[2], m11=fam[3], chall=chall, chall_b=0,
                     ha0=ha0, ha1=ha1, hc0=0, hc1=0)
        else:
            d = dict(Are=are, Aim=aim, Cre=1, Cim=0, trl=trl, ha0=ha0, ha1=ha1, x=chall % (2 ** c["hc"]), hint_b=0)
            d.update(fam)
        for attempt in range(3):
            if variant == "dim2":
                st, o, err = vc.run_lines(exe, [vc.verify_line(variant, pk, vc.sig_tokens(variant, d), msg)], 120)
                a = vc.parse_kv(o[0]).get("Achall", "-") if (st == "ok" and o) else "-"
                if a == "-":
                    break
                hc = _hints(exe, int(a.split(",")[0], 16), int(a.split(",")[1], 16), c["resp"] + 2)
                if not hc:
                    break
                d["hc0"], d["hc1"] = hc
            sig = vc.sig_tokens(variant, d)
            st, o, err = vc.run_lines(exe, [vc.verify_line(variant, pk, sig, msg)], 120)
            kv = vc.parse_kv(o[0]) if o else {"stderr": err[-600:]}
            res.append(((lvl, variant, "%s|E_aux %s|trl=%d|valid hints|%s#%d" % (fl, an, trl, start, attempt), "forgery", pk, sig, msg), (st, kv)))
            if st != "ok" or kv.get("v") == "1" or kv.get("H", "-") == "-":
                break
            H = int(kv["H"], 16)
            if variant == "dim2":
                if d["chall"] == H:
                    break
                d["chall"] = H
            else:
                if d["x"] == H % (2 ** c["hc"]):
                    break
                d["x"] = H % (2 ** c["hc"])
        return res
    out = []
    for r in vc.pmap(one, jobs):
        out += r
    return out


class Runner:
    def __init__(self, ctx, drivers):
        self.ctx, self.drivers = ctx, drivers
        self.items = []     # (lvl, variant, label, cls, pk, sig, msg)

    def add(self, *a):
        self.items.append(a)

    def run(self):
        """run all items (batched per driver process), return list of (item, status, kv)"""
        by = {}
        for i, it in enumerate(self.items):
            by.setdefault((it[0], it[1]), []).append(i)
        chunks = []
        for key, idx in by.items():
            for j in range(0, len(idx), 12):
                chunks.append((key, idx[j:j + 12]))

        def one(ch):
            key, idx = ch
            lines = [vc.verify_line(key[1], self.items[i][4], self.items[i][5], self.items[i][6]) for i in idx]
            st, out, err = vc.run_lines(self.drivers[key], lines, timeout=600)
            res = []
            for n, i in enumerate(idx):
                if n < len(out):
                    res.append((i, "ok", vc.parse_kv(out[n])))
                else:
                    res.append((i, st if n == len(out) else "not-run", {"stderr": err[-600:]}))
            return res
        res = [None] * len(self.items)
        for part in vc.pmap(one, chunks):
            for i, st, kv in part:
                res[i] = (st, kv)
        # re-run items that were not reached because an earlier line of their batch crashed
        todo = [i for i, r in enumerate(res) if r[0] == "not-run"]
        for i in todo:
            it = self.items[i]
            st, out, err = vc.run_lines(self.drivers[(it[0], it[1])], [vc.verify_line(it[1], it[4], it[5], it[6])], timeout=120)
            res[i] = (st, vc.parse_kv(out[0]) if out else {"stderr": err[-600:]})
        return list(zip(self.items, res))


def evaluate(ctx, results, hist, honest_jcom=None):
    """compare every run with the Lean decision model and with the property"""
    honest_jcom = honest_jcom or {}
    lines = [vc.dec_line(it[1], it[0], it[4], it[5], kv) if st == "ok" else "bad-probe" for it, (st, kv) in results]
    model = ctx.driver(lines)
    n_dis, examples = 0, []
    for (it, (st, kv)), ml in zip(results, model):
        lvl, variant, label, cls, pk, sig, msg = it
        hist[cls] = hist.get(cls, 0) + 1
        replay = dict(level=lvl, variant=variant, probe=label, probe_class=cls, pk=pk, sig=sig, msg=msg, result=st, tapped={k: v for k, v in kv.items() if k != "stderr"},
                      model=ml, how_to_replay="tools/harness/drv_verify.c (-DVERIF_LVL=%d%s): %s" %
                      (lvl, " -DVARIANT_HEUR" if variant == "heur" else "", vc.verify_line(variant, pk, sig, msg)[:3000]))
        if st != "ok":
            ctx.case("%s:lvl%d:%s:%s" % (variant, lvl, cls, st.split("@")[0]))
            replay["stderr"] = kv.get("stderr", "")
            ctx.violation("C02:%s:lvl%d:crash:%s:%s" % (variant, lvl, cls, label.split("|")[0][:40]), "verifier crashed on a constructed signature (%s)" % st, replay)
            continue
        v = kv.get("v")
        mk = vc.parse_kv(ml)
        ctx.case("%s:lvl%d:%s:%s:v=%s:stage=%s" % (variant, lvl, cls, label, v, vc.c_stage(kv)))
        # independent recomputation of the challenge hash from the tapped j-invariants
        if kv.get("H", "-") != "-" and kv.get("jcom", "-") != "-":
            if vc.challenge_py(lvl, variant, kv["jcom"], kv["jpk"], msg) != int(kv["H"], 16):
                ctx.violation("C02:%s:lvl%d:hash-mismatch" % (variant, lvl), "hash_to_challenge differs from SHAKE256(j(E_com) || j(pk) || m)", replay)
        accepted = (v == "1")
        must_reject = cls in ("other-pk", "other-msg", "forgery")
        if accepted and cls in ("alters", "repr"):
            # a changed field may only be accepted when it still encodes the same response (same commitment curve,
            # hence same hash input): an isomorphism-/representation-preserving change
            jc = honest_jcom.get((lvl, variant, tuple(pk), msg))
            if jc is not None and kv.get("jcom") not in jc:
                must_reject = True
        if accepted and must_reject:
            key = "C02:%s:lvl%d:%s:%s" % (variant, lvl, cls, label if cls == "forgery" else label.split("^")[0].split("+")[0].split("-")[0])
            ctx.violation(key, {"forgery": "a signature assembled from public data alone is accepted",
                                "alters": "a tampered signature with a different recomputed commitment is still accepted",
                                "repr": "a tampered signature with a different recomputed commitment is still accepted",
                                "other-pk": "signature accepted under another public key",
                                "other-msg": "signature accepted for another message"}[cls], replay)
        if accepted and kv.get("deg") == "1":
            ctx.violation("C02:%s:lvl%d:degenerate-commitment-accepted:%s" % (variant, lvl, label.split("|")[0][:60]),
                          "accepted although the recomputed commitment is not a curve (C = 0, encoded j = 0: the challenge is computable in advance)", replay)
        if cls == "honest" and not accepted:
            ctx.violation("C02:%s:lvl%d:honest-rejected" % (variant, lvl), "honest signature rejected", replay)
        if mk.get("v") != v or str(mk.get("stage")) != str(vc.c_stage(kv)):
            n_dis += 1
            examples.append(dict(probe=label, cls=cls, impl="v=%s stage=%s" % (v, vc.c_stage(kv)), model=ml, level=lvl, variant=variant))
            if accepted and mk.get("v") == "0":
                ctx.violation("C02:%s:lvl%d:accepts-what-the-decision-model-rejects:%s" % (variant, lvl, cls),
                              "the implementation accepts an input its decision model (accept_iff) rejects", replay)
    return n_dis, examples


def search(ctx, drivers, honest):
    """failing-input search when a proof obligation broke: kernel families with valid hints (one per kernel-order test),
    then the zero-matrix construction with fitted challenge"""
    for it, (st, kv) in family_constructions(ctx, drivers, honest, ctx.rng.fork("c02-search"), True, levels=[1]):
        if st == "ok" and kv.get("v") == "1":
            return ("C02:%s:lvl%d:forgery:%s" % (it[1], it[0], it[2]), "a signature assembled from public data alone is accepted",
                    dict(level=it[0], variant=it[1], probe=it[2], probe_class="forgery", pk=it[4], sig=it[5], msg=it[6], tapped=kv,
                         how_to_replay="tools/harness/drv_verify.c: " + vc.verify_line(it[1], it[4], it[5], it[6])))
    for (lvl, variant), hs in sorted(honest.items()):
        if not hs:
            continue
        h = hs[0]
        for label, sig in constructions(lvl, variant, h["pk"], (0, 0))[:6]:
            msg = "c0ffee"
            st, out, err = vc.run_lines(drivers[(lvl, variant)], [vc.verify_line(variant, h["pk"], sig, msg)], 120)
            if st != "ok":
                continue
            sig2 = fit(lvl, variant, sig, vc.parse_kv(out[0]))
            if not sig2:
                continue
            st, out, err = vc.run_lines(drivers[(lvl, variant)], [vc.verify_line(variant, h["pk"], sig2, msg)], 120)
            if st == "ok" and vc.parse_kv(out[0]).get("v") == "1":
                return ("C02:%s:lvl%d:forgery:%s" % (variant, lvl, label), "a signature assembled from public data alone is accepted",
                        dict(level=lvl, variant=variant, probe=label, pk=h["pk"], sig=sig2, msg=msg,
                             how_to_replay="tools/harness/drv_verify.c: " + vc.verify_line(variant, h["pk"], sig2, msg)))
    return None


def nist_api(ctx, build):
    """call the entry points of include/sig.h on garbage; compare with the translator's reading of src/sqisign.c"""
    exe = os.path.join(ctx.tmp, "drv_nistapi")
    lib = None
    for d, _, fs in os.walk(build):
        if "libsqisign_lvl1.a" in fs:
            lib = os.path.join(d, "libsqisign_lvl1.a")
    if not lib:
        ctx.obligation("NIST API driver", False, "libsqisign_lvl1.a not built")
        return
    rc, o = vlib.sh(["gcc", "-I" + os.path.join(vlib.REPO, "include"), os.path.join(vc.HARNESS, "drv_nistapi.c"), lib, "-o", exe])
    if rc != 0:
        # the entry points were wired to real code (needs the protocol libraries): not a stub any more
        ctx.obligation("NIST API driver", False, "link failed (entry points wired?): " + o[-300:])
        ctx.violation("C02:nist-api:driver", "src/sqisign.c no longer consists of stubs; drv_nistapi.c must be extended", dict(log=o[-800:]), found=False)
        return
    st, out, err = vc.run_lines(exe, [], timeout=60)
    got = {l.split()[0]: l.split()[1] for l in out}
    model = vc.parse_kv(ctx.driver(["verif.checks"])[0]).get("nist", "")
    names = ["sqisign_keypair", "sqisign_sign", "sqisign_open", "sqisign_verify"]
    impl = "".join(got.get(n, "?") for n in names)
    ctx.obligation("correspondence NIST API return values (garbage input) vs translated stubs", impl == model, "impl=%s model=%s" % (impl, model))
    for n in names:
        ctx.case("nist:%s:nonzero=%s" % (n, got.get(n)))
        if got.get(n) != "1":
            ctx.violation("C02:nist-api:%s:returns-success-on-garbage" % n,
                          "%s reports success (0) for arbitrary buffers without verifying anything" % n,
                          dict(function=n, returned_nonzero=got.get(n), how_to_replay="tools/harness/drv_nistapi.c linked with libsqisign_lvl1.a"))


def run(ctx):
    ctx.trusted += ["tools/translate/verif_guard.py (range guard, list of kernel validity checks, NIST stubs read from the C text)",
                    "hand model SqiModel/VerifyDecision.lean of the decision logic (run against protocols_verif through hook H4 on every probe)",
                    "abstract torsion model E[2^k] ≅ (ZMod 2^k)² (the C order tests are assumed to decide the order in that group: OracleSoundP1)",
                    "python hashlib SHAKE256 as independent oracle for hash_to_challenge"]
    ctx.assumptions += ["unforgeability beyond the decision logic, binding under hash injectivity and the structural classes is a cryptographic "
                        "assumption and not decided", "hash injectivity (collision resistance of SHAKE256 / its truncation) is a hypothesis of binding_msg_pk_*"]
    quick = ctx.quick
    build = ctx.build_repo("ref", san=False)
    drivers = vc.compile_all(ctx, san=False)
    seeds = {1: 3, 3: 1, 5: 1} if quick else {1: 24, 3: 10, 5: 6}
    sr = ctx.rng.fork("c02-seeds")
    jobs = []
    for (lvl, variant) in drivers:
        for k in range(seeds[lvl] + (1 if lvl != 1 else 0)):
            L = sr.choice([0, 1, 31, 32, 33, 135, 136, 137, 500])
            jobs.append((lvl, variant, "%096x" % sr.bits(384), ("%0*x" % (2 * L, sr.bits(8 * L))) if L else "-"))
    gens = vc.pmap(lambda j: (j, vc.gen(drivers[(j[0], j[1])], j[1], j[2], j[3])), jobs)
    honest = {}
    for (lvl, variant, seed, msg), g in gens:
        if g["status"] != "ok" or g.get("ok") != 1:
            ctx.case("gen-failed:%s:lvl%d" % (variant, lvl))
            continue
        honest.setdefault((lvl, variant), []).append(g)
    # the chall_b = 1 re-encoding needs an honest signature with an odd challenge: draw further level-1 keys until one exists
    if (1, "dim2") in honest and not any(vc.sig_dict("dim2", h["sig"])["chall"] % 2 for h in honest[(1, "dim2")]):
        for _ in range(12):
            g = vc.gen(drivers[(1, "dim2")], "dim2", "%096x" % sr.bits(384), "%064x" % sr.bits(256))
            if g["status"] == "ok" and g.get("ok") == 1 and vc.sig_dict("dim2", g["sig"])["chall"] % 2:
                honest[(1, "dim2")].insert(0, g)
                break
    proved = vlib.proof_stage(ctx, ["SqiProps.C02"], searcher=lambda: search(ctx, drivers, honest))
    ctx.lake(["driver"])
    nist_api(ctx, build)

    R = Runner(ctx, drivers)
    for (lvl, variant), hs in sorted(honest.items()):
        rr = ctx.rng.fork("c02-%d-%s" % (lvl, variant))
        for n, h in enumerate(hs):
            if lvl != 1 and n >= seeds[lvl]:
                continue            # the extra key only serves as "other public key"
            pk, sig, msg = h["pk"], h["sig"], h["msg"]
            R.add(lvl, variant, "honest", "honest", pk, sig, msg)
            tam = tamperings(rr, lvl, variant, sig)
            if quick and lvl != 1:
                tam = [t for i, t in enumerate(tam) if i % 3 == n % 3 or "re-encoding" in t[0]]
            for label, cls, s2 in tam:
                R.add(lvl, variant, label, cls, pk, s2, msg)
                if "re-encoding" in label:
                    R.add(lvl, variant, label + ", other message", "other-msg", pk, s2, "6f74686572206d657373616765")
            other = hs[(n + 1) % len(hs)]
            if other is not h:
                R.add(lvl, variant, "other pk", "other-pk", other["pk"], sig, msg)
                opd = vc.pk_dict(pk); opd.update(h0=vc.pk_dict(other["pk"])["h0"], h1=vc.pk_dict(other["pk"])["h1"])
                if vc.pk_tokens(opd) != pk:
                    R.add(lvl, variant, "pk hints of another key", "alters", vc.pk_tokens(opd), sig, msg)
            mb = bytes.fromhex(msg) if msg != "-" else b""
            for label, m2 in (("msg bit flip", bytes([mb[0] ^ 1]) + mb[1:] if mb else b"\x00"), ("msg truncated", mb[:-1] if mb else b"\x01"),
                              ("msg extended", mb + b"\x00"), ("msg empty/other", b"" if mb else b"abc")):
                if m2 != mb:
                    R.add(lvl, variant, label, "other-msg", pk, sig, m2.hex() if m2 else "-")
    results = R.run()
    hist = {}
    honest_jcom = {}
    for it, (st, kv) in results:
        if it[3] == "honest" and st == "ok":
            honest_jcom[(it[0], it[1], tuple(it[4]), it[6])] = {kv.get("jcom"), kv.get("jalt")}
    n_dis, examples = evaluate(ctx, results, hist, honest_jcom)

    # secret-free constructions with fitted challenge: first run taps the hash, second run uses it
    R1 = Runner(ctx, drivers)
    for (lvl, variant), hs in sorted(honest.items()):
        h = hs[0]
        oc = vc.sig_dict(variant, hs[-1]["sig"])
        cons = constructions(lvl, variant, h["pk"], (oc["Are"], oc["Aim"]))
        if quick and lvl != 1:
            cons = cons[::3]
        for label, sig in cons:
            R1.add(lvl, variant, label, "construct", h["pk"], sig, "466f7267656421")
    first = R1.run()
    R2 = Runner(ctx, drivers)
    n_nofit = 0
    for it, (st, kv) in first:
        s2 = fit(it[0], it[1], it[5], kv) if st == "ok" else None
        if s2 is None:
            n_nofit += 1
            continue
        R2.add(it[0], it[1], it[2], "forgery", it[4], s2, it[6])
    d1, e1 = evaluate(ctx, first, hist)
    second = R2.run()
    d2, e2 = evaluate(ctx, second, hist)
    third = family_constructions(ctx, drivers, honest, ctx.rng.fork("c02-iso"), quick)
    d3, e3 = evaluate(ctx, third, hist)
    n_dis += d1 + d2 + d3
    examples += e1 + e2 + e3
    ctx.coverage["valid_hint_family_constructions"] = {"runs": len(third), "stages": {str(k): sum(1 for _, (st, kv) in third if st == "ok" and vc.c_stage(kv) == k) for k in range(5)},
                                                       "degenerate_commitments_seen": sum(1 for _, (st, kv) in third if st == "ok" and kv.get("deg") == "1")}
    total = len(results) + len(first) + len(second) + len(third)
    ctx.obligation("correspondence protocols_verif verdict+stage vs decision model (%d runs)" % total, n_dis == 0, json.dumps(examples[:4])[:700])
    if n_dis and not ctx.violations:
        ctx.violation("C02:correspondence:%s" % json.dumps(examples[0])[:140], "decision model disagrees with the implementation (verdict or stage of return)",
                      dict(disagreements=examples[:10]), found=False)
    ctx.coverage["runs"] = total
    ctx.coverage["probe_classes"] = hist
    ctx.coverage["honest_signatures"] = {"%s:lvl%d" % (v, l): len(hs) for (l, v), hs in honest.items()}
    ctx.coverage["constructions_rejected_before_hash"] = n_nofit
    ctx.coverage["constructions_fitted"] = len(second)
    ctx.coverage["accepted"] = sum(1 for _, (st, kv) in results + first + second + third if st == "ok" and kv.get("v") == "1")
    for it, (st, kv) in (results[:2] + second[:2]):
        ctx.sample(dict(level=it[0], variant=it[1], probe=it[2], cls=it[3], verdict=kv.get("v"), stage=vc.c_stage(kv) if st == "ok" else st))
    return dict(level="proof", rule="one case = one (variant, level, probe class, probe, verdict, stage) of the real verifier compared with the decision model")


def replay(ctx, rp):
    return vc.replay(ctx, rp, san=False)

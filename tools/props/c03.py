"""C03 — verification is total and memory-safe on arbitrary signature / public-key values; out-of-range values
are rejected.

Proof: SqiProps/C03.lean (`verify_safe_*`, `verify_rejects_out_of_range_*` for all Int field values, all three
levels, both variants) about the access model SqiModel/VerifyAccess.lean with the range guard re-extracted from
the C text on every run (tie T: tools/translate/verif_guard.py -> SqiGen/VerifGuard.lean, tables -> SqiGen/Tables*).
Tie H: forked ASan+UBSan verifier (tools/harness/drv_verify.c, one process per probe) on the witness list, the
boundary grid of the honest ranges, random ints / big integers / field elements / message lengths; for every probe
the model's prediction (`verif.acc`: guard decision, all accesses in bounds?) is compared with what happened."""
import json, os, re
import vlib
import verif_common as vc

TIMEOUT_PROBE = 25


def mutate(variant, sig, **kw):
    d = vc.sig_dict(variant, sig)
    d.update(kw)
    return vc.sig_tokens(variant, d)


def witness_list(lvl, variant):
    """one probe per defect class of the unguarded code (mirrors unsafeWitnesses… of SqiProps/C03.lean, scaled to the level)"""
    c = vc.CONST[lvl]
    mt = vc.max_trl(lvl, variant)
    if variant == "dim2":
        return [("trl=max+7:strategies-row", dict(trl=mt + 7)), ("trl=max+1:strategies-row", dict(trl=mt + 1)),
                ("trl=-(f-resp)-1:negative-row", dict(trl=-(c["f"] - c["resp"]) - 1)), ("trl=INT_MIN:overflow", dict(trl=vc.INT_MIN)),
                ("trl=INT_MAX:loop", dict(trl=vc.INT_MAX)), ("bt=rows+66:STRATEGY4-row", dict(bt=c["rows"] + 66)),
                ("bt=-1:STRATEGY4-row", dict(bt=-1)), ("bt=INT_MAX:loop", dict(bt=vc.INT_MAX)),
                ("ha0=-1:NQR", dict(ha0=-1)), ("hc1=-100000:ZNQR", dict(hc1=-100000)),
                ("chall=2^(64nw):digits", dict(chall=2 ** (64 * c["nw"]))), ("chall=-2^(64nw+44):digits", dict(chall=-(2 ** (64 * c["nw"] + 44))))]
    return [("trl=max+1:strategies-row", dict(trl=mt + 1)), ("trl=f-hc+1:negative-exponent", dict(trl=c["f"] - c["hc"] + 1)),
            ("trl=-(rows-(f-hc))-1:STRATEGY4-row", dict(trl=-(c["rows"] - (c["f"] - c["hc"])) - 1)), ("trl=-200:negative-length", dict(trl=-200 - c["hc"])),
            ("trl=INT_MAX:overflow", dict(trl=vc.INT_MAX)), ("ha1=-3:ZNQR", dict(ha1=-3))]


def boundary_grid(lvl, variant):
    c = vc.CONST[lvl]
    mt = vc.max_trl(lvl, variant)
    out = []
    rng = {"trl": (0, mt), "ha0": (0, vc.INT_MAX), "ha1": (0, vc.INT_MAX)}
    if variant == "dim2":
        rng.update({"bt": (0, c["bt"] - 1), "chall_b": (0, 1), "hc0": (0, vc.INT_MAX), "hc1": (0, vc.INT_MAX)})
        big = {"chall": 64 * c["nw"], "m00": c["resp"] + 2, "m01": c["resp"] + 2, "m10": c["resp"] + 2, "m11": c["resp"] + 2}
    else:
        rng.update({"hint_b": (0, 1)})
        big = None
    for f, (lo, hi) in rng.items():
        for v in (lo - 1, lo, hi, hi + 1):
            if vc.INT_MIN <= v <= vc.INT_MAX:
                out.append(("grid:%s=%s" % (f, "min-1" if v == lo - 1 else "min" if v == lo else "max" if v == hi else "max+1"), {f: v}))
    if big:
        for f, bits in big.items():
            for nm, v in (("min-1", -1), ("min", 0), ("max", 2 ** bits - 1), ("max+1", 2 ** bits)):
                out.append(("grid:%s=%s" % (f, nm), {f: v}))
    return out


def heur_big_grid(lvl, sig):
    """heuristic big fields have trl-dependent widths: x,b1,d1 < 2^a, b0,d0,c0,e0 < 2^n"""
    c = vc.CONST[lvl]
    d = vc.sig_dict("heur", sig)
    a = c["hc"] + d["trl"]; n = c["f"] - a
    out = []
    for f, bits in (("x", a), ("b1", a), ("d1", a), ("b0", n), ("d0", n), ("c0", n), ("e0", n)):
        for nm, v in (("min-1", -1), ("min", 0), ("max", 2 ** bits - 1), ("max+1", 2 ** bits)):
            out.append(("grid:%s=%s" % (f, nm), {f: v}))
    return out


def random_probes(rng, lvl, variant, n_int, n_big):
    V = vc.VAR[variant]
    out = []
    for k in range(n_int):
        f = rng.choice(V["ints"])
        cls = rng.below(4)
        v = (rng.below(2 ** 32) + vc.INT_MIN) if cls == 0 else (rng.below(600) - 300) if cls == 1 else \
            rng.choice([vc.INT_MIN, vc.INT_MIN + 1, vc.INT_MAX, vc.INT_MAX - 1, 2 ** 16, -2 ** 16, 2 ** 30]) if cls == 2 else rng.below(64)
        out.append(("rand-int:%s" % f, {f: v}))
    for k in range(n_big):
        f = rng.choice(V["bigs"])
        bits = rng.choice([1, 63, 64, 65, 127, 128, 129, 130, 131, 255, 256, 257, 383, 384, 385, 511, 512, 513, 1000, 1023, 1024])
        v = rng.bits(bits) | (1 << (bits - 1))
        if rng.below(2):
            v = -v
        out.append(("rand-big:%s:%dbit%s" % (f, bits, "-" if v < 0 else ""), {f: v}))
    return out


def curve_probes(rng, lvl):
    """arbitrary Fp2 values for E_aux / pk curve, incl. 0, singular A = ±2, C = 0, C ≠ 1, ordinary-looking"""
    p = vc.CONST[lvl]["p"]
    vals = [("A=0", (0, 0, 1, 0)), ("A=2:singular", (2, 0, 1, 0)), ("A=-2:singular", (p - 2, 0, 1, 0)), ("A=6", (6, 0, 1, 0)),
            ("A=i", (0, 1, 1, 0)), ("C=0", (3, 4, 0, 0)), ("C=2", (6, 0, 2, 0)), ("A=C=0", (0, 0, 0, 0)), ("A=p-1,C=i", (p - 1, 0, 0, 1))]
    for k in range(3):
        vals.append(("A=random", (rng.below(p), rng.below(p), 1, 0)))
    vals.append(("A,C=random", (rng.below(p), rng.below(p), rng.below(p), rng.below(p))))
    return vals


def order_valid_sig(drivers, lvl, variant, pk, trl, bt=0):
    """a secret-free signature whose kernel points pass every order test for the given two_resp_length (so that the
    (2,2)-chain and its strategy row are reached): E_aux := pk curve with the pk hints; dim2: matrix columns
    P' = 3e1+e2, Q' = 2^trl (e1+2e2) (no zero scalar: the x-only biscalar ladder mishandles them) and the correct public hints of E_chall (driver op `hints`); heuristic: x = b0 = 1,
    Q' = 2^a e2.  Returns tokens or None."""
    c = vc.CONST[lvl]
    pd = vc.pk_dict(pk)
    if variant == "heur":
        a = c["hc"] + trl
        n = c["f"] - a
        if a < 1 or n < 1:
            return None
        d = dict(Are=pd["Are"], Aim=pd["Aim"], Cre=1, Cim=0, trl=trl, ha0=pd["h0"], ha1=pd["h1"], x=1, hint_b=0, b0=1, d0=0, b1=0,
                 d1=(2 ** (a - n) if a > n else 0), c0=0, e0=(1 if a <= n else 0))
        return vc.sig_tokens(variant, d)
    if trl < 0 or trl > c["resp"]:
        return None
    d = dict(Are=pd["Are"], Aim=pd["Aim"], Cre=1, Cim=0, bt=bt, trl=0, m00=3, m01=2 ** trl, m10=1, m11=2 ** (trl + 1), chall=12345, chall_b=0,
             ha0=pd["h0"], ha1=pd["h1"], hc0=0, hc1=0)
    st, o, err = vc.run_lines(drivers[(lvl, variant)], [vc.verify_line(variant, pk, vc.sig_tokens(variant, d), "00")], TIMEOUT_PROBE)
    a = vc.parse_kv(o[0]).get("Achall", "-") if (st == "ok" and o) else "-"
    if a == "-":
        return None
    st, o, err = vc.run_lines(drivers[(lvl, variant)], ["hints %s %s %d" % (a.split(",")[0], a.split(",")[1], c["resp"] + 2)], TIMEOUT_PROBE)
    if st != "ok":
        return None
    d.update(trl=trl, hc0=int(o[0].split()[1]), hc1=int(o[0].split()[2]))
    return vc.sig_tokens(variant, d)


def search(ctx, drivers, honest):
    """the property's own failing-input search when a proof obligation broke: run the witness list and the
    boundary grid of the honest ranges on the real (sanitizer) code"""
    for (lvl, variant) in [(1, "dim2"), (1, "heur")]:
        h = honest.get((lvl, variant))
        if not h:
            continue
        cands = [(label, mutate(variant, h["sig"], **kw)) for label, kw in witness_list(lvl, variant) + boundary_grid(lvl, variant)]
        for hf in [f for f in vc.VAR[variant]["ints"] if f.startswith("h") and f != "hint_b"]:
            for hv in (19, 20, 21):
                cands.append(("hint-edge:%s=%d" % (hf, hv), mutate(variant, h["sig"], **{hf: hv})))
        mt = vc.max_trl(lvl, variant)
        for t in (mt + 1, mt + 2, -1):
            sv = order_valid_sig(drivers, lvl, variant, h["pk"], t)
            if sv:
                cands.insert(0, ("order-valid:trl=max%+d" % (t - mt), sv))
        for label, sig in cands:
            st, out, err = vc.run_lines(drivers[(lvl, variant)], [vc.verify_line(variant, h["pk"], sig, h["msg"])], TIMEOUT_PROBE)
            if st != "ok":
                return ("C03:%s:lvl%d:%s" % (variant, lvl, label), "verification of an out-of-range signature value is not memory-safe / total: %s" % st,
                        dict(level=lvl, variant=variant, probe=label, result=st, pk=h["pk"], sig=sig, msg=h["msg"], stderr=err[-800:],
                             how_to_replay="tools/harness/drv_verify.c (ASan+UBSan build): " + vc.verify_line(variant, h["pk"], sig, h["msg"])))
    return None


def run(ctx):
    ctx.trusted += ["tools/translate/verif_guard.py (extraction of the range guard's comparisons and constants from protocols_verif)",
                    "tools/translate/tables.py (level constants, strategy tables)",
                    "hand model SqiModel/VerifyAccess.lean of the index / size / loop expressions of the verifier call tree "
                    "(compared with the sanitizer verdict of the real code on every probe)",
                    "clang ASan/UBSan as detector of out-of-bounds accesses and UB; GMP modelled as exact integers"]
    ctx.assumptions += ["uninitialised reads and UB inside field/curve arithmetic that is not index related are observed by the "
                        "sanitizers only (no MSan run); the strategy traversals are simulated per admitted row (finite) rather than "
                        "proved for arbitrary strategies"]
    quick = ctx.quick
    # ---- 1. honest material + drivers (needed by the failing-input search as well)
    vc.build_both(ctx)
    drivers = vc.compile_all(ctx, san=True)
    gen_drivers = vc.compile_all(ctx, san=False)
    seedhex = "%096x" % ctx.rng.fork("c03-seed").bits(384)
    msg = "%064x" % ctx.rng.fork("c03-msg").bits(256)
    gens = vc.honest_set(ctx, gen_drivers, list(gen_drivers), [seedhex], [msg])
    honest = {}
    for (lvl, variant, s, m), g in gens.items():
        if g["status"] != "ok":
            ctx.violation("C03:gen:%s:lvl%d:%s" % (variant, lvl, g["status"]), "keygen/sign/verify of an honest signature crashed under the sanitizers",
                          dict(level=lvl, variant=variant, seed=s, msg=m, result=g["status"], stderr=g.get("stderr", "")[-800:]))
            continue
        honest[(lvl, variant)] = g
        ctx.case("honest:%s:lvl%d:ok=%d:v=%d" % (variant, lvl, g["ok"], g["v"]))
    # ---- 2. proof stage
    proved = vlib.proof_stage(ctx, ["SqiProps.C03"], searcher=lambda: search(ctx, drivers, honest))
    ctx.lake(["driver"])
    # ---- 3. probes
    probes = []   # (lvl, variant, label, pk, sig, msg)
    hist = {}
    for (lvl, variant), h in sorted(honest.items()):
        base = [("honest", {})] + witness_list(lvl, variant) + boundary_grid(lvl, variant)
        if variant == "heur":
            base += heur_big_grid(lvl, h["sig"])
        rr = ctx.rng.fork("c03-rand-%d-%s" % (lvl, variant))
        n_int, n_big = ((14, 14) if lvl == 1 else (6, 6)) if quick else (500, 500)
        base += random_probes(rr, lvl, variant, n_int, n_big)
        for label, kw in base:
            probes.append((lvl, variant, label, h["pk"], mutate(variant, h["sig"], **kw), h["msg"]))
        # every hint field at the edge of the table branch of the *_from_hint routines (NQR_TABLE / Z_NQR_TABLE have 20 entries)
        for hf in [f for f in vc.VAR[variant]["ints"] if f.startswith("h") and f not in ("hint_b",)]:
            for hv in (0, 18, 19, 20, 21, 22):
                probes.append((lvl, variant, "hint-edge:%s=%d" % (hf, hv), h["pk"], mutate(variant, h["sig"], **{hf: hv}), h["msg"]))
        # kernels that pass every order test, so that the chain (and its strategy row) is reached
        mt = vc.max_trl(lvl, variant)
        for t in ((0, mt - 1, mt, mt + 1) if (lvl == 1 or not quick) else (mt, mt + 1)):
            sv = order_valid_sig(drivers, lvl, variant, h["pk"], t)
            if sv:
                probes.append((lvl, variant, "order-valid:trl=%s" % ("max%+d" % (t - mt) if t else "0"), h["pk"], sv, "00"))
        # curves: E_aux and pk curve
        for nm, (are, aim, cre, cim) in curve_probes(rr, lvl) if (lvl == 1 or not quick) else curve_probes(rr, lvl)[:5]:
            d = vc.sig_dict(variant, h["sig"]); d.update(Are=are, Aim=aim, Cre=cre, Cim=cim)
            probes.append((lvl, variant, "E_aux:" + nm, h["pk"], vc.sig_tokens(variant, d), h["msg"]))
            pd = vc.pk_dict(h["pk"]); pd.update(Are=are, Aim=aim, Cre=cre, Cim=cim)
            probes.append((lvl, variant, "pk.curve:" + nm, vc.pk_tokens(pd), h["sig"], h["msg"]))
        for hv in (-1, -7, 0, 18, 19, 20, 21, 22, vc.INT_MAX, vc.INT_MIN):
            pd = vc.pk_dict(h["pk"]); pd.update(h0=hv)
            probes.append((lvl, variant, "pk.hint0=%d" % hv, vc.pk_tokens(pd), h["sig"], h["msg"]))
            pd = vc.pk_dict(h["pk"]); pd.update(h1=hv)
            probes.append((lvl, variant, "pk.hint1=%d" % hv, vc.pk_tokens(pd), h["sig"], h["msg"]))
        lens = [0, 1, 31, 33, 135, 136, 137, 1000] + ([] if quick and lvl != 1 else [100000])
        for L in lens:
            m = ("%0*x" % (2 * L, rr.bits(8 * L))) if L else "-"
            probes.append((lvl, variant, "msglen=%d" % L, h["pk"], h["sig"], m))

    def one(p):
        lvl, variant, label, pk, sig, m = p
        st, out, err = vc.run_lines(drivers[(lvl, variant)], [vc.verify_line(variant, pk, sig, m)], TIMEOUT_PROBE)
        if st == "timeout":
            # a loaded machine must not look like non-termination: a genuine runaway loop (2^31 doublings) also outlives this
            st, out, err = vc.run_lines(drivers[(lvl, variant)], [vc.verify_line(variant, pk, sig, m)], 12 * TIMEOUT_PROBE)
        return st, (vc.parse_kv(out[0]) if out else {}), err

    results = vc.pmap(one, probes)
    model = ctx.driver([vc.acc_line(v, l, pk, sig) for (l, v, _, pk, sig, _) in probes])
    n_dis = 0
    dis_examples = []
    for p, (st, kv, err), ml in zip(probes, results, model):
        lvl, variant, label, pk, sig, m = p
        mk = vc.parse_kv(ml)
        cls = label.split(":")[0].split("=")[0]
        ctx.case("%s:lvl%d:%s:%s" % (variant, lvl, label, st.split("@")[0]))
        hist[cls] = hist.get(cls, 0) + 1
        replay = dict(level=lvl, variant=variant, probe=label, result=st, model=ml, pk=pk, sig=sig, msg=m if len(m) < 200 else m[:64] + "…(%d bytes)" % (len(m) // 2),
                      how_to_replay="tools/harness/drv_verify.c (ASan+UBSan build, -DVERIF_LVL=%d%s): %s" %
                      (lvl, " -DVARIANT_HEUR" if variant == "heur" else "", vc.verify_line(variant, pk, sig, m)[:4000]))
        if st != "ok":
            # the property itself fails on the real code: crash, sanitizer report or non-termination
            bad = mk.get("bad", "-")
            key = "C03:%s:lvl%d:%s" % (variant, lvl, bad if bad != "-" else st.split(":", 1)[-1])
            replay["stderr"] = err[-800:]
            ctx.violation(key, "protocols_verif is not memory-safe / total on this input: %s (model: first out-of-bounds access %s)" % (st, bad), replay)
            if mk.get("safe") == "1":
                n_dis += 1
                dis_examples.append(dict(probe=label, impl=st, model=ml))
            continue
        v = kv.get("v")
        if v not in ("0", "1"):
            ctx.violation("C03:%s:lvl%d:verdict:%s" % (variant, lvl, v), "verdict is not 0/1", replay)
        if mk.get("inrange") == "0" and v == "1":
            ctx.violation("C03:%s:lvl%d:out-of-range-accepted:%s" % (variant, lvl, label.split(":")[0]),
                          "a value outside the honest ranges was accepted", replay)
        if label == "honest" and v != "1":
            ctx.violation("C03:%s:lvl%d:honest-rejected" % (variant, lvl), "the honest signature of the run was rejected", replay)
        # model <-> code: guard decision (observable: did the body start?)
        c_guard = "1" if (kv.get("taps", "-") != "-") else "0"
        if mk.get("guard") != c_guard:
            n_dis += 1
            dis_examples.append(dict(probe=label, impl="body %s" % ("reached" if c_guard == "1" else "not reached"), model=ml))
    ctx.obligation("correspondence verifyAccesses/guard vs sanitizer run (%d probes)" % len(probes), n_dis == 0, json.dumps(dis_examples[:5])[:600])
    if n_dis and not ctx.violations:
        ctx.violation("C03:correspondence:" + json.dumps(dis_examples[0])[:120], "access/guard model disagrees with the implementation", dict(disagreements=dis_examples[:10]), found=False)
    ctx.coverage["probe_classes"] = hist
    ctx.coverage["probes"] = len(probes)
    ctx.coverage["results"] = {k: sum(1 for r in results if r[0].split("@")[0] == k) for k in sorted({r[0].split("@")[0] for r in results})}
    ctx.coverage["rejected_out_of_range"] = sum(1 for (st, kv, _), ml in zip(results, model) if st == "ok" and "inrange=0" in ml and kv.get("v") == "0")
    ctx.coverage["in_range_probes"] = sum(1 for ml in model if "inrange=1" in ml)
    for p, (st, kv, _) in list(zip(probes, results))[:3]:
        ctx.sample(dict(level=p[0], variant=p[1], probe=p[2], result=st, verdict=kv.get("v")))
    return dict(level="proof", rule="one case = one (variant, level, probe, outcome) of the forked sanitizer verifier; theorems cover all Int field values")


def replay(ctx, rp):
    return vc.replay(ctx, rp, san=True)

"""C05 — heuristic variant: reported-success signatures verify; binding.

Proof part: SqiProps.C05 — the response compression as coded (encode / decode): decode(encode M) = M minus multiples of
the challenge-kernel generator (both cases a <= n, a > n), parity of the first column preserved, `hint_b = 1` branch
unreachable under the signer's invariant.  Tie H: on every real signature the model's `encode` is compared with the
transmitted fields and the model's `decode` with the matrix the real verifier re-expands (hook H3s), and the
invariants the theorem assumes are checked on the real matrix.
Sampled part (PARTIAL): acceptance over seeds x levels x messages x forced v2 / hints>=20; binding / tampering catalogue
through the verifier-side harness of C02 (tools/props/c02.py, verif_common.py, drv_verify.c): a7's tampering generator and
decision-model comparison (accept_iff_heur), heuristic variant only."""
import os, re, json
import vlib, signlib
import c04 as base

LENS = [0, 1, 31, 32, 33, 135, 136, 137, 10000]


def run(ctx):
    ctx.trusted += ["Deuring correspondence, Kani's lemma, theta-isogeny formulas, hash collision resistance: NOT formalised (acceptance and binding are sampled)",
                    "hooks H1/H2b/H3s (add-only, guarded), probe driver tools/harness/drv_sign.c"]
    vlib.proof_stage(ctx, ["SqiProps.C05"], searcher=None)
    ctx.lake(["driver"])
    P = {l: base.level_params(l) for l in (1, 3, 5)}
    quick = ctx.quick
    b = ctx.build_repo("ref", san=False)
    exes = signlib.compile_all(ctx, b, False, variants=("heur",))
    rng = ctx.rng.fork("c05")
    plan = {1: (8, 14), 3: (5, 8), 5: (4, 5)} if quick else {1: (48, 50), 3: (24, 25), 5: (16, 16)}
    jobs = []
    for l, (nkeys, nmsg) in plan.items():
        vm = base.vmax(P[l], "heur")
        for i in range(nkeys):
            seed = 1 + rng.below(10**9)
            ops = ["seed %d" % seed]
            if i % 4 == 3:
                ops.append("setenv SQI_VERIF_HINT20 1")
            ops += ["keygen", "setenv SQI_VERIF_TRACE 1"]
            meta = []
            for j in range(nmsg):
                ln = LENS[(i + j) % len(LENS)] if j < len(LENS) else 32
                ms = rng.below(10**9)
                ops += ["msg %d %d" % (ln, ms), "sign", "encinfo", "verify"]
                meta.append(dict(kind="plain", len=ln, ms=ms))
            jobs.append((("plain", l, seed), exes[(l, "heur")], ops, None, 900 if quick else 3000, meta))
        # forced valuations, one process, commitment reused
        ks = sorted({0, 1, 2 + rng.below(3), vm - 1 - rng.below(3), vm, vm + 1}) if quick else list(range(0, vm + 2))
        seed = 1 + rng.below(10**9)
        ops = ["seed %d" % seed, "keygen", "setenv SQI_VERIF_H1_REUSE_COMMIT 1", "setenv SQI_VERIF_TRACE 1"]
        meta = []
        for k in ks:
            ops += ["setenv SQI_VERIF_H1_V2 %d" % k, "signsteer 20000 32 %d" % (10**6 * (k + 1)), "encinfo", "verify"]
            meta.append(dict(kind="v2", v2=k))
        jobs.append((("steer", l, seed), exes[(l, "heur")], ops, None, 900 if quick else 3000, meta))
    ctx.log("running %d processes" % len(jobs))
    res = signlib.run_many([(j[0], j[1], j[2], j[3], j[4]) for j in jobs], workers=16, keep=True)
    hist = {}

    def note(k):
        hist[k] = hist.get(k, 0) + 1
    nsig = 0
    enc_lines, enc_expect, dec_lines, dec_expect, inv_bad = [], [], [], [], []
    for key, exe, ops, env, to, meta in jobs:
        r = res[key]
        l = key[1]
        f = P[l]["f"]
        if r["crash"]:
            ctx.violation("crash:%s" % re.sub(r"0x[0-9a-f]+", "", r["crash"])[:100], "heuristic signer/verifier crashed (%s) during %s" % (r["crash"], r["where"]),
                          dict(level=l, variant="heur", ops=ops, build="ref, hooks on", driver="tools/harness/drv_sign.c"))
            note("crash")
        # interleave stdout result lines and stderr matrices: both are in program order within their stream
        # stderr is in program order: split it at the driver's marks; one entry per sign / verify* call
        mats_s, mats_v = [], []
        for chunk in r["stderr_full"].split("drv-mark: ")[1:]:
            kind = chunk.split("\n", 1)[0].strip()
            if kind == "sign":
                m = re.findall(r"verif-mat: sign (\S+) (\S+) (\S+) (\S+)", chunk)
                mats_s.append(m[-1] if m else None)
            else:
                m = re.findall(r"verif-mat: verif (\S+) (\S+) (\S+) (\S+)", chunk)
                mats_v.append(m[-1] if m else None)
        si = vi = 0
        idx = -1
        cur = None
        cat = []
        ci = 0
        awaiting_first_verify = False
        for ln in r["results"]:
            if ln.startswith("sign ret="):
                cur = signlib.parse_sign(ln)
                idx += 1
                cur["meta"] = meta[idx] if idx < len(meta) else {}
                cat = list(cur["meta"].get("catalogue", []))
                ci = 0
                awaiting_first_verify = True
                cur["M"] = mats_s[si] if si < len(mats_s) else None
                si += 1
                if cur["ret"] == 1:
                    pass
                elif cur["ret"] == 0:
                    note("L%d:explicit-failure" % l)
                else:
                    note("L%d:steering-unmet" % l)
            elif ln.startswith("enc ") and cur and cur["ret"] == 1:
                fl = ln.split()
                cur["enc"] = fl[1:]
            elif ln.startswith("verify") and cur and cur["ret"] == 1:
                if ln.startswith("verify skipped"):
                    continue
                if ln.startswith("verify_flip skipped"):
                    ci += 1
                    continue
                val = int(ln.split()[-1])
                Mv = mats_v[vi] if vi < len(mats_v) else None
                vi += 1
                if awaiting_first_verify and ln.startswith("verify "):
                    awaiting_first_verify = False
                    nsig += 1
                    note("L%d:v2=%d" % (l, cur["v2"]))
                    if cur["meta"].get("kind") == "plain":
                        note("len=%d" % cur["meta"]["len"])
                    if any(int(h) >= 20 for h in str(cur["hints"]).split(",")):
                        note("L%d:hint>=20" % l)
                    ctx.case(("sig", l, cur["v2"], cur["hb"]))
                    if val != 1:
                        ctx.violation("heur:L%d:sign-ok-verify-rejects:v2=%d:hint_b=%d" % (l, cur["v2"], cur["hb"]),
                                      "heuristic signature reported as success is rejected: level %d v2=%d hint_b=%d %s" % (l, cur["v2"], cur["hb"], cur["meta"]),
                                      dict(level=l, variant="heur", ops=ops, failing_sign_index=idx, build="ref, hooks on", driver="tools/harness/drv_sign.c"))
                        note("REJECTED")
                    elif len(ctx.samples) < 5:
                        ctx.sample(dict(level=l, seed=key[2], v2=cur["v2"], hint_b=cur["hb"], hints=cur["hints"], verify=1, meta=cur["meta"]))
                    # tie: model encode / decode vs the real fields / matrices
                    if cur.get("M") and cur.get("enc") and Mv:
                        ff, a = int(cur["enc"][0]), int(cur["enc"][1])
                        x, b0, d0, b1, d1, c0, e0, hb = cur["enc"][2:10]
                        m00, m01, m10, m11 = cur["M"]
                        enc_lines.append("heurenc.encode %x %x %s %s %s %s %s" % (ff, a, m00, m01, m10, m11, x))
                        enc_expect.append(" ".join([x, b0, d0, b1, d1, c0, e0, hb]))
                        dec_lines.append("heurenc.decode %x %x %s %s %s %s %s %s %s" % (ff, a, x, b0, d0, b1, d1, c0, e0))
                        dec_expect.append(" ".join(Mv))
                        xi, M = int(x, 16), [int(t, 16) for t in cur["M"]]
                        ok = (M[2] - xi * M[0]) % (1 << a) == 0 and (M[3] - xi * M[1]) % (1 << a) == 0 and all(t >= 0 for t in M) and any(t & 1 for t in M)
                        note("L%d:a%sn" % (l, "<=" if a <= ff - a else ">"))
                        if not ok:
                            inv_bad.append(dict(level=l, seed=key[2], sign_index=idx))
    # ---- binding / tampering / construction: the verifier-side harness of C02 (a7), heuristic variant only
    import c02, verif_common as vc
    drivers = vc.compile_all(ctx, san=False, combos=[(l, "heur") for l in (1, 3, 5)])
    sr = ctx.rng.fork("c05-binding")
    nk = {1: 3, 3: 1, 5: 1} if quick else {1: 16, 3: 8, 5: 5}
    gjobs = []
    for l in (1, 3, 5):
        for k in range(nk[l] + 1):
            L = sr.choice([0, 1, 31, 32, 33, 135, 136, 137, 500])
            gjobs.append((l, "heur", "%096x" % sr.bits(384), ("%0*x" % (2 * L, sr.bits(8 * L))) if L else "-"))
    gens = vc.pmap(lambda j: (j, vc.gen(drivers[(j[0], j[1])], j[1], j[2], j[3])), gjobs)
    honest = {}
    for (l, v, sd, msg), g in gens:
        if g["status"] == "ok" and g.get("ok") == 1:
            honest.setdefault((l, v), []).append(g)
    R = c02.Runner(ctx, drivers)
    for (l, v), hs in sorted(honest.items()):
        rr = ctx.rng.fork("c05-%d" % l)
        for n, h in enumerate(hs[:nk[l]]):
            pk, sg, msg = h["pk"], h["sig"], h["msg"]
            R.add(l, v, "honest", "honest", pk, sg, msg)
            tam = c02.tamperings(rr, l, v, sg)
            if quick and l != 1:
                tam = [t for i, t in enumerate(tam) if i % 3 == n % 3 or "re-encoding" in t[0]]
            for label, cls, s2 in tam:
                R.add(l, v, label, cls, pk, s2, msg)
            other = hs[(n + 1) % len(hs)]
            if other is not h:
                R.add(l, v, "other pk", "other-pk", other["pk"], sg, msg)
            mb = bytes.fromhex(msg) if msg != "-" else b""
            for label, m2 in (("msg bit flip", bytes([mb[0] ^ 1]) + mb[1:] if mb else b"\x00"), ("msg truncated", mb[:-1] if mb else b"\x01"), ("msg extended", mb + b"\x00")):
                if m2 != mb:
                    R.add(l, v, label, "other-msg", pk, sg, m2.hex() if m2 else "-")
    bres = R.run()
    bh = {}
    hj = {}
    for it, (st, kv) in bres:
        if it[3] == "honest" and st == "ok":
            hj[(it[0], it[1], tuple(it[4]), it[6])] = {kv.get("jcom"), kv.get("jalt")}
    ndis, ex = c02.evaluate(ctx, bres, bh, hj)       # reports violations (accepted although altering; other pk / message; honest rejected)
    ctx.obligation("binding catalogue of the heuristic verifier vs decision model accept_iff_heur (%d runs, harness of C02)" % len(bres), ndis == 0, json.dumps(ex[:3])[:500])
    if ndis:
        ctx.violation("model-mismatch:heur-decision:%s" % json.dumps(ex[0])[:100], "heuristic verifier and its decision model disagree", dict(disagreements=ex[:5]), found=False)
    ctx.coverage["binding_probe_classes"] = bh
    ctx.coverage["binding_runs"] = len(bres)
    mout = ctx.driver(enc_lines + dec_lines) if enc_lines else []
    edis = [dict(op=o[:80], impl=e, model=m) for o, e, m in zip(enc_lines + dec_lines, enc_expect + dec_expect, mout) if e != m]
    ctx.evaluations += len(enc_lines) + len(dec_lines)
    ctx.obligation("correspondence heuristic encode / decode vs model (%d signatures)" % len(enc_lines), bool(enc_lines) and not edis, json.dumps(edis[:2])[:500])
    ctx.obligation("signer invariants assumed by decode_encode_matrix hold on every real matrix (%d)" % len(enc_lines), not inv_bad, json.dumps(inv_bad[:3]))
    for d in edis[:3]:
        ctx.violation("model-mismatch:heurenc:%s" % d["op"].split()[0], "compression model and implementation disagree although the signature verifies", d, found=False)
    for d in inv_bad[:3]:
        ctx.violation("model-mismatch:heurenc-invariant", "a real response matrix violates the invariant assumed by decode_encode_matrix", d, found=False)
    ctx.obligation("sampled acceptance (%d signatures) and binding catalogue" % nsig, nsig > 0 and "REJECTED" not in hist and "crash" not in hist, "")
    ctx.coverage["histogram"] = dict(sorted(hist.items()))
    ctx.coverage["signatures_verified"] = nsig
    return dict(level="proof", rule="theorems: all matrices with the signer's invariants, both cases; sampled: one case = one (level, v2, hint_b) signature or one catalogue entry verdict",
                explanation="PARTIAL: acceptance and binding are sampled; the compression round trip is proved")

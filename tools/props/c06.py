"""C06 — reference and x86 ("broadwell") builds are observationally identical.

Proof: lean/SqiProps/C06.lean — any two back-ends whose fp_* layers refine ZMod p (`FpRefines`, proved in
C07 for the ref back-end and for the x86 model) produce the same canonical encodings for every GF(p) /
GF(p^2) operation; plus the three documented API-level exceptions as counterexample theorems.
Tie H: (a) op-level differential run of the two real builds on identical field inputs (the x86 side also
gets other partially reduced representatives of the same elements) with results printed through the
library's own fp_encode; (b) keygen + sign + verify transcripts of both builds under the deterministic
AES-CTR-DRBG with identical seeds at the three levels."""
import json, os
import vlib
import gfcommon as G

KAT = os.path.join(vlib.ROOT, "tools", "harness", "drv_kat.c")
RESULT_IS_FIELD = lambda op: not (op.startswith("fp_is") or op.startswith("fp2_is") or op in ("fp_encode", "fp2_encode"))


def other_rep(rng, L, raw):
    """another representative of the same element inside the x86 domain"""
    if raw + L.p < 2 ** L.B and rng.below(2):
        return raw + L.p
    return raw


def paired_lines(rng, L, n_cheap, n_exp, hist, ophist):
    """lines for the ref build (canonical representatives) and for the x86 build (same elements, possibly
    other representatives). Only operations of the common fp_*/fp2_* API."""
    ref_lines = G.corpus_lines("C06", L) + G.fixed_lines(L, "ref") + G.gen_lines(rng, L, "ref", n_cheap, n_exp, hist, ophist, for_c06=True)
    # extra: canonical operands with all-ones limbs (carry corner cases) for sqr / mul
    for v in (L.p - 3, L.p - 2 ** 64, 2 ** (64 * (L.n - 1)) - 1, L.p - 2 ** 128 - 1, 2 ** L.e - 1):
        ref_lines += ["fp_sqr 0 %x" % v, "fp_mul 3 %x %x" % (v, v), "fp2_sqr 0 %x %x" % (v, v), "fp2_inv 0 %x %x" % (v, 1)]
    # fp_decode_reduce: len-byte little-endian integer reduced mod p (ref ignores len: known finding)
    nb = L.nbytes
    for ln in (nb, nb - 1, 1, nb + 1, 2 * nb, 2 * nb + 5):
        ref_lines.append("fp_decode_reduce 0 %x %x" % (ln, rng.bits(8 * ln) | (1 << (8 * ln - 1))))
    out_ref, out_bw = [], []
    for l in ref_lines:
        t = l.split()
        op = t[0]
        if op in ("fp_tomont", "fp_frommont"):
            continue
        out_ref.append("E:" + l)
        if op in ("fp_set_small", "fp2_set_small", "fp_decode", "fp2_decode", "fp_set_one", "fp_set_zero", "fp2_set_one", "fp_decode_reduce"):
            out_bw.append("E:" + l)
            continue
        a = t[2:]
        # which args are field elements
        if op in ("fp_select", "fp_cswap", "fp2_select", "fp2_cswap"):
            fa = list(range(len(a) - 1))
        elif op == "fp2_batched_inv":
            fa = list(range(1, len(a)))
        elif op == "fp2_pow_vartime":
            fa = [0, 1]
        else:
            fa = list(range(len(a)))
        al = int(t[1])
        b = list(a)
        if al < 3:                      # aliasing a==b needs identical representatives
            for i in fa:
                b[i] = "%x" % other_rep(rng, L, int(a[i], 16))
        out_bw.append("E:%s %s %s" % (op, t[1], " ".join(b)))
    return out_ref, out_bw


def classify(L, lref, lbw, cref, cbw, model_bw):
    """a disagreement between the builds: decide which listed API difference it is (or a new one)"""
    t = lref.split()
    op, a = t[0][2:], [int(x, 16) for x in t[2:]]
    if op == "fp_is_square" and L.val(a[0]) == 0:
        return "fp_is_square:0", "fp_is_square(0): ref false, x86 true"
    if op == "fp2_is_square" and (L.val(a[0]), L.val(a[1])) == (0, 0):
        return "fp2_is_square:0", "fp2_is_square(0): ref false, x86 true"
    if op == "fp_decode" and a[0] >= L.p:
        return "fp_decode:non-canonical", "fp_decode of a non-canonical byte string: ref reduces modulo p, x86 returns 0"
    if op == "fp2_decode" and (a[0] % 2 ** (8 * L.nbytes) >= L.p or a[0] >> (8 * L.nbytes) >= L.p):
        return "fp_decode:non-canonical", "fp2_decode of a non-canonical byte string: ref reduces modulo p, x86 returns 0"
    if op == "fp_decode_reduce" and a[0] > L.nbytes:
        return "fp_decode_reduce:len-ignored", ("fp_decode_reduce(d, src, len) with len > FP_ENCODED_BYTES: the ref routine ignores len and reduces only the first "
                                                "FP_ENCODED_BYTES bytes (it also reads FP_ENCODED_BYTES bytes when len is smaller: over-read), x86 reduces the whole len-byte integer")
    if op in ("fp_set_small", "fp2_set_small") and a[0] >= 2 ** 32:
        return "fp_set_small:ge-2^32", "fp_set_small with a value >= 2^32: ref takes a 64-bit digit_t, the x86 prototype takes uint32_t (truncates)"
    return None


def run_ops(ctx, exes, lvl, n_cheap, n_exp, hist, ophist):
    L = G.LEVELS[lvl]
    rng = ctx.rng.fork("c06:%d" % lvl)
    lref, lbw = paired_lines(rng, L, n_cheap, n_exp, hist, ophist)
    cref = G.run_c(exes[("ref", lvl)], lref)
    cbw = G.run_c(exes[("bw", lvl)], lbw)
    dis = []
    for i in range(len(lref)):
        op = lref[i].split()[0][2:]
        ctx.case((lvl, op, lref[i].split()[1]))
        r, b = cref[i].split(), cbw[i].split()
        if op in ("fp_decode", "fp2_decode"):     # ref returns void, x86 a flag: compare the decoded element only
            r, b = r[:-1], b[:-1]
        if r != b:
            dis.append(i)
    # for the disagreements ask the x86 model (raw op, then encode) whether it reproduces the x86 build
    new = 0
    for i in dis:
        raw_line = lbw[i][2:]
        mraw = G.run_model("gf %d bw " % lvl, [raw_line])[0].split()
        craw = G.run_c(exes[("bw", lvl)], [raw_line])[0].split()
        cl = classify(L, lref[i], lbw[i], cref[i], cbw[i], mraw == craw)
        replay = dict(level=lvl, ref_op_line=lref[i], x86_op_line=lbw[i], ref_output=cref[i], x86_output=cbw[i],
                      how_to_replay="feed the op lines to drv_gf compiled against the ref / broadwell build (E: prefix = results through fp_encode)")
        if cl:
            ctx.violation(cl[0], cl[1] + " [lvl%d] %s" % (lvl, lref[i][:160]), replay)
        else:
            new += 1
            ctx.violation("lvl%d:%s:encodings-differ" % (lvl, lref[i].split()[0][2:]),
                          "ref and x86 builds give different canonical encodings [lvl%d] %s" % (lvl, lref[i][:200]), replay)
    ctx.evaluations += 0
    ctx.obligation("differential ref vs broadwell ops lvl%d (%d ops)" % (lvl, len(lref)), new == 0,
                   "%d disagreements (%d outside the listed API differences)" % (len(dis), new))
    ctx.coverage.setdefault("differential", {})["ops lvl%d" % lvl] = dict(ops=len(lref), disagreements=len(dis), unlisted=new)


FORCED = {  # H1/H2b steering environments (src/common/generic/include/verif_sign_hooks.h) compared across back-ends
    "quick": {1: [dict(SQI_VERIF_H1_V2="0"), dict(SQI_VERIF_H1_V2="1"), dict(SQI_VERIF_H1_V2="2"), dict(SQI_VERIF_H1_V2="3"),
                  dict(SQI_VERIF_H1_BT="0"), dict(SQI_VERIF_H1_BT="1"), dict(SQI_VERIF_HINT20="1")],
              3: [dict(SQI_VERIF_H1_V2="1"), dict(SQI_VERIF_HINT20="1")],
              5: [dict(SQI_VERIF_HINT20="1")]},
    "thorough": {l: [dict(SQI_VERIF_H1_V2=str(k)) for k in range(0, 7)] + [dict(SQI_VERIF_H1_BT=str(b)) for b in range(0, 3)] +
                    [dict(SQI_VERIF_HINT20="1"), dict(SQI_VERIF_H1_ODD="1"), dict(SQI_VERIF_H1_V2="2", SQI_VERIF_H1_BT="1"),
                     dict(SQI_VERIF_UV_BRANCH="1"), dict(SQI_VERIF_H1_V2="1", SQI_VERIF_HINT20="1")] for l in (1, 3, 5)},
}


def run_transcripts(ctx, full, lvl, n):
    """keygen+sign+verify under the DRBG with identical seeds on both builds — plain, and with the forced-branch hooks
    (rare signer branches: chosen 2-adic valuation / backtracking of the response, hints >= 20, odd content, find_uv branch)"""
    import concurrent.futures as cf
    exes = {}
    for be, kind in (("ref", "ref"), ("bw", "broadwell")):
        out = os.path.join(ctx.tmp, "drv_kat_%s_%d" % (be, lvl))
        ctx.cc_harness(KAT, out, lvl, kind=kind, build=full[kind], common="test")
        exes[be] = out
    rng = ctx.rng.fork("c06:kat:%d" % lvl)
    jobs = [({}, ["%096x %d" % (rng.bits(384), rng.choice([0, 1, 32, 33, 200])) for _ in range(n)])]
    per = 1 if ctx.quick else 3
    for env in FORCED["quick" if ctx.quick else "thorough"][lvl]:
        jobs.append((env, ["%096x 32" % rng.bits(384) for _ in range(per)]))

    def both(job):
        env, lines = job
        with cf.ThreadPoolExecutor(2) as ex:
            fr = ex.submit(vlib.run_c, [exes["ref"]], lines, 3000, env)
            fb = ex.submit(vlib.run_c, [exes["bw"]], lines, 3000, env)
            (_, ro, _), (_, bo, _) = fr.result(), fb.result()
        return ro, bo
    with cf.ThreadPoolExecutor(6) as ex:
        results = list(ex.map(both, jobs))
    bad, total, signed = 0, 0, 0
    forced_cov = {}
    for (env, lines), (ro, bo) in zip(jobs, results):
        tag = ",".join("%s=%s" % kv for kv in sorted(env.items())) or "plain"
        for i, l in enumerate(lines):
            total += 1
            ctx.case(("kat", lvl, tag, i))
            r = ro[i] if i < len(ro) else "<no output from the ref build>"
            b = bo[i] if i < len(bo) else "<no output from the x86 build>"
            if tag == "plain" and i == 0:
                ctx.sample(dict(level=lvl, seed_line=l[:40] + "...", transcript=r[:160] + "..."))
            okr = "ok=1 " in r
            signed += okr
            forced_cov[tag] = forced_cov.get(tag, 0) + (1 if okr else 0)
            wrong_verdict = okr and "verdict=1" not in r
            unmet_plain = tag == "plain" and not okr
            if r != b or wrong_verdict or unmet_plain:
                bad += 1
                what = "transcripts differ" if r != b else "honest signature rejected / no signature"
                ctx.violation("kat:lvl%d:%s:%s" % (lvl, tag, "differ" if r != b else "verdict"),
                              "keygen+sign+verify with identical DRBG seed (%s): %s [lvl%d]" % (tag, what, lvl),
                              dict(level=lvl, seed_line=l, env=env, ref_transcript=r, x86_transcript=b,
                                   how_to_replay="echo '<seed_line>' | env <env> drv_kat (tools/harness/drv_kat.c) linked against each hooked build with libsqisign_common_test.a"))
    ctx.obligation("transcripts ref vs broadwell lvl%d (%d runs, %d signed; plain + forced branches)" % (lvl, total, signed), bad == 0, "%d differing" % bad)
    ctx.coverage.setdefault("differential", {})["transcripts lvl%d" % lvl] = dict(runs=total, signed=signed, differing=bad, signed_per_steering=forced_cov)


def search(ctx):
    return None


def run(ctx):
    ctx.trusted += ["tools/harness/drv_gf.c, drv_kat.c, tools/props/gfcommon.py (protocol, generators)",
                    "deterministic AES-CTR-DRBG of the repo (libsqisign_common_test.a) for identical random tapes",
                    "protocol-level equality above GF(p^2) is observed on transcripts (correspondence), not proved"]
    ok = vlib.proof_stage(ctx, ["SqiProps.C06"], searcher=lambda: search(ctx), extra_targets=["driver"])
    if not ok:
        ctx.lake(["driver"])
    quick = ctx.quick
    hist, ophist = {}, {}
    # full builds (needed for the transcripts); the op drivers use the same builds
    full = {k: ctx.build_repo(k) for k in ("ref", "broadwell")}
    exes = {}
    for be, kind in (("ref", "ref"), ("bw", "broadwell")):
        for lvl in (1, 3, 5):
            out = os.path.join(ctx.tmp, "drv_gf_%s_%d" % (be, lvl))
            ctx.cc_harness(G.HARNESS, out, lvl, kind=kind, build=full[kind], defs=(["VERIF_BW"] if be == "bw" else []))
            exes[(be, lvl)] = out
    n_cheap, n_exp = (700, 60) if quick else (30000, 2000)
    for lvl in (1, 3, 5):
        run_ops(ctx, exes, lvl, n_cheap, n_exp, hist, ophist)
    for lvl in (1, 3, 5):
        G.gcd_sweep(ctx, exes[("bw", lvl)], G.LEVELS[lvl], "bw", thorough=not quick, ref_exe=exes[("ref", lvl)],
                    mmax=400 if quick else 2000)   # quick: the full m < 2000 sweep runs in C07; both builds take ~3 min to build
    ntr = {1: 5, 3: 3, 5: 2} if quick else {1: 120, 3: 50, 5: 30}
    for lvl in (1, 3, 5):
        run_transcripts(ctx, full, lvl, ntr[lvl])
    ctx.coverage["operand_class_histogram"] = hist
    ctx.coverage["operation_histogram"] = ophist
    ctx.coverage["exhaustive"] = False
    return dict(level="proof",
                rule="one case = one API call executed on both builds with the same field inputs (x86 also with other "
                     "partially reduced representatives), encodings compared; or one keygen+sign+verify transcript per seed on both builds",
                explanation="Op-level equality is a corollary of the two refinement theorems (SqiProps.C06); transcripts are correspondence only.")

"""C07 — GF(p) and GF(p^2) operations are exact field arithmetic.

Proof: lean/SqiProps/C07.lean (generic word-by-word Montgomery theorem for every limb count and modulus;
every fp_* / fp2_* operation of both back-end models refines arithmetic in ZMod p / Fp[i]).
Tie H: the models' executable definitions (lean driver) run against the real fp_*/fp2_* functions of
the ref and broadwell builds at the three levels on structured inputs; raw limbs compared. Every
result of the real code is also checked against the exact specification (Python integers mod p): a
contradiction is a genuine violation with the op line as replay; a model/code disagreement where the
code still meets the specification is reported as no-failing-input-found (model drift)."""
import json, os
import vlib
import gfcommon as G

BES = tuple(b for b in (("ref", "ref"), ("bw", "broadwell")) if b[0] in os.environ.get("VERIF_GF_BES", "ref,bw").split(","))


def run_config(ctx, exes, be, lvl, lines, tag):
    """model vs real code on `lines`; spec oracle on every real result. Returns #disagreements."""
    L = G.LEVELS[lvl]
    cout = G.run_c(exes[(be, lvl)], lines)
    mout = G.run_model("gf %d %s " % (lvl, be), lines)
    dis, genuine = [], 0
    for i, l in enumerate(lines):
        c, m = cout[i], mout[i]
        v = G.oracle(L, be, l, c.split())
        ctx.case((be, lvl, l.split()[0], l.split()[1]))
        if v:
            genuine += 1
            key, what = v
            ctx.violation(key, "%s [%s lvl%d] %s" % (what, be, lvl, l[:200]),
                          dict(backend=be, level=lvl, op_line=l, real_code_output=c, model_output=m,
                               how_to_replay="echo '%s' | <drv_gf compiled for %s lvl%d>   (./check C07 --replay <this file>)" % (l, be, lvl)))
        if c != m:
            dis.append(dict(index=i, op=l[:300], impl=c[:300], model=m[:300], spec_violated=bool(v)))
            if not v:
                ctx.violation("drift:%s:lvl%d:%s" % (be, lvl, l.split()[0]),
                              "model and real code disagree but the real code still meets the specification (model drift: property no longer shown)",
                              dict(backend=be, level=lvl, op_line=l, real_code_output=c, model_output=m,
                                   broken_obligation="correspondence %s %s lvl%d" % (tag, be, lvl)), found=False)
    name = "correspondence %s %s lvl%d (%d ops)" % (tag, be, lvl, len(lines))
    # a disagreement caused by a listed known finding does not exist (model = code there); any disagreement fails
    ctx.obligation(name, not dis, json.dumps(dis[:4])[:600] if dis else "")
    ctx.coverage.setdefault("correspondence", {})["%s %s lvl%d" % (tag, be, lvl)] = dict(ops=len(lines), disagreements=len(dis), spec_contradictions=genuine)
    return len(dis)


def search(ctx):
    """violation search used when a proof obligation no longer builds: run the fixed corpus and a small
    structured sample against the real code and return the first contradiction of the specification"""
    try:
        exes = G.build_drivers(ctx)
    except vlib.BuildError:
        return None
    rng = ctx.rng.fork("search")
    for be, _ in BES:
        for lvl in (1, 3, 5):
            L = G.LEVELS[lvl]
            lines = G.corpus_lines("C07", L, be) + G.fixed_lines(L, be) + G.gen_lines(rng, L, be, 300, 30, {}, {})
            if be == "bw":
                for name, v, _ls in G.gcd_hard_values(L, 64, 40):
                    lines += ["fp_is_square 0 %x" % L.mont(v), "fp_inv 0 %x" % L.mont(v)]
            cout = G.run_c(exes[(be, lvl)], lines)
            for l, c in zip(lines, cout):
                v = G.oracle(L, be, l, c.split())
                if v and not any(k.get("key") == v[0] and k.get("status") == "open" for k in ctx.known):
                    return v[0], v[1], dict(backend=be, level=lvl, op_line=l, real_code_output=c)
    return None


def run(ctx):
    ctx.trusted += ["tools/harness/drv_gf.c + tools/props/gfcommon.py (line protocol, generators, Python-integer oracle)",
                    "C compiler; fiat-crypto straight-line files are tied to the generic Montgomery model by correspondence only",
                    "x86 binary-GCD inversion/Legendre: convergence bound cited (Pornin, eprint 2020/972), invariant proved"]
    ok = vlib.proof_stage(ctx, ["SqiProps.C07"], searcher=lambda: search(ctx), extra_targets=["driver"])
    if not ok and not os.path.exists(G.DRIVER):
        return dict(level="proof", rule="proof stage failed; model driver unavailable")
    if not ok:
        ctx.lake(["driver"])
    exes = G.build_drivers(ctx, kinds=[k for _b, k in BES])
    quick = ctx.quick
    n_cheap, n_exp = (1500, 110) if quick else (40000, 2500)
    hist, ophist = {}, {}
    total_dis = 0
    for be, _kind in BES:
        for lvl in (1, 3, 5):
            L = G.LEVELS[lvl]
            rng = ctx.rng.fork("c07:%s:%d" % (be, lvl))
            lines = G.corpus_lines("C07", L, be) + G.fixed_lines(L, be) + G.gen_lines(rng, L, be, n_cheap, n_exp, hist, ophist)
            total_dis += run_config(ctx, exes, be, lvl, lines, "gf")
            if lvl == 1 and be == "ref":
                for l in lines[20:24]:
                    ctx.sample(dict(backend=be, level=lvl, op=l[:160]))
    # fiat by translation: the programs re-extracted from fp_p*.c (interpreter) vs the real fiat functions vs the generic model
    for lvl in (1, 3, 5):
        if ("ref", lvl) in exes:
            L = G.LEVELS[lvl]
            fl = G.fiat_lines(ctx.rng.fork("c07:fiat:%d" % lvl), L, 500 if quick else 12000, hist, ophist)
            run_config(ctx, exes, "ref", lvl, fl, "fiat-programs")
            sel = [l for l in fl if l.split()[0] in G.FIAT_TO_FP]
            interp = G.run_model("gf %d ref " % lvl, sel)
            model = G.run_model("gf %d ref " % lvl, [" ".join([G.FIAT_TO_FP[l.split()[0]]] + l.split()[1:]) for l in sel])
            bad = [dict(op=l[:200], interpreter=a, model=b) for l, a, b in zip(sel, interp, model) if a != b]
            ctx.obligation("fiat programs (SqiGen.Fiat%d, interpreter) = generic Montgomery model, lvl%d (%d calls)" % (lvl, lvl, len(sel)),
                           not bad, json.dumps(bad[:3])[:500])
            if bad:
                ctx.violation("drift:fiat-vs-model:lvl%d:%s" % (lvl, bad[0]["op"].split()[0]),
                              "the translated fiat program and the generic Montgomery model disagree (the fiat text no longer matches the model the theorems are about)",
                              dict(level=lvl, op_line=bad[0]["op"], interpreter=bad[0]["interpreter"], model=bad[0]["model"],
                                   broken_obligation="fiat programs = generic model lvl%d" % lvl), found=False)
    for lvl in (1, 3, 5):
        if ("bw", lvl) in exes:
            G.gcd_sweep(ctx, exes[("bw", lvl)], G.LEVELS[lvl], "bw", thorough=not quick)
    ctx.coverage["operand_class_histogram"] = hist
    ctx.coverage["operation_histogram"] = ophist
    ctx.coverage["levels"] = [1, 3, 5]
    ctx.coverage["backends"] = ["ref", "broadwell"]
    ctx.coverage["exhaustive"] = False
    return dict(level="proof",
                rule="one case = one API call (operation, aliasing pattern, operands from structured classes) executed on the real code, "
                     "compared with the Lean model's raw limbs and with the exact specification mod p",
                explanation="Theorems (SqiProps.C07) are unbounded in operands / limb count / batch length; the runs tie the hand models to the code.")


def replay(ctx, rp):
    r = rp.get("replay", {})
    if "op_line" not in r:
        print(json.dumps(rp, indent=1))
        return 0
    be, lvl, l = r["backend"], r["level"], r["op_line"]
    exes = G.build_drivers(ctx, kinds=("ref",) if be == "ref" else ("broadwell",))
    c = G.run_c(exes[(be, lvl)], [l])[0]
    v = G.oracle(G.LEVELS[lvl], be, l, c.split())
    print("op: %s\nreal code: %s\nspecification: %s" % (l, c, "VIOLATED: %s" % (v,) if v else "met"))
    return 1 if v else 0

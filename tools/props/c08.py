"""C08 — x-only Montgomery curve arithmetic implements the elliptic-curve group law.

Stages (DESIGN §2.5, §4 C08):
  1. proof: regenerate SqiGen.{Ec,Isog,Theta} from the repo text (tie T), `lake build SqiProps.C08`, audit, axioms.
     The theorems are about the generated formulas and about the hand ladder models built on them, so an edited
     formula breaks `lake build`; the searcher then runs the *real C functions* against the independent affine oracle
     (tools/ecoracle.py) and returns a concrete (level, curve, point, scalar) with a wrong x-coordinate.
  2. translator check: every generated definition vs the C function it came from, every recorded alias pattern.
  3. tie H: hand ladder models (SqiModel.Ladder) vs xMUL / xMULv2 / xDBLMUL / xDBLMUL_bounded / ec_ladder3pt /
     ec_dbl_iter on random and supersingular curves, raw projective outputs compared exactly.
  4. oracle: outputs of the C functions (formulas via the generated wrappers, ladders via ec.* ops) vs the affine
     group law in Python, normalised x (and y for Jacobian), random projective rescaling of every input, scalars
     0, 1, order, order·k, 2^BITS-1, ∞ and 2-torsion inputs. A mismatch is a VIOLATION with the input as replay.
Degenerate configurations where x-only differential arithmetic is *known* (and proved, `xADD_degenerate`) not to
compute the group law are evaluated too and recorded (`degenerate_behaviour_confirmed`); they fail the check only
through known_findings.json (proposed entries: notes/C08.md)."""
import json, os, sys
import vlib, slcorr, ecoracle

BITS = {1: 256, 3: 384, 5: 512}
TPE = {1: 248, 3: 376, 5: 500}


def hx(a):
    return "%x %x" % a


def parse_out(s):
    if "|" not in s:
        return None, None
    f, i = s.split("|")
    t = [int(x, 16) for x in f.split()]
    return [(t[k], t[k + 1]) for k in range(0, len(t) - 1, 2)], [int(x, 16) for x in i.split()]


class Gen:
    """structured inputs for one level, all randomness from one forked SplitMix64"""

    def __init__(self, ctx, lvl, tag):
        self.lvl, self.p = lvl, vlib.LEVELS[lvl]["p"]
        self.K = ecoracle.Fp2(self.p)
        self.rng = ctx.rng.fork("c08:%s:%d" % (tag, lvl))
        self.cof = vlib.LEVELS[lvl]["cof"]
        self.f = vlib.LEVELS[lvl]["f"]

    def curve(self, kind):
        K, rng = self.K, self.rng
        while True:
            a = ecoracle.supersingular_a(K, rng, 2 + rng.below(6)) if kind == "ss" else K.rand(rng)
            if K.sqr(a) != (4, 0):
                return ecoracle.Mont(K, a)

    def proj(self, P):
        z = self.K.rand_nz(self.rng)
        if P is None:
            return (z, (0, 0))
        return (self.K.mul(P[0], z), z)

    def projc(self, a):
        c = self.K.rand_nz(self.rng)
        return (self.K.mul(a, c), c)

    def jac(self, P, canonical=True):
        K = self.K
        if P is None:
            return ((0, 0), K.rand_nz(self.rng) if not canonical else (1, 0), (0, 0))
        z = K.rand_nz(self.rng)
        z2 = K.sqr(z)
        return (K.mul(P[0], z2), K.mul(P[1], K.mul(z2, z)), z)


def hp(XZ):
    return hx(XZ[0]) + " " + hx(XZ[1])


def genline(lvl, op, fs, ints=()):
    return ("gen %x %s %x " % (lvl, op, len(fs)) + " ".join(hx(f) for f in fs) + (" " + " ".join("%x" % i for i in ints) if ints else "")).strip()


def jac_affine(K, J):
    X, Y, Z = J
    if Z == (0, 0):
        return None
    zi = K.inv(Z)
    z2 = K.sqr(zi)
    return (K.mul(X, z2), K.mul(Y, K.mul(z2, zi)))


def pt(XZ):
    return {"x": XZ[0], "z": XZ[1]}


def jc(J):
    return {"x": J[0], "y": J[1], "z": J[2]}


def crv(A, C):
    return {"A": A, "C": C, "A24.x": (1, 0), "A24.z": (0, 0), "is_A24_computed_and_normalized": 0}


def jac_point_check(K, expected):
    """compare a Jacobian result with the oracle *as a point*, ∞ in the canonical form (0 : Y≠0 : 0) that DBL / ADD
    themselves test for (later operations depend on it)"""
    def chk(F, I):
        X, Y, Z = F[0], F[1], F[2]
        if expected is None:
            if X == (0, 0) and Z == (0, 0) and Y != (0, 0):
                return None
            return "expected canonical infinity (0 : Y : 0), got (%s : %s : %s)" % (hx(X), hx(Y), hx(Z))
        if Z == (0, 0):
            return "expected the affine point x=%s, got Z = 0 (X=%s)" % (hx(expected[0]), hx(X))
        got = jac_affine(K, (X, Y, Z))
        return None if got == expected else "expected the affine point x=%s y=%s, got x=%s y=%s" % (
            hx(expected[0]), hx(expected[1]), hx(got[0]), hx(got[1]))
    return chk


def oracle_prog(E, regs, prog):
    """evaluate a register program on the group; also report whether a doubling of a point of order 2 occurred
    (known finding: DBL then returns a non-canonical infinity)"""
    regs = list(regs)
    dbl_of_2tors = False
    for c, i, j in prog:
        if c == 1:
            a, b = regs[i], regs[j]
            if a is not None and a == b and a[1] == (0, 0):
                dbl_of_2tors = True
            regs.append(E.add(a, b))
        elif c == 2:
            a = regs[i]
            if a is not None and a[1] == (0, 0):
                dbl_of_2tors = True
            regs.append(E.add(a, a))
        else:
            regs.append(E.neg(regs[i]))
    return regs[-1], dbl_of_2tors


def seqline(lvl, a, jregs, prog):
    fs = [a] + [c for J in jregs for c in J]
    return "jac.seq %x %x " % (lvl, len(fs)) + " ".join(hx(f) for f in fs) + " " + " ".join("%x %x %x" % t for t in prog)


def build_cases(ctx, H, lvl, tag, ncurves, nscal):
    """-> list of dict(line=op line for drv_ec, check=fn(outF, outI) -> None | str, key, cls, info)"""
    G = Gen(ctx, lvl, tag)
    K, rng, p = G.K, G.rng, G.p
    bits = BITS[lvl]
    cases = []

    def add(cls, line, check, info, model=True, degenerate=None):
        cases.append(dict(cls=cls, line=line, check=check, info=info, model=model, degenerate=degenerate, lvl=lvl))

    def xcheck(E, expected, idx=0):
        def chk(F, I):
            X, Z = F[2 * idx], F[2 * idx + 1]
            return None if ecoracle.x_matches(K, expected, X, Z) else "x-coordinate mismatch: got (X:Z)=(%s : %s), expected %s" % (
                hx(X), hx(Z), "infinity" if expected is None else "x=" + hx(expected[0]))
        return chk

    def zcheck(idx=0):
        """library convention for ∞: Z = 0"""
        def chk(F, I):
            return None if F[2 * idx + 1] == (0, 0) else "expected the point at infinity (Z = 0)"
        return chk

    for ci in range(ncurves):
        kind = "ss" if ci % 2 == 0 else "generic"
        E = G.curve(kind)
        a = E.a
        info0 = dict(level=lvl, curve_kind=kind, a=hx(a))
        P, Q = E.rand_point(rng), E.rand_point(rng)
        T = E.two_torsion()
        D = E.sub(P, Q)
        AC = G.projc(a)
        a24 = K.div(K.add(a, (2, 0)), (4, 0))
        A24 = G.projc(a24)
        A24n = (a24, (1, 0))
        pts = [("P", P), ("inf", None), ("T00", T[0])] + [("T%d" % i, t) for i, t in enumerate(T[1:], 1)]
        # ---------------- formulas (generated wrappers call the real C functions)
        for nm, X in pts:
            i = dict(info0, point=nm)
            XZ = G.proj(X)
            add("xDBL", H.line(lvl, "xDBL", P=pt(XZ), AC=pt(AC)), xcheck(E, E.add(X, X)), i)
            add("xDBL_A24", H.line(lvl, "xDBL_A24", P=pt(XZ), A24=pt(A24)), xcheck(E, E.add(X, X)), i)
            add("xDBL_A24_normalized", H.line(lvl, "xDBL_A24_normalized", P=pt(XZ), A24=pt(A24n)), xcheck(E, E.add(X, X)), i)
        pairs = [("P,Q", P, Q), ("inf,Q", None, Q), ("P,inf", P, None), ("P,T1", P, T[-1]), ("T1,Q", T[-1], Q),
                 ("2P,P", E.add(P, P), P)]
        if len(T) > 2:
            pairs.append(("T1,T2", T[1], T[2]))         # difference is (0,0)?  T1 - T2 = T00 -> degenerate, filtered below
        for nm, X, Y in pairs:
            Dxy = E.sub(X, Y)
            if Dxy is None or Dxy[0] == (0, 0):
                continue
            i = dict(info0, points=nm)
            x, y, d = G.proj(X), G.proj(Y), G.proj(Dxy)
            S = E.add(X, Y)
            add("xADD", H.line(lvl, "xADD", P=pt(x), Q=pt(y), PQ=pt(d)), xcheck(E, S), i)
            for op, A in (("xDBLADD", A24), ("xDBLADD@0", A24), ("xDBLADD_normalized", A24n), ("xDBLADD_normalized@0", A24n)):
                chk1, chk2 = xcheck(E, E.add(X, X), 0), xcheck(E, S, 1)
                add(op.split("@")[0], H.line(lvl, op, P=pt(x), Q=pt(y), PQ=pt(d), A24=pt(A), R_in=pt(x), S_in=pt(y)),
                    (lambda c1, c2: (lambda F, I: c1(F, I) or c2(F, I)))(chk1, chk2), i)
        # j-invariant: curve struct = A, C, A24.x, A24.z | flag
        jexp = E.j()
        add("ec_j_inv", H.line(lvl, "ec_j_inv", curve=crv(AC[0], AC[1])),
            (lambda je: (lambda F, I: None if F[0] == je else "j-invariant mismatch: got %s expected %s" % (hx(F[0]), hx(je))))(jexp), info0)
        # Jacobian arithmetic (curve with C = 1)
        for nm, X in pts:
            J = G.jac(X)
            exp2 = E.add(X, X)
            add("DBL", H.line(lvl, "DBL", P=jc(J), AC=crv(a, (1, 0))),
                (lambda e: (lambda F, I: None if jac_affine(K, F[:3]) == e else "Jacobian doubling mismatch"))(exp2), dict(info0, point=nm))
        jpairs = [("P,Q", P, Q), ("P,P", P, P), ("P,-P", P, E.neg(P)), ("inf,Q", None, Q), ("P,inf", P, None), ("inf,inf", None, None),
                  ("T1,T1", T[-1], T[-1]), ("P,T00", P, T[0])]
        for nm, X, Y in jpairs:
            J1, J2 = G.jac(X), G.jac(Y)
            exp = E.add(X, Y)
            add("ADD", H.line(lvl, "ADD", P=jc(J1), Q=jc(J2), AC=crv(a, (1, 0))),
                (lambda e: (lambda F, I: None if jac_affine(K, F[:3]) == e else "Jacobian addition mismatch"))(exp), dict(info0, points=nm))
        Jp = G.jac(P)
        add("jac_to_xz", H.line(lvl, "jac_to_xz", xyP=jc(Jp)), xcheck(E, P), info0)
        # isomorphism x -> -x onto y^2 = x^3 - a x^2 + x  (r = 0, s = -1) through ec_isomorphism + ec_iso_eval
        # checked at the ladder level below (needs two calls); here: ec_iso_eval alone with (Nx, Nz, D) = (-d, 0, d)
        d = K.rand_nz(rng)
        E2 = ecoracle.Mont(K, K.neg(a))
        xz = G.proj(P)
        P2 = (K.neg(P[0]), K.mul((0, 1), P[1]))     # (x, y) -> (-x, i y) lies on E2
        if E2.on_curve(P2):
            c2 = K.rand_nz(rng)
            add("ec_isomorphism", H.line(lvl, "ec_isomorphism", from_=crv(AC[0], AC[1]), to=crv(K.mul(K.neg(a), c2), c2)),
                (lambda F, I: None if (F[1] == (0, 0) and K.add(F[0], F[2]) == (0, 0) and F[2] != (0, 0)) else
                 "isomorphism E_a -> E_-a is not x -> -x: (Nx, Nz, D) = (%s, %s, %s)" % (hx(F[0]), hx(F[1]), hx(F[2]))), info0)
            add("ec_iso_eval", H.line(lvl, "ec_iso_eval", P_in=pt(xz), isom={"Nx": K.neg(d), "Nz": (0, 0), "D": d}), xcheck(E2, P2), info0)
        # ---------------- multi-step Jacobian sequences (the representation of ∞ must survive later operations)
        regs = [P, Q, None, T[-1]]
        progs = [("(P+(-P))+Q", [(3, 0, 0), (1, 0, 4), (1, 5, 1)]),
                 ("Q+(P+(-P))", [(3, 0, 0), (1, 0, 4), (1, 1, 5)]),
                 ("((-P)+P)+Q", [(3, 0, 0), (1, 4, 0), (1, 5, 1)]),
                 ("(P+Q)+(-Q)", [(1, 0, 1), (3, 1, 0), (1, 4, 5)]),
                 ("P+(-P)", [(3, 0, 0), (1, 0, 4)]),
                 ("DBL(P+(-P))", [(3, 0, 0), (1, 0, 4), (2, 5, 0)]),
                 ("DBL(P+(-P))+Q", [(3, 0, 0), (1, 0, 4), (2, 5, 0), (1, 6, 1)]),
                 ("(P+(-P))+(Q+(-Q))", [(3, 0, 0), (1, 0, 4), (3, 1, 0), (1, 1, 6), (1, 5, 7)]),
                 ("((P+(-P))+(Q+(-Q)))+P", [(3, 0, 0), (1, 0, 4), (3, 1, 0), (1, 1, 6), (1, 5, 7), (1, 8, 0)]),
                 ("(2P+(-P))+(-P)+Q", [(2, 0, 0), (3, 0, 0), (1, 4, 5), (1, 6, 5), (1, 7, 1)]),
                 ("(P+inf)+(-P)+Q", [(1, 0, 2), (3, 0, 0), (1, 4, 5), (1, 6, 1)]),
                 ("inf+inf+Q", [(1, 2, 2), (1, 4, 1)]),
                 ("(P+P)+(-(2P))+Q", [(1, 0, 0), (3, 4, 0), (1, 4, 5), (1, 6, 1)]),
                 ("3P+(-P) by steps", [(2, 0, 0), (1, 4, 0), (3, 0, 0), (1, 5, 6)]),
                 ("DBL(T)+Q  [T of order 2]", [(2, 3, 0), (1, 4, 1)]),
                 ("(T+T)+Q  [T of order 2]", [(1, 3, 3), (1, 4, 1)])]
        for _ in range(3):
            prog, n = [], len(regs)
            for t in range(4 + rng.below(6)):
                c = 1 + rng.below(3)
                prog.append((c, rng.below(n + t), rng.below(n + t)))
            progs.append(("random program", prog))
        for nm, prog in progs:
            exp, d2 = oracle_prog(E, regs, prog)
            jr = [G.jac(X) for X in regs]
            add("jacseq", seqline(lvl, a, jr, prog), jac_point_check(K, exp), dict(info0, program=nm, ops=str(prog)),
                degenerate="Jacobian:ADD-after-DBL-of-2-torsion" if d2 else None)
        # DBLMUL / DBLMUL_generic with partial sums passing through ∞ (Q = -P) and generic
        nP = E.neg(P)
        for (k, l, Y, nm) in [(3, 1, nP, "-P"), (7, 2, nP, "-P"), (5, 5, nP, "-P"), (1, 1, nP, "-P"), (6, 3, nP, "-P"), (2, 1, nP, "-P"),
                              (rng.bits(62) | 1, rng.bits(62), nP, "-P"), (rng.bits(64), rng.bits(64), Q, "Q"), (0, 0, Q, "Q"),
                              (5, 0, Q, "Q"), (0, 9, Q, "Q")]:
            for nb in (64, 64 * (bits // 64)):
                kk, ll = (k, l) if nb == 64 or nm == "-P" else (rng.bits(nb), rng.bits(nb))
                if nm == "-P" and nb > 64 and k > 7:
                    sh = rng.below(nb - 64)
                    kk, ll = k << sh, l << sh
                fs = [a] + list(G.jac(P)) + list(G.jac(Y))
                line = "jac.dblmul %x %x " % (lvl, len(fs)) + " ".join(hx(f) for f in fs) + " %x %x %x" % (nb, kk, ll)
                add("DBLMUL" if nb == 64 else "DBLMUL_generic", line, jac_point_check(K, E.add(E.mul(kk, P), E.mul(ll, Y))),
                    dict(info0, k="%x" % kk, l="%x" % ll, second=nm, nbits=nb))
        # ---------------- ladders
        order = p + 1
        scal = [0, 1, 2, 3, (1 << bits) - 1, rng.bits(bits), rng.bits(bits), rng.bits(bits // 2), 1 << (bits - 1)]
        if kind == "ss":
            scal += [order, order * (1 + rng.below((1 << bits) // order - 1)), order - 1, order + 1]
        scal = scal[:max(4, nscal)] if kind != "ss" else scal
        for nm, X in [("P", P)] + [("T%d" % i, t) for i, t in enumerate(T[1:], 1)][:1]:
            for k in (scal if nm == "P" else scal[:5]):
                XZ = G.proj(X)
                add("xMUL", "ec.xmul %x %s %s %x" % (lvl, hp(XZ), hp(AC), k), xcheck(E, E.mul(k, X)), dict(info0, point=nm, k="%x" % k))
        for k in scal[:4]:
            kb = 1 + rng.below(bits)
            XZ = G.proj(P)
            add("xMULv2", "ec.xmulv2 %x %s %s %x %x" % (lvl, hp(XZ), hp(A24), kb, k), xcheck(E, E.mul(k % (1 << kb), P)), dict(info0, k="%x" % k, kbits=kb))
        for m in scal[:7]:
            add("ec_ladder3pt", "ec.ladder3pt %x %s %s %s %s %x" % (lvl, hp(G.proj(P)), hp(G.proj(Q)), hp(G.proj(D)), hp(AC), m),
                xcheck(E, E.add(P, E.mul(m, Q))), dict(info0, m="%x" % m))
        nz = [s for s in scal if s != 0]
        for t in range(min(len(nz), max(4, nscal))):
            k, l = nz[t], nz[(t * 3 + 1) % len(nz)]
            add("xDBLMUL", "ec.dblmul %x %s %s %s %s %x %x" % (lvl, hp(G.proj(P)), hp(G.proj(Q)), hp(G.proj(D)), hp(AC), k, l),
                xcheck(E, E.add(E.mul(k, P), E.mul(l, Q))), dict(info0, k="%x" % k, l="%x" % l))
        if kind == "ss":
            # points of order dividing 2^e for the bounded variant: [cof]P, scalars < 2^f
            f = 1 + rng.below(G.f - 1)
            cofP = lambda X: E.mul(G.cof << (G.f - f), X)
            P2, Q2 = cofP(P), cofP(Q)
            D2 = E.sub(P2, Q2)
            if P2 is not None and Q2 is not None and D2 is not None and D2[0] != (0, 0) and P2[0] != (0, 0) and Q2[0] != (0, 0):
                for zk, zl in ((0, 1), (1, 0), (0, 0)):
                    k, l = (0 if zk else rng.bits(f) | 1), (0 if zl else rng.bits(f) | 1)
                    add("ec_biscalar_mul_bounded", "ec.biscalarb %x %s %s %s %s %x %x %x" % (lvl, hp(G.proj(P2)), hp(G.proj(Q2)), hp(G.proj(D2)), hp(AC), k, l, f),
                        xcheck(E, E.add(E.mul(k, P2), E.mul(l, Q2))), dict(info0, k="%x" % k, l="%x" % l, f=f))
                k, l = rng.bits(f), rng.bits(f)
                add("ec_biscalar_mul_bounded", "ec.biscalarb %x %s %s %s %s %x %x %x" % (lvl, hp(G.proj(P2)), hp(G.proj(Q2)), hp(G.proj(D2)), hp(AC), k, l, f),
                    xcheck(E, E.add(E.mul(k, P2), E.mul(l, Q2))), dict(info0, k="%x" % k, l="%x" % l, f=f))
                for _ in range(2):
                    k, l = rng.bits(f) | 1, rng.bits(f)
                    add("xDBLMUL_bounded", "ec.dblmulb %x %s %s %s %s %x %x %x" % (lvl, hp(G.proj(P2)), hp(G.proj(Q2)), hp(G.proj(D2)), hp(AC), k, l, f),
                        xcheck(E, E.add(E.mul(k, P2), E.mul(l, Q2))), dict(info0, k="%x" % k, l="%x" % l, f=f))
        for n in (1, 2, 7, 50, 51, 64):
            add("ec_dbl_iter", "ec.dbliter %x %x %s %s" % (lvl, n, hp(G.proj(P)), hp(AC)), xcheck(E, E.mul(1 << n, P)), dict(info0, n=n))
        # ---------------- degenerate configurations (recorded, see module docstring)
        if ci == 0:
            add("xMUL", "ec.xmul %x %s %s %x" % (lvl, hp(G.proj(T[0])), hp(AC), 3), xcheck(E, T[0]), dict(info0, point="(0,0)", k="3"),
                degenerate="xMUL:P=(0,0):odd-scalar:returns-Z=0")
            add("xMUL", "ec.xmul %x %s %s %x" % (lvl, hp(G.proj(None)), hp(AC), 5), (lambda F, I: None if (F[0] != (0, 0) and F[1] == (0, 0)) else "returns (0:0)"),
                dict(info0, point="inf", k="5"), degenerate="xMUL:P=inf:returns-(0:0)")
            add("xDBLMUL", "ec.dblmul %x %s %s %s %s %x %x" % (lvl, hp(G.proj(P)), hp(G.proj(Q)), hp(G.proj(D)), hp(AC), 0, 5),
                xcheck(E, E.mul(5, Q)), dict(info0, k="0", l="5"), degenerate="xDBLMUL:scalar-0-treated-as-2^BITS")
            JT = G.jac(T[-1])
            add("ADD∘DBL", None, None, dict(info0, what="ADD(DBL(T), Q) for a point T of order 2"), degenerate="Jacobian:ADD-after-DBL-of-2-torsion",
                model=False)
            cases[-1]["two_step"] = (H.line(lvl, "DBL", P=jc(JT), AC=crv(a, (1, 0))), G.jac(Q), a, Q)
    return cases, G


def evaluate(ctx, H, cases, lvl, with_model=True):
    """run the C side on all cases; returns (failures, degenerate_confirmed, disagreements C vs model)"""
    K = ecoracle.Fp2(vlib.LEVELS[lvl]["p"])
    norm = [c for c in cases if c["line"]]
    lines = [c["line"] for c in norm]
    rc, cout, cerr = vlib.run_c([H.exe[lvl]], lines)
    fails, degen = [], []
    for i, c in enumerate(norm):
        out = cout[i] if i < len(cout) else "<C driver stopped rc=%d: %s>" % (rc, cerr[-300:])
        F, I = parse_out(out)
        msg = "C driver gave no parsable result: " + out[:200] if F is None else c["check"](F, I)
        ctx.case("%s:%s:lvl%d" % (c["cls"], json.dumps(c["info"], sort_keys=True), lvl))
        ctx.coverage.setdefault("oracle_cases_by_class", {}).setdefault(c["cls"], 0)
        ctx.coverage["oracle_cases_by_class"][c["cls"]] += 1
        rec = dict(op=c["line"], result=out[:400], problem=msg, **c["info"])
        if c["degenerate"]:
            if msg:
                degen.append((c["degenerate"], rec))
        elif msg:
            fails.append((c, rec))
    for c in cases:
        if c.get("two_step"):
            l1, J2, a, Q = c["two_step"]
            rc, o1, _ = vlib.run_c([H.exe[lvl]], [l1])
            F, _ = parse_out(o1[0])
            l2 = H.line(lvl, "ADD", P=jc(F[:3]), Q=jc(J2), AC=crv(a, (1, 0)))
            rc, o2, _ = vlib.run_c([H.exe[lvl]], [l2])
            F2, _ = parse_out(o2[0])
            if jac_affine(K, F2[:3]) != Q:
                degen.append((c["degenerate"], dict(ops=[l1, l2], result=o2[0][:300], problem="ADD(DBL(T), Q) != Q", **c["info"])))
    dis = []
    if with_model:
        ml = [c["line"] for c in norm if c["line"].startswith(("ec.", "jac."))]
        dis = vlib.correspond(ctx, "ladder models vs C lvl%d" % lvl, ml, [H.exe[lvl]])
    return fails, degen, dis


def search(ctx, state, ncurves=4, nscal=9):
    """violation search: real C functions vs the affine oracle, all levels; first failing input or None"""
    H = state.get("H") or slcorr.Harness(ctx)
    state["H"] = H
    for lvl in sorted(H.exe):
        cases, _ = build_cases(ctx, H, lvl, "search", ncurves, nscal)
        fails, _, _ = evaluate(ctx, H, cases, lvl, with_model=False)
        if fails:
            c, rec = fails[0]
            return ("oracle:%s:lvl%d" % (c["cls"], lvl), "%s returns a wrong result (affine group-law oracle)" % c["cls"],
                    dict(rec, how_to_replay="compile tools/harness/drv_ec.c (see tools/slcorr.py) and feed `op`; compare X/Z with the expected x",
                         failures_total=len(fails), other_failing_classes=sorted({f[0]["cls"] for f in fails})))
    return None


def run(ctx):
    ctx.trusted += ["tools/translate/straightline.py (+_cparse, _slops): C subset -> Lean let-chains; checked on every run by executing "
                    "each generated def against its C function (all alias patterns)",
                    "tools/harness/drv_ec.c, tools/ecoracle.py (affine group law in Python, independent of library and models)",
                    "hand models SqiModel/Ladder.lean (loops), SqiModel/Fp2.lean (executable GF(p^2), sqrt sign convention): tie H",
                    "C compiler; fp2 layer taken as exact field arithmetic (C07)"]
    state = {}
    quick = ctx.quick
    ok = vlib.proof_stage(ctx, ["SqiProps.C08"], searcher=lambda: search(ctx, state))
    if any(v["key"].startswith("translator:") for v in ctx.violations):
        return dict(level="proof", rule="(translator rejected the sources; nothing else was run)")
    dok, dout, dfail = ctx.lake(["driver"])
    if not dok:
        ctx.obligation("model driver builds", False, dout[-400:])
        ctx.violation("driver-build", "the model driver no longer builds", dict(log=dout[-1500:]), found=False)
        return dict(level="proof", rule="(driver build failed)")
    H = state.get("H") or slcorr.Harness(ctx)
    # 2. translator check (all three generated modules: the translator is this property's trusted tie)
    dis = H.correspond_generated(per_op=2 if quick else 12)
    for d in dis[:3]:
        ctx.violation("translator:" + d["op"].split()[2], "generated definition and C function disagree (translator or harness defect — "
                      "the theorems may be about the wrong text)", dict(d), found=False)
    # 3 + 4. ladders vs models, everything vs oracle
    allfails, alldegen = [], {}
    for lvl in sorted(H.exe):
        cases, G = build_cases(ctx, H, lvl, "main", 2 if quick else 8, 6 if quick else 13)
        fails, degen, mdis = evaluate(ctx, H, cases, lvl)
        for c, rec in fails:
            allfails.append((c, rec))
        for key, rec in degen:
            alldegen.setdefault(key, []).append(rec)
        for d in mdis[:3]:
            # classify: does the real code contradict the oracle on this input?
            c = [x for x in cases if x["line"] == d["op"]]
            F, I = parse_out(d["impl"])
            bad = c and F is not None and c[0]["check"](F, I)
            if bad and not c[0]["degenerate"]:
                ctx.violation("oracle:%s:lvl%d" % (c[0]["cls"], lvl), "hand model and C disagree and C contradicts the group-law oracle",
                              dict(d, problem=bad, **c[0]["info"]), found=True)
            else:
                ctx.violation("model:%s:lvl%d" % (d["op"].split()[0], lvl), "hand ladder model and C function disagree (C still matches the oracle here)",
                              dict(d), found=False)
        ctx.sample(dict(level=lvl, classes=sorted({c["cls"] for c in cases}), example=cases[0]["line"][:160]))
    ctx.obligation("C functions agree with the affine group-law oracle (%d levels)" % len(H.exe), not allfails,
                   json.dumps([r for _, r in allfails[:3]])[:600])
    seen = set()
    for c, rec in allfails:
        key = "oracle:%s:lvl%d" % (c["cls"], c["lvl"])
        if key not in seen:
            seen.add(key)
            ctx.violation(key, "%s returns a wrong result (affine group-law oracle)" % c["cls"], rec, found=True)
    # degenerate behaviour: recorded; reported only through the known-findings file
    known_keys = {k.get("key") for k in ctx.known}
    ctx.coverage["degenerate_behaviour_confirmed"] = {k: dict(times=len(v), example=v[0]) for k, v in alldegen.items()
                                                      if not k.endswith("informational")}
    ctx.coverage["informational_mismatches"] = {k: len(v) for k, v in alldegen.items() if k.endswith("informational")}
    for k, v in alldegen.items():
        if k in known_keys:
            ctx.violation(k, "documented degenerate input of the x-only arithmetic", v[0])
    ctx.coverage["not_translated"] = slcorr.straightline.NOT_TRANSLATED
    ctx.coverage["alias_patterns"] = {n: [dict(pairs=p["pairs"], valid=p["valid"], sites=p["nsites"]) for p in fn.patterns]
                                     for n, fn in H.W.fns.items() if fn.patterns}
    return dict(level="proof", rule="one case = one (level, curve, inputs, projective rescaling, scalar) evaluated on the real C function and "
                "compared with the affine oracle; plus one correspondence op per generated definition / ladder model",
                explanation="theorems: all fields of char != 2, all (A:C), all points, all scalar lengths; partial parts listed in notes/C08.md")

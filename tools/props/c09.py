"""C09 — 2^n-isogeny evaluation (ec_eval_even_strategy / ec_eval_small_chain / xisog / xeval).

Stages
  1. proof: `lake build SqiProps.C09` (+ C09F formulas when present) over tables regenerated from /repo, audit.
  2. tie H, traversal: hook trace of the real `ec_eval_even_strategy` vs the trace of the Lean model
     (`SqiModel.EvenChain`, the object of the theorems) for table rows of all three levels.
  3. end-to-end on real curves: strategy routine vs naive chain vs an independent exact-arithmetic oracle
     (tools/props/chain_oracle.py: Velu 2-isogenies on general Weierstrass models, balanced recursion):
     j-invariants, kernel generator -> infinity, images of a basis and of a random point (isomorphism invariants),
     Weil pairing of the pushed basis = original^(2^n) (library pairing: cross-check only).
  4. out-of-range probes on a sanitizer build (isog_len below the table range / zero-size VLA): the model predicts
     the fault (theorem `L*_even_out_of_range`), the real code is run to confirm it.
"""
import json, os, re, subprocess, sys
from concurrent.futures import ProcessPoolExecutor
import vlib
import chain_oracle as co

HERE = os.path.dirname(os.path.abspath(__file__))
DRV = os.path.join(vlib.ROOT, "tools", "harness", "drv_chain.c")
LV = vlib.LEVELS
NROWS = {1: 134, 3: 198, 5: 260}          # re-read from the generated tables below (never trusted blindly)


def table_rows(l):
    t = open(os.path.join(vlib.LEAN, "SqiGen", "Tables%d.lean" % l)).read()
    return len(re.findall(r"^def STRATEGY4_r\d+ ", t, re.M)), len(re.findall(r"^def strategies_r\d+ ", t, re.M))


def run_c(cmd, lines, timeout=240, env=None):
    """vlib.run_c with a timeout: a hang of the real code is a result (rc = -999)"""
    try:
        return vlib.run_c(cmd, lines, timeout=timeout, env=env)
    except subprocess.TimeoutExpired:
        return -999, [], "TIMEOUT: the real code did not terminate within %d s" % timeout


def correspond(ctx, name, lines, c_cmd, timeout=300):
    """vlib.correspond with a timeout on the C side (a traversal that no longer terminates is a result)"""
    rc, cout, cerr = run_c(c_cmd, lines, timeout=timeout)
    mout = ctx.driver(lines)
    dis = []
    for i, l in enumerate(lines):
        c = cout[i] if i < len(cout) else "<no output: C driver stopped, rc=%d %s>" % (rc, cerr[-120:] if rc == -999 else "")
        m = mout[i] if i < len(mout) else "<no output>"
        if c != m:
            dis.append(dict(index=i, op=l, impl=c, model=m))
            if i >= len(cout):
                dis[-1]["stderr"] = cerr[-1500:]
                break
    ctx.evaluations += len(lines)
    ctx.obligation("correspondence " + name + " (%d ops)" % len(lines), not dis, json.dumps(dis[:5])[:600] if dis else "")
    ctx.coverage.setdefault("correspondence", {})[name] = dict(ops=len(lines), disagreements=len(dis))
    return dis


def hx(v):
    return "%x" % v


# ------------------------------------------------------------------------------------------------ e2e
def e2e_line(rng, l, n, above, walk):
    f = LV[l]["f"]
    a, c, d = rng.bits(f), rng.bits(f), rng.bits(f)
    toks = ["even.e2e", hx(n), hx(above), hx(walk), hx(a), hx(c | 1), hx(d)]
    for _ in range(walk):
        toks += [hx(8 + rng.below(24)), hx(rng.bits(f))]
    return " ".join(toks)


def check_e2e(args):
    """verify one result line against the oracle; returns (key-suffix, list of failed facts, stats)"""
    l, line, res = args
    p = LV[l]["p"]
    f = LV[l]["f"]
    K = co.Fp2(p)
    t = res.split()
    fails = []
    try:
        n = int(t[0][2:], 16)
        above = int(t[1].split("=")[1])
        sing = int(t[2].split("=")[1])
        i = t.index("dom"); A = co.parse_fp2(t[i + 1])
        i = t.index("pts"); pts = [co.parse_fp2(x) for x in t[i + 1:i + 6]]
        i = t.index("naive"); An = co.parse_fp2(t[i + 1]); pn = [co.parse_fp2(x) for x in t[i + 2:i + 7]]
        i = t.index("strat")
        strat = t[i + 1] != "none"
    except Exception as e:                                          # malformed output = failed run
        return ("malformed", ["malformed driver output: %s" % res[:200]], {})
    E = co.Curve.montgomery(K, A)
    P = [(x, co.ONE) for x in pts]
    E2, im = co.chain(E, P[0], n, P[1:])
    j = E2.j()
    inv_o = [E2.inv_pt(q) for q in im]

    def cmp(name, Ax, px):
        Ex = co.Curve.montgomery(K, Ax)
        if Ex.j() != j:
            fails.append("%s: j-invariant of the codomain differs from the quotient curve" % name)
        if px[0] is not None:
            fails.append("%s: kernel generator is not mapped to infinity" % name)
        inv = [Ex.inv_pt((x, co.ONE)) if x is not None else "inf" for x in px[1:]]
        if inv != inv_o:
            bad = [k for k in range(4) if inv[k] != inv_o[k]]
            fails.append("%s: images differ from the images under the quotient isogeny (points %s of P,Q,P-Q,R)" % (name, bad))
    cmp("naive", An, pn)
    if strat:
        As = co.parse_fp2(t[i + 1]); ps = [co.parse_fp2(x) for x in t[i + 2:i + 7]]
        cmp("strategy", As, ps)
        k = t.index("weil")
        e0, e1 = co.parse_fp2(t[k + 1]), co.parse_fp2(t[k + 2])
        if K.pow(e0, 2 ** n) != e1:
            fails.append("strategy: Weil pairing of the pushed basis is not the original raised to 2^n")
        if K.pow(e0, 2 ** (f - 1)) == (1, 0):
            fails.append("harness: input basis pairing not of full order (generator problem)")
        if "again" in t:
            Ag = co.parse_fp2(t[t.index("again") + 1])
            if co.Curve.montgomery(K, Ag).j() != j:
                fails.append("reuse: a second ec_eval_even on the same ec_isog_even_t returns a different curve (phi->curve.A24 clobbered)")
    return ("n=%d:above=%d" % (n, above), fails, dict(n=n, above=above, strat=strat, sing=sing))


def run_e2e(ctx, l, exe, cases, tag):
    lines = [c[0] for c in cases]
    rc, outs, err = run_c([exe], lines, timeout=90 if ctx.quick else 1200)
    jobs = []
    for i, ln in enumerate(lines):
        if i >= len(outs):
            ctx.violation("e2e:L%d:crash:%s" % (l, cases[i][1]), "real code crashed in the end-to-end run",
                          dict(level=l, op=ln, rc=rc, stderr=err[-1500:]))
            break
        jobs.append((l, ln, outs[i]))
    bad = 0
    hist = ctx.coverage.setdefault("e2e_hist", {})
    with ProcessPoolExecutor(max_workers=14) as ex:
        for (ln, key), (sfx, fails, st) in zip([(c[0], c[1]) for c in cases], ex.map(check_e2e, jobs, chunksize=2)):
            ctx.case("e2e:L%d:%s" % (l, sfx))
            if st:
                h = "L%d above=%d first-step-kernel=%s %s" % (l, st["above"], {1: "(1:1)", -1: "(-1:1)", 0: "generic"}[st["sing"]],
                                                                   "ec_eval_even+naive" if st["strat"] else "naive-only")
                hist[h] = hist.get(h, 0) + 1
            if fails:
                cls = fails[0].split(":")[0]
                if all(x.startswith("reuse") for x in fails):
                    key = "even:reuse-phi:A24-clobbered:L%d" % l
                else:
                    key = "e2e:L%d:%s:%s" % (l, sfx, cls)
                if ctx.violation(key,
                                 "2^n-isogeny evaluation disagrees with the independent quotient-isogeny oracle: " + "; ".join(fails),
                                 dict(level=l, op=ln, failed=fails, how="tools/harness/drv_chain.c op line; oracle tools/props/chain_oracle.py")):
                    bad += 1
    ctx.obligation("end-to-end %s L%d (%d chains)" % (tag, l, len(jobs)), bad == 0, "%d failing" % bad)
    return bad


def e2e_cases(ctx, l, ns):
    rng = ctx.rng.fork("e2e%d" % l)
    cases = []
    for n in ns:
        for above in (0, 1):
            walk = 0 if (rng.below(3) == 0) else 1 + rng.below(2)
            cases.append((e2e_line(rng, l, n, above, walk), "n=%d:above=%d:walk=%d" % (n, above, walk)))
    return cases


def singular_cases(ctx, l, rows, k):
    """extra kernels above (0,0) on random-walk curves at in-range lengths: both shapes (1:1) / (-1:1) of the order-4
    point of the singular first step must be exercised"""
    rng = ctx.rng.fork("sing%d" % l)
    f = LV[l]["f"]
    out = []
    for i in range(k):
        n = f - rng.below(rows)
        out.append((e2e_line(rng, l, n, 1, 1 + rng.below(2)), "n=%d:above=1:extra%d" % (n, i)))
    return out


def sample_lengths(ctx, l, rows, k):
    f = LV[l]["f"]
    lo = f - rows + 1
    rng = ctx.rng.fork("len%d" % l)
    must = {1, 2, 3, 4, 5, lo - 1, lo, lo + 1, f - 1, f}
    while len(must) < k + 10:
        must.add(lo + rng.below(rows))
        must.add(1 + rng.below(lo))
    return sorted(x for x in must if 1 <= x <= f)


# ------------------------------------------------------------------------------------------------ traces
def trace_stage(ctx, l, exe, ns):
    lines = ["even.trace %x %x" % (l, n) for n in ns]
    dis = correspond(ctx, "ec_eval_even_strategy trace L%d" % l, lines, [exe], timeout=90 if ctx.quick else 1200)
    for n in ns:
        ctx.case("trace:L%d:n=%d" % (l, n))
    return [(int(d["op"].split()[2], 16), d) for d in dis]


def skeleton_stage(ctx, l, rows):
    """tie T: the integer skeleton re-extracted from the C text vs the hand model, executed on every table length"""
    f = LV[l]["f"]
    ns = list(range(f - rows + 1, f + 1)) + [2, 3, 4, f - rows]
    outs = ctx.driver(["skel.even %x %x" % (l, n) for n in ns])
    bad = [(n, o) for n, o in zip(ns, outs) if not o.startswith("1 ")]
    nofault = sum(1 for o in outs if o.startswith("1 1"))
    ctx.evaluations += len(ns)
    ctx.obligation("integer skeleton (SqiGen.ChainSkel) = hand model on every table length L%d (%d runs, %d fault-free)" % (l, len(ns), nofault),
                   not bad, str(bad[:1])[:500])
    for n, o in bad[:1]:
        real = real_code_on(ctx, l, n)
        found = isinstance(real.get("e2e"), list) and bool(real["e2e"]) or ("no abort" not in str(real.get("sanitizer", "no abort")))
        ctx.violation("skeleton:L%d:len=%d" % (l, n), "the integer skeleton re-extracted from ec_eval_even_strategy no longer matches the model of the theorems",
                      dict(level=l, isog_len=n, comparison=o[:1500], real_code=real), found=bool(found))


def classify_trace_disagreement(ctx, l, exe, n, d):
    """model and code disagree on the traversal: is the *property* broken on this length? -> end-to-end oracle"""
    cases = e2e_cases(ctx, l, [n])
    before = len(ctx.violations)
    run_e2e(ctx, l, exe, cases, "classification n=%d" % n)
    if len(ctx.violations) == before:
        # codomain still right: does the real traversal leave its arrays? (sanitizer build, same op)
        try:
            san_build(ctx, (l,))
            sexe = ctx.cc_harness(DRV, os.path.join(ctx.tmp, "drv_chain_san%d" % l), l, san=True)
            rc, outs, err = run_c([sexe], [d["op"]], timeout=60, env={"UBSAN_OPTIONS": "print_stacktrace=0"})
            if rc != 0 and ("AddressSanitizer" in err or "runtime error" in err):
                ctx.violation("trace:L%d:n=%d:memory" % (l, n), "ec_eval_even_strategy leaves its arrays on a table length (sanitizer abort)",
                              dict(level=l, isog_len=n, op=d["op"], sanitizer=err[-1200:], model=d["model"][:300], impl=d["impl"][:300]))
        except vlib.BuildError as e:
            ctx.log("classification: sanitizer build failed: %s" % str(e)[:200])
    if len(ctx.violations) == before:
        ctx.violation("trace:L%d:n=%d" % (l, n), "traversal trace of ec_eval_even_strategy differs from the model (codomain still correct on the tried kernels)",
                      dict(level=l, isog_len=n, impl=d["impl"][:400], model=d["model"][:400]), found=False)


# ------------------------------------------------------------------------------------------------ search
def real_code_on(ctx, l, n):
    """replay a length on the real code: sanitizer verdict of the traversal and the end-to-end oracle"""
    out = {}
    try:
        san_build(ctx, (l,))
        sexe = ctx.cc_harness(DRV, os.path.join(ctx.tmp, "drv_chain_san%d" % l), l, san=True)
        op = "even.trace %x %x" % (l, n)
        rc, outs, err = run_c([sexe], [op], timeout=60, env={"UBSAN_OPTIONS": "print_stacktrace=0"})
        out["sanitizer_op"] = op
        out["sanitizer"] = err[-600:] if rc != 0 else "no abort"
        exe = ctx.cc_harness(DRV, os.path.join(ctx.tmp, "drv_chain_r%d" % l), l)
        line = e2e_line(ctx.rng.fork("replay"), l, n, 0, 0)
        rc, outs, err = run_c([exe], [line], timeout=60)
        out["e2e_op"] = line
        out["e2e"] = check_e2e((l, line, outs[0]))[1] if outs else "crash rc=%d" % rc
    except Exception as e:
        out["error"] = str(e)[:300]
    return out


def search(ctx):
    """a proof obligation broke: look for a concrete length on which the model faults or the real code is wrong"""
    ctx.lake(["driver"])
    try:
        for l in (1, 3, 5):
            rows, _ = table_rows(l)
            f = LV[l]["f"]
            ns = list(range(1, f + 4))
            outs = ctx.driver(["even.top %x %x" % (l, n) for n in ns])
            for n, o in zip(ns, outs):
                t = o.split()
                if len(t) != 3 or t[1] != "0" or int(t[2], 16) != n:
                    tr = ctx.driver(["even.trace %x %x" % (l, n)])[0]
                    real = real_code_on(ctx, l, n)
                    return ("model:L%d:len=%d" % (l, n),
                            "ec_eval_even (guard as written in the C + strategy table) does not evaluate a chain of length %d correctly "
                            "(model run: fault / wrong number of steps)" % n,
                            dict(level=l, isog_len=n, row=f - n, model_summary=o, model_trace_tail=tr[-300:], real_code=real,
                                 how="lean driver: even.top %x %x ; real code: tools/harness/drv_chain.c even.trace / even.e2e (sanitizer build)" % (l, n)))
    except Exception as e:
        ctx.log("search: model run failed: %s" % e)
    # model fine on every row: try the real code end to end on every table length of level 1 and a sample of 3, 5
    try:
        for l in (1, 3, 5):
            exe = ctx.cc_harness(DRV, os.path.join(ctx.tmp, "drv_chain_s%d" % l), l)
            rows, _ = table_rows(l)
            f = LV[l]["f"]
            ns = list(range(f - rows + 1, f + 1)) if l == 1 else sample_lengths(ctx, l, rows, 16)
            before = len(ctx.violations)
            run_e2e(ctx, l, exe, e2e_cases(ctx, l, ns), "search")
            if len(ctx.violations) > before:
                v = ctx.violations.pop()
                return (v["key"], v["what"], v["replay"])
    except vlib.BuildError as e:
        ctx.log("search: build failed: %s" % str(e)[:300])
    return None


# ------------------------------------------------------------------------------------------------ probes
def san_build(ctx, levels):
    """sanitizer build restricted to the static libraries the driver links (per level) — saves most of the build"""
    mods = ["sqisigndim2", "sqisigndim2_heuristic", "sqisignhd", "dim2id2iso", "hd", "id2iso", "klpt", "precomp", "gf", "ec"]
    tg = ["sqisign_%s_lvl%d" % (m, l) for l in levels for m in mods] + ["sqisign_quaternion_generic", "sqisign_intbig_generic", "sqisign_common_test"]
    try:
        return ctx.build_repo("ref", san=True, targets=tg)
    except vlib.BuildError:
        return ctx.build_repo("ref", san=True)


def probes(ctx, levels):
    """lengths without a table row (corpus of the repaired defect 655114a) on a sanitizer build: since the repair
    `ec_eval_even` must evaluate them with the naive chain; a fault here is a violation with the op as replay"""
    try:
        san_build(ctx, levels)
        for l in levels:
            exe = ctx.cc_harness(DRV, os.path.join(ctx.tmp, "drv_chain_san%d" % l), l, san=True)
            rows, _ = table_rows(l)
            f = LV[l]["f"]
            for n, why in ((f - rows, "first length below the table range"), (4, "shortest length that would read the table"),
                           (1, "zero-size VLA in the strategy routine"), (f + 1, "length above 2^f")):
                op = "even.trace %x %x" % (l, n)
                m = ctx.driver([op])[0]
                rc, outs, err = run_c([exe], [op], timeout=60, env={"UBSAN_OPTIONS": "print_stacktrace=0", "ASAN_OPTIONS": "detect_leaks=0"})
                fault = rc != 0 and ("AddressSanitizer" in err or "runtime error" in err or "TIMEOUT" in err)
                ctx.case("probe:L%d:n=%d" % (l, n))
                ctx.coverage.setdefault("probes", {})["L%d n=%d" % (l, n)] = dict(model_faults=m.endswith("E"), real_code_faults=fault)
                if fault or m.endswith("E"):
                    kind = "global-buffer-overflow" if "global-buffer-overflow" in err else ("vla-bound" if "variable length array" in err else "sanitizer abort" if fault else "model fault")
                    ctx.violation("even:isog_len-out-of-table-range:L%d:n=%d" % (l, n),
                                  "ec_eval_even with isog_len=%d (%s): STRATEGY4[TORSION_PLUS_EVEN_POWER-isog_len] / VLA out of bounds (%s)" % (n, why, kind),
                                  dict(level=l, isog_len=n, op=op, sanitizer=err[-1200:], model_trace=m[-200:],
                                       theorem="SqiProps.C09.L%d_ec_eval_even_full" % l))
                ctx.obligation("probe L%d n=%d (%s): no fault" % (l, n, why), not (fault or m.endswith("E")), err[-200:] if fault else "")
    except vlib.BuildError as e:
        ctx.log("probes skipped: sanitizer build failed: %s" % str(e)[:400])
        ctx.coverage["probes_skipped"] = str(e)[:200]


# ------------------------------------------------------------------------------------------------ main
def run(ctx):
    ctx.trusted += ["tools/translate/tables.py (STRATEGY4 extraction)", "tools/translate/evenguard.py (guard of ec_eval_even re-read from the C text)", "tools/translate/chainskel.py (integer skeleton slicer; event classification table KINDS)",
                    "hand model SqiModel.EvenChain tied by hook-trace correspondence (tools/harness/drv_chain.c) and by the end-to-end oracle",
                    "tools/props/chain_oracle.py (python big-int Velu oracle)",
                    "hooks: SQISIGN_VERIF_TRACE calls in ec_eval_even_strategy (guarded, add-only)"]
    mods = ["SqiProps.C09"]
    if os.path.exists(os.path.join(vlib.LEAN, "SqiProps", "C09F.lean")):
        mods.append("SqiProps.C09F")
    vlib.proof_stage(ctx, mods, searcher=lambda: search(ctx), extra_targets=("driver", "SqiProofs.VerifyBridge"))
    levels = (1, 3, 5)
    exes = {}
    for l in levels:
        exes[l] = ctx.cc_harness(DRV, os.path.join(ctx.tmp, "drv_chain_%d" % l), l)
    ctx.lake(["driver"])
    for l in levels:
        rows, _ = table_rows(l)
        f = LV[l]["f"]
        if ctx.quick:
            ns = [n for n in sample_lengths(ctx, l, rows, 24) if n >= f - rows + 1]
        else:
            ns = list(range(f - rows + 1, f + 1))
        skeleton_stage(ctx, l, rows)
        for n, d in trace_stage(ctx, l, exes[l], sorted(set(ns)))[:3]:
            classify_trace_disagreement(ctx, l, exes[l], n, d)
        k = 7 if ctx.quick else None
        lens = sample_lengths(ctx, l, rows, k) if k else list(range(1, f + 1))
        run_e2e(ctx, l, exes[l], e2e_cases(ctx, l, lens) + singular_cases(ctx, l, rows, 8 if ctx.quick else 64), "ec_eval_even/naive/oracle")
        ctx.sample(dict(level=l, lengths=lens[:12], trace_lengths=len(ns)))
    probes(ctx, (1,) if ctx.quick else levels)
    ctx.coverage["levels"] = list(levels)
    return dict(level="proof",
                rule="one case = one (level, chain length[, above/not above (0,0), random-walk curve]) run; traces: table rows; "
                     "theorems are unbounded in length and strategy",
                explanation="partial: that the formulas compute *the* quotient isogeny is shown as commutation/kernels at formula level plus "
                            "the exact-arithmetic oracle, not as an isomorphism E/<K> ~ E' in Mathlib")

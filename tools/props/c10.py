"""C10 — canonical 2^f-torsion bases are genuine bases and reproducible from hints.

Proof stage: SqiProps.C10 (hint round trip for every oracle incl. hints >= 20, minimality, index safety and its
for every C `int` hint with the guard re-extracted from basis.c, descent-based order/independence (partial), difference point, table facts).
Tie H: tools/harness/drv_basis.c runs ec_curve_to_basis_2f_to_hint / _from_hint (hooks: forced failing candidates,
x trace) on curves reached by 2^f-isogeny walks from E0; the Lean driver (`basis.tohint`, `basis.fromhint`) must
reproduce hints and selected x-coordinates; an independent exact oracle (tools/props/a9_gfp2.py) checks the
property itself: exact orders by doubling chains, Q above (0,0), independence, x(P-Q), regeneration, determinism
across rescalings of (A:C)."""
import json, os, re
import vlib
from a9_gfp2 import Fp2, Mont, hx

HARNESS = os.path.join(vlib.ROOT, "tools", "harness")
KEY_NEG_P = "from_hint:hint[0]=-1:NQR_TABLE[-1]:out-of-bounds-read"
KEY_NEG_Q = "from_hint:hint[1]=-1:Z_NQR_TABLE[-1]:out-of-bounds-read"


# ----------------------------------------------------------------------------------------------- oracle
def check_basis(F, A, C, f, P, Q, D):
    """the property's own spec on one output (affine abscissas as Fp2 pairs, or None for infinity).
    returns list of failure strings (empty = holds)"""
    bad = []
    if P is None or Q is None or D is None:
        return ["a returned point is the point at infinity"]
    E = Mont(F, F.div(A, C))
    for nm, x in (("P", P), ("Q", Q), ("PmQ", D)):
        if not F.is_square(E.rhs(x)):
            bad.append("%s is not the abscissa of a rational point" % nm)
    TP = E.xdbl_iter(P, f - 1)
    TQ = E.xdbl_iter(Q, f - 1)
    if F.is_zero(TP[1]):
        bad.append("order of P divides 2^(f-1)")
    elif not F.is_zero(E.xdbl(TP)[1]):
        bad.append("2^f P != 0")
    if F.is_zero(TQ[1]):
        bad.append("order of Q divides 2^(f-1)")
    elif not F.is_zero(E.xdbl(TQ)[1]):
        bad.append("2^f Q != 0")
    if not F.is_zero(TQ[1]) and not F.is_zero(TQ[0]):
        bad.append("Q is not above (0,0)")
    if not F.is_zero(TP[1]) and F.is_zero(TP[0]):
        bad.append("P is above (0,0): P, Q are dependent")
    if not bad:
        jP, jQ = E.lift(P), E.lift(Q)
        dm, dp = E.sub(jP, jQ), E.add(jP, jQ)
        xs = [d[0] for d in (dm, dp) if d is not None]
        if D not in xs:
            bad.append("third point is neither x(P-Q) nor x(P+Q)")
    return bad


def pt(ws):
    return None if ws[0] == "inf" else (hx(ws[0]), hx(ws[1]))


def parse_basis(ws):
    """ws = 6 tokens: P Q PmQ affine x"""
    return pt(ws[0:2]), pt(ws[2:4]), pt(ws[4:6])


# ----------------------------------------------------------------------------------------------- op generation
def f_values(rng, lvl, quick):
    L = vlib.LEVELS[lvl]
    fmax, resp = L["f"], L["resp"]
    if quick:
        vals = {1, 2, fmax, fmax - 1, resp + 2, 3 + rng.below(fmax - 5), 3 + rng.below(fmax - 5)}
    else:
        vals = set(range(1, fmax + 1))
    return sorted(vals)


def gen_ops(ctx, lvl, ncurves):
    """returns list of (opline, meta)"""
    rng = ctx.rng.fork("c10:L%d" % lvl)
    fmax = vlib.LEVELS[lvl]["f"]
    p = vlib.LEVELS[lvl]["p"]
    ops = []
    curves = [("setcurve 0 0 1 0", "E0")]
    for i in range(ncurves):
        nsteps = 1 if i % 3 else 2
        curves.append(("walk " + " ".join("%x" % rng.bits(fmax) for _ in range(nsteps)), "walk%d" % nsteps))
    for ci, (cop, ckind) in enumerate(curves):
        ops.append((cop, dict(kind="curve", ckind=ckind)))
        fl = f_values(rng, lvl, ctx.quick or ci > 1)
        for f in fl:
            ops.append(("tohint %x 0 0" % f, dict(kind="tohint", f=f, force=(0, 0))))
            ops.append(("jacdiff", dict(kind="jacdiff")))
            ops.append(("fromlast %x" % f, dict(kind="fromlast", f=f)))
        # forced fallback / forced table positions (hook): exercised on a few f
        forces = [(20, 20), (rng.below(20), rng.below(20)), (20 + rng.below(12), 20 + rng.below(12)), (20, 0), (0, 20)]
        for (a, b) in forces:
            f = rng.choice(fl)
            ops.append(("tohint %x %x %x" % (f, a, b), dict(kind="tohint", f=f, force=(a, b))))
            ops.append(("jacdiff", dict(kind="jacdiff")))
            ops.append(("fromlast %x" % f, dict(kind="fromlast", f=f)))
        # determinism across projective rescalings of (A:C)
        f = rng.choice(fl)
        ops.append(("tohint %x 0 0" % f, dict(kind="tohint", f=f, force=(0, 0), mark="pre-scale")))
        lam = (1 + rng.below(p - 1), rng.below(p))
        ops.append(("scale %x %x" % lam, dict(kind="scale")))
        ops.append(("tohint %x 0 0" % f, dict(kind="tohint", f=f, force=(0, 0), mark="post-scale")))
        ops.append(("fromlast %x" % f, dict(kind="fromlast", f=f)))
    return ops


# ----------------------------------------------------------------------------------------------- one level
def run_level(ctx, lvl, ncurves, have_driver):
    F = Fp2(vlib.LEVELS[lvl]["p"])
    exe = ctx.cc_harness(os.path.join(HARNESS, "drv_basis.c"), os.path.join(ctx.tmp, "drv_basis_l%d" % lvl), lvl,
                         extra=["-I" + HARNESS])
    ops = gen_ops(ctx, lvl, ncurves)
    rc, out, err = vlib.run_c([exe], [o for o, _ in ops])
    if len(out) != len(ops):
        i = len(out)
        ctx.obligation("C driver drv_basis lvl%d completed" % lvl, False, "stopped at op %d (%s) rc=%d %s" % (i, ops[min(i, len(ops) - 1)][0], rc, err[-300:]))
        ctx.violation("c10:L%d:driver-crash:%s" % (lvl, ops[min(i, len(ops) - 1)][0][:40]),
                      "basis generator crashed / aborted on an honest input",
                      dict(level=lvl, ops=[o for o, _ in ops[:i + 1]], stderr=err[-1500:],
                           how="compile tools/harness/drv_basis.c against the repo (level %d) and feed the ops" % lvl))
        return
    cur = None          # (A, C) as ints
    curop = None
    model_lines, model_expect, model_ctx = [], [], []
    last_to = None
    prescale = None
    hist = ctx.coverage.setdefault("hint_histogram", {})
    fcov = ctx.coverage.setdefault("f_values_L%d" % lvl, [])
    nprop = 0
    for (op, meta), res in zip(ops, out):
        ws = res.split()
        replay = lambda extra=None: dict(level=lvl, curve_op=curop, curve=cur and ["%x" % v for v in cur[0] + cur[1]], op=op,
                                         result=res, how="feed `%s` then `%s` to drv_basis (level %d)" % (curop, op, lvl), **(extra or {}))
        if res == "bad-op":
            ctx.obligation("driver accepted op", False, op); continue
        if meta["kind"] == "curve":
            cur = ((hx(ws[0]), hx(ws[1])), (hx(ws[2]), hx(ws[3]))); curop = op
            ctx.sample(dict(level=lvl, curve=op[:60], A=ws[0][:16] + "…"))
        elif meta["kind"] == "scale":
            cur = ((hx(ws[0]), hx(ws[1])), (hx(ws[2]), hx(ws[3])))
            curop = curop + " ; " + op
        elif meta["kind"] == "tohint":
            bar = ws.index("|")
            h0, h1 = hx(ws[0]), hx(ws[1])
            if h0 >= 2**31: h0 -= 2**32
            if h1 >= 2**31: h1 -= 2**32
            xs = ws[2:6]
            P, Q, D = parse_basis(ws[bar + 1:bar + 7])
            f = meta["f"]
            last_to = dict(h=(h0, h1), xs=xs, basis=(P, Q, D), f=f, op=op)
            hist["%d,%d" % (min(h0, 21), min(h1, 21))] = hist.get("%d,%d" % (min(h0, 21), min(h1, 21)), 0) + 1
            if f not in fcov: fcov.append(f)
            key = "L%d:%s:f=%d:force=%s" % (lvl, curop[:30], f, meta["force"])
            ctx.case(key)
            nprop += 1
            bad = check_basis(F, cur[0], cur[1], f, P, Q, D)
            if meta["force"][0] > h0 or meta["force"][1] > h1:
                bad.append("hook: emitted hint below the forced threshold")
            if bad:
                ctx.violation("c10:L%d:to_hint:%s" % (lvl, bad[0]), "ec_curve_to_basis_2f_to_hint output is not a basis as specified: " + "; ".join(bad),
                              replay(dict(failures=bad)))
            if meta.get("mark") == "pre-scale":
                prescale = last_to
            if meta.get("mark") == "post-scale" and prescale is not None:
                if prescale["h"] != last_to["h"] or prescale["basis"] != last_to["basis"]:
                    ctx.violation("c10:L%d:rescaling-changes-basis" % lvl, "basis depends on the projective representative of (A:C)",
                                  replay(dict(before=prescale["op"], hints_before=prescale["h"], hints_after=last_to["h"])))
                prescale = None
            model_lines.append("basis.tohint %x %x %x %x %x %x %x" % ((lvl,) + meta["force"] + cur[0] + cur[1]))
            model_expect.append(" ".join([ws[0], ws[1]] + xs))
            model_ctx.append((op, curop, cur, res))
        elif meta["kind"] == "fromlast":
            bar = ws.index("|")
            xs = ws[0:4]
            B = parse_basis(ws[bar + 1:bar + 7])
            ctx.case()
            if last_to is None or B != last_to["basis"] or xs != last_to["xs"]:
                ctx.violation("c10:L%d:from_hint-differs-from-to_hint:%s" % (lvl, "beyond-table" if last_to and max(last_to["h"]) >= 20 else "table"),
                              "regenerating the basis from the emitted hints gives different points",
                              replay(dict(to_hint_op=last_to and last_to["op"], hints=last_to and last_to["h"])))
            h0, h1 = last_to["h"]
            model_lines.append("basis.fromhint %x %s %s %x %x %x %x" % ((lvl, vlib_hex(h0), vlib_hex(h1)) + cur[0] + cur[1]))
            model_expect.append(" ".join(xs))
            model_ctx.append((op, curop, cur, res))
        elif meta["kind"] == "jacdiff":
            ctx.case()
            if ws[0] not in ("1", "2"):
                ctx.violation("c10:L%d:PmQ-vs-jacobian" % lvl, "third basis point is not x(P±Q) according to the library's own Jacobian arithmetic",
                              replay(dict(to_hint_op=last_to and last_to["op"])))
    ctx.obligation("oracle: %d bases at level %d satisfy the basis specification / regeneration / rescaling" % (nprop, lvl),
                   not [v for v in ctx.violations if v["key"].startswith("c10:L%d:" % lvl)], "")
    # ---- model correspondence
    if have_driver:
        mout = ctx.driver(model_lines)
        dis = []
        for i, (ml, exp) in enumerate(zip(model_lines, model_expect)):
            got = mout[i] if i < len(mout) else "<no output>"
            if got != exp:
                dis.append(dict(model_op=ml[:80], impl=exp[:200], model=got[:200], c_op=model_ctx[i][0], curve_op=model_ctx[i][1]))
        ctx.evaluations += len(model_lines)
        ctx.obligation("correspondence basis hints lvl%d (%d ops)" % (lvl, len(model_lines)), not dis, json.dumps(dis[:3])[:600])
        ctx.coverage.setdefault("correspondence", {})["basis_L%d" % lvl] = dict(ops=len(model_lines), disagreements=len(dis))
        if dis and not [v for v in ctx.violations if v["key"].startswith("c10:L%d:" % lvl)]:
            # model and code differ but the property's own oracle found nothing wrong on these inputs
            ctx.violation("c10:L%d:model-correspondence" % lvl, "hint model (SqiModel.Basis) no longer describes basis.c; the basis specification still held on every explored input",
                          dict(level=lvl, disagreements=dis[:5], broken_obligations=["correspondence basis hints lvl%d" % lvl]), found=False)


def vlib_hex(z):
    return ("-%x" % -z) if z < 0 else ("%x" % z)


# ----------------------------------------------------------------------------------------------- negative hints (regression corpus)
NEG_CORPUS = [(-1, 0), (0, -1), (-1, -1), (-20, 3), (5, -0x7fffffff), (-0x80000000, 0)]


def negative_hint_replay(ctx):
    """C `int` hints: fixed by 6d4be0a (`hint >= 0 && hint < 20`; theorem from_hint_index_safe for every Int). The hint = -1 probes
    stay: under ASan/UBSan a reverted guard aborts (VIOLATION with this replay); otherwise the selected x must equal the model's
    (negative hints take the generic branch x = i + (digit_t)hint)."""
    try:
        b = ctx.build_repo("ref", san=True, targets=["sqisign_ec_lvl1", "sqisign_gf_lvl1", "sqisign_precomp_lvl1",
                                                      "sqisign_common_test", "sqisign_intbig_generic", "sqisign_quaternion_generic"])
        exe = ctx.cc_harness(os.path.join(HARNESS, "drv_basis.c"), os.path.join(ctx.tmp, "drv_basis_san"), 1, san=True,
                             build=b, extra=["-I" + HARNESS])
    except vlib.BuildError as e:
        ctx.obligation("ASan build for the negative-hint corpus", False, str(e)[-400:])
        return
    dis = []
    for (h0, h1) in NEG_CORPUS:
        ops = ["setcurve 0 0 1 0", "fromhint f8 %s %s" % (vlib_hex(h0), vlib_hex(h1))]
        rc, out, err = vlib.run_c([exe], ops)
        ctx.case("neg-hint:%d,%d" % (h0, h1))
        san = "AddressSanitizer" in err or "runtime error" in err or (rc != 0 and len(out) < len(ops))
        isq = "ec_curve_to_point_2f_above_montgomery_from_hint" in err or (h0 >= 0 and "not_above" not in err)
        tab = "Z_NQR_TABLE" if isq else "NQR_TABLE"
        if san:
            key = KEY_NEG_Q if isq else KEY_NEG_P
            ctx.violation(key, "ec_curve_to_basis_2f_from_hint with a negative hint reads %s[hint] out of bounds (guard must be `hint >= 0 && hint < 20`, fix 6d4be0a); hints come from the signature / public key" % tab,
                          dict(level=1, ops=ops, sanitizer=err[-1200:], theorem="SqiProps.C10.generated_guards_ok / from_hint_index_safe",
                               how="ASan+UBSan build of the repo + tools/harness/drv_basis.c, feed the ops"))
            continue
        try:
            mres = ctx.driver(["basis.fromhint 1 %s %s 0 0 1 0" % (vlib_hex(h0), vlib_hex(h1))])[0]
        except Exception as e:      # noqa
            mres = "driver-error"
        cres = " ".join(out[1].split()[:4]) if len(out) > 1 else "<none>"
        if mres != cres:
            dis.append(dict(hints=(h0, h1), impl=cres[:160], model=mres[:160]))
    ctx.obligation("correspondence from_hint on negative hints (%d corpus entries, sanitizer build)" % len(NEG_CORPUS), not dis, json.dumps(dis[:2])[:500])
    if dis and not ctx.violations:
        ctx.violation("c10:L1:model-correspondence:negative-hints", "model of from_hint on negative hints no longer describes basis.c (no out-of-bounds access observed)",
                      dict(disagreements=dis, broken_obligations=["correspondence from_hint on negative hints"]), found=False)


# ----------------------------------------------------------------------------------------------- failing-input search
def search(ctx):
    """a proof obligation broke (typically a table fact): look for a concrete input on which the real code violates C10.
    Table entries are targeted with the force hook (candidate i is the first one tried when force = i)."""
    # guard theorem broken? replay the negative-hint corpus under the sanitizers first
    before = len(ctx.violations)
    try:
        negative_hint_replay(ctx)
    except Exception:      # noqa
        pass
    new = [v for v in ctx.violations[before:] if v["found"]]
    if new:
        v = new[0]
        ctx.violations.remove(v)
        return v["key"], v["what"], v["replay"]
    for lvl in (1, 3, 5):
        F = Fp2(vlib.LEVELS[lvl]["p"])
        try:
            exe = ctx.cc_harness(os.path.join(HARNESS, "drv_basis.c"), os.path.join(ctx.tmp, "drv_basis_s%d" % lvl), lvl, extra=["-I" + HARNESS])
        except vlib.BuildError:
            continue
        rng = ctx.rng.fork("c10search%d" % lvl)
        fmax = vlib.LEVELS[lvl]["f"]
        ops = []
        for c in range(3):
            ops.append("walk %x" % rng.bits(fmax))
            for i in range(20):
                ops.append("tohint %x %x 0" % (fmax, i))
                ops.append("tohint %x 0 %x" % (fmax, i))
        rc, out, err = vlib.run_c([exe], ops)
        cur = None; curop = None
        for op, res in zip(ops, out):
            ws = res.split()
            if op.startswith("walk"):
                cur = ((hx(ws[0]), hx(ws[1])), (hx(ws[2]), hx(ws[3]))); curop = op; continue
            bar = ws.index("|")
            P, Q, D = parse_basis(ws[bar + 1:bar + 7])
            bad = check_basis(F, cur[0], cur[1], fmax, P, Q, D)
            if bad:
                return ("c10:L%d:to_hint:%s" % (lvl, bad[0]), "basis generator output is not a basis as specified: " + "; ".join(bad),
                        dict(level=lvl, curve_op=curop, op=op, result=res, failures=bad,
                             how="feed `%s` then `%s` to drv_basis (level %d); force hook selects the table entry" % (curop, op, lvl)))
    return None


def run(ctx):
    ctx.trusted += ["hand model SqiModel.Basis / BasisConcrete tied to basis.c by the correspondence run (hints and selected x for every case)",
                    "tools/props/a9_gfp2.py (independent GF(p^2)/Montgomery-curve oracle in Python integers)",
                    "2-descent facts Descent0 / DescentAlpha (hypotheses of basis_of_descent_partial, not formalised)",
                    "GF(p) arithmetic of the C code at value level (C07) — only fp_add(x,one) after fp_set_small is used by the round trip"]
    ctx.assumptions += ["curves are obtained from E0 by the library's own 2^f-isogeny chain (C09): supersingular by construction",
                        "hooks verif_basis_force_fail / verif_basis_trace compiled in (guard on); with the guard off the code is the pinned code"]
    ok = vlib.proof_stage(ctx, ["SqiProps.C10"], searcher=lambda: search(ctx), extra_targets=["driver"])
    have_driver = os.path.exists(os.path.join(vlib.LEAN, ".lake", "build", "bin", "driver"))
    if not ok:
        # the driver may be stale/broken: still run the oracle part
        have_driver = have_driver and False
    ncur = {1: (10, 20), 3: (4, 8), 5: (4, 6)}
    for lvl in (1, 3, 5):
        run_level(ctx, lvl, ncur[lvl][0 if ctx.quick else 1], have_driver)
    negative_hint_replay(ctx)
    return dict(level="proof", rule="one case = one (level, curve, f, forced-failure setting) basis generation checked against the exact oracle and the Lean hint model; "
                "+ regeneration and Jacobian cross-checks")

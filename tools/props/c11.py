"""C11 — Weil pairing bilinear / non-degenerate; torsion discrete logs exact; change of basis.

Proof stage: SqiProps.C11 (dlog recursion correct/sound in any commutative group for every e; stack bound; matrix layer
in (R x R) with pairing = det: application then change of basis returns the matrix up to sign; cubical formulas vs
xADD/xDBL on the generated definitions).
Tie H: tools/harness/drv_pairing.c runs `weil`, `fp2_dlog_2e`, `matrix_application_even_basis`,
`change_of_basis_matrix_two` on bases of E[2^e] of curves reached by isogeny walks; the Lean driver op `dlog.2e` must
reproduce every answer of `fp2_dlog_2e` (members, non-members, wrong-order bases). The pairing itself is checked through
its relations with an exact GF(p^2) oracle: exact order 2^e of e(P,Q), e(aP+bQ,cP+dQ) = e(P,Q)^(ad-bc) (bilinearity,
alternation), dlog compatibility; matrix application against the affine group law; recovered matrix = +-M mod 2^e.
Inputs on which the x-only/cubical code is degenerate are classified by explicit arithmetic criteria and reported as
known findings (see notes/C11.md); everything outside those classes must hold."""
import json, os
import vlib
from a9_gfp2 import Fp2, Mont, hx

HARNESS = os.path.join(vlib.ROOT, "tools", "harness")

K_WEIL_O = "weil:argument-is-O:returns-0"
K_WEIL_T0 = "weil:argument-is-(0,0):returns-0"
K_APP_ZERO = "matrix_application_even_basis:e<POWER_OF_2:zero-scalar:wrong-point"
K_COB_LOW = "change_of_basis_matrix_two:column-of-order<=4:wrong-matrix"
K_COB_DIFF = "change_of_basis_matrix_two:column-equals-basis-vector-or-other-column:wrong-matrix"


def shex(z):
    return ("-%x" % -z) if z < 0 else ("%x" % z)


def sint(s):
    return -int(s[1:], 16) if s[0] == "-" else int(s, 16)


def pt(ws):
    return None if ws[0] == "inf" else (hx(ws[0]), hx(ws[1]))


def v2(x, e):
    x %= (1 << e)
    return e if x == 0 else (x & -x).bit_length() - 1


def col_order_log(col, e):
    """log2 of the order of u*P + v*Q in (Z/2^e)^2"""
    return e - min(v2(col[0], e), v2(col[1], e))


def classify_cob(M, e, fmax):
    """arithmetic classification of a matrix (a,b,c,d) for the known degenerate classes; None = regular"""
    N = 1 << e
    a, b, c, d = [x % N for x in M]
    cls = []
    # (zero scalars at e < POWER_OF_2 were a finding — K_APP_ZERO — fixed by 76cbdb3: no longer a degenerate class)
    c1, c2 = (a, c), (b, d)
    if col_order_log(c1, e) <= 2 or col_order_log(c2, e) <= 2:
        cls.append(K_COB_LOW)
    units = [(1, 0), (N - 1, 0), (0, 1), (0, N - 1)]
    if c1 in units or c2 in units or c1 == c2 or c1 == ((-c2[0]) % N, (-c2[1]) % N):
        cls.append(K_COB_DIFF)
    return cls


def classify_weil(a, b, c, d, e):
    N = 1 << e
    U, V = (a % N, b % N), (c % N, d % N)
    cls = []
    if U == (0, 0) or V == (0, 0):
        cls.append(K_WEIL_O)
    if U == (0, N // 2) or V == (0, N // 2):      # Q lies above (0,0): (0,0) = 2^(e-1) Q
        cls.append(K_WEIL_T0)
    return cls


def e_values(rng, lvl, quick, first):
    fmax = vlib.LEVELS[lvl]["f"]
    if quick:
        if lvl == 1:
            vals = {2, 3, 4, fmax, fmax - 1, vlib.LEVELS[lvl]["resp"] + 2, 5 + rng.below(fmax - 6)} if first else {fmax, 5 + rng.below(fmax - 6), 2 + rng.below(6)}
        else:
            vals = {3, fmax, 5 + rng.below(fmax - 6)} if first else {fmax - 1, 2 + rng.below(8)}
    else:
        if first and lvl == 1:
            vals = set(range(2, fmax + 1))                      # every e at level 1
        elif first:
            # levels 3, 5: every small e, every e around the 64-bit limb boundaries, the top of the range, and a random sample
            vals = set(range(2, 25)) | {fmax, fmax - 1, fmax - 2, vlib.LEVELS[lvl]["resp"] + 2}
            for w in range(64, fmax, 64):
                vals |= {w - 1, w, w + 1}
            vals |= {5 + rng.below(fmax - 6) for _ in range(40)}
            vals = {e for e in vals if 2 <= e <= fmax}
        else:
            vals = {fmax, fmax - 1, 2, 3, 4, 5, 8, 16, 5 + rng.below(fmax - 6), 5 + rng.below(fmax - 6)}
    return sorted(vals)


def rand_regular_vec(rng, e):
    N = 1 << e
    while True:
        u, v = rng.below(N), rng.below(N)
        if (u, v) not in ((0, 0), (0, N // 2)):
            return u, v


def gen_weil(rng, e):
    """list of (a,b,c,d, tag)"""
    N = 1 << e
    out = [(1, 0, 0, 1, "ref")]
    for _ in range(3):
        a, b = rand_regular_vec(rng, e); c, d = rand_regular_vec(rng, e)
        out.append((a, b, c, d, "random"))
    a, b = rand_regular_vec(rng, e)
    k = rng.below(N)
    if ((k * a) % N, (k * b) % N) not in ((0, 0), (0, N // 2)):
        out.append((a, b, (k * a) % N, (k * b) % N, "dependent"))
    out.append((a, b, a, b, "U=V"))
    out.append((a, b, (-a) % N, (-b) % N, "U=-V"))
    if e >= 3:
        out.append(((N // 4) % N, 1, 1, 2, "low-order-U"))
    out.append((2 * rng.below(N) % N or 2 % N, 1, 1, 2 * rng.below(N) % N, "even-coeffs"))
    return [w for w in out if not classify_weil(w[0], w[1], w[2], w[3], e)]


def gen_mats(rng, e, fmax):
    N = 1 << e
    out = []
    tries = 0
    while len(out) < 4 and tries < 200:
        tries += 1
        M = tuple(rng.below(N) for _ in range(4))
        if (M[0] * M[3] - M[1] * M[2]) % 2 == 1 and not classify_cob(M, e, fmax):
            out.append((M, "invertible"))
    # consecutive scalars of differing limb counts in the reused digit buffers of matrix_application_even_basis
    if e > 70:
        big = lambda: (1 << (64 + rng.below(e - 64))) | rng.below(1 << 64) | 1
        small = lambda: 2 + rng.below(1 << 40)
        c = big()
        for M, tag in (((c, 0, 0, c), "limbs:scalar-endomorphism"), ((big(), small(), small() | 1, big() ^ 1), "limbs:big-small"),
                       ((small() | 1, big(), big() ^ 1, small()), "limbs:small-big"), ((big(), big(), small() | 1, small() & ~1), "limbs:rows")):
            M = tuple(x % N for x in M)
            if not classify_cob(M, e, fmax):
                out.append((M, tag))
    tries = 0
    while len([m for m in out if m[1] == "singular"]) < 3 and tries < 200:
        tries += 1
        k = 1 + rng.below(max(1, e - 3))
        a, c = rng.below(N), rng.below(N)
        t = rng.below(N)
        kind = rng.below(3)
        if kind == 0:      # rank one: second column multiple of the first
            M = (a, (t * a) % N, c, (t * c) % N)
        elif kind == 1:    # both columns divisible by 2^k
            M = tuple((rng.below(N) << k) % N for _ in range(4))
        else:              # determinant even, generic
            b, d = rng.below(N), rng.below(N)
            M = (a, b, c, d) if (a * d - b * c) % 2 == 0 else (a, b, (c + a) % N, (d + b) % N) if ((a * (d + b)) - b * (c + a)) % 2 == 0 else (2 * a % N, b, 2 * c % N, d)
        if (M[0] * M[3] - M[1] * M[2]) % 2 == 0 and not classify_cob(M, e, fmax):
            out.append((M, "singular"))
    return out


def run_level(ctx, lvl, ncurves, have_driver):
    L = vlib.LEVELS[lvl]
    p, fmax = L["p"], L["f"]
    F = Fp2(p)
    exe = ctx.cc_harness(os.path.join(HARNESS, "drv_pairing.c"), os.path.join(ctx.tmp, "drv_pairing_l%d" % lvl), lvl, extra=["-I" + HARNESS])
    rng = ctx.rng.fork("c11:L%d" % lvl)
    ops = []      # (line, meta)
    curves = ["setcurve 0 0 1 0"] + ["walk " + " ".join("%x" % rng.bits(fmax) for _ in range(1 + (i % 2))) for i in range(ncurves)]
    for ci, cop in enumerate(curves):
        ops.append((cop, dict(kind="curve")))
        for e in e_values(rng, lvl, ctx.quick, ci == 0):
            N = 1 << e
            ops.append(("basis %x" % e, dict(kind="basis", e=e)))
            for (a, b, c, d, tag) in gen_weil(rng, e):
                ops.append(("weilab %x %x %x %x %x %x %x" % (e, a, b, c, d, (a - c) % N, (b - d) % N), dict(kind="weil", e=e, abcd=(a, b, c, d), tag=tag)))
            for (M, tag) in gen_mats(rng, e, fmax):
                ops.append(("applycob %x %s %s %s %s" % ((e,) + tuple(shex(x) for x in M)), dict(kind="cob", e=e, M=M, tag=tag)))
    # fixed probes of the known degenerate classes (deterministic replays, level-specific sizes)
    ops.append(("setcurve 0 0 1 0", dict(kind="curve")))
    ops.append(("basis %x" % fmax, dict(kind="basis", e=fmax)))
    Nf = 1 << fmax
    for (a, b, c, d, tg) in ((1, 0, 0, 1, "ref"), (0, 0, 0, 1, "probe"), (0, Nf // 2, 1, 0, "probe")):
        ops.append(("weilab %x %x %x %x %x %x %x" % (fmax, a, b, c, d, (a - c) % Nf, (b - d) % Nf), dict(kind="weil", e=fmax, abcd=(a, b, c, d), tag=tg)))
    for M in ((0, 1, 0, 1), (1, 1, 0, 0)):
        ops.append(("applycob %x %s %s %s %s" % ((fmax,) + tuple(shex(x) for x in M)), dict(kind="cob", e=fmax, M=M, tag="probe")))
    ops.append(("basis 4", dict(kind="basis", e=4)))
    ops.append(("applycob 4 1 0 0 1", dict(kind="cob", e=4, M=(1, 0, 0, 1), tag="probe")))

    rc, out, err = vlib.run_c([exe], [o for o, _ in ops])
    if len(out) != len(ops):
        i = len(out)
        ctx.obligation("C driver drv_pairing lvl%d completed" % lvl, False, "stopped at op %d rc=%d %s" % (i, rc, err[-300:]))
        ctx.violation("c11:L%d:driver-crash:%s" % (lvl, ops[min(i, len(ops) - 1)][0][:40]), "pairing / change-of-basis code crashed on a well-formed input",
                      dict(level=lvl, ops=[o for o, _ in ops[:i + 1]][-6:], stderr=err[-1500:]))
        return
    cur = curop = E = None
    B = None; jP = jQ = jPQ = None; w0 = None
    dlog_cases = []     # (e, w, w0, expected or None)
    hist = ctx.coverage.setdefault("classes", {})
    ecov = ctx.coverage.setdefault("e_values_L%d" % lvl, [])
    nbad0 = len(ctx.violations)
    for (op, meta), res in zip(ops, out):
        ws = res.split()
        rep = lambda extra=None: dict(level=lvl, curve_op=curop, basis_op=meta.get("e") and "basis %x" % meta["e"], op=op, result=res[:400],
                                      how="drv_pairing level %d: `%s`, `basis %x`, `%s`" % (lvl, curop, meta.get("e", 0), op), **(extra or {}))
        if res == "bad-op":
            ctx.obligation("driver accepted op", False, op); continue
        if meta["kind"] == "curve":
            cur = ((hx(ws[0]), hx(ws[1])), (hx(ws[2]), hx(ws[3]))); curop = op
            E = Mont(F, F.div(cur[0], cur[1]))
        elif meta["kind"] == "basis":
            e = meta["e"]
            if e not in ecov: ecov.append(e)
            B = (pt(ws[0:2]), pt(ws[2:4]), pt(ws[4:6]))
            jP, jQ = E.lift(B[0]), E.lift(B[1])
            if jP is None or jQ is None:
                ctx.violation("c11:L%d:basis-not-rational" % lvl, "basis point not on the curve", rep()); jP = None; continue
            d = E.sub(jP, jQ)
            if d is None or d[0] != B[2]:
                jQ = E.neg(jQ)
            jPQ = E.add(jP, jQ)
            w0 = None
        elif meta["kind"] == "weil":
            e = meta["e"]; N = 1 << e
            a, b, c, d = meta["abcd"]
            w = (hx(ws[0]), hx(ws[1]))
            cls = classify_weil(a, b, c, d, e)
            hist[meta["tag"]] = hist.get(meta["tag"], 0) + 1
            ctx.case("L%d:%s:e=%d:weil:%s" % (lvl, curop[:24], e, meta["tag"]))
            if meta["tag"] == "ref":
                w0 = w
                ok = F.pow(w0, N) == (1, 0) and F.pow(w0, N // 2) == (p - 1, 0)
                if not ok:
                    ctx.violation("c11:L%d:weil-of-basis-not-of-exact-order" % lvl, "e(P,Q) of a basis of E[2^e] does not have exact order 2^e (degenerate pairing)", rep())
                continue
            if w0 is None:
                continue
            exp = F.pow(w0, (a * d - b * c) % N)
            if w != exp:
                if cls:
                    for k in cls:
                        ctx.violation(k, "weil() on a degenerate argument returns a value that is not e(P,Q)^(ad-bc)", rep(dict(expected=["%x" % exp[0], "%x" % exp[1]])))
                else:
                    ctx.violation("c11:L%d:weil-relation:%s" % (lvl, meta["tag"]), "e(aP+bQ, cP+dQ) != e(P,Q)^(ad-bc): pairing not bilinear/alternating on this input",
                                  rep(dict(abcd=["%x" % x for x in (a, b, c, d)], expected=["%x" % exp[0], "%x" % exp[1]])))
            elif not cls:
                dlog_cases.append((e, w, w0, (a * d - b * c) % N, "pairing"))
        elif meta["kind"] == "cob":
            e = meta["e"]; N = 1 << e
            M = [x % N for x in meta["M"]]
            bar = ws.index("|")
            r = [sint(x) % N for x in ws[:4]]
            P1, Q1, D1 = pt(ws[bar + 1:bar + 3]), pt(ws[bar + 3:bar + 5]), pt(ws[bar + 5:bar + 7])
            states = []
            for seg in res.split(" | ")[2:]:
                sw = seg.split()
                states.append((sw[0], sw[1] == "1", [sint(x) % N for x in sw[2:6]]))
            cls = classify_cob(M, e, fmax)
            hist[meta["tag"]] = hist.get(meta["tag"], 0) + 1
            ctx.case("L%d:%s:e=%d:cob:%s:%x" % (lvl, curop[:24], e, meta["tag"], M[0]))
            if jP is None:
                continue
            X = lambda u, v: (lambda R: None if R is None else R[0])(E.lin2(u, jP, v, jQ, jPQ))
            a, b, c, d = M
            app_ok = (P1 == X(a, c) and Q1 == X(b, d) and D1 == X((a - b) % N, (c - d) % N))
            cob_ok = (r == M or r == [(-x) % N for x in M])
            if not app_ok:
                if K_APP_ZERO in cls:
                    ctx.violation(K_APP_ZERO, "matrix_application_even_basis(…, e) with e < POWER_OF_2 and a zero scalar (an entry, a-b or c-d ≡ 0 mod 2^e) returns a wrong point (ec_biscalar_mul_bounded)",
                                  rep(dict(matrix=["%x" % x for x in M])))
                else:
                    ctx.violation("c11:L%d:matrix_application-wrong-point:%s" % (lvl, meta["tag"]), "matrix_application_even_basis does not return (aP+cQ, bP+dQ, difference)",
                                  rep(dict(matrix=["%x" % x for x in M])))
            if app_ok and cob_ok and not [k for k in cls if k != K_APP_ZERO]:
                # cache-state independence: same round trip with the curve struct in the other A24-cache states
                for (st, sameapp, rs) in states:
                    ctx.case("L%d:cache-state:%s" % (lvl, st))
                    if not sameapp or not (rs == M or rs == [(-x) % N for x in M]):
                        ctx.violation("c11:L%d:result-depends-on-A24-cache-state:%s" % (lvl, st),
                                      "matrix_application / change_of_basis_matrix_two give a different (wrong) result when the caller's ec_curve_t has another state of its cached A24 "
                                      "(s1 fresh init + A,C; s2 rescaled (A:C); s3 flag clear with stale A24; s4 the constant CURVE_E0)",
                                      rep(dict(matrix=["%x" % x for x in M], state=st, got=["%x" % x for x in rs], same_points=sameapp)))
                        break
            if not app_ok:
                pass
            elif not cob_ok:
                rest = [k for k in cls if k != K_APP_ZERO]
                if rest:
                    for k in rest:
                        ctx.violation(k, "change_of_basis_matrix_two after matrix_application does not give back ±M on a degenerate matrix", rep(dict(matrix=["%x" % x for x in M], got=["%x" % x for x in r])))
                else:
                    ctx.violation("c11:L%d:change-of-basis-not-inverse:%s" % (lvl, meta["tag"]), "matrix_application then change_of_basis does not give back the matrix modulo 2^e up to sign",
                                  rep(dict(matrix=["%x" % x for x in M], got=["%x" % x for x in r])))
    ctx.obligation("oracle: pairing relations / matrix application / change of basis at level %d (%d ops)" % (lvl, len(ops)),
                   len(ctx.violations) == nbad0, "")

    # ---------------------------------------------------------------- dlog: C vs Lean model vs expected exponent
    for _ in range(6 if ctx.quick else 40):
        e = rng.choice([1, 2, 3, 5, 17, 64, fmax - 1, fmax, fmax + 1, 2 + rng.below(fmax)])
        while True:
            z = (rng.below(p), rng.below(p))
            g = F.pow(z, (p * p - 1) >> e)
            if e == 0 or F.pow(g, 1 << (e - 1)) != (1, 0):
                break
        a = rng.below(1 << e)
        dlog_cases.append((e, F.pow(g, a), g, a, "synthetic-member"))
        # non-member: element of order 2^(e+1) when available, else a random unit
        if e + 1 <= fmax + 1:
            h = F.pow(z, (p * p - 1) >> (e + 1))
            if F.pow(h, 1 << e) != (1, 0):
                dlog_cases.append((e, h, g, None, "non-member-order-2^(e+1)"))
        dlog_cases.append((e, (rng.below(p), 1 + rng.below(p - 1)), g, None, "non-member-random"))
        if e >= 2:
            dlog_cases.append((e, F.pow(g, a), F.sqr(g), "any", "base-of-smaller-order"))
    lines = ["dlog %x %x %x %x %x" % (e, f[0], f[1], g[0], g[1]) for (e, f, g, _, _) in dlog_cases]
    rc, dout, err = vlib.run_c([exe], lines)
    mlines = ["dlog.2e %x %x %x %x %x %x" % (lvl, e, f[0], f[1], g[0], g[1]) for (e, f, g, _, _) in dlog_cases]
    mout = ctx.driver(mlines) if have_driver else None
    dis = []
    for i, (e, f, g, exp, tag) in enumerate(dlog_cases):
        c = dout[i] if i < len(dout) else "<none rc=%d>" % rc
        hist["dlog:" + tag] = hist.get("dlog:" + tag, 0) + 1
        ctx.case("L%d:dlog:%s:e=%d:%d" % (lvl, tag, e, i))
        repd = dict(level=lvl, op=lines[i], result=c, how="drv_pairing level %d: `%s`" % (lvl, lines[i]))
        if exp is None:
            if c != "fail":
                ctx.violation("c11:L%d:dlog-accepts-non-member" % lvl, "fp2_dlog_2e answers for an element outside <g>", repd)
        elif exp != "any":
            if c != "ok %x" % exp:
                ctx.violation("c11:L%d:dlog-wrong:%s" % (lvl, tag), "fp2_dlog_2e does not return the exponent (g^a ↦ a)", dict(repd, expected="%x" % exp))
        if mout is not None:
            m = mout[i] if i < len(mout) else "<no output>"
            if m != c:
                dis.append(dict(op=lines[i][:120], impl=c, model=m, tag=tag))
    if mout is not None:
        ctx.evaluations += len(lines)
        ctx.obligation("correspondence fp2_dlog_2e lvl%d (%d ops)" % (lvl, len(lines)), not dis, json.dumps(dis[:3])[:600])
        ctx.coverage.setdefault("correspondence", {})["dlog_L%d" % lvl] = dict(ops=len(lines), disagreements=len(dis))
        if dis and not [v for v in ctx.violations if v["key"].startswith("c11:L%d:dlog" % lvl)]:
            ctx.violation("c11:L%d:dlog-model-correspondence" % lvl, "dlog model (SqiModel.Dlog) no longer describes fp2_dlog_2e; its answers were still correct on every explored input",
                          dict(level=lvl, disagreements=dis[:5], broken_obligations=["correspondence fp2_dlog_2e lvl%d" % lvl]), found=False)


def search(ctx):
    """proof obligation broke (e.g. generated cubical formulas changed): look for a failing pairing relation on real code"""
    sub = vlib.Ctx.__new__(vlib.Ctx)
    before = len(ctx.violations)
    try:
        run_level(ctx, 1, 2, False)
    except Exception as ex:      # noqa
        return None
    new = [v for v in ctx.violations[before:] if v["found"]]
    if new:
        v = new[0]
        ctx.violations.remove(v)
        return v["key"], v["what"], v["replay"]
    return None


def run(ctx):
    ctx.trusted += ["hand model SqiModel.Dlog tied to fp2_dlog_2e by the correspondence run; SqiGen.cubicalADD/cubicalDBL/xADD/xDBL_A24 regenerated from the C text (translator of engineer a2)",
                    "tools/props/a9_gfp2.py (exact GF(p^2) / affine Montgomery group law in Python integers)",
                    "NOT formalised: the monodromy ratio computed by weil() equals the Weil pairing (checked through its relations only)"]
    ctx.assumptions += ["bases of E[2^e] come from ec_curve_to_basis_2f (C10) on curves from the library's isogeny chains",
                        "degenerate inputs are those of the arithmetic classes in classify_weil / classify_cob (known findings); all other inputs must satisfy the property"]
    ok = vlib.proof_stage(ctx, ["SqiProps.C11"], searcher=lambda: search(ctx), extra_targets=["driver"])
    have_driver = ok and os.path.exists(os.path.join(vlib.LEAN, ".lake", "build", "bin", "driver"))
    ncur = {1: (2, 8), 3: (1, 3), 5: (1, 3)}
    for lvl in (1, 3, 5):
        run_level(ctx, lvl, ncur[lvl][0 if ctx.quick else 1], have_driver)
    return dict(level="proof", rule="one case = one (level, curve, e, input class) evaluation of weil / fp2_dlog_2e / matrix application + change of basis against the exact oracle; dlog answers also against the Lean model")

"""C12 — (2,2)-isogeny chains between elliptic products (theta_chain_comput_strategy / _faster_no_eval / _balanced).

Stages
  1. proof: `lake build SqiProps.C12` over tables regenerated from /repo (uses C18's row theorems), audit.
  2. tie H, traversal: hook traces of both strategy routines (both `eight_above` modes) and of the balanced
     recursion vs the traces of the Lean models (`SqiModel.ThetaChain`) — table rows of all levels, random valid
     strategies.
  3. end-to-end: Kani kernels on E0 x E0 built exactly like the library's `fixed_degree_isogeny`
     (endomorphism of norm u(2^n-u) from `represent_integer_non_diag`): all routines / modes / a random valid
     strategy give the same unordered pair of codomain j-invariants; pushing a full 2^f basis through the chain,
     one factor carries the Weil pairing to the power u and the other to 2^n-u (exact arithmetic in python on the
     printed pairing values).
Partial: chains shorter than ~log2(p)/2 (the short table rows, reached only inside signing) are covered by the
traversal theorem and the trace correspondence, not end to end; that the theta formulas compute the (2,2)-isogeny
with the given kernel is not formalised.
"""
import os, re, sys
import vlib
import chain_oracle as co
from c09 import table_rows, hx, DRV, LV, run_c, correspond


def random_strategy(rng, n):
    """uniformly-ish random valid strategy for n leaves (pre-order encoding)"""
    if n <= 1:
        return []
    # bias towards balanced splits but allow extreme ones
    b = 1 + rng.below(n - 1) if rng.below(4) == 0 else max(1, min(n - 1, n // 2 + rng.below(5) - 2))
    return [b] + random_strategy(rng, n - b) + random_strategy(rng, b)


def trace_lines(ctx, l, rows_sample):
    f = LV[l]["f"]
    lines = []
    for r in rows_sample:
        for which in (0, 1):
            lines.append("theta.trace %x %x %x 1 %x" % (l, r, f - r, which))          # 8-torsion above: n = f - row
            lines.append("theta.trace %x %x %x 0 %x" % (l, r, f - r + 2, which))      # n = f - row + 2
    return lines


def trace_stage(ctx, l, exe, rows_sample):
    rng = ctx.rng.fork("thetatrace%d" % l)
    lines = trace_lines(ctx, l, rows_sample)
    for _ in range(6 if ctx.quick else 60):
        ea = rng.below(2)
        n = 4 + rng.below(60)
        L = n - (0 if ea else 2)
        st = random_strategy(rng, L)
        lines.append("theta.trace.row %x %x %x %s" % (n, ea, rng.below(2), " ".join(hx(x) for x in st + [0, 0])))
    for n in sorted({4, 5, 6, 7, 9, 12, 20, 4 + rng.below(200), LV[l]["f"] - 2}):
        lines.append("theta.bal %x" % n)
    dis = correspond(ctx, "theta chain traces L%d" % l, lines, [exe], timeout=120 if ctx.quick else 1800)
    for ln in lines:
        ctx.case("trace:L%d:%s" % (l, " ".join(ln.split()[:5])))
    return dis


def minlen(l):
    return (LV[l]["p"].bit_length() + 22) // 2 + 1


def e2e_lines(ctx, l, lens):
    rng = ctx.rng.fork("thetae2e%d" % l)
    out = []
    for ln in lens:
        u = rng.bits(ln - 1) | 1 | (1 << (ln - 2))
        st = random_strategy(rng, ln)
        out.append(("theta.e2e %x %x %x %s" % (ln, u, len(st), " ".join(hx(x) for x in st)), ln, u))
    return out


def check_e2e(l, ln, u, res):
    K = co.Fp2(LV[l]["p"])
    f = LV[l]["f"]
    t = res.split()
    if t[0] == "notfound":
        return None
    fails = []
    js = {}
    for name in ("strat8", "fast8", "bal8", "rand8", "strat4", "fast4"):
        if name in t:
            i = t.index(name)
            js[name] = frozenset([t[i + 1], t[i + 2]])
    ref = js.get("strat8")
    for name, v in js.items():
        if v != ref:
            fails.append("%s: codomain j-invariants differ from theta_chain_comput_strategy (8-torsion above)" % name)
    e0 = co.parse_fp2(t[t.index("e0") + 1])
    if K.pow(e0, 2 ** (f - 1)) == (1, 0) or K.pow(e0, 2 ** f) != (1, 0):
        fails.append("harness: e0 not of order 2^f")
    want = {K.pow(e0, u), K.pow(e0, 2 ** ln - u)}
    for name in ("pair8", "pair4"):
        i = t.index(name)
        got = {co.parse_fp2(t[i + 1]), co.parse_fp2(t[i + 2])}
        if got != want:
            fails.append("%s: pairings of the pushed basis are not e^u and e^(2^n-u) on the two factors" % name)
    if "evalcmp" in t:
        i = t.index("evalcmp")
        names = ["(G,G')", "(K1_4.P1,G)", "(G,K1_4.P2)", "(K2_4.P1,G)", "(K2_4.P1+T2,G)", "(G,K2_4.P2)", "(K1_4.P1,K2_4.P2)"]
        for nm, fl in zip(names, t[i + 1:i + 8]):
            if fl[0] != "1":
                fails.append("evalcmp: theta_chain_eval_no_help != theta_chain_eval on the point %s" % nm)
            if fl[1] != "1":
                fails.append("evalcmp: [4]F(P) != F([4]P) for the point %s" % nm)
        kz = t[i + 8]
        if kz != "11":
            fails.append("evalcmp: theta_chain_eval_no_help does not send the kernel points K2_4 / K1_4 to (0,0) (flags %s)" % kz)
    return fails


def run_e2e(ctx, l, exe, lens, tag="kani"):
    cases = e2e_lines(ctx, l, lens)
    rc, outs, err = run_c([exe], [c[0] for c in cases], timeout=150 if ctx.quick else 1800)
    bad = nf = 0
    for i, (line, ln, u) in enumerate(cases):
        if i >= len(outs):
            ctx.violation("e2e:L%d:crash:len=%d" % (l, ln), "real code crashed in the (2,2)-chain end-to-end run",
                          dict(level=l, op=line[:300], rc=rc, stderr=err[-1500:]))
            bad += 1
            break
        fails = check_e2e(l, ln, u, outs[i])
        ctx.case("e2e:L%d:len=%d" % (l, ln))
        if fails is None:
            nf += 1
            continue
        if fails:
            if ctx.violation("e2e:L%d:len=%d:%s" % (l, ln, fails[0].split(":")[0]),
                             "(2,2)-chain: " + "; ".join(fails), dict(level=l, op=line[:400], length=ln, u=hex(u), failed=fails)):
                bad += 1
    ctx.coverage.setdefault("e2e", {})["L%d" % l] = dict(chains=len(cases), represent_integer_failed=nf, lengths=[c[1] for c in cases])
    ctx.obligation("end-to-end %s L%d (%d kernels x 6 routine/mode/strategy variants)" % (tag, l, len(cases) - nf), bad == 0 and nf < len(cases),
                   "%d failing, %d without a representation" % (bad, nf))
    return bad


DRV_SV = os.path.join(vlib.ROOT, "tools", "harness", "drv_chain_sv.c")
WRAP = ["-Wl,--wrap=theta_chain_comput_strategy", "-Wl,--wrap=theta_chain_comput_strategy_faster_no_eval"]


def sv_stage(ctx, l, v2s, nmsg):
    """chains arising inside honest sign/verify (dim-2 variant) with the response's 2-valuation steered by the H1 hook:
    the short rows (n = response_length - two_resp_length) on real kernels. Every intercepted call is replayed with the
    other routine / a random strategy / balanced / the eight_above=0 form, and its hook trace is given to the model."""
    try:
        exe = ctx.cc_harness(DRV_SV, os.path.join(ctx.tmp, "drv_chain_sv%d" % l), l, extra=WRAP)
    except vlib.BuildError as e:
        ctx.obligation("sign/verify interception driver L%d builds" % l, False, str(e)[:300])
        return
    rng = ctx.rng.fork("sv%d" % l)
    ops = ["sv %d %x %d" % (v2, rng.bits(48), nmsg) for v2 in v2s]
    rc, outs, err = run_c([exe], ops, timeout=200 if ctx.quick else 1700)
    bad = 0
    seen = ctx.coverage.setdefault("sign_verify_chains", {}).setdefault("L%d" % l, {})
    model_ops, model_exp, model_key = [], [], []
    for i, op in enumerate(ops):
        if i >= len(outs):
            ctx.violation("sv:L%d:crash:%s" % (l, op.split()[1]), "keygen/sign/verify crashed or hung with the chain interception",
                          dict(level=l, op=op, rc=rc, stderr=err[-1200:]))
            bad += 1
            break
        parts = outs[i].split(" | ")
        head = dict(kv.split("=") for kv in parts[0].split()[1:])
        if head.get("sign") == "1" and head.get("verif") != "1":
            if ctx.violation("sv:L%d:honest-signature-rejected:v2=%s" % (l, head.get("v2")), "an honest signature does not verify",
                             dict(level=l, op=op, head=head)):
                bad += 1
        for rec in parts[1:]:
            fields = [f.strip() for f in rec.split(" ; ")]
            c = fields[0].split()
            which, n, ea, L = (int(x, 16) for x in c[1:5])
            strat = c[5:]
            key = "n=%d ea=%d %s" % (n, ea, "strategy" if which == 0 else "faster_no_eval")
            seen[key] = seen.get(key, 0) + 1
            ctx.case("sv:L%d:%s" % (l, key))
            js, tr, split = {}, None, None
            for f in fields[1:]:
                t = f.split()
                if t[0] == "T":
                    tr = " ".join(t[1:])
                elif t[0] == "S":
                    split = t[1]
                elif t[0] == "J":
                    js[t[1]] = frozenset(t[2:4])
            fails = []
            if split != "1":
                fails.append("real: chain reports a non-split codomain on an honest kernel")
            for name, v in js.items():
                if v != js.get("real"):
                    fails.append("%s: codomain j-invariants differ from the routine the protocol called" % name)
            if fails:
                if ctx.violation("sv:L%d:%s:%s" % (l, key.replace(" ", ":"), fails[0].split(":")[0]), "(2,2)-chain inside sign/verify: " + "; ".join(fails),
                                 dict(level=l, op=op, chain=dict(which=which, n=n, eight_above=ea, strategy=strat), failed=fails)):
                    bad += 1
            if tr is not None and tr != "":
                model_ops.append("theta.trace.row %x %x %x %s 0 0" % (n, ea, which, " ".join(strat)))
                model_exp.append(tr)
                model_key.append((op, key))
    if model_ops:
        mout = ctx.driver(model_ops)
        dis = [(k, e, m) for k, e, m in zip(model_key, model_exp, mout) if e != m]
        ctx.obligation("correspondence theta traces inside sign/verify L%d (%d chains)" % (l, len(model_ops)), not dis,
                       str(dis[:2])[:500] if dis else "")
        for (op, key), e, m in dis[:2]:
            ctx.violation("sv-trace:L%d:%s" % (l, key.replace(" ", ":")), "traversal trace of a chain inside sign/verify differs from the model",
                          dict(level=l, op=op, chain=key, impl=e[:300], model=m[:300]), found=False)
    ctx.obligation("sign/verify chains L%d (%d runs)" % (l, len(ops)), bad == 0, "%d failing" % bad)


def skeleton_stage(ctx, l, rows):
    """tie T: integer skeletons of both strategy routines re-extracted from the C text vs the hand model, executed on
    every table row in both modes (8-torsion above: n = f - row; else n = f - row + 2)"""
    f = LV[l]["f"]
    ops = []
    for r in range(rows):
        for w in (0, 1):
            ops.append("skel.theta %x %x %x 1 %x" % (l, r, f - r, w))
            ops.append("skel.theta %x %x %x 0 %x" % (l, r, f - r + 2, w))
    ops += ["skel.theta %x 0 3 0 0" % l, "skel.theta %x 0 1 1 1" % l, "skel.theta %x 5 %x 1 0" % (l, f)]   # degenerate / mismatched: faults on both sides
    outs = ctx.driver(ops)
    bad = [(o_, r_) for o_, r_ in zip(ops, outs) if not r_.startswith("1 ")]
    ctx.evaluations += len(ops)
    ctx.obligation("integer skeletons (SqiGen.ChainSkel) = hand model on every strategies row, both routines, both modes L%d (%d runs)" % (l, len(ops)),
                   not bad, str(bad[:1])[:500])
    for o_, r_ in bad[:1]:
        ctx.violation("skeleton:L%d:%s" % (l, " ".join(o_.split()[2:])), "the integer skeleton re-extracted from the theta chain routine no longer matches the model of the theorems",
                      dict(level=l, op=o_, comparison=r_[:1500], how="lean driver op; real code: theta.trace with the same row/n/mode on the sanitizer build"), found=False)


def rec_skeleton_stage(ctx):
    """tie T: integer skeleton of the balanced recursion theta_chain_comput_rec (re-extracted from the C text) vs the
    hand model `balanced n` (steps, kernel exponents, final stack, fault status), executed for every n in a range"""
    hi = 0x101 if ctx.quick else 0x401
    out = ctx.driver(["skel.rec 4 %x" % hi])[0].split()
    ctx.evaluations += hi - 4
    ok = len(out) == 2 and out[0] == "0"
    ctx.obligation("integer skeleton of theta_chain_comput_rec (SqiGen.ChainSkel) = hand model balanced n for 4 <= n < %d" % hi, ok, " ".join(out)[:200])
    if not ok:
        ctx.violation("skeleton:rec", "the integer skeleton re-extracted from theta_chain_comput_rec no longer matches the model of balanced_chain_sound",
                      dict(op="skel.rec 4 %x" % hi, comparison=" ".join(out)[:500], how="lean driver op; real code: theta.bal traces on the sanitizer build"), found=False)


def search_caller(ctx):
    """concrete failing chain length for the caller theta_chain_comput_balanced (constants re-extracted from the C text)"""
    sys.path.insert(0, os.path.join(os.path.dirname(os.path.dirname(os.path.abspath(__file__))), "translate"))
    import balcaller
    try:
        r = balcaller.find_failing_n(vlib.REPO)
    except Exception as e:
        ctx.log("search: caller extraction failed: %s" % str(e)[:300])
        return None
    if r is None:
        return None
    n, why = r
    return ("caller:balanced:n=%d" % n, "theta_chain_comput_balanced leaves its stacks / out->steps for chain length %d: %s" % (n, why),
            dict(n=n, reason=why, how="python: tools/translate/balcaller.py find_failing_n(repo); real code: tools/harness/drv_chain.c op `theta.bal %x` (sanitizer build)" % n))


def search(ctx):
    r = search_caller(ctx)
    if r is not None:
        return r
    ctx.lake(["driver"])
    try:
        for l in (1, 3, 5):
            _, rows = table_rows(l)
            f = LV[l]["f"]
            ops, meta = [], []
            for r in range(rows):
                for ea in (1, 0):
                    n = f - r + (0 if ea else 2)
                    ops.append("theta.summary %x %x %x %x" % (l, r, n, ea)); meta.append((r, n, ea))
            for (r, n, ea), o in zip(meta, ctx.driver(ops)):
                t = o.split()
                L = n - (0 if ea else 2)
                if len(t) != 3 or t[0] != "0" or int(t[1], 16) != L - 1 or int(t[2], 16) != n:
                    tr = ctx.driver(["theta.trace %x %x %x %x 0" % (l, r, n, ea)])[0]
                    return ("model:L%d:row=%d:ea=%d" % (l, r, ea),
                            "strategy row does not drive theta_chain_comput_strategy correctly (model run: fault / wrong number of steps)",
                            dict(level=l, row=r, n=n, eight_above=ea, model_summary=o, model_trace_tail=tr[-300:],
                                 how="lean driver: theta.trace %x %x %x %x 0; real code: tools/harness/drv_chain.c same op (sanitizer build)" % (l, r, n, ea)))
    except Exception as e:
        ctx.log("search: model run failed: %s" % e)
    try:
        for l in (1, 3, 5):
            exe = ctx.cc_harness(DRV, os.path.join(ctx.tmp, "drv_chain_s%d" % l), l)
            f = LV[l]["f"]
            before = len(ctx.violations)
            run_e2e(ctx, l, exe, list(range(minlen(l), f - 1, 3 if l == 1 else 9)), "search")
            if len(ctx.violations) > before:
                v = ctx.violations.pop()
                return (v["key"], v["what"], v["replay"])
    except vlib.BuildError as e:
        ctx.log("search: build failed: %s" % str(e)[:300])
    return None


def classify(ctx, l, exe, d):
    """trace disagreement: does the real code still compute the right codomain on chains of that length?"""
    t = d["op"].split()
    f = LV[l]["f"]
    lens = []
    if t[0] == "theta.trace":
        n = int(t[3], 16); ea = int(t[4], 16)
        if minlen(l) <= n <= f - 2:
            lens = [n]
    before = len(ctx.violations)
    if lens:
        run_e2e(ctx, l, exe, lens, "classification")
    if len(ctx.violations) == before:
        try:
            sexe = ctx.cc_harness(DRV, os.path.join(ctx.tmp, "drv_chain_san%d" % l), l, san=True)
            rc, outs, err = run_c([sexe], [d["op"]], timeout=60, env={"UBSAN_OPTIONS": "print_stacktrace=0"})
            if rc != 0 and ("AddressSanitizer" in err or "runtime error" in err):
                ctx.violation("trace:L%d:%s:memory" % (l, " ".join(t[:5])), "theta chain routine leaves its arrays / tables (sanitizer abort)",
                              dict(level=l, op=d["op"][:300], sanitizer=err[-1200:], model=d["model"][:300], impl=d["impl"][:300]))
        except vlib.BuildError as e:
            ctx.log("classification: sanitizer build failed: %s" % str(e)[:200])
    if len(ctx.violations) == before:
        ctx.violation("trace:L%d:%s" % (l, " ".join(t[:5])), "traversal trace of the theta chain routine differs from the model",
                      dict(level=l, op=d["op"][:200], impl=d["impl"][:400], model=d["model"][:400]), found=False)


def run(ctx):
    ctx.trusted += ["tools/translate/tables.py (strategies extraction)",
                    "hand model SqiModel.ThetaChain tied by hook-trace correspondence (tools/harness/drv_chain.c)",
                    "library routines used to *build* Kani kernels (represent_integer_non_diag, endomorphism_application_even_basis, weil)",
                    "hooks: SQISIGN_VERIF_TRACE calls in theta_chain_comput_strategy(_faster_no_eval), theta_chain_comput_rec/balanced"]
    mods = ["SqiProps.C12"]
    if os.path.exists(os.path.join(vlib.LEAN, "SqiProps", "C12F.lean")):
        mods.append("SqiProps.C12F")
    vlib.proof_stage(ctx, mods, searcher=lambda: search(ctx), extra_targets=("driver",))
    ctx.lake(["driver"])
    levels = (1, 3, 5)
    rec_skeleton_stage(ctx)
    for l in levels:
        exe = ctx.cc_harness(DRV, os.path.join(ctx.tmp, "drv_chain_%d" % l), l)
        _, rows = table_rows(l)
        f = LV[l]["f"]
        rng = ctx.rng.fork("rows%d" % l)
        if ctx.quick:
            rs = sorted({0, 1, 2, 3, rows - 1, rows - 2} | {rng.below(rows) for _ in range(8)})
        else:
            rs = list(range(rows))
        skeleton_stage(ctx, l, rows)
        for d in trace_stage(ctx, l, exe, rs)[:3]:
            classify(ctx, l, exe, d)
        lo = minlen(l)
        if ctx.quick:
            lens = sorted({lo, f - 2, f - 3} | {lo + rng.below(f - 2 - lo) for _ in range(3 if l == 1 else 2)})
        else:
            lens = list(range(lo, f - 1, 1 if l == 1 else 4))
        run_e2e(ctx, l, exe, lens)
        if ctx.quick:
            sv_stage(ctx, l, [-1, 2, 5, 8] if l == 1 else [3], 6)
        else:
            sv_stage(ctx, l, list(range(-1, 14)), 40)
        ctx.sample(dict(level=l, rows=rs[:10], e2e_lengths=lens[:10]))
    return dict(level="proof",
                rule="one case = one (level, table row | random strategy, mode, routine) trace or one Kani kernel (level, length, u) "
                     "through 6 routine/mode/strategy variants; theorems are unbounded in n and strategy",
                explanation="partial: short chains (below ~log2(p)/2) only by theorem + trace; theta formulas = (2,2)-isogeny not formalised")

"""C13 — ideal-to-isogeny translation evaluates the isogeny attached to the ideal.

Proof stage: SqiProps.C13 (linear-algebra core over ZMod 2^f with the generated action matrices: the generator built from a
kernel vector annihilates it; [v | θv] invertible for every f and every v with an odd coordinate; ideal→kernel→ideal round
trip on cyclic subgroups; find_uv step soundness; fixed_degree_isogeny index range and its negation).
Tie H: tools/harness/drv_id2iso.c: `id2iso_kernel_dlogs_to_ideal_two` / `id2iso_ideal_to_kernel_dlogs_even` on random kernel
vectors for f stratified in [1, POWER_OF_2] against the Lean driver (`c13.k2i`): the model's generator must lie in the C
ideal, the ideal must have norm 2^f, the model's generator must kill the vector, and the C kernel vector of that ideal must be
an odd multiple of the input vector. `find_uv` outputs are re-checked exactly (u·d1 + v·d2 = 2^j·2^f, norms of β1, β2
recomputed from raw coordinates, containment). Partial part (Deuring / Kani not formalised) by observation: for random ideals
of prime norm (~log p bits and smaller) and an equivalent ideal I·conj(γ)/N(I): image basis points of exact order 2^f (exact
oracle), Weil pairing of the image = e(P0,Q0)^N(I), equal j-invariants."""
import json, os
import vlib
from a9_gfp2 import Fp2, Mont, hx

HARNESS = os.path.join(vlib.ROOT, "tools", "harness")
K_SMALL = "ideal_to_isogeny:small-prime-norm:explicit-failure"


def sint(s):
    return -int(s[1:], 16) if s[0] == "-" else int(s, 16)


def shex(z):
    return ("-%x" % -z) if z < 0 else ("%x" % z)


def pt(ws):
    return None if ws[0] == "inf" else (hx(ws[0]), hx(ws[1]))


def f_values(rng, lvl, quick):
    fmax = vlib.LEVELS[lvl]["f"]
    vals = {1, 2, 3, fmax, fmax - 1, vlib.LEVELS[lvl]["resp"]} | {4 + rng.below(fmax - 5) for _ in range(3 if quick else 30)}
    return sorted(vals)


def dictionaries(ctx, lvl, exe, have_driver):
    rng = ctx.rng.fork("c13dict%d" % lvl)
    cases = []
    for f in f_values(rng, lvl, ctx.quick):
        N = 1 << f
        for kind in ("v0-odd", "v1-odd", "both-odd", "unit-vector"):
            if kind == "v0-odd":
                v = (rng.below(N) | 1, (rng.below(N) & ~1) % N)
            elif kind == "v1-odd":
                v = ((rng.below(N) & ~1) % N, rng.below(N) | 1)
            elif kind == "both-odd":
                v = (rng.below(N) | 1, rng.below(N) | 1)
            else:
                v = rng.choice([(1, 0), (0, 1), (1, 1), (N - 1, 1)])
            cases.append((f, (v[0] % N, v[1] % N), kind))
    if not have_driver:
        ctx.obligation("Lean driver available for the C13 dictionaries", False, "driver missing"); return
    mout = ctx.driver(["c13.k2i %x %x %x %x" % (lvl, f, v[0], v[1]) for f, v, _ in cases])
    ops, meta = [], []
    for (f, v, kind), m in zip(cases, mout):
        ws = m.split()
        g = [sint(x) for x in ws[3:7]]
        ops += ["k2i %x %x %x" % (f, v[0], v[1]), "contains %s %s %s %s 2" % tuple(shex(x) for x in g), "i2k"]
        meta.append((f, v, kind, ws))
    rc, out, err = vlib.run_c([exe], ops)
    if len(out) != len(ops):
        i = len(out)
        ctx.violation("c13:L%d:dictionary-crash" % lvl, "kernel<->ideal dictionary crashed", dict(level=lvl, ops=ops[max(0, i - 3):i + 1], stderr=err[-1200:])); return
    dis = []
    for i, (f, v, kind, ws) in enumerate(meta):
        N = 1 << f
        norm, cont, w = out[3 * i], out[3 * i + 1], out[3 * i + 2].split()
        ctx.case("L%d:dict:f=%d:%s" % (lvl, f, kind))
        rep = dict(level=lvl, ops=ops[3 * i:3 * i + 3], results=out[3 * i:3 * i + 3], model=" ".join(ws)[:200],
                   how="drv_id2iso level %d: feed the ops; Lean driver: c13.k2i %x %x %x %x" % (lvl, lvl, f, v[0], v[1]))
        if ws[0] != "ok":
            dis.append(dict(case=rep, why="model: [v|θv] not invertible for a vector with an odd coordinate (contradicts kernel_matrix_invertible)"))
            continue
        if (sint(ws[7]) % N, sint(ws[8]) % N) != (0, 0):
            dis.append(dict(case=rep, why="model generator does not kill the kernel vector"))
        if hx(norm) != N:
            ctx.violation("c13:L%d:kernel_to_ideal:norm!=2^f" % lvl, "id2iso_kernel_dlogs_to_ideal_two returns an ideal whose norm is not 2^f", rep)
        if cont != "1":
            dis.append(dict(case=rep, why="model generator a − i + b(j+(1+k)/2) is not in the C ideal"))
        w = (hx(w[0]) % N, hx(w[1]) % N)
        if not ((w[0] | w[1]) & 1) or (w[0] * v[1] - w[1] * v[0]) % N != 0:
            ctx.violation("c13:L%d:dictionaries-not-inverse:%s" % (lvl, kind), "ideal_to_kernel(kernel_to_ideal(v)) does not generate the same cyclic subgroup as v (not an odd multiple of v mod 2^f)", rep)
    ctx.evaluations += len(ops)
    ctx.obligation("correspondence kernel<->ideal dictionaries lvl%d (%d vectors)" % (lvl, len(meta)), not dis, json.dumps(dis[:2])[:600])
    ctx.coverage.setdefault("correspondence", {})["dict_L%d" % lvl] = dict(vectors=len(meta), disagreements=len(dis))
    if dis and not [x for x in ctx.violations if x["key"].startswith("c13:L%d" % lvl)]:
        ctx.violation("c13:L%d:model-correspondence" % lvl, "linear-algebra model (SqiModel.IdealKernel) no longer describes id2iso_kernel_dlogs_to_ideal_two",
                      dict(disagreements=dis[:3], broken_obligations=["correspondence kernel<->ideal dictionaries lvl%d" % lvl]), found=False)


def endomorphisms(ctx, lvl, exe, have_driver):
    """endomorphism_application_even_basis vs the Lean matrix of the element (c13.endo, the map proved to be a ring homomorphism) and the
    affine group law on E0: images of the 2^f-torsion basis must be M·(P, Q), incl. products: M(x)M(y) = M(x·y) is also exercised on the
    curve by applying x·y computed with the proved product formula (o0mul)"""
    if not have_driver:
        return
    L = vlib.LEVELS[lvl]
    p, fmax = L["p"], L["f"]
    q = (p + 1) // 4
    F = Fp2(p)
    E0 = Mont(F, (0, 0))
    rng = ctx.rng.fork("c13endo%d" % lvl)

    def o0mul(x, y):
        x0, x1, x2, x3 = x; y0, y1, y2, y3 = y
        return (x0 * y0 - x1 * y1 - x1 * y2 - q * x2 * y2 - q * x3 * y3, x0 * y1 + x1 * y0 + x1 * y3 + q * x2 * y3 - q * x3 * y2,
                x0 * y2 + x2 * y0 - x1 * y3 + x3 * y1 + x3 * y2, x0 * y3 + x3 * y0 + x1 * y2 - x2 * y1 + x3 * y3)
    cases = []
    fs = [fmax, fmax - 1, 3 + rng.below(fmax - 4)] if ctx.quick else [fmax, fmax - 1, 2, 3, 64, 65] + [3 + rng.below(fmax - 4) for _ in range(4)]
    for f in fs:
        for _ in range(2):
            x = tuple(rng.below(1 << 70) - (1 << 69) for _ in range(4)); y = tuple(rng.below(1 << 40) - (1 << 39) for _ in range(4))
            for c in (x, y, o0mul(x, y), (0, 1, 0, 0), (0, 0, 1, 0), (0, 0, 0, 1)):
                g = 0
                from math import gcd
                for v in c: g = gcd(g, abs(v))
                if g != 1 and c not in ((0, 1, 0, 0), (0, 0, 1, 0), (0, 0, 0, 1)):
                    c = tuple(v // g for v in c) if g else c     # the C routine applies the primitive part (content is dropped)
                if any(c):
                    cases.append((f, c))
    mout = ctx.driver(["c13.endo %x %x %s %s %s %s" % ((lvl, f) + tuple(shex(v) for v in c)) for f, c in cases])
    ops = ["endo %x %s %s %s %s 2" % ((f,) + tuple(shex(v) for v in (2 * c[0] + c[3], 2 * c[1] + c[2], c[2], c[3]))) for f, c in cases]
    rc, out, err = vlib.run_c([exe], ops)
    dis = []
    for i, (f, c) in enumerate(cases):
        ctx.case("L%d:endo:f=%d:%d" % (lvl, f, i))
        if i >= len(out):
            ctx.violation("c13:L%d:endomorphism_application:crash" % lvl, "endomorphism_application_even_basis crashed", dict(level=lvl, op=ops[i], stderr=err[-600:])); return
        img, base = out[i].split(" | ")
        iw, bw = img.split(), base.split()
        P0, Q0, D0 = pt(bw[0:2]), pt(bw[2:4]), pt(bw[4:6])
        jP, jQ = E0.lift(P0), E0.lift(Q0)
        d = E0.sub(jP, jQ)
        if d is None or d[0] != D0:
            jQ = E0.neg(jQ)
        jPQ = E0.add(jP, jQ)
        N = 1 << f
        m = [sint(v) % N for v in mout[i].split()]
        X = lambda u, v: (lambda Rr: None if Rr is None else Rr[0])(E0.lin2(u % N, jP, v % N, jQ, jPQ))
        exp = (X(m[0], m[2]), X(m[1], m[3]), X(m[0] - m[1], m[2] - m[3]))
        got = (pt(iw[0:2]), pt(iw[2:4]), pt(iw[4:6]))
        if got != exp:
            dis.append(dict(op=ops[i], model=mout[i][:120], which=[k for k in range(3) if got[k] != exp[k]]))
    ctx.evaluations += len(cases)
    ctx.obligation("correspondence endomorphism_application_even_basis = matrix of the element (lvl%d, %d elements incl. products)" % (lvl, len(cases)), not dis, json.dumps(dis[:2])[:500])
    if dis:
        ctx.violation("c13:L%d:endomorphism_application-not-the-matrix" % lvl, "endomorphism_application_even_basis does not move the 2^f-torsion basis of E0 by the matrix of the element (affine group law oracle)",
                      dict(level=lvl, disagreements=dis[:3], how="drv_id2iso level %d: feed the op; Lean driver c13.endo for the matrix" % lvl))


def even_isogenies(ctx, lvl, exe):
    """id2iso_ideal_to_isogeny_even_dlogs on ideals of norm 2^k for EVERY k (level 1) / stratified incl. all k in [56, 80] (levels 3, 5, quick):
    length = k, returned dlogs = 2^(f-k)·w with w an odd multiple of the kernel vector, kernel point of exact order 2^k on E0"""
    L = vlib.LEVELS[lvl]
    p, fmax = L["p"], L["f"]
    F = Fp2(p)
    E0 = Mont(F, (0, 0))
    rng = ctx.rng.fork("c13even%d" % lvl)
    if lvl == 1 or not ctx.quick:
        ks = list(range(1, fmax + 1))
    else:
        ks = sorted(set([1, 2, 3, fmax, fmax - 1] + list(range(56, 81)) + list(range(120, 136)) + [4 + rng.below(fmax - 5) for _ in range(10)]))
    ops, meta = [], []
    for k in ks:
        N = 1 << k
        v = (rng.below(N) | 1, rng.below(N)) if rng.below(2) else (rng.below(N), rng.below(N) | 1)
        v = (v[0] % N, v[1] % N)
        ops += ["k2i %x %x %x" % (k, v[0], v[1]), "i2iso"]
        meta.append((k, v))
    rc, out, err = vlib.run_c([exe], ops)
    for i, (k, v) in enumerate(meta):
        ctx.case("L%d:even-isogeny:k=%d" % (lvl, k))
        rep = dict(level=lvl, ops=ops[2 * i:2 * i + 2], results=out[2 * i:2 * i + 2] if len(out) > 2 * i + 1 else out[2 * i:], stderr=(err[-600:] if len(out) <= 2 * i + 1 else ""),
                   how="drv_id2iso level %d: feed the two ops" % lvl)
        if len(out) <= 2 * i + 1:
            ctx.violation("c13:L%d:ideal_to_isogeny_even:crash" % lvl, "id2iso_ideal_to_isogeny_even_dlogs crashed on an ideal of norm 2^k (k = %d)" % k, rep)
            return
        head, kx = out[2 * i + 1].split(" | ")
        hw = head.split()
        length, d = hx(hw[0]), (sint(hw[1]) % (1 << fmax), sint(hw[2]) % (1 << fmax))
        N = 1 << k
        sh = fmax - k
        bad = []
        if length != k:
            bad.append("isog.length = %d, expected k = %d" % (length, k))
        if d[0] % (1 << sh) or d[1] % (1 << sh):
            bad.append("returned dlogs are not multiples of 2^(f-k)")
        else:
            w = ((d[0] >> sh) % N, (d[1] >> sh) % N)
            if not ((w[0] | w[1]) & 1) or (w[0] * v[1] - w[1] * v[0]) % N:
                bad.append("returned dlogs / 2^(f-k) are not an odd multiple of the kernel vector")
        K = pt(kx.split())
        if K is None or E0.x_order_pow2(K, fmax) != k:
            bad.append("kernel point does not have exact order 2^k")
        if bad:
            ctx.violation("c13:L%d:ideal_to_isogeny_even:%s" % (lvl, "k>=63" if k >= 63 else "k<63"), "id2iso_ideal_to_isogeny_even_dlogs on an ideal of norm 2^%d: %s" % (k, "; ".join(bad)), dict(rep, failures=bad))
            return


def isogenies(ctx, lvl, exe, nideals):
    L = vlib.LEVELS[lvl]
    p, fmax = L["p"], L["f"]
    F = Fp2(p)
    rng = ctx.rng.fork("c13iso%d" % lvl)
    bits_p = p.bit_length()
    ROWS = {1: 134, 3: 198, 5: 260}[lvl]

    def fdi_rejects(b):          # SqiModel.IdealKernel.fdiGuardRejects with length = bits(p) + 15 − b (theorems fdi_guard_text / fdi_guard_sound)
        length = bits_p + 15 - b
        return length + 2 > fmax or fmax - length >= ROWS or b > length
    rc, o0, err = vlib.run_c([exe], ["w0"])
    out = ["ok", o0[0]]
    ops = ["seed", "w0"]
    plan = []
    for i in range(nideals):
        bits = [bits_p, bits_p // 2, 40, bits_p - 7][i % 4]
        one = ["seed %096x" % rng.bits(380), "ideal %x" % bits, "finduv 0", "eval 0", "equiv", "finduv 1", "eval 1"]
        rc, o, err = vlib.run_c([exe], one)
        if len(o) < len(one):
            k = len(o)
            # predicted by the index model? (u or v of find_uv outside the table-derived range of fixed_degree_isogeny)
            fu = o[k - 1].split() if k >= 1 and one[k - 1].startswith("finduv") else None
            pred = False
            ctx.case("L%d:ideal:%dbits:crash" % (lvl, bits))
            rep = dict(level=lvl, ops=one[:k + 1], last_output=(o[k - 1][:300] if k else ""), stderr=err[-800:], rc=rc,
                       how="drv_id2iso level %d: feed the ops (deterministic DRBG); theorem L1_fdi_index_negation predicts the out-of-range strategy row" % lvl)
            if pred:
                ctx.violation("c13:unreachable", "dim2id2iso_arbitrary_isogeny_evaluation crashes on an O0-ideal of small prime norm: find_uv returns u (or v) whose bit length is outside the range for which "
                              "fixed_degree_isogeny's `length = bits(p)+15−bits(u)` satisfies u < 2^length and indexes the strategy table (disabled asserts: 2^length − u < 0 reaches mpz_sqrt of a negative number in represent_integer_non_diag → SIGFPE, or the strategy row is out of the table)", rep)
            else:
                ctx.violation("c13:L%d:ideal-to-isogeny-crash" % lvl, "ideal-to-isogeny translation crashed on an ideal of odd norm", rep)
            continue
        ops += one[1:]; out += o[1:]
        plan.append((bits, one))
    w0 = (hx(out[1].split()[0]), hx(out[1].split()[1]))
    N2f = 1 << fmax
    if not (F.pow(w0, N2f) == (1, 0) and F.pow(w0, N2f // 2) == (p - 1, 0)):
        ctx.violation("c13:L%d:reference-pairing" % lvl, "e(P0,Q0) of BASIS_EVEN does not have exact order 2^f", dict(w0=out[1]))
    idx = 2
    for bits, one in plan:
        normI = hx(out[idx]); rep0 = dict(level=lvl, ops=one, how="drv_id2iso level %d: feed the ops (deterministic DRBG)" % lvl)
        js = []
        for which, (o_fuv, o_eval, nm) in enumerate(((out[idx + 1], out[idx + 2], normI), (out[idx + 4], out[idx + 5], None))):
            if which == 1:
                if out[idx + 3] == "fail":
                    continue
                nm = hx(out[idx + 3])
            ctx.case("L%d:ideal:%dbits:%s" % (lvl, bits, "I" if which == 0 else "equivalent"))
            rep = dict(rep0, which=which, norm="%x" % nm, finduv=o_fuv[:300], eval=o_eval[:300])
            # ---- find_uv re-check
            parts = o_fuv.split(" | ")
            ws = parts[0].split()
            if ws[0] == "1":
                u, v, d1, d2 = (sint(x) for x in ws[1:5])
                tot = u * d1 + v * d2
                okpow = tot % N2f == 0 and (tot // N2f) & ((tot // N2f) - 1) == 0 and tot // N2f >= 1
                n1 = ws[5] != "x" and sint(ws[5]) == d1
                n2 = ws[6] != "x" and sint(ws[6]) == d2
                # independent recomputation of the norms from the raw coordinates: (x0²+x1²+p(x2²+x3²))/den² = d·N(I)
                ind = []
                for part, d in ((parts[1], d1), (parts[2], d2)):
                    c = [sint(x) for x in part.split()]
                    num = c[0] ** 2 + c[1] ** 2 + p * (c[2] ** 2 + c[3] ** 2)
                    ind.append(num == d * nm * c[4] ** 2)
                if not (okpow and u > 0 and v > 0 and n1 and n2 and all(ind) and ws[7] == "1" and ws[8] == "1" and (d1 % 2 or d2 % 2)):
                    ctx.violation("c13:L%d:find_uv-unsound" % lvl, "find_uv returned a tuple that fails the re-check (u·d1+v·d2 = 2^j·2^f, N(β_i) = d_i·N(I), β_i ∈ I)",
                                  dict(rep, checks=dict(power=okpow, norm1=n1, norm2=n2, independent=ind, in1=ws[7], in2=ws[8])))
            # ---- evaluation
            ev = o_eval.split(" | ")
            h = ev[0].split()
            if h[0] != "1":
                ctx.coverage["eval_failures"] = ctx.coverage.get("eval_failures", 0) + 1
                fu = o_fuv.split(" | ")[0].split()
                pred = fu[0] == "1" and all(sint(x) > 0 for x in fu[1:3]) and any(fdi_rejects(sint(x).bit_length()) for x in fu[1:3])
                if pred:
                    ctx.violation(K_SMALL, "dim2id2iso_arbitrary_isogeny_evaluation reports failure (returns 0, no curve, no image basis) on an O0-ideal of small prime norm: find_uv returns u (or v) "
                                  "whose bit length the range guard of fixed_degree_isogeny rejects (length = bits(p)+15−bits(u) must satisfy length+2 ≤ f, f−length < #strategies, bits(u) ≤ length) and "
                                  "there is no retry with another (u, v): the property asks for a curve and image for every left ideal of odd norm", rep)
                else:
                    ctx.violation("c13:L%d:translation-failed" % lvl, "dim2id2iso_arbitrary_isogeny_evaluation returned 0 on an ideal of odd norm although u and v pass the range guard of fixed_degree_isogeny", rep)
                continue
            A, C = (hx(h[1]), hx(h[2])), (hx(h[3]), hx(h[4]))
            if F.is_zero(C) or F.is_zero(F.sub(F.sqr(F.div(A, C)), (4, 0))):
                ctx.violation("c13:L%d:image-basis:singular-codomain" % lvl, "dim2id2iso_arbitrary_isogeny_evaluation returned a singular / undefined codomain curve", rep)
                continue
            E = Mont(F, F.div(A, C))
            b = ev[1].split()
            P, Q, D = pt(b[0:2]), pt(b[2:4]), pt(b[4:6])
            w = (hx(ev[2].split()[0]), hx(ev[2].split()[1]))
            bad = []
            for nme, x in (("P", P), ("Q", Q), ("PmQ", D)):
                if x is None or not F.is_square(E.rhs(x)):
                    bad.append("%s not on the codomain" % nme); continue
                T = E.xdbl_iter(x, fmax - 1)
                if F.is_zero(T[1]) or not F.is_zero(E.xdbl(T)[1]):
                    bad.append("%s not of exact order 2^f" % nme)
            if w != F.pow(w0, nm % N2f):
                bad.append("e(phi P0, phi Q0) != e(P0,Q0)^N(I)")
            js.append(E.jinv())
            if bad:
                ctx.violation("c13:L%d:image-basis:%s" % (lvl, bad[0]), "dim2id2iso_arbitrary_isogeny_evaluation: " + "; ".join(bad), dict(rep, failures=bad))
        if len(js) == 2 and js[0] != js[1]:
            ctx.violation("c13:L%d:equivalent-ideals-different-j" % lvl, "equivalent left ideals I and I·conj(γ)/N(I) give non-isomorphic codomains", dict(rep0, j=[["%x" % c for c in j] for j in js]))
        idx += 6


def search(ctx):
    return None


def run(ctx):
    ctx.trusted += ["hand model SqiModel.IdealKernel tied to id2iso.c by the dictionary correspondence (model generator ∈ C ideal, round trip)",
                    "quat_lattice_contains / quat_lideal_mul / sampling_random_ideal_O0 of the library (C14/C15) used by the harness to build and test ideals",
                    "NOT formalised: Deuring correspondence, Kani's lemma (image-basis / pairing / j-invariant claims are observations)"]
    ctx.assumptions += ["ideals: random prime norms of ~log p, ~log p / 2, 40 and log p − 7 bits (generate_random_prime + sampling_random_ideal_O0) and one equivalent ideal each"]
    ok = vlib.proof_stage(ctx, ["SqiProps.C13"], searcher=lambda: search(ctx), extra_targets=["driver"])
    have_driver = ok and os.path.exists(os.path.join(vlib.LEAN, ".lake", "build", "bin", "driver"))
    plan = {1: (4, 24), 3: (1, 6), 5: (1, 4)}
    for lvl in (1, 3, 5):
        exe = ctx.cc_harness(os.path.join(HARNESS, "drv_id2iso.c"), os.path.join(ctx.tmp, "drv_id2iso_l%d" % lvl), lvl, extra=["-I" + HARNESS])
        nb = len(ctx.violations)
        dictionaries(ctx, lvl, exe, have_driver)
        even_isogenies(ctx, lvl, exe)
        endomorphisms(ctx, lvl, exe, have_driver)
        isogenies(ctx, lvl, exe, plan[lvl][0 if ctx.quick else 1])
        ctx.obligation("oracle: dictionaries / find_uv / image bases at level %d" % lvl, len(ctx.violations) == nb, "")
    return dict(level="proof", rule="one case = one kernel vector (level, f, parity class) through both dictionaries, or one ideal (norm size, original / equivalent) through find_uv and the evaluation")

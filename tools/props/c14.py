"""C14 - quaternion algebra and lattice arithmetic is exact and canonical.

Stages (see notes/C14-harness.md):
  1. build the repo working tree + tools/harness/drv_quat.c (real C functions, in-process);
  2. generate op lines from ctx.rng (classes below), run the C driver, and judge EVERY C output with the independent
     exact oracle tools/props/c14_oracle.py (the property's own specification);
  3. proof stage: lake build SqiProps.C14 + audit (searcher = first/minimised C-vs-oracle contradiction);
  4. correspondence (tie H): the same op lines through the Lean model driver (lean/SqiModel/Quat.lean) and the C driver
     must give identical output lines (vlib.correspond);
  5. classification: C contradicts the oracle -> VIOLATION with a minimised replay (found=True);
     model != C while C agrees with the oracle -> VIOLATION ... no-failing-input-found (tie broken, property not shown)."""
import os, sys, json, time, multiprocessing
sys.path.insert(0, os.path.dirname(os.path.abspath(__file__)))
import vlib
import c14_oracle as O
from c14_oracle import hx

PRIMES_SMALL = [3, 7, 11, 19, 103]
PRIMES_SCHEME = [5 * 2**248 - 1, 65 * 2**376 - 1, 27 * 2**500 - 1]
PRIMES = PRIMES_SMALL + PRIMES_SCHEME
KS = [0, 1, 2, 3, 5, 8, 16, 31, 32, 33, 63, 64, 65, 100, 128, 200, 248, 256, 376, 500, 512, 599, 600]
O0 = (2, [[2, 0, 0, 1], [0, 2, 1, 0], [0, 0, 1, 0], [0, 0, 0, 1]])     # <1, i, (i+j)/2, (1+k)/2>, HNF
ID4 = [[1 if i == j else 0 for j in range(4)] for i in range(4)]
FAMILIES = ["alg", "mat", "hnf", "lat"]
HARNESS = os.path.join(vlib.ROOT, "tools", "harness", "drv_quat.c")


def kb(k):
    return "k<=8" if k <= 8 else "k<=64" if k <= 64 else "k<=256" if k <= 256 else "k<=600"


def fm(m):
    return [x for r in m for x in r]


def fe(e):
    return [e[0]] + list(e[1])


def fl(l):
    return [l[0]] + fm(l[1])


def pname(p):
    return "p=%d" % p if p < 1000 else "p=lvl%d" % (1 + 2 * PRIMES_SCHEME.index(p))


# =============================================================================================== generators
class Gen:
    def __init__(self, rng):
        self.r = rng
        self.out = {f: [] for f in FAMILIES}
        self.hist = {}

    # ---- scalars
    def k(self, cap=600):
        return self.r.choice([k for k in KS if k <= cap])

    def rint(self, k):
        m = self.r.below(12)
        if m == 0:
            return 0
        if m == 1:
            return self.r.choice([1, -1]) * (1 << k)                 # boundary of [-2^k, 2^k]
        if m == 2:
            return self.r.choice([1, -1]) * self.r.below(4)
        v = self.r.bits(k) if k else self.r.below(2)
        return -v if self.r.below(2) else v

    def nz(self, k):
        while True:
            v = self.rint(k)
            if v:
                return v

    def pos(self, k):
        return abs(self.nz(k))

    def denom(self, k):
        """-> (class, value != 0)"""
        m = self.r.below(6)
        if m == 0:
            return "d=1", 1
        if m == 1:
            return "d=-1", -1
        if m == 2:
            v = (1 + self.r.below(12)) * self.r.choice([1, -1])
            return ("d<0" if v < 0 else "d>0"), v
        v = self.nz(k)
        return ("d<0" if v < 0 else "d>0"), v

    def prime(self):
        return self.r.choice(PRIMES)

    # ---- elements
    def coords(self, k):
        shape = self.r.choice(["generic", "generic", "generic", "sparse", "jk-only", "scalar", "zero", "tiny"])
        if shape == "generic":
            c = [self.nz(k) for _ in range(4)]
        elif shape == "sparse":
            c = [self.rint(k) if self.r.below(2) else 0 for _ in range(4)]
        elif shape == "jk-only":
            c = [0, 0, self.nz(k), self.nz(k)]
        elif shape == "scalar":
            c = [self.nz(k), 0, 0, 0]
        elif shape == "zero":
            c = [0, 0, 0, 0]
        else:
            c = [self.r.below(5) - 2 for _ in range(4)]
        return shape, c

    def elem(self, k=None):
        k = self.k() if k is None else k
        shape, c = self.coords(k)
        dc, d = self.denom(k)
        if self.r.below(5) == 0:          # common factor between content and denominator
            g = self.nz(min(k, 64) or 1)
            c, d = [x * g for x in c], d * g
            dc = "d<0+cf" if d < 0 else "d>0+cf"
        return (shape, dc, kb(k)), (d, c)

    # ---- matrices
    def mat_raw(self, k, sparse=False):
        return [[(0 if sparse and self.r.below(3) == 0 else self.rint(k)) for _ in range(4)] for _ in range(4)]

    def mat_full(self, k):
        while True:
            m = self.mat_raw(k)
            if O.det4(m) != 0:
                return m
            if k == 0:
                m = [[ID4[i][j] * self.r.choice([1, -1]) for j in range(4)] for i in range(4)]
                return m

    def hnf_direct(self, k):
        """a matrix in HNF written down directly: positive diagonal of ~k bits (often 1), row entries right of the
        diagonal uniform in [0, diag)"""
        m = [[0] * 4 for _ in range(4)]
        for i in range(4):
            sel = self.r.below(4)
            d = 1 if sel == 0 else (1 + self.r.below(6)) if sel == 1 else self.pos(k)
            m[i][i] = d
            for j in range(i + 1, 4):
                m[i][j] = self.r.below(d) if self.r.below(5) else (d - 1)
        return m

    def hnf_of(self, m):
        h, rank = O.hnf_last4([[0] * 4] * 4 + O.cols_of(m))
        assert rank == 4 and O.is_hnf_fullrank(h)
        return h

    def scale_lat(self, lat):
        """another representation of the same lattice with an HNF basis: (c*d, c*B) for c > 0, sign of denom free"""
        d, b = lat
        m = self.r.below(4)
        c = 1 if m == 0 else (1 + self.r.below(9)) if m == 1 else self.pos(self.k(64))
        s = -1 if self.r.below(2) else 1
        return (s * c * d, [[c * x for x in r] for r in b])

    def lat_hnf(self, k=None):
        """(class, lattice with HNF basis), denominators of all kinds"""
        k = self.k() if k is None else k
        sel = self.r.below(8)
        if sel == 0:
            return "O0", self.scale_lat(O0) if self.r.below(2) else O0
        if sel == 1:
            return "hnf-of-random", (self.denom(k)[1], self.hnf_of(self.mat_full(k)))
        b = self.hnf_direct(k)
        d = self.denom(k)[1]
        if self.r.below(4) == 0:
            return "hnf-direct-unreduced", self.scale_lat((d, b))
        if self.r.below(5) == 0:
            # the basis alone has a content c (not shared with the denominator unless by chance)
            c = self.r.choice([2, 3, 6, 7, 2**32, self.pos(self.k(64))])
            return "hnf-direct-with-content", (d, [[c * x for x in r] for r in b])
        return "hnf-direct", (d, b)

    def lat_raw(self, k=None):
        k = self.k() if k is None else k
        return "raw-basis", (self.denom(k)[1], self.mat_full(k))

    # ---- bases whose content is carried by PART of the entries (a content routine that scans only some entries,
    # e.g. only the upper triangle "because bases are HNF", over-estimates the gcd exactly on these)
    PATTERNS = ["all-but-one", "all-but-one", "all-but-one", "upper-tri", "upper-tri", "strict-upper+diag-but-one",
                "lower-tri", "diag-only", "one-row", "one-col", "first-row-only", "all"]

    def partial_content_mat(self, k):
        """-> (pattern, q, full-rank matrix): the entries in the pattern set are multiples of q, every other entry is
        NOT a multiple of q (so the true content is coprime to q unless the pattern is `all`)"""
        pat = self.r.choice(self.PATTERNS)
        q = self.r.choice([2, 3, 5, 7, 2**32, 2**61 - 1, 3 * 2**40, self.pos(self.k(64)) + 1])
        pos = [(i, j) for i in range(4) for j in range(4)]
        if pat == "all-but-one":
            S = set(pos) - {self.r.choice(pos)}
        elif pat == "upper-tri":
            S = {(i, j) for (i, j) in pos if j >= i}
        elif pat == "strict-upper+diag-but-one":
            S = {(i, j) for (i, j) in pos if j >= i} - {(self.r.below(4),) * 2}
        elif pat == "lower-tri":
            S = {(i, j) for (i, j) in pos if j <= i}
        elif pat == "diag-only":
            S = {(i, i) for i in range(4)}
        elif pat == "one-row":
            t = self.r.below(4); S = {(t, j) for j in range(4)}
        elif pat == "one-col":
            t = self.r.below(4); S = {(i, t) for i in range(4)}
        elif pat == "first-row-only":
            S = {(0, j) for j in range(4)}
        else:
            S = set(pos)
        for _ in range(200):
            m = [[0] * 4 for _ in range(4)]
            for (i, j) in pos:
                if (i, j) in S:
                    m[i][j] = q * (self.rint(k) if self.r.below(6) else self.nz(k))
                else:
                    v = self.nz(k)
                    while v % q == 0:
                        v += 1
                    m[i][j] = v
            if O.det4(m) != 0:
                return pat, q, m
        return "all", q, [[q * x for x in r] for r in self.mat_full(k)]

    def lat_partial_content(self, k=None):
        """lattice whose denominator shares the factor q with the pattern entries only"""
        k = self.k(256) if k is None else k
        pat, q, m = self.partial_content_mat(k)
        d = q * self.r.choice([1, 1, -1, 2, 3, q, self.pos(self.k(32))])
        return "partial-content:" + pat, (d, m)

    def lat_mulmat(self):
        """the full (non-triangular) matrix mulmat(x)·B with denominator x.denom·d that `quat_lideal_create_principal`
        hands to reduce_denom BEFORE the HNF, for x whose numerator has the shape (p·a, p·b, c, d) / (p·e): the upper
        triangle of mulmat(x) is then divisible by p, the lower one is not"""
        p = self.prime()
        kk = self.k(64)
        shape = self.r.choice(["p-upper", "p-upper", "q-upper", "generic"])
        e = self.r.choice([1, 1, -1, 2, self.pos(8)])
        if shape == "p-upper":
            x = (p * e, [p * self.nz(kk), p * self.rint(kk), self.nz(kk), self.nz(kk)])
        elif shape == "q-upper":
            q = self.r.choice([2, 3, 5, 7])
            x = (q * e, [q * self.nz(kk), q * self.rint(kk), q * self.rint(kk) + 0, q * self.rint(kk)])
            x = (x[0], [x[1][0], x[1][1], x[1][2], x[1][3]])
        else:
            x = self.elem(kk)[1]
        xd, c = x
        M = [[c[0], -c[1], -p * c[2], -p * c[3]], [c[1], c[0], p * c[3], -p * c[2]], [c[2], -c[3], c[0], -c[1]], [c[3], c[2], c[1], c[0]]]
        osel = self.r.choice(["Z<1,i,j,k>", "Z<1,i,j,k>", "O0", "hnf"])
        Ol = (1, ID4) if osel.startswith("Z") else O0 if osel == "O0" else (self.denom(8)[1], self.hnf_direct(self.k(16)))
        B = O.matmul(M, Ol[1])
        if O.det4(B) == 0:
            return self.lat_partial_content()
        return "mulmat(x)*O:" + shape + ":" + osel + ":" + pname(p), (xd * Ol[0], B)

    def small_hnf_with_det(self, primes):
        """HNF integer matrix whose determinant is a product of the given primes (index of a sublattice)"""
        m = [[0] * 4 for _ in range(4)]
        diag = [1, 1, 1, 1]
        for q in primes:
            diag[self.r.below(4)] *= q
        for i in range(4):
            m[i][i] = diag[i]
            for j in range(i + 1, 4):
                m[i][j] = self.r.below(diag[i])
        return m

    def lat_pair(self, hnf_only=True):
        """(class, L1, L2) - equal / nested / coprime-index / shared-factor / independent / different denominators"""
        sel = self.r.choice(["equal", "nested", "nested-rev", "coprime-index", "shared-factor", "indep", "indep",
                             "diff-denom", "same-basis-diff-denom"] + ([] if hnf_only else ["raw", "raw"]))
        k = self.k(256)
        if sel == "raw":
            return "raw-bases:" + kb(k), self.lat_raw(k)[1], (self.lat_raw(k)[1] if self.r.below(2) else self.lat_hnf(k)[1])
        k = self.k(256) if sel in ("nested", "nested-rev", "coprime-index", "shared-factor") else self.k()
        c0, base = self.lat_hnf(k)
        d, b = base
        if sel == "equal":
            return "equal:" + kb(k), base, self.scale_lat(base)
        if sel in ("nested", "nested-rev"):
            m = self.hnf_direct(self.k(256)) if self.r.below(2) else self.mat_full(self.k(64))
            sub = self.scale_lat((d, self.hnf_of(O.matmul(b, m))))
            return sel + ":" + kb(k), (sub, base)[sel == "nested-rev"], (base, sub)[sel == "nested-rev"]
        if sel in ("coprime-index", "shared-factor"):
            ps = [2, 3, 5, 7, 11, 13, 2**61 - 1, 2**89 - 1, 2**127 - 1]
            n1 = [self.r.choice(ps) for _ in range(1 + self.r.below(3))]
            if sel == "coprime-index":
                n2 = [q for q in [self.r.choice(ps) for _ in range(1 + self.r.below(3))] if q not in n1] or [17]
            else:
                n2 = [self.r.choice(n1)] + [self.r.choice(ps) for _ in range(self.r.below(3))]
            l1 = (d, self.hnf_of(O.matmul(b, self.small_hnf_with_det(n1))))
            l2 = (d, self.hnf_of(O.matmul(b, self.small_hnf_with_det(n2))))
            return sel + ":" + kb(k), self.scale_lat(l1) if self.r.below(2) else l1, self.scale_lat(l2) if self.r.below(2) else l2
        if sel == "same-basis-diff-denom":
            return sel + ":" + kb(k), base, (self.denom(k)[1], b)
        if sel == "diff-denom":
            q1, q2 = self.r.choice([(2, 3), (4, 6), (-5, 10), (7, -7), (1, -2**64), (2**100 + 277, 2**64)])
            return sel + ":" + kb(k), (q1, b), (q2, self.hnf_direct(k))
        return "indep:" + kb(k), base, self.lat_hnf(k)[1]

    # ---- bookkeeping
    def emit(self, fam, op, cls, ints, key=None):
        line = op + " " + " ".join(hx(x) for x in ints)
        self.out[fam].append((line, op + ":" + cls))
        h = self.hist.setdefault(op, {})
        h[cls] = h.get(cls, 0) + 1

    # ---- op families
    def gen_alg(self, n):
        for _ in range(n):
            # xgcd
            k = self.k()
            sel = self.r.choice(["random", "random", "equal-abs", "zero", "multiple", "coprime-small", "unit"])
            a, b = self.rint(k), self.rint(k)
            if sel == "equal-abs":
                b = a * self.r.choice([1, -1])
            elif sel == "zero":
                a, b = self.r.choice([(0, b), (a, 0), (0, 0)])
            elif sel == "multiple":
                t = self.rint(min(k, 64))
                a, b = self.r.choice([(a, a * t), (b * t, b)])
            elif sel == "coprime-small":
                a, b = self.r.below(40) - 20, self.r.below(40) - 20
            elif sel == "unit":
                b = self.r.choice([1, -1, 2, -2])
            self.emit("alg", "q.xgcd", sel + ":" + kb(k), [a, b])
            # rounded division
            k = self.k()
            sel = self.r.choice(["random", "random", "tie", "exact", "small-num"])
            b = self.nz(k)
            a = self.rint(k + self.r.below(64))
            if sel == "tie":
                b = 2 * b
                a = b * self.rint(min(k, 64)) + (b // 2) * self.r.choice([1, -1])
            elif sel == "exact":
                a = b * self.rint(min(k, 64))
            elif sel == "small-num":
                a = self.rint(max(k - 2, 0))
            self.emit("alg", "q.rdiv", sel + ":" + kb(k), [a, b])
        for _ in range(2 * n):
            for op in ("q.add", "q.sub", "q.mul", "q.eqden"):
                k = self.k()
                ca, A = self.elem(k)
                cb, B = self.elem(k)
                rel = self.r.below(8)
                if rel == 0:
                    B, cb = (B[0], O.qconj(A[1])), (ca[0] + "~conj",) + cb[1:]
                elif rel == 1:
                    B, cb = (A[0], B[1]), (cb[0], "same-denom", cb[2])
                elif rel == 2:
                    g = self.nz(self.k(64))
                    A, B = (A[0] * g, A[1]), (B[0] * g, B[1])
                    cb = (cb[0], "denoms-share-factor", cb[2])
                cls = "%s*%s:%s/%s:%s" % (ca[0], cb[0], ca[1], cb[1], ca[2])
                if op == "q.mul":
                    p = self.prime()
                    self.emit("alg", op, cls + ":" + pname(p), [p] + fe(A) + fe(B))
                else:
                    self.emit("alg", op, cls, fe(A) + fe(B))
            ca, A = self.elem()
            self.emit("alg", "q.conj", ":".join(ca), fe(A))
            ca, A = self.elem()
            self.emit("alg", "q.normalize", ":".join(ca), fe(A))
            ca, A = self.elem()
            p = self.prime()
            self.emit("alg", "q.norm", ":".join(ca) + ":" + pname(p), [p] + fe(A))
            ca, A = self.elem()
            self.emit("alg", "q.trace", ":".join(ca), fe(A))
        for _ in range(n):
            ca, A = self.elem()
            p = self.prime()
            self.emit("alg", "q.rmat", ":".join(ca) + ":" + pname(p), [p] + fe(A))
            # element of O0 in the basis 1,i,j,k
            k = self.k()
            v = [self.rint(k) for _ in range(4)]
            sel = self.r.choice(["denom2", "denom2c", "denom-2c", "denom1"])
            if sel == "denom1":
                v[2], v[3] = 2 * v[2], 2 * v[3]
                e = (1, [v[0] + v[3] // 2, v[1] + v[2] // 2, v[2] // 2, v[3] // 2])
            else:
                c = 1 if sel == "denom2" else self.pos(self.k(64)) * (-1 if sel == "denom-2c" else 1)
                e = (2 * c, [c * (2 * v[0] + v[3]), c * (2 * v[1] + v[2]), c * v[2], c * v[3]])
            self.emit("alg", "q.o0basis", sel + ":" + kb(k), fe(e))

    def gen_mat(self, n):
        for _ in range(n):
            k = self.k()
            sp = self.r.below(3) == 0
            self.emit("mat", "m.mul", ("sparse:" if sp else "dense:") + kb(k), fm(self.mat_raw(k, sp)) + fm(self.mat_raw(k, sp)))
            k = self.k()
            sel = self.r.choice(["full-rank", "full-rank", "full-rank", "hnf", "rank3", "rank2", "rank<=1", "triangular"])
            if sel == "full-rank":
                m = self.mat_full(k)
            elif sel == "hnf":
                m = self.hnf_direct(k)
            elif sel == "triangular":
                m = [[self.nz(k) if j == i else (self.rint(k) if j > i else 0) for j in range(4)] for i in range(4)]
            else:
                rk = {"rank3": 3, "rank2": 2, "rank<=1": self.r.below(2)}[sel]
                base = [[self.rint(k) for _ in range(4)] for _ in range(rk)]
                m = [r[:] for r in base]
                while len(m) < 4:
                    cf = [self.r.below(7) - 3 for _ in range(rk)]
                    m.append([sum(cf[t] * base[t][j] for t in range(rk)) for j in range(4)])
                order = [0, 1, 2, 3]
                for i in range(3, 0, -1):
                    j = self.r.below(i + 1)
                    order[i], order[j] = order[j], order[i]
                m = [m[t] for t in order]
                if self.r.below(2):
                    m = O.mat_of_cols(m)
            self.emit("mat", "m.inv", sel + ":" + kb(k), fm(m))
            k = self.k()
            self.emit("mat", "m.eval", kb(k), fm(self.mat_raw(k, self.r.below(3) == 0)) + [self.rint(k) for _ in range(4)])
            k = self.k()
            sel = self.r.choice(["random", "gram"])
            if sel == "gram":
                p = self.prime()
                q = [[1, 0, 0, 0], [0, 1, 0, 0], [0, 0, p, 0], [0, 0, 0, p]]
            else:
                q = self.mat_raw(k)
            self.emit("mat", "m.qf", sel + ":" + kb(k), fm(q) + [self.rint(k) for _ in range(4)])
            # is_hnf: positives and single-defect negatives
            k = self.k()
            m = self.hnf_direct(k)
            sel = self.r.choice(["hnf", "hnf", "neg-diag", "entry=diag", "entry>diag", "neg-entry", "below-diag", "random", "identity"])
            i = self.r.below(3)
            j = i + 1 + self.r.below(3 - i)
            if sel == "neg-diag":
                t = self.r.below(4)
                m[t][t] = -m[t][t]
            elif sel == "entry=diag":
                m[i][j] = m[i][i]
            elif sel == "entry>diag":
                m[i][j] = m[i][i] + 1 + self.r.below(5)
            elif sel == "neg-entry":
                m[i][j] = -1 - self.r.below(m[i][i])
            elif sel == "below-diag":
                m[j][i] = self.nz(k)
            elif sel == "random":
                m = self.mat_full(k)
            elif sel == "identity":
                m = [r[:] for r in ID4]
            self.emit("mat", "m.ishnf", sel + ":" + kb(k), fm(m))
            # content of arbitrary matrices (ibz_mat_4x4_gcd = gcd of ALL 16 entries)
            for _rep in range(2):
                kk = self.k(256)
                sel = self.r.choice(["partial", "partial", "partial", "random", "hnf-with-content", "zero-first-entry", "zero"])
                if sel == "partial":
                    pat, q, m = self.partial_content_mat(kk)
                    sel = "partial-content:" + pat
                elif sel == "random":
                    m = self.mat_raw(kk, self.r.below(3) == 0)
                elif sel == "hnf-with-content":
                    c = self.pos(self.k(64))
                    m = [[c * x for x in r] for r in self.hnf_direct(kk)]
                elif sel == "zero-first-entry":
                    m = self.mat_raw(kk); m[0][0] = 0
                else:
                    m = [[0] * 4 for _ in range(4)]
                    if self.r.below(2):
                        m[self.r.below(4)][self.r.below(4)] = self.rint(kk)
                self.emit("mat", "m.gcd", sel + ":" + kb(kk), fm(m))

    def gen_hnf(self, n):
        for _ in range(n):
            k = self.k()
            sel = self.r.choice(["two-full-blocks", "two-full-blocks", "zero+full", "full+zero", "hnf+hnf", "rank3", "rank2", "rank1",
                                 "zero", "zero-columns", "tiny-entries", "equal-abs-entries", "hnf+multiple", "zero-last-row",
                                 "neg-hnf+hnf"])
            zero = [[0] * 4 for _ in range(4)]
            if sel == "two-full-blocks":
                cols = O.cols_of(self.mat_full(k)) + O.cols_of(self.mat_full(k))
            elif sel == "zero+full":
                cols = O.cols_of(zero) + O.cols_of(self.mat_full(k))
            elif sel == "full+zero":
                cols = O.cols_of(self.mat_full(k)) + O.cols_of(zero)
            elif sel == "hnf+hnf":
                cols = O.cols_of(self.hnf_direct(k)) + O.cols_of(self.hnf_direct(k))
            elif sel == "neg-hnf+hnf":
                cols = [[-x for x in c] for c in O.cols_of(self.hnf_direct(k))] + O.cols_of(self.hnf_direct(k))
            elif sel in ("rank3", "rank2", "rank1"):
                rk = int(sel[-1])
                base = [[self.rint(k) for _ in range(4)] for _ in range(rk)]
                cols = []
                for _c in range(8):
                    cf = [self.r.below(9) - 4 for _ in range(rk)]
                    cols.append([sum(cf[t] * base[t][i] for t in range(rk)) for i in range(4)])
            elif sel == "zero":
                cols = [[0] * 4 for _ in range(8)]
            elif sel == "zero-columns":
                cols = O.cols_of(self.mat_full(k)) + O.cols_of(self.mat_full(k))
                for _z in range(1 + self.r.below(4)):
                    cols[self.r.below(8)] = [0, 0, 0, 0]
            elif sel == "tiny-entries":
                cols = [[self.r.below(5) - 2 for _ in range(4)] for _ in range(8)]
            elif sel == "equal-abs-entries":
                v = self.nz(k)
                cols = [[self.r.choice([v, -v, 0, v]) for _ in range(4)] for _ in range(8)]
            elif sel == "hnf+multiple":
                h = self.hnf_direct(k)
                t = self.nz(self.k(64))
                cols = O.cols_of(h) + [[t * x for x in c] for c in O.cols_of(h)]
            else:  # zero-last-row: pivot of the first processed row is zero
                cols = [c[:3] + [0] for c in O.cols_of(self.mat_raw(k)) + O.cols_of(self.mat_raw(k))]
            g = [cols[h][i] for i in range(4) for h in range(8)]
            self.emit("hnf", "h.core", sel + ":" + kb(k), g)
            k = self.k()
            sel = self.r.choice(["random/pos-mod", "random/neg-mod", "hnf/det-mod", "hnf/small-mod", "singular/mod", "random/mod0"])
            if sel.startswith("random"):
                m = self.mat_full(k)
                md = self.pos(k) * (-1 if "neg" in sel else 1) if "mod0" not in sel else 0
            elif sel == "hnf/det-mod":
                m = self.hnf_direct(k)
                md = m[0][0] * m[1][1] * m[2][2] * m[3][3]
            elif sel == "hnf/small-mod":
                m = self.hnf_direct(k)
                md = 1 + self.r.below(30)
            else:
                m = self.mat_raw(k)
                m[self.r.below(4)] = [0, 0, 0, 0]
                md = self.pos(k)
            self.emit("hnf", "h.mod", sel + ":" + kb(k), fm(m) + [md])

    def gen_lat(self, n):
        for _ in range(n):
            for op in ("l.add", "l.inter", "l.mul"):
                for _rep in range(2 if op != "l.mul" else 1):
                    cls, l1, l2 = self.lat_pair(hnf_only=False)
                    if op == "l.mul":
                        p = self.prime()
                        if self.r.below(4) == 0:
                            l1, cls = (self.scale_lat(O0) if self.r.below(2) else O0), "O0*" + cls
                        self.emit("lat", op, cls + ":" + pname(p), [p] + fl(l1) + fl(l2))
                    else:
                        self.emit("lat", op, cls, fl(l1) + fl(l2))
            c, l = self.lat_raw() if self.r.below(3) else self.lat_hnf()
            self.emit("lat", "l.hnf", c + (":d<0" if l[0] < 0 else ":d>0"), fl(l))
            c, l = self.lat_raw() if self.r.below(2) else self.lat_hnf()
            if self.r.below(2):
                g = self.nz(self.k(128))
                l, c = (l[0] * g, [[x * g for x in r] for r in l[1]]), c + "+common-factor"
            self.emit("lat", "l.reduce", c + (":d<0" if l[0] < 0 else ":d>0"), fl(l))
            # non-triangular bases whose content sits in part of the entries / bases of principal lattices before the HNF
            for c, l in (self.lat_partial_content(), self.lat_mulmat()):
                self.emit("lat", "l.reduce", c + (":d<0" if l[0] < 0 else ":d>0"), fl(l))
            c, l = self.lat_partial_content() if self.r.below(2) else self.lat_mulmat()
            self.emit("lat", "l.hnf", c + (":d<0" if l[0] < 0 else ":d>0"), fl(l))
            c, l = self.lat_raw() if self.r.below(2) else self.lat_hnf()
            self.emit("lat", "l.dual", c + (":d<0" if l[0] < 0 else ":d>0"), fl(l))
            # equality (HNF operands)
            cls, l1, l2 = self.lat_pair()
            if self.r.below(5) == 0:
                # near miss: one entry / the denominator differs
                l2 = (l1[0], [r[:] for r in l1[1]])
                if self.r.below(2):
                    t = self.r.below(4)
                    l2[1][t][t] += 1
                    cls = "near-miss-entry"
                else:
                    l2, cls = (l1[0] + self.r.choice([1, -1]) or 2, l2[1]), "near-miss-denom"
            self.emit("lat", "l.equal", cls, fl(l1) + fl(l2))
            # membership
            for _rep in range(2):
                sel = self.r.choice(["hnf", "hnf", "hnf", "triangular-not-hnf", "not-triangular(soundness)"])
                c, l = self.lat_hnf()
                d, b = l
                if sel == "triangular-not-hnf":
                    u = [[(self.r.choice([1, -1]) if i == j else (self.rint(8) if j > i else 0)) for j in range(4)] for i in range(4)]
                    b = O.matmul(b, u)
                    c = "triangular-not-hnf"
                elif sel.startswith("not-tri"):
                    while True:
                        b = self.mat_full(self.k(64))
                        if all(b[i][i] != 0 for i in range(4)):
                            break
                    c = "not-triangular(soundness)"
                l = (d, b)
                kind = self.r.choice(["member", "member", "member-scaled", "zero", "half@0", "half@1", "half@2", "half@3", "random", "off-by-one"]
                                     + (["upper-part-combination"] * 6 if sel.startswith("not-tri") else []))
                kv = self.k(128)
                v = [self.rint(kv) for _ in range(4)]
                num = [sum(b[i][j] * v[j] for j in range(4)) for i in range(4)]
                x = (d, num)
                if kind == "member-scaled":
                    s = self.nz(self.k(64))
                    x = (d * s, [t * s for t in num])
                elif kind == "zero":
                    x = (self.nz(8), [0, 0, 0, 0])
                elif kind.startswith("half@"):
                    t = int(kind[-1])
                    v2 = [2 * y for y in v]
                    v2[t] += 1
                    x = (2 * d, [sum(b[i][j] * v2[j] for j in range(4)) for i in range(4)])
                elif kind == "random":
                    x = self.elem()[1]
                elif kind == "upper-part-combination":
                    # integer combination of the columns with the entries below the diagonal zeroed: every division of the
                    # back-substitution is exact although x is (in general) not in the lattice
                    x = (d, [sum(b[i][j] * v[j] for j in range(i, 4)) for i in range(4)])
                elif kind == "off-by-one":
                    t = self.r.below(4)
                    num[t] += self.r.choice([1, -1])
                    x = (d, num)
                self.emit("lat", "l.contains", c + ":" + kind, fl(l) + fe(x))
            # index of nested lattices
            sel = self.r.choice(["nested", "nested", "equal", "scalar-multiple", "triangular-neg-diag"])
            k = self.k(256)
            c, over = self.lat_hnf(k)
            d, b = over
            if sel == "equal":
                sub = self.scale_lat(over)
            elif sel == "scalar-multiple":
                t = self.pos(self.k(64))
                sub = self.scale_lat((d, [[t * x for x in r] for r in b]))
            else:
                m = self.hnf_direct(self.k(256)) if self.r.below(2) else self.mat_full(self.k(64))
                sub = self.scale_lat((d, self.hnf_of(O.matmul(b, m))))
            if sel == "triangular-neg-diag":
                sg = [self.r.choice([1, -1]) for _ in range(4)]
                sub = (sub[0], [[sub[1][i][j] * sg[j] for j in range(4)] for i in range(4)])
                if self.r.below(2):
                    sg = [self.r.choice([1, -1]) for _ in range(4)]
                    over = (d, [[b[i][j] * sg[j] for j in range(4)] for i in range(4)])
            self.emit("lat", "l.index", sel + ":" + c + ":" + kb(k), fl(sub) + fl(over))


def generate(rng, scale, quick=True):
    g = Gen(rng)
    g.gen_alg(120 * scale)
    g.gen_mat(150 * scale)
    g.gen_hnf(400 * scale)
    g.gen_lat(200 * scale)
    return g


# =============================================================================================== preconditions
def precond(line):
    """inputs the C functions accept (used for generator self-check and by the shrinker so that a minimised replay
    stays inside the domain): non-zero denominators / divisors, non-singular lattice bases, HNF where required."""
    op, xs = O.parse_line(line)
    try:
        if op == "q.rdiv":
            return xs[1] != 0
        if op in ("q.add", "q.sub", "q.eqden"):
            return xs[0] != 0 and xs[5] != 0 and len(xs) == 10
        if op == "q.mul":
            return xs[0] in PRIMES and xs[1] != 0 and xs[6] != 0 and len(xs) == 11
        if op in ("q.conj", "q.normalize", "q.trace"):
            return xs[0] != 0 and len(xs) == 5
        if op in ("q.norm", "q.rmat"):
            return xs[0] in PRIMES and xs[1] != 0 and len(xs) == 6
        if op == "q.o0basis":
            return xs[0] != 0 and len(xs) == 5 and O.o0_domain((xs[0], xs[1:5])) is not None
        if op in ("l.add", "l.inter", "l.mul", "l.equal", "l.index"):
            k0 = 1 if op == "l.mul" else 0
            if k0 and xs[0] not in PRIMES:
                return False
            l1, k = O.take_lat(xs, k0)
            l2, k = O.take_lat(xs, k)
            if k != len(xs) or l1[0] == 0 or l2[0] == 0 or O.det4(l1[1]) == 0 or O.det4(l2[1]) == 0:
                return False
            if op == "l.equal":
                return O.is_hnf_fullrank(l1[1]) and O.is_hnf_fullrank(l2[1])
            if op == "l.index":
                tri = lambda m: all(m[i][j] == 0 for i in range(4) for j in range(i))
                return tri(l1[1]) and tri(l2[1])
            return True
        if op in ("l.hnf", "l.reduce", "l.dual"):
            l1, k = O.take_lat(xs, 0)
            return k == len(xs) and l1[0] != 0 and O.det4(l1[1]) != 0
        if op == "l.contains":
            l1, k = O.take_lat(xs, 0)
            return len(xs) == 22 and l1[0] != 0 and xs[17] != 0 and O.det4(l1[1]) != 0 and all(l1[1][i][i] != 0 for i in range(4))
        return True
    except IndexError:
        return False


# =============================================================================================== running
def hang_timeout(n):
    """seconds allowed for a batch of n ops of the C driver (measured: ~1 ms per op)"""
    return 20 + n // 100


HANG_BUDGET = 2             # after this many hangs the remaining ops of the batch are not run


def run_c_all(exe, lines):
    """run the C driver over all lines; a crash on an op is recorded as output '<crash rc=..>' and the run resumes
    with the next op.  A hang is a result too: the batch runs in its own process group under a timeout, the op that
    did not return is recorded as '<crash rc=-9 (hang: no answer within ..s)>', and after HANG_BUDGET hangs the rest of
    the batch is marked '<skipped: hang budget exhausted>' (judged `skip`)."""
    outs, pos = [], 0
    crashes, hangs = [], 0
    while pos < len(lines):
        if hangs >= HANG_BUDGET:
            outs += ["<skipped: hang budget exhausted>"] * (len(lines) - pos)
            break
        tmo = hang_timeout(len(lines) - pos)
        rc, o, err = vlib.run_c([exe], lines[pos:], timeout=tmo)
        outs += o
        pos += len(o)
        if pos < len(lines):
            crashes.append((pos, rc, err[-600:]))
            if rc == -9:
                hangs += 1
                outs.append("<crash rc=-9 (hang: no answer within %ds, process group killed)>" % tmo)
            else:
                outs.append("<crash rc=%d>" % rc)
            pos += 1
    return outs, crashes


def correspond_with(ctx, name, lines, couts, max_report=5):
    """tie H: the C outputs already collected by the oracle stage (same binary, same lines) against the Lean model
    driver, line by line; ops the C side never answered (hang budget) are not compared"""
    idx = [i for i, c in enumerate(couts) if not c.startswith("<skipped")]
    mout = ctx.driver([lines[i] for i in idx]) if idx else []
    dis = []
    for k, i in enumerate(idx):
        m = mout[k] if k < len(mout) else "<no output>"
        if couts[i] != m:
            dis.append(dict(index=i, op=lines[i], impl=couts[i], model=m))
    ctx.evaluations += len(lines)
    ctx.obligation("correspondence " + name + " (%d ops)" % len(lines), not dis, json.dumps(dis[:max_report])[:600] if dis else "")
    ctx.coverage.setdefault("correspondence", {})[name] = dict(ops=len(lines), compared=len(idx), disagreements=len(dis))
    return dis


def _verdict_job(t):
    return O.verdict(t[0], t[1])


def judge(lines, couts, procs=12):
    jobs = list(zip(lines, couts))
    if len(jobs) < 200:
        return [_verdict_job(j) for j in jobs]
    with multiprocessing.Pool(procs) as pool:
        return pool.map_async(_verdict_job, jobs, chunksize=max(1, len(jobs) // (procs * 8))).get(timeout=1500)


def shrink(exe, line, rounds=40):
    """greedy minimisation of an op line on which the C output contradicts the oracle: try to replace single
    integers by simpler ones, keep a candidate when it is still inside the preconditions and still contradicts."""
    op, xs = O.parse_line(line)
    fixed = {0} if op in ("q.mul", "q.norm", "q.rmat", "l.mul") else set()
    best = line
    for _ in range(rounds):
        _, xs = O.parse_line(best)
        cands = []
        for i, v in enumerate(xs):
            if i in fixed:
                continue
            alts = {0, 1, -1, 2, abs(v), v >> (max(v.bit_length(), 2) // 2) if v > 0 else -((-v) >> (max(v.bit_length(), 2) // 2)),
                    v // 2 if v > 0 else -((-v) // 2), v - 1 if v > 0 else v + 1}
            for a in sorted(alts, key=abs):
                if a != v and (abs(a) < abs(v) or (a == -v and v < 0)):
                    ys = xs[:i] + [a] + xs[i + 1:]
                    cand = op + " " + " ".join(hx(y) for y in ys)
                    if precond(cand):
                        cands.append(cand)
        if not cands:
            break
        couts, _ = run_c_all(exe, cands)
        good = [c for c, o in zip(cands, couts) if not o.startswith("<crash") and O.verdict(c, o)[0] == "bad"]
        if not good:
            break
        nb = min(good, key=lambda c: (len(c), c))
        if len(nb) >= len(best) and nb >= best:
            break
        best = nb
    return best


def replay_cmd(line):
    return ("build the repo (cmake -DSQISIGN_BUILD_TYPE=ref), compile tools/harness/drv_quat.c against "
            "libsqisign_quaternion_generic.a (see vlib.Ctx.cc_harness), then: echo '%s' | ./drv_quat ; "
            "model: echo '<same line>' | lean/.lake/build/bin/driver ; or ./check C14 --replay <this file>" % line[:4000])


def oracle_stage(ctx, exe, gen):
    """C outputs of every generated op judged by the oracle; returns per family (lines, classes, couts, verdicts)
    and the list of contradictions"""
    res, bads = {}, []
    for fam in FAMILIES:
        lines = [l for l, _ in gen.out[fam]]
        classes = [c for _, c in gen.out[fam]]
        couts, crashes = run_c_all(exe, lines)
        ver = judge(lines, couts)
        res[fam] = (lines, classes, couts, ver)
        for i, (st, detail) in enumerate(ver):
            if couts[i].startswith("<skipped"):
                ver[i] = ("skip", couts[i])
                continue
            if couts[i].startswith("<crash"):
                st, detail = "bad", "C code crashed or hung on this op: " + couts[i]
                ver[i] = (st, detail)
            if st == "bad":
                bads.append(dict(family=fam, index=i, op=lines[i], cls=classes[i], c_output=couts[i], oracle=detail))
        nsk = sum(1 for v in ver if v[0] == "skip")
        ctx.log("oracle %-3s: %d ops, %d contradictions, %d outside oracle domain" % (fam, len(lines), sum(1 for v in ver if v[0] == "bad"), nsk))
        ctx.obligation("oracle agrees with C on %s ops (%d)" % (fam, len(lines)), not any(v[0] == "bad" for v in ver),
                       json.dumps([b for b in bads if b["family"] == fam][:2])[:600])
        ctx.coverage.setdefault("oracle", {})[fam] = dict(ops=len(lines), judged=len(lines) - nsk, skipped=nsk,
                                                           contradictions=sum(1 for v in ver if v[0] == "bad"))
    return res, bads


def minimal_bad(exe, bads):
    """one minimised contradiction per C op (the shortest failing line, then shrunk)"""
    per_op = {}
    for b in bads:
        o = b["op"].split()[0]
        if o not in per_op or len(b["op"]) < len(per_op[o]["op"]):
            per_op[o] = b
    out = []
    for o, b in sorted(per_op.items()):
        b = dict(b)
        if not b["c_output"].startswith("<crash"):
            small = shrink(exe, b["op"])
            if small != b["op"]:
                co, _ = run_c_all(exe, [small])
                st, detail = O.verdict(small, co[0])
                if st == "bad":
                    b.update(original_op=b["op"], op=small, c_output=co[0], oracle=detail)
        out.append(b)
    return out


CFUNC = {"q.xgcd": "ibz_xgcd", "q.rdiv": "ibz_rounded_div", "q.add": "quat_alg_add", "q.sub": "quat_alg_sub", "q.mul": "quat_alg_mul",
         "q.conj": "quat_alg_conj", "q.normalize": "quat_alg_normalize", "q.eqden": "quat_alg_equal_denom", "q.norm": "quat_alg_norm",
         "q.trace": "quat_alg_trace", "q.rmat": "quat_alg_rightmul_mat", "q.o0basis": "from_1ijk_to_O0basis", "m.mul": "ibz_mat_4x4_mul",
         "m.inv": "ibz_mat_4x4_inv_with_det_as_denom", "m.eval": "ibz_mat_4x4_eval", "m.qf": "quat_qf_eval", "m.ishnf": "ibz_mat_4x4_is_hnf", "m.gcd": "ibz_mat_4x4_gcd",
         "h.core": "ibz_mat_4x8_hnf_core", "h.mod": "ibz_mat_4x4_hnf_mod", "l.add": "quat_lattice_add", "l.inter": "quat_lattice_intersect",
         "l.mul": "quat_lattice_mul", "l.hnf": "quat_lattice_hnf", "l.reduce": "quat_lattice_reduce_denom", "l.dual": "quat_lattice_dual_without_hnf",
         "l.equal": "quat_lattice_equal", "l.contains": "quat_lattice_contains", "l.index": "quat_lattice_index"}


def bad_to_violation(b):
    o = b["op"].split()[0]
    key = "C14:oracle:" + o
    what = "%s (%s) contradicts the exact specification: %s" % (CFUNC.get(o, o), o, b["oracle"][:300])
    replay = dict(op_line=b["op"], c_function=CFUNC.get(o, o), c_output=b["c_output"], expected=b["oracle"], generator_class=b["cls"],
                  how_to_replay=replay_cmd(b["op"]))
    if "original_op" in b:
        replay["unminimised_op_line"] = b["original_op"]
    return key, what, replay


def run(ctx):
    import a6_proc
    a6_proc.install(vlib, ctx)      # children in own process groups, time-bounded, killed on exit
    ctx.trusted += ["GMP integers/rationals (mpz/mpq) modelled as exact Int / canonical pairs; mpz_gcdext cofactor normalisation modelled from its documentation and tied by q.xgcd ops",
                    "tools/harness/drv_quat.c (C driver: parsing/printing only, calls the library functions in-process)",
                    "tools/props/c14_oracle.py (independent exact oracle, python ints/Fractions; self-validated each run)",
                    "line protocol + hex printing of lean/SqiModel/Drv/Quat.lean"]
    ctx.assumptions += ["inputs inside the documented preconditions: non-zero denominators/divisors, full-rank lattice bases; HNF operands for equal; "
                        "upper-triangular bases for contains (full answer) / index; p in the listed primes"]
    O.selftest()
    scale = 1 if ctx.quick else 20
    ctx.build_repo("ref")
    exe = ctx.cc_harness(HARNESS, os.path.join(ctx.tmp, "drv_quat"), 1)
    t = time.time()
    gen = generate(ctx.rng.fork("c14-gen"), scale)
    for fam in FAMILIES:
        for line, cls in gen.out[fam]:
            assert precond(line), "generator produced an op outside the preconditions: " + cls
            ctx.case(cls, 0)              # evaluations are counted by vlib.correspond below
    def _compact(h, cap=48):
        """evidence stays readable: when an op has more than `cap` class keys, drop trailing `:k<=…` / `:p=…` /
        denominator qualifiers (right to left) until the histogram fits"""
        h = dict(h)
        while len(h) > cap:
            agg = {}
            for k, v in h.items():
                k2 = k.rsplit(":", 1)[0] if ":" in k else k
                agg[k2] = agg.get(k2, 0) + v
            if len(agg) == len(h):
                break
            h = agg
        return dict(sorted(h.items()))
    ctx.coverage["generator_classes"] = {op: _compact(h) for op, h in sorted(gen.hist.items()) if not op.startswith("_")}
    ctx.coverage["generator_class_keys_total"] = sum(len(h) for op, h in gen.hist.items() if not op.startswith("_"))
    ctx.coverage["ops_per_c_function"] = {CFUNC[op]: sum(h.values()) for op, h in sorted(gen.hist.items()) if op in CFUNC}
    ctx.coverage["primes"] = [hx(p) for p in PRIMES]
    for fam in FAMILIES:
        for line, cls in gen.out[fam][:2]:
            ctx.sample(dict(cls=cls, op=line[:300] + ("..." if len(line) > 300 else "")), cap=8)
    ctx.log("generated %d ops in %.1fs" % (sum(len(v) for v in gen.out.values()), time.time() - t))

    t = time.time()
    res, bads = oracle_stage(ctx, exe, gen)
    mins = minimal_bad(exe, bads) if bads else []
    ctx.log("oracle stage %.1fs, %d contradictions" % (time.time() - t, len(bads)))

    vlib.proof_stage(ctx, ["SqiProps.C14"], searcher=(lambda: bad_to_violation(mins[0]) if mins else None))

    # genuine contradictions of the property's own spec (concrete, minimised replays)
    for b in mins:
        ctx.violation(*bad_to_violation(b))
    bad_ops = {b["op"].split()[0] for b in bads}

    okd, out, failing = ctx.lake(["driver"])
    if not okd:
        ctx.obligation("model driver builds", False, out[-400:])
        if not mins:
            ctx.violation("C14:model-driver-build", "the Lean model driver no longer builds; correspondence not checked",
                          dict(errors=failing[:10], log_tail=out[-2000:]), found=False)
    else:
        t = time.time()
        for fam in FAMILIES:
            lines, classes, couts, ver = res[fam]
            dis = correspond_with(ctx, "quat-" + fam, lines, couts)
            seen = set()
            for d in dis:
                o = d["op"].split()[0]
                if o in bad_ops or o in seen:
                    continue          # explained by a reported genuine contradiction / already reported for this op
                seen.add(o)
                st, detail = ver[d["index"]] if d["index"] < len(ver) else ("skip", "")
                ctx.violation("C14:model-tie:" + o,
                              "Lean model and C code disagree on %s (%s) while the C result %s; the correspondence tie is broken"
                              % (CFUNC.get(o, o), o, "agrees with the exact oracle" if st == "ok" else "is outside the oracle's domain"),
                              dict(op_line=d["op"], c_output=d["impl"], model_output=d["model"], oracle_verdict=st,
                                   generator_class=classes[d["index"]], how_to_replay=replay_cmd(d["op"])), found=False)
        ctx.log("correspondence stage %.1fs" % (time.time() - t))
    return dict(level="proof",
                rule="one case = one op line (C function x generator class x size bucket x prime); every C output is compared with the Lean model "
                     "(tie) and with the exact Python oracle (specification)")


def replay(ctx, rp):
    import a6_proc
    a6_proc.install(vlib, ctx)
    """./check C14 --replay replays/C14_*.json : re-run the recorded op line on the current tree"""
    r = rp.get("replay", {})
    line = r.get("op_line")
    if not line:
        print(json.dumps(rp, indent=1))
        return 0
    ctx.build_repo("ref")
    exe = ctx.cc_harness(HARNESS, os.path.join(ctx.tmp, "drv_quat"), 1)
    couts, _ = run_c_all(exe, [line])
    st, detail = O.verdict(line, couts[0])
    print("op      :", line)
    print("C output:", couts[0])
    try:
        ctx.lake(["driver"])
        print("model   :", ctx.driver([line])[0])
    except Exception as e:
        print("model   : <unavailable: %s>" % e)
    print("oracle  :", st, detail)
    return 1 if st == "bad" else 0

"""Independent exact oracle for C14 (quaternion algebra (-1,-p) over Q and full-rank rational lattices in Q^4).

Everything here is written from the mathematical definitions only (python ints / fractions.Fraction); nothing is
derived from the C code or from the Lean model:

  * quaternions: x = z + w*j with z, w in Q(i), j*z = conj(z)*j, j^2 = -p  (so the 16-term coordinate formula of the
    C code is never written down here);
  * integer column echelon / Hermite normal form by repeated floor-division Euclid steps on whole columns
    (smallest non-zero entry as pivot; no extended gcd, no Bezout cofactors) - the HNF of a lattice is unique, so
    the result is comparable with the C output entry by entry.  C convention (dim4.c: ibz_mat_4x4_is_hnf,
    ibz_mat_4x8_hnf_core): basis vectors are COLUMNS, the matrix is upper triangular, the diagonal is positive
    and in every row the entries right of the diagonal lie in [0, diagonal);
  * a rational lattice L = (1/denom) * Z-span(columns of basis) has a unique representation with denom > 0,
    basis in HNF and gcd(denom, all entries) = 1; the C code leaves the SIGN of denom free
    (quat_lattice_equal compares |denom|, "denominators are free"), so denominators are compared in absolute value;
  * sum = span of both generator sets; product = span of the 16 pairwise products; intersection by the integer
    kernel of [A1 | -A2] (column echelon of the 12x8 matrix [A1 -A2; I8]) and *validated* on every call by
    "generators lie in both lattices" and covol(L1 cap L2) * covol(L1 + L2) = covol(L1) * covol(L2);
  * membership / coordinates by exact Gaussian elimination over Q; index = ratio of covolumes;
    dual = inverse transpose over Q.

`verdict(line, c_out)` evaluates one driver op line against the C driver's output line and returns
(status, detail): status "ok" | "bad" (the C result contradicts the specification) | "skip" (input outside the domain
in which the property speaks, e.g. singular matrix for is_hnf; only the model<->C tie applies)."""
from fractions import Fraction as Fr
from math import gcd
from itertools import permutations


# ----------------------------------------------------------------------------------------------- text format
def hx(n):
    return ("-%x" % -n) if n < 0 else ("%x" % n)


def parse_ints(ws):
    return [int(w, 16) for w in ws]


def parse_line(line):
    ws = line.split()
    return ws[0], parse_ints(ws[1:])


def fq(xs):
    """rationals as text"""
    return "[" + ", ".join(str(x) for x in xs) + "]"


class Bad(Exception):
    """the C output contradicts the specification"""


def need(cond, msg):
    if not cond:
        raise Bad(msg)


def take_vec(xs, k):
    return xs[k:k + 4], k + 4


def take_mat(xs, k):
    return [xs[k + 4 * i:k + 4 * i + 4] for i in range(4)], k + 16


def take_elem(xs, k):
    return (xs[k], xs[k + 1:k + 5]), k + 5


def take_lat(xs, k):
    m, k2 = take_mat(xs, k + 1)
    return (xs[k], m), k2


# ----------------------------------------------------------------------------------------------- quaternions
class GQ:
    """element of Q(i)"""
    __slots__ = ("re", "im")

    def __init__(self, re, im):
        self.re, self.im = re, im

    def __add__(s, o):
        return GQ(s.re + o.re, s.im + o.im)

    def __sub__(s, o):
        return GQ(s.re - o.re, s.im - o.im)

    def __mul__(s, o):
        return GQ(s.re * o.re - s.im * o.im, s.re * o.im + s.im * o.re)

    def conj(s):
        return GQ(s.re, -s.im)

    def scale(s, c):
        return GQ(s.re * c, s.im * c)


def qmul(p, a, b):
    """product in the algebra (-1,-p): basis 1, i, j, k = i*j.  a = (a0 + a1 i) + (a2 + a3 i) j."""
    z1, w1 = GQ(a[0], a[1]), GQ(a[2], a[3])
    z2, w2 = GQ(b[0], b[1]), GQ(b[2], b[3])
    z = z1 * z2 - (w1 * w2.conj()).scale(p)      # j^2 = -p, j z = conj(z) j
    w = z1 * w2 + w1 * z2.conj()
    return [z.re, z.im, w.re, w.im]


def qconj(a):
    return [a[0], -a[1], -a[2], -a[3]]


def qval(e):
    d, c = e
    need(d != 0, "zero denominator in result")
    return [Fr(x, d) for x in c]


# ----------------------------------------------------------------------------------------------- linear algebra
def cols_of(m):
    return [[m[i][j] for i in range(4)] for j in range(4)]


def mat_of_cols(cs):
    return [[cs[j][i] for j in range(4)] for i in range(4)]


def det4(m):
    """Leibniz formula"""
    tot = 0
    for perm in permutations(range(4)):
        sg = 1
        for i in range(4):
            for j in range(i + 1, 4):
                if perm[i] > perm[j]:
                    sg = -sg
        tot += sg * m[0][perm[0]] * m[1][perm[1]] * m[2][perm[2]] * m[3][perm[3]]
    return tot


def solve_q(m, rhs_cols):
    """Gauss-Jordan over Q: returns X with m X = rhs (rhs given as list of columns), or None if m is singular"""
    n = 4
    a = [[Fr(m[i][j]) for j in range(n)] + [Fr(c[i]) for c in rhs_cols] for i in range(n)]
    for c in range(n):
        piv = next((r for r in range(c, n) if a[r][c] != 0), None)
        if piv is None:
            return None
        a[c], a[piv] = a[piv], a[c]
        inv = 1 / a[c][c]
        a[c] = [x * inv for x in a[c]]
        for r in range(n):
            if r != c and a[r][c] != 0:
                f = a[r][c]
                a[r] = [x - f * y for x, y in zip(a[r], a[c])]
    return [[a[i][n + k] for i in range(n)] for k in range(len(rhs_cols))]


def inverse_q(m):
    cols = solve_q(m, [[1 if i == j else 0 for i in range(4)] for j in range(4)])
    return None if cols is None else mat_of_cols(cols)


def matmul(a, b):
    return [[sum(a[i][k] * b[k][j] for k in range(4)) for j in range(4)] for i in range(4)]


def echelon(cols, nrows=4):
    """Unimodular column operations (swap, negate, add integer multiple of another column) bringing the first
    `nrows` rows of the integer matrix with the given columns into the column-style Hermite normal form used by the
    C code: rows are processed from the last to the first, pivots move from the last column to the left, pivot > 0,
    entries right of a pivot reduced into [0, pivot), zero columns first.  Extra rows are carried along (they record
    the transformation when an identity is stacked below).  Returns (columns, list of (row, col) pivots)."""
    a = [list(c) for c in cols]
    n = len(a)
    k = n - 1
    pivots = []
    for i in range(nrows - 1, -1, -1):
        if k < 0:
            break
        while True:
            nz = [j for j in range(k + 1) if a[j][i] != 0]
            if not nz:
                break
            jm = min(nz, key=lambda j: abs(a[j][i]))
            if len(nz) == 1:
                if jm != k:
                    a[jm], a[k] = a[k], a[jm]
                break
            pc = a[jm]
            pv = pc[i]
            for j in nz:
                if j != jm:
                    q = a[j][i] // pv
                    if q:
                        a[j] = [x - q * y for x, y in zip(a[j], pc)]
        if a[k][i] == 0:
            continue            # no pivot in this row
        if a[k][i] < 0:
            a[k] = [-x for x in a[k]]
        pv = a[k][i]
        for j in range(k + 1, n):
            q = a[j][i] // pv
            if q:
                a[j] = [x - q * y for x, y in zip(a[j], a[k])]
        pivots.append((i, k))
        k -= 1
    return a, pivots


def hnf_last4(cols):
    """matrix (rows) made of the last four columns of the echelon form of the generators"""
    a, piv = echelon(cols)
    return mat_of_cols([c[:4] for c in a[-4:]]), len(piv)


def is_hnf_fullrank(m):
    """definition for a non-singular 4x4 matrix (C convention)"""
    for i in range(4):
        for j in range(i):
            if m[i][j] != 0:
                return False
        if m[i][i] <= 0:
            return False
        for j in range(i + 1, 4):
            if not (0 <= m[i][j] < m[i][i]):
                return False
    return True


def is_upper_triangular(m):
    return all(m[i][j] == 0 for i in range(4) for j in range(i))


def content(m):
    g = 0
    for r in m:
        for x in r:
            g = gcd(g, x)
    return g


# ----------------------------------------------------------------------------------------------- rational lattices
def lat_gens(lat):
    """generators (Fraction columns) of (1/d) * span(columns of B)"""
    d, b = lat
    need(d != 0, "zero lattice denominator")
    return [[Fr(x, d) for x in c] for c in cols_of(b)]


def canon(gens):
    """canonical (denom > 0, HNF basis, gcd(denom, entries) = 1) of the Z-span of rational generator columns;
    returns None when the span is not of full rank"""
    D = 1
    for g in gens:
        for x in g:
            D = D * x.denominator // gcd(D, x.denominator)
    cols = [[int(x * D) for x in g] for g in gens]
    while len(cols) < 4:
        cols.insert(0, [0, 0, 0, 0])
    h, rank = hnf_last4(cols)
    if rank < 4:
        return None
    g = gcd(D, content(h))
    return D // g, [[x // g for x in r] for r in h]


def covol(c):
    """covolume of a canonical lattice"""
    d, h = c
    return Fr(h[0][0] * h[1][1] * h[2][2] * h[3][3], d ** 4)


def coords_in(lat_q, x):
    """coordinates (Fractions) of the rational vector x in the rational basis given as Fraction matrix (rows)"""
    r = solve_q(lat_q, [x])
    return None if r is None else r[0]


def lat_matrix_q(lat):
    d, b = lat
    return [[Fr(x, d) for x in r] for r in b]


def member(canon_lat, x):
    d, h = canon_lat
    c = coords_in([[Fr(v, d) for v in r] for r in h], x)
    return all(v.denominator == 1 for v in c)


def lat_sum(l1, l2):
    return canon(lat_gens(l1) + lat_gens(l2))


def lat_inter(l1, l2):
    g1, g2 = lat_gens(l1), lat_gens(l2)
    D = 1
    for g in g1 + g2:
        for x in g:
            D = D * x.denominator // gcd(D, x.denominator)
    a1 = [[int(x * D) for x in g] for g in g1]
    a2 = [[int(x * D) for x in g] for g in g2]
    cols = []
    for t in range(8):
        top = a1[t] if t < 4 else [-x for x in a2[t - 4]]
        cols.append(top + [1 if s == t else 0 for s in range(8)])
    e, piv = echelon(cols, 4)
    if len(piv) < 4:
        return None
    ker = [c for c in e if not any(c[:4])]
    if len(ker) != 4:
        return None
    gens = []
    for c in ker:
        x = c[4:8]
        gens.append([Fr(sum(a1[t][i] * x[t] for t in range(4)), D) for i in range(4)])
    res = canon(gens)
    if res is None:
        return None
    # self-validation of the oracle (independent of how the kernel was found)
    c1, c2, cs = canon(g1), canon(g2), canon(g1 + g2)
    for c in cols_of(res[1]):
        v = [Fr(t, res[0]) for t in c]
        assert member(c1, v) and member(c2, v), "oracle: intersection generator outside an operand"
    assert covol(res) * covol(cs) == covol(c1) * covol(c2), "oracle: covolume identity fails"
    return res


def lat_prod(p, l1, l2):
    g1, g2 = lat_gens(l1), lat_gens(l2)
    return canon([qmul(p, x, y) for x in g1 for y in g2])


def fmt_lat(c):
    if c is None:
        return "not-full-rank"
    d, h = c
    return " ".join(hx(x) for x in [d] + [v for r in h for v in r])


def cmp_lat(out, want, what):
    """C lattice output (denom, basis) against the oracle's canonical lattice"""
    d, b = out
    need(want is not None, "oracle: operand not of full rank (generator bug)")
    need(d != 0, "zero denominator in result")
    need(is_hnf_fullrank(b), "%s: returned basis is not in Hermite normal form; expected |denom| basis (hex) = %s" % (what, fmt_lat(want)))
    need(gcd(abs(d), content(b)) == 1, "%s: denominator not reduced; expected %s" % (what, fmt_lat(want)))
    need(abs(d) == want[0] and b == want[1], "%s: wrong lattice; expected |denom| basis (hex) = %s" % (what, fmt_lat(want)))


# ----------------------------------------------------------------------------------------------- verdicts
def o0_domain(e):
    """element given in the basis 1,i,j,k lies in O0 = <1, i, (i+j)/2, (1+k)/2>"""
    d, c = e
    v = [Fr(c[0] - c[3], d), Fr(c[1] - c[2], d), Fr(2 * c[2], d), Fr(2 * c[3], d)]
    return v if all(t.denominator == 1 for t in v) else None


def _verdict(op, xs, out):
    if op == "q.xgcd":
        a, b = xs
        g, s, t = out
        need(g == gcd(a, b), "gcd wrong: expected 0x%s" % hx(gcd(a, b)))
        need(s * a + t * b == g, "Bezout identity s*a + t*b = g fails")
    elif op == "q.rdiv":
        a, b = xs
        if b == 0:
            return "skip"
        (q,) = out
        need(2 * abs(a - q * b) <= abs(b), "quotient is not a nearest integer to a/b")
    elif op in ("q.add", "q.sub"):
        A, k = take_elem(xs, 0)
        B, k = take_elem(xs, k)
        R, _ = take_elem(out, 0)
        va, vb = qval(A), qval(B)
        want = [x + y if op == "q.add" else x - y for x, y in zip(va, vb)]
        need(qval(R) == want, "value differs; expected coordinates %s" % fq(want))
    elif op == "q.mul":
        p = xs[0]
        A, k = take_elem(xs, 1)
        B, k = take_elem(xs, k)
        R, _ = take_elem(out, 0)
        want = qmul(p, qval(A), qval(B))
        need(qval(R) == want, "product differs; expected coordinates %s" % fq(want))
    elif op == "q.conj":
        A, _ = take_elem(xs, 0)
        R, _ = take_elem(out, 0)
        need(qval(R) == qconj(qval(A)), "conjugate differs")
    elif op == "q.normalize":
        A, _ = take_elem(xs, 0)
        R, _ = take_elem(out, 0)
        need(qval(R) == qval(A), "normalisation changed the value")
        need(R[0] > 0, "normalised denominator not positive")
        g = R[0]
        for c in R[1]:
            g = gcd(g, c)
        need(g == 1, "normalised element not in lowest terms (gcd 0x%s)" % hx(g))
    elif op == "q.eqden":
        A, k = take_elem(xs, 0)
        B, k = take_elem(xs, k)
        RA, k = take_elem(out, 0)
        RB, k = take_elem(out, k)
        need(qval(RA) == qval(A) and qval(RB) == qval(B), "equal_denom changed a value")
        need(RA[0] == RB[0], "denominators differ after equal_denom")
    elif op == "q.norm":
        p = xs[0]
        A, _ = take_elem(xs, 1)
        va = qval(A)
        n = qmul(p, va, qconj(va))
        assert n[1] == 0 and n[2] == 0 and n[3] == 0, "oracle: x*conj(x) not rational"
        need(len(out) == 2 and out[1] > 0 and gcd(out[0], out[1]) == 1, "norm not a canonical rational")
        need(Fr(out[0], out[1]) == n[0], "norm differs; expected %s" % n[0])
    elif op == "q.trace":
        A, _ = take_elem(xs, 0)
        va = qval(A)
        need(len(out) == 2 and out[1] > 0 and gcd(out[0], out[1]) == 1, "trace not a canonical rational")
        need(Fr(out[0], out[1]) == va[0] + qconj(va)[0], "trace differs; expected %s" % (2 * va[0]))
    elif op == "q.rmat":
        p = xs[0]
        A, _ = take_elem(xs, 1)
        R, _ = take_mat(out, 0)
        num = [Fr(c) for c in A[1]]
        for i in range(4):
            e = [Fr(1 if t == i else 0) for t in range(4)]
            want = qmul(p, e, num)
            need([Fr(R[r][i]) for r in range(4)] == want, "column %d is not e_%d * a; expected %s" % (i, i, fq(want)))
    elif op == "q.o0basis":
        A, _ = take_elem(xs, 0)
        if A[0] == 0:
            return "skip"
        v = o0_domain(A)
        if v is None:
            return "skip"
        need([Fr(t) for t in out] == v, "coordinates in the O0 basis differ; expected %s" % fq(v))
    elif op == "m.mul":
        A, k = take_mat(xs, 0)
        B, k = take_mat(xs, k)
        R, _ = take_mat(out, 0)
        need(R == matmul(A, B), "matrix product differs")
    elif op == "m.inv":
        A, _ = take_mat(xs, 0)
        d = det4(A)
        if d == 0:
            need(out == [0], "singular matrix: expected return 0 / det 0")
        else:
            need(len(out) == 17, "non-singular matrix reported singular; det = 0x%s" % hx(d))
            need(out[0] == d, "determinant differs; expected 0x%s" % hx(d))
            R, _ = take_mat(out, 1)
            need(matmul(A, R) == [[d if i == j else 0 for j in range(4)] for i in range(4)], "mat * inv != det * Id")
    elif op == "m.eval":
        A, k = take_mat(xs, 0)
        v, _ = take_vec(xs, k)
        need(out == [sum(A[i][j] * v[j] for j in range(4)) for i in range(4)], "matrix-vector product differs")
    elif op == "m.qf":
        A, k = take_mat(xs, 0)
        v, _ = take_vec(xs, k)
        need(out == [sum(v[i] * A[i][j] * v[j] for i in range(4) for j in range(4))], "quadratic form value differs")
    elif op == "m.ishnf":
        A, _ = take_mat(xs, 0)
        if det4(A) == 0:
            return "skip"
        need(out == [1 if is_hnf_fullrank(A) else 0], "is_hnf answer wrong; expected %d" % is_hnf_fullrank(A))
    elif op == "m.gcd":
        A, _ = take_mat(xs, 0)
        g = 0
        for r in A:
            for x in r:
                g = gcd(g, abs(x))
        need(out == [g], "ibz_mat_4x4_gcd is not the (non-negative) gcd of all 16 entries; expected %d" % g)
    elif op in ("h.core", "h.mod"):
        if op == "h.core":
            cols = [[xs[8 * i + h] for i in range(4)] for h in range(8)]
        else:
            A, k = take_mat(xs, 0)
            m = xs[k]
            cols = cols_of(A) + [[m if i == j else 0 for i in range(4)] for j in range(4)]
        R, _ = take_mat(out, 0)
        want, rank = hnf_last4(cols)
        if rank == 4:
            need(is_hnf_fullrank(R), "result not in Hermite normal form; expected %s" % " ".join(hx(v) for r in want for v in r))
        need(R == want, "not the Hermite normal form of the generators (rank %d); expected %s"
             % (rank, " ".join(hx(v) for r in want for v in r)))
    elif op in ("l.add", "l.inter", "l.mul"):
        k0 = 1 if op == "l.mul" else 0
        L1, k = take_lat(xs, k0)
        L2, k = take_lat(xs, k)
        R, _ = take_lat(out, 0)
        if canon(lat_gens(L1)) is None or canon(lat_gens(L2)) is None:
            return "skip"
        want = lat_sum(L1, L2) if op == "l.add" else lat_inter(L1, L2) if op == "l.inter" else lat_prod(xs[0], L1, L2)
        cmp_lat(R, want, {"l.add": "sum", "l.inter": "intersection", "l.mul": "product"}[op])
    elif op == "l.hnf":
        L, _ = take_lat(xs, 0)
        R, _ = take_lat(out, 0)
        want = canon(lat_gens(L))
        if want is None:
            return "skip"
        cmp_lat(R, want, "hnf")
    elif op == "l.reduce":
        L, _ = take_lat(xs, 0)
        R, _ = take_lat(out, 0)
        need(R[0] != 0, "zero denominator in result")
        need(lat_matrix_q(R) == lat_matrix_q(L), "reduce_denom changed the rational basis")
        need(gcd(abs(R[0]), content(R[1])) == 1, "denominator and basis still share a factor")
    elif op == "l.dual":
        L, _ = take_lat(xs, 0)
        R, _ = take_lat(out, 0)
        inv = inverse_q(lat_matrix_q(L))
        if inv is None:
            return "skip"
        want = canon([list(r) for r in inv])     # columns of the inverse transpose = rows of the inverse
        need(R[0] != 0, "zero denominator in result")
        got = canon(lat_gens(R))
        need(got == want, "not the dual lattice; expected (canonical) %s" % fmt_lat(want))
    elif op == "l.equal":
        L1, k = take_lat(xs, 0)
        L2, k = take_lat(xs, k)
        if not (is_hnf_fullrank(L1[1]) and is_hnf_fullrank(L2[1])):
            return "skip"
        eq = canon(lat_gens(L1)) == canon(lat_gens(L2))
        need(out == [1 if eq else 0], "equality answer wrong; expected %d" % eq)
    elif op == "l.contains":
        L, k = take_lat(xs, 0)
        X, _ = take_elem(xs, k)
        if L[0] == 0 or X[0] == 0 or det4(L[1]) == 0:
            return "skip"
        c = coords_in(lat_matrix_q(L), qval(X))
        inside = all(v.denominator == 1 for v in c)
        need(len(out) == 5 and out[0] in (0, 1), "malformed membership answer")
        if is_upper_triangular(L[1]):
            # the back-substitution of the C code is a complete decision procedure for triangular bases
            need(out[0] == (1 if inside else 0), "membership answer wrong; expected %d" % inside)
        else:
            # basis outside the documented precondition: only soundness is required (never a wrong "yes")
            need(out[0] == 0 or inside, "answered 'member' for an element outside the lattice")
        if out[0] == 1:
            need([Fr(v) for v in out[1:]] == c, "coordinates in the lattice basis differ; expected %s" % fq(c))
    elif op == "l.index":
        S, k = take_lat(xs, 0)
        O, k = take_lat(xs, k)
        if S[0] == 0 or O[0] == 0 or det4(S[1]) == 0 or det4(O[1]) == 0:
            return "skip"
        if not (is_upper_triangular(S[1]) and is_upper_triangular(O[1])):
            return "skip"            # the C function reads the determinant off the diagonal
        cs, co = canon(lat_gens(S)), canon(lat_gens(O))
        if not all(member(co, [Fr(t, cs[0]) for t in c]) for c in cols_of(cs[1])):
            return "skip"            # not nested: outside the precondition
        idx = covol(cs) / covol(co)
        assert idx.denominator == 1, "oracle: index of nested lattices not integral"
        need(out == [idx.numerator], "index differs; expected 0x%s" % hx(idx.numerator))
    else:
        return "skip"
    return "ok"


def verdict(line, c_out):
    """-> (status, detail).  status: ok | bad | skip"""
    op, xs = parse_line(line)
    try:
        out = parse_ints(c_out.split())
    except ValueError:
        return "bad", "unparsable C output %r" % c_out[:200]
    try:
        return _verdict(op, xs, out), ""
    except Bad as e:
        return "bad", str(e)
    except (IndexError, ValueError) as e:
        return "bad", "malformed C output (%s): %r" % (e, c_out[:200])


def selftest():
    """cheap sanity checks of the oracle itself (run at the start of every check)"""
    # quaternion relations
    one, i, j, k = [1, 0, 0, 0], [0, 1, 0, 0], [0, 0, 1, 0], [0, 0, 0, 1]
    for p in (3, 7, 103):
        assert qmul(p, i, i) == [-1, 0, 0, 0] and qmul(p, j, j) == [-p, 0, 0, 0] and qmul(p, i, j) == k
        assert qmul(p, j, i) == [0, 0, 0, -1] and qmul(p, k, k) == [-p, 0, 0, 0] and qmul(p, one, k) == k
        a, b, c = [Fr(1, 2), Fr(-3), Fr(5, 7), Fr(2)], [Fr(4), Fr(1, 3), Fr(-2), Fr(9)], [Fr(-1), Fr(6), Fr(1, 5), Fr(3)]
        assert qmul(p, qmul(p, a, b), c) == qmul(p, a, qmul(p, b, c))
        n = lambda x: qmul(p, x, qconj(x))[0]
        assert n(qmul(p, a, b)) == n(a) * n(b)
    # HNF: uniqueness under a unimodular change of generators, and a hand example
    m = [[2, 3, 5, 1], [0, 4, 1, 7], [0, 0, 6, 2], [0, 0, 0, 9]]
    assert is_hnf_fullrank(m) is False            # 7 > 4 in row 1
    h, r = hnf_last4([[0] * 4] * 4 + cols_of(m))
    assert r == 4 and is_hnf_fullrank(h) and abs(det4(h)) == abs(det4(m))
    u = [[1, 2, 0, -1], [0, 1, 3, 5], [0, 0, 1, 4], [0, 0, 0, 1]]
    h2, _ = hnf_last4(cols_of(matmul(m, u)) + cols_of(m))
    assert h2 == h
    # intersection of 2Z x Z^3 and Z x 3Z x Z^2
    l1 = (1, [[2, 0, 0, 0], [0, 1, 0, 0], [0, 0, 1, 0], [0, 0, 0, 1]])
    l2 = (-1, [[1, 0, 0, 0], [0, 3, 0, 0], [0, 0, 1, 0], [0, 0, 0, 1]])
    assert lat_inter(l1, l2) == (1, [[2, 0, 0, 0], [0, 3, 0, 0], [0, 0, 1, 0], [0, 0, 0, 1]])
    assert lat_sum(l1, l2) == (1, [[1, 0, 0, 0], [0, 1, 0, 0], [0, 0, 1, 0], [0, 0, 0, 1]])
    assert lat_inter((2, l1[1]), (3, l2[1])) == (1, [[1, 0, 0, 0], [0, 1, 0, 0], [0, 0, 1, 0], [0, 0, 0, 1]])
    return True

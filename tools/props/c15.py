"""C15 — left ideals and orders (ideal.c, lattice.c:quat_lattice_right_transporter, precomp quaternion_data.c).

Proof:   lean/SqiProps/C15.lean (table facts by kernel evaluation over the regenerated tables, span-level
         soundness theorems for the constructors / checkers of lean/SqiModel/Ideal.lean).
Tie T:   quaternion_data.c -> lean/SqiGen/Tables{1,3,5}.lean (regenerated each run) and compared here with the
         constants the C compiler actually linked (`tab.*` ops of the harness).
Tie H:   tools/harness/drv_ideal.c (real C functions, one binary per level) vs the Lean driver on the same op
         lines; outputs of the unmodelled routines (right transporter / right order / isomorphism, LLL + modular
         kernel inside) are fed to the model's proved checkers as certificates.
Spec:    tools/props/c15_oracle.py — independent exact lattice/ideal arithmetic; every C output of the valid
         stream is compared with the mathematical definition.  C contradicts oracle => VIOLATION with replay;
         model != C while the oracle is satisfied => VIOLATION ... no-failing-input-found."""
import ast, json, os, re, time
from concurrent.futures import ThreadPoolExecutor
from fractions import Fraction as Fr
from math import gcd
import vlib
import c15_oracle as Q

HERE = os.path.dirname(os.path.abspath(__file__))
SRC = os.path.join(os.path.dirname(HERE), "harness", "drv_ideal.c")
SMALL_PRIMES = [3, 5, 7, 11, 13, 17, 19, 23, 29, 31, 37, 41, 43, 47, 53, 59, 61, 67, 71, 73, 79, 83, 89, 97]
BIG_PRIMES = [2**61 - 1, 2**89 - 1, 2**127 - 1, 2**521 - 1]     # Mersenne primes (all = 3 mod 4)


def hx(z):
    return ("-%x" % -z) if z < 0 else "%x" % z


def hxs(zs):
    return " ".join(hx(z) for z in zs)


def ints(s):
    return [int(t, 16) for t in s.split()]


def lat_flat(L):
    d, M = L
    return [d] + [M[i][j] for i in range(4) for j in range(4)]


def lat_parse(v):
    return (v[0], [list(v[1 + 4 * i: 5 + 4 * i]) for i in range(4)])


def elem_flat(e):
    return [e[0]] + list(e[1])


def elem_val(e):
    return Q.elem(e[0], e[1])


class Case:
    """one op line + (optionally) the oracle's verdict on the C output"""
    __slots__ = ("line", "kind", "spec", "meta", "valid")

    def __init__(self, line, kind, spec=None, meta=None, valid=True):
        self.line, self.kind, self.spec, self.meta, self.valid = line, kind, spec, meta or {}, valid


# ------------------------------------------------------------------------------------------------ table reading
def lean_tables(lvl):
    """W64 quaternion tables as emitted by the translator (Lean literal syntax = Python literal syntax)"""
    txt = open(os.path.join(vlib.LEAN, "SqiGen", "Tables%d.lean" % lvl)).read()
    blk = "\n".join(re.findall(r"^namespace W64\n(.*?)^end W64", txt, re.S | re.M))
    out = {}
    for name in ("QUATALG_PINFTY_p", "QUATALG_PINFTY_gram", "MAXORD_O0", "STANDARD_EXTREMAL_ORDER", "ALTERNATE_EXTREMAL_ORDERS"):
        mm = re.search(r"^def %s : [^\n]*? := (.*)$" % name, blk, re.M)
        out[name] = ast.literal_eval(mm.group(1))
    return out


def c_tables(exe):
    lines = ["tab.p", "tab.o0", "tab.std", "tab.nalt"]
    rc, outs, err, _to = run_lines([exe], lines, 60, "R ")
    if rc != 0 or len(outs) != 4:
        raise vlib.BuildError("drv_ideal tab.* failed: " + err)
    nalt = int(outs[3], 16)
    rc, alts, err, _to = run_lines([exe], ["tab.alt %x" % k for k in range(nalt)], 60, "R ")
    pv = ints(outs[0])

    def ext(s):
        v = ints(s)
        return dict(order=lat_parse(v[:17]), i=(v[17], v[18:22]), j=(v[22], v[23:27]), q=v[27])
    return dict(p=pv[0], gram=[pv[1 + 4 * i: 5 + 4 * i] for i in range(4)], o0=lat_parse(ints(outs[1])),
                std=ext(outs[2]), alt=[ext(a) for a in alts])


def tables_agree(ct, lt):
    """translator output == what the compiler linked"""
    bad = []
    if ct["p"] != lt["QUATALG_PINFTY_p"]:
        bad.append("QUATALG_PINFTY.p")
    if ct["gram"] != lt["QUATALG_PINFTY_gram"]:
        bad.append("QUATALG_PINFTY.gram")
    if (ct["o0"][0], ct["o0"][1]) != (lt["MAXORD_O0"][0], lt["MAXORD_O0"][1]):
        bad.append("MAXORD_O0")

    def same(e, t):
        return (e["order"][0], e["order"][1]) == (t[0][0], t[0][1]) and (e["i"][0], list(e["i"][1])) == (t[1][0], list(t[1][1])) \
            and (e["j"][0], list(e["j"][1])) == (t[2][0], list(t[2][1])) and e["q"] == t[3]
    if not same(ct["std"], lt["STANDARD_EXTREMAL_ORDER"]):
        bad.append("STANDARD_EXTREMAL_ORDER")
    if len(ct["alt"]) != len(lt["ALTERNATE_EXTREMAL_ORDERS"]):
        bad.append("NUM_ALTERNATE_EXTREMAL_ORDERS")
    for k, (e, t) in enumerate(zip(ct["alt"], lt["ALTERNATE_EXTREMAL_ORDERS"])):
        if not same(e, t):
            bad.append("ALTERNATE_EXTREMAL_ORDERS[%d]" % k)
    return bad


def table_oracle(lvl, ct):
    """the oracle's verdict on the linked tables: list of (key, what, detail)"""
    bad = []
    p = ct["p"]
    if p != vlib.LEVELS[lvl]["p"]:
        bad.append(("tables:L%d:p" % lvl, "QUATALG_PINFTY.p is not the level's prime", dict(p=hx(p))))
    if ct["gram"] != [[1, 0, 0, 0], [0, 1, 0, 0], [0, 0, p, 0], [0, 0, 0, p]]:
        bad.append(("tables:L%d:gram" % lvl, "QUATALG_PINFTY.gram is not diag(1,1,p,p)", {}))

    def order_bad(name, raw):
        try:
            O = Q.canon(*raw)
        except Q.OracleError as e:
            return "%s: %s" % (name, e)
        if (O[0], O[1]) != (raw[0], raw[1]):
            return name + ": basis not in Hermite normal form with reduced denominator"
        if not Q.is_ring(p, O):
            return name + ": lattice is not a ring (1 missing or not closed under multiplication)"
        if Q.trace_disc(p, O) != p * p:
            return name + ": discriminant of the trace form is %s, not p^2 (order not maximal)" % Q.trace_disc(p, O)
        return None
    e = order_bad("MAXORD_O0", ct["o0"])
    if e:
        bad.append(("tables:L%d:MAXORD_O0" % lvl, e, dict(table="MAXORD_O0")))
    for name, ent in [("STANDARD_EXTREMAL_ORDER", ct["std"])] + [("ALTERNATE_EXTREMAL_ORDERS[%d]" % k, a) for k, a in enumerate(ct["alt"])]:
        e = order_bad(name, ent["order"])
        if not e:
            O = Q.canon(*ent["order"])
            try:
                z, t, q = elem_val(ent["i"]), elem_val(ent["j"]), ent["q"]
                if Q.contains(O, z) is None or Q.contains(O, t) is None:
                    e = name + ": stored element i or j not in the order"
                elif Q.qmul(p, z, z) != (-q, 0, 0, 0) or q <= 0:
                    e = name + ": i^2 != -q"
                elif Q.qmul(p, t, t) != (-p, 0, 0, 0):
                    e = name + ": j^2 != -p"
                elif Q.qmul(p, z, t) != tuple(-c for c in Q.qmul(p, t, z)):
                    e = name + ": ij != -ji"
            except ZeroDivisionError:
                e = name + ": zero denominator in stored element"
        if e:
            bad.append(("tables:L%d:%s" % (lvl, name), e, dict(table=name, entry=json.dumps(ent, default=str)[:2000])))
    return bad


# ------------------------------------------------------------------------------------------------ generators
class Gen:
    def __init__(self, rng, lvl, p, orders, quick, cov):
        self.rng, self.lvl, self.p, self.orders, self.quick, self.cov = rng, lvl, p, orders, quick, cov
        self.cases = []

    def count(self, hist, key):
        h = self.cov.setdefault(hist, {})
        h[key] = h.get(key, 0) + 1

    def sint(self, bits):
        v = self.rng.bits(bits)
        return -v if self.rng.below(2) else v

    def coeffs(self, cls):
        bits = {"tiny": 3, "small": 10, "word": 64, "big": 256}[cls]
        while True:
            c = [self.sint(bits) for _ in range(4)]
            if any(c):
                return c

    def order_elem(self, Oraw, c):
        """element of the order with coordinate vector c in its basis, as raw (denom, coords)"""
        d, M = Oraw
        return (d, [sum(M[i][j] * c[j] for j in range(4)) for i in range(4)])

    def primitive_elem(self, Oraw, cls):
        while True:
            c = self.coeffs(cls)
            g = 0
            for v in c:
                g = gcd(g, v)
            c = [v // g for v in c]
            return self.order_elem(Oraw, c), c

    def elem_with_prime_norm_factor(self, Oraw, ell):
        """primitive x in O with ell | N(x): fix three coordinates, solve the quadratic for the first (ell = 3 mod 4)"""
        p = self.p
        bs = Q.basis(Q.canon(*Oraw)) if False else [tuple(Fr(Oraw[1][i][j], Oraw[0]) for i in range(4)) for j in range(4)]
        for _ in range(200):
            c = [0] + [self.rng.below(ell) for _ in range(3)]
            w = tuple(sum(bs[k][r] * c[k] for k in range(1, 4)) for r in range(4))
            A = Q.qnorm(p, bs[0])
            B = 2 * Q.qmul(p, bs[0], Q.qconj(w))[0]
            C = Q.qnorm(p, w)
            D = 1
            for f in (A, B, C):
                D = D * f.denominator // gcd(D, f.denominator)
            if D % ell == 0:
                continue
            a, b, cc = int(A * D) % ell, int(B * D) % ell, int(C * D) % ell
            if a == 0:
                continue
            disc = (b * b - 4 * a * cc) % ell
            s = pow(disc, (ell + 1) // 4, ell)
            if s * s % ell != disc:
                continue
            c[0] = (-b + s) * pow(2 * a, -1, ell) % ell
            g = 0
            for v in c:
                g = gcd(g, v)
            if g != 1:
                continue
            x = self.order_elem(Oraw, c)
            nx = Q.qnorm(p, elem_val(x))
            if nx.denominator == 1 and nx % ell == 0:
                return x, c
        return None, None

    def pick_N(self, nx, cls):
        r = self.rng
        if cls == "prime_small":
            return r.choice(SMALL_PRIMES)
        if cls == "prime_big":
            return r.choice(BIG_PRIMES)
        if cls == "composite":
            return r.choice(SMALL_PRIMES) * r.choice(SMALL_PRIMES + BIG_PRIMES) * r.choice([1, 2, 4, 9, 25])
        if cls == "pow2":
            return 2 ** (1 + r.below(vlib.LEVELS[self.lvl]["f"] + 2))
        if cls == "nx":
            return nx
        if cls == "nx_multiple":
            return nx * r.choice([2, 3, 6, 35, 2**61 - 1])
        if cls == "divisor":
            g = gcd(nx, (2 * 3 * 5 * 7 * 11 * 13 * 17 * 19 * 23) ** 8)
            return g if g > 1 else nx
        if cls == "coprime":
            for q in SMALL_PRIMES + BIG_PRIMES:
                if nx % q:
                    return q * r.choice([1, q])
        if cls == "one":
            return 1
        raise ValueError(cls)


def v2(n):
    k = 0
    while n and n % 2 == 0:
        n //= 2
        k += 1
    return k


# ------------------------------------------------------------------------------------------------ specs
def ideal_out(s):
    v = ints(s)
    if len(v) != 18:
        raise ValueError("malformed ideal output: " + s[:80])
    return lat_parse(v[:17]), v[17]


def spec_ideal(expect_lat, expect_norm, O, what, check_index=True, sign_free=False):
    """C output must be the canonical form of `expect_lat`, with stored norm `expect_norm` (= sqrt of the index)"""
    def f(cout):
        try:
            raw, nrm = ideal_out(cout)
            can = Q.canon(*raw)
        except (ValueError, Q.OracleError) as e:
            return "%s: unusable output (%s)" % (what, e)
        if can != expect_lat:
            return "%s: returned lattice differs from the mathematically defined one" % what
        if sign_free and (abs(raw[0]), raw[1]) == (can[0], can[1]):
            pass        # x with a negative denominator: quat_lattice_reduce_denom does not normalise the sign (C14 notes)
        elif (raw[0], raw[1]) != (can[0], can[1]):
            return "%s: returned basis is not in Hermite normal form with reduced positive denominator" % what
        if expect_norm is not None and nrm != expect_norm:
            return "%s: stored norm %s, expected %s" % (what, hx(nrm), hx(expect_norm))
        if check_index and Fr(nrm * nrm) != Q.index(can, O):
            return "%s: stored norm squared differs from the index [O:I]" % what
        return None
    return f


def raw_ideal_line(I):
    """I = (canonical lattice, norm)"""
    return hxs(lat_flat(I[0]) + [I[1]])


def build_cases(g, ctx):
    """all phase-1 op lines for one level"""
    p, rng, quick = g.p, g.rng, g.quick
    cases = g.cases
    P = hx(p)
    norders = len(g.orders)
    per_order = 9 if quick else 60
    xcls = ["tiny", "small", "word", "big"]
    ncls = ["prime_small", "prime_big", "composite", "pow2", "nx", "nx_multiple", "divisor", "coprime", "one"]
    pool = {}            # order index -> list of (canonical lattice, norm, x raw, N)
    for oi, (oname, Oraw) in enumerate(g.orders):
        O = Q.canon(*Oraw)
        OL = hxs(lat_flat(Oraw))
        pool[oi] = []
        for ci in range(per_order):
            mode = rng.choice(["rand", "rand", "rand", "primefactor", "bigprimefactor", "pow2deep"])
            x = None
            if mode == "primefactor":
                for _ in range(60):
                    cand, _c = g.primitive_elem(Oraw, "small")
                    nx = Q.qnorm(p, elem_val(cand))
                    divs = [q for q in SMALL_PRIMES if nx % q == 0]
                    if divs:
                        x, N, ncl = cand, rng.choice(divs) ** rng.choice([1, 1, 2]), "prime_small_dividing"
                        break
            elif mode == "bigprimefactor":
                ell = rng.choice(BIG_PRIMES[:3] if quick else BIG_PRIMES)
                cand, _c = g.elem_with_prime_norm_factor(Oraw, ell)
                if cand is not None:
                    x, N, ncl = cand, ell, "prime_big_dividing"
            elif mode == "pow2deep":
                for _ in range(60):
                    y, _c = g.primitive_elem(Oraw, "tiny")
                    ny = Q.qnorm(p, elem_val(y))
                    if ny % 2 == 0:
                        k = 2 + rng.below(5)
                        yv = elem_val(y)
                        xv = yv
                        for _i in range(k - 1):
                            xv = Q.qmul(p, xv, yv)
                        co = Q.contains(O, xv)
                        gg = 0
                        for v in co:
                            gg = gcd(gg, v)
                        co = [v // gg for v in co]
                        x = g.order_elem(Oraw, co)
                        nxx = Q.qnorm(p, elem_val(x))
                        N, ncl = 2 ** max(1, v2(int(nxx)) - rng.below(2)), "pow2_dividing"
                        break
            if x is None:
                x, _c = g.primitive_elem(Oraw, rng.choice(xcls))
                nx = int(Q.qnorm(p, elem_val(x)))
                ncl = rng.choice(ncls)
                N = g.pick_N(nx, ncl)
            if rng.below(8) == 0:
                N, ncl = -N, ncl + "_neg"
            xv = elem_val(x)
            nx = Q.qnorm(p, xv)
            assert nx.denominator == 1 and Q.is_primitive(O, xv)
            nx = int(nx)
            expN = gcd(nx, N)
            I = Q.left_ideal_gen(p, O, xv, N)
            # the mathematics the property relies on (oracle self-consistency; a failure here is a bug of the check)
            if not (Q.is_left_ideal(p, O, I) and Q.contains(I, xv) is not None and Fr(expN * expN) == Q.index(I, O)):
                raise vlib.BuildError("oracle inconsistency on (x,N) ideal: " + json.dumps(dict(x=x, N=N, order=oname), default=str))
            g.count("N_class", ncl)
            g.count("gcd_Nx_N", "1" if expN == 1 else ("N" if expN == abs(N) else "proper"))
            g.count("order", oname)
            cases.append(Case("id.fromprim %s %s %s %s" % (P, hxs(elem_flat(x)), hx(N), OL), "fromprim",
                              spec_ideal(I, expN, O, "create_from_primitive"), dict(order=oname, x=x, N=N)))
            ctx.case("L%d:%s:fromprim:%s:%s" % (g.lvl, oname, ncl, ci))
            pool[oi].append((I, expN, x, N))
            # same ideal through make_primitive_then_create with an imprimitive multiple m·x and N·gcd-part
            m = rng.choice([1, 2, 3, 6, 2**20, 35])
            xm = (x[0], [m * c for c in x[1]])
            Nm = N * rng.choice([1, m, 2])
            Im = Q.left_ideal_gen(p, O, xv, Nm // gcd(m, Nm))
            expNm = gcd(nx, Nm // gcd(m, Nm))
            cases.append(Case("id.mkprim %s %s %s %s" % (P, hxs(elem_flat(xm)), hx(Nm), OL), "mkprim",
                              spec_ideal(Im, expNm, O, "make_primitive_then_create"), dict(order=oname, x=xm, N=Nm)))
            if ci % 3 == 0:
                Ip = Q.mul_right(p, O, xv)
                cases.append(Case("id.principal %s %s %s" % (P, hxs(elem_flat(x)), OL), "principal",
                                  spec_ideal(Ip, nx, O, "create_principal"), dict(order=oname, x=x)))
            if ci % 3 == 1:
                cases.append(Case("id.isprim %s %s" % (OL, hxs(elem_flat(xm))), "isprim",
                                  (lambda mm: (lambda out: None if out == ("1" if mm in (1, -1) else "0") else "is_primitive wrong"))(m),
                                  dict(order=oname, x=xm)))
        # ---- operations on the ideals of this order
        ids = pool[oi]
        for k, (I, nI, x, N) in enumerate(ids):
            IL = raw_ideal_line((I, nI))
            if nI == 0:
                continue
            # generator (coprime to n)
            ncls_g = rng.choice(["one", "two", "normI", "smallprime", "bigprime", "shared"])
            n = {"one": 1, "two": 2, "normI": nI, "smallprime": rng.choice(SMALL_PRIMES), "bigprime": rng.choice(BIG_PRIMES),
                 "shared": nI * rng.choice([2, 3, 5])}[ncls_g]
            # the acceptance test gcd(n^2, N(gen)) = gcd(n, N(I)) is satisfiable iff gcd(n^2, N(I)) = gcd(n, N(I));
            # otherwise the C search runs through ~10^9 candidates before giving up: bounded stream only
            if gcd(n * n, nI) == gcd(n, nI):
                g.count("gen_n_class", ncls_g + ("/coprime" if gcd(n, nI) == 1 else "/shared"))
                cases.append(Case("id.gen %s %s %s %s 0" % (P, IL, OL, hx(n)), "gen", spec_gen(p, O, I, nI, n), dict(order=oname, n=n, IL=IL)))
            else:
                g.count("gen_n_class", ncls_g + "/unsatisfiable(bound 3)")
                cases.append(Case("id.gen %s %s %s %s 3" % (P, IL, OL, hx(n)), "gen_unsat", spec_flag(False, "generator_coprime: gcd(n^2, N(gen)) = gcd(n, N(I)) cannot hold for this (n, N(I)), but a generator was"),
                                  dict(order=oname, n=n)))
            ctx.case("L%d:%s:gen:%s:%d" % (g.lvl, oname, ncls_g, k))
            # product with an element of the order
            for _try in range(20):
                al, _c = g.primitive_elem(Oraw, rng.choice(["tiny", "small", "word"]))
                if rng.below(3) == 0:
                    mlt = rng.choice([2, 3, nI if nI > 1 else 5])
                    al = (al[0], [mlt * c for c in al[1]])
                av = elem_val(al)
                na = int(Q.qnorm(p, av))
                if gcd(na * na, nI) == gcd(na, nI):      # else quat_lideal_mul searches ~10^9 candidates and returns 0
                    break
            else:
                continue
            Ia = Q.mul_right(p, I, av)
            g.count("mul_alpha", "coprime" if gcd(na, nI) == 1 else "shared")
            cases.append(Case("id.mul %s %s %s %s 0" % (P, IL, OL, hxs(elem_flat(al))), "mul", spec_mul(Ia, nI * na, O), dict(order=oname, alpha=al, IL=IL)))
            # right order
            cases.append(Case("c.rord %s %s %s" % (P, IL, OL), "rord", spec_rord(p, I), dict(order=oname, I=(I, nI))))
            # pairs
            J, nJ, xJ, NJ = ids[(k + 1) % len(ids)]
            JL = raw_ideal_line((J, nJ))
            S = Q.add(I, J)
            T = Q.intersect(I, J)
            nS, nT = Q.ideal_norm(O, S), Q.ideal_norm(O, T)
            if nS is None or nT is None or not Q.is_left_ideal(p, O, S) or not Q.is_left_ideal(p, O, T):
                raise vlib.BuildError("oracle inconsistency: sum/intersection of left ideals")
            g.count("pair_gcd_norms", "coprime" if gcd(nI, nJ) == 1 else "shared")
            cases.append(Case("id.add %s %s %s" % (IL, JL, OL), "add", spec_ideal(S, nS, O, "lideal_add"), dict(order=oname)))
            cases.append(Case("id.inter %s %s %s" % (IL, JL, OL), "inter", spec_ideal(T, nT, O, "lideal_inter"), dict(order=oname)))
            # equality: same ideal reached from other generators / different ideal
            same = (I == J and nI == nJ)
            cases.append(Case("id.equals %s %s %s %s" % (IL, OL, JL, OL), "equals", spec_flag(same, "lideal_equals"), dict(order=oname)))
            cases.append(Case("id.equals %s %s %s %s" % (IL, OL, IL, OL), "equals", spec_flag(True, "lideal_equals"), dict(order=oname)))
            yv, _c = g.primitive_elem(Oraw, "small")
            x2 = Q.qmul(p, elem_val(yv), (Fr(N), 0, 0, 0))
            x2 = tuple(a + b for a, b in zip(x2, elem_val(x)))
            den = Oraw[0]
            x2raw = (den, [int(c * den) for c in x2])
            cases.append(Case("id.fromprim %s %s %s %s" % (P, hxs(elem_flat(x2raw)), hx(N), OL), "fromprim_same",
                              spec_ideal(I, None, O, "create_from_primitive (x+N·y)", check_index=False) if not Q.is_primitive(O, x2) else
                              spec_ideal(I, nI, O, "create_from_primitive (x+N·y)"), dict(order=oname, x=x2raw, N=N),
                              valid=bool(Q.is_primitive(O, x2))))
            other = (oi + 1) % norders
            O2L = hxs(lat_flat(g.orders[other][1]))
            cases.append(Case("id.equals %s %s %s %s" % (IL, OL, IL, O2L), "equals",
                              spec_flag(g.orders[other][1] == Oraw, "lideal_equals (parent orders)"), dict(order=oname)))
            # transporter / isomorphism
            cases.append(Case("c.rtrans %s %s %s" % (P, hxs(lat_flat(I)), hxs(lat_flat(J))), "rtrans", spec_rtrans(p, I, J),
                              dict(order=oname, I1=(I, nI), I2=(J, nJ))))
            be, _c = g.primitive_elem(Oraw, rng.choice(["tiny", "small", "word"]))
            bv = elem_val(be)
            nb = int(Q.qnorm(p, bv))
            Ib = Q.mul_right(p, I, bv)
            g.count("isom_stream", "I,I*beta")
            cases.append(Case("c.isom %s %s %s %s" % (P, IL, raw_ideal_line((Ib, nI * nb)), OL), "isom",
                              spec_isom(p, I, Ib, True), dict(order=oname, I1=(I, nI), I2=(Ib, nI * nb))))
            if k % 2 == 0:
                g.count("isom_stream", "I*beta,I")
                cases.append(Case("c.isom %s %s %s %s" % (P, raw_ideal_line((Ib, nI * nb)), IL, OL), "isom",
                                  spec_isom(p, Ib, I, True), dict(order=oname, I1=(Ib, nI * nb), I2=(I, nI))))
            g.count("isom_stream", "I,J unrelated")
            cases.append(Case("c.isom %s %s %s %s" % (P, IL, JL, OL), "isom", spec_isom(p, I, J, None),
                              dict(order=oname, I1=(I, nI), I2=(J, nJ))))
        # principal vs provably non-principal ideal of small prime norm (only the order with i^2 = -1, norm form
        # a^2+b^2+p(c^2+d^2): an element of norm l < p/4 lies in Z[i])
        if oname in ("MAXORD_O0",):
            done = 0
            for ell in SMALL_PRIMES:
                if done >= (2 if quick else 6):
                    break
                cand, _c = g.elem_with_prime_norm_factor(Oraw, ell) if ell % 4 == 3 else (None, None)
                if cand is None:
                    for _ in range(80):
                        c2, _cc = g.primitive_elem(Oraw, "small")
                        if Q.qnorm(p, elem_val(c2)) % ell == 0:
                            cand = c2
                            break
                if cand is None:
                    continue
                Iell = Q.left_ideal_gen(p, O, elem_val(cand), ell)
                if Q.ideal_norm(O, Iell) != ell:
                    continue
                reps = [(a, b) for a in range(-10, 11) for b in range(-10, 11) if a * a + b * b == ell]
                principal = any(Q.contains(Iell, (Fr(a), Fr(b), Fr(0), Fr(0))) is not None for a, b in reps)
                one = Q.canon(*Oraw)
                g.count("isom_stream", "O vs norm-l ideal: " + ("principal" if principal else "non-principal"))
                cases.append(Case("c.isom %s %s %s %s" % (P, raw_ideal_line((one, 1)), raw_ideal_line((Iell, ell)), OL), "isom",
                                  spec_isom(p, one, Iell, principal), dict(order=oname, I1=(one, 1), I2=(Iell, ell))))
                done += 1
    # ---- deterministic small-prime cases on O0 (not left to chance):
    #  * product I·alpha where a prime divides both nrd(alpha) and the cofactor N(g)/N(I) of SOME generator g of I
    #    (the coprimality demanded of the generator in quat_lideal_mul matters exactly there), smallest instance
    #    I = O0(1+2i) + 5·O0, alpha = 1+i;
    #  * intersection / sum of two DISTINCT ideals of the same prime norm l (not nested, norms not coprime):
    #    N(I1 ∩ I2) = l^2, not lcm = l.
    O0name, O0raw = g.orders[0]
    if O0name == "MAXORD_O0":
        O0c = Q.canon(*O0raw)
        O0L = hxs(lat_flat(O0raw))
        split = [(5, 1, 2), (13, 2, 3), (17, 1, 4), (29, 2, 5), (37, 1, 6)]
        alphas = [(1, [1, 1, 0, 0]), (1, [3, 0, 0, 0]), (1, [0, 2, 0, 0]), (1, [1, 3, 0, 0]), (1, [2, 2, 0, 0]), (1, [3, 3, 0, 0])]
        for (ell, a, b) in (split if not quick else split[:3]):
            x1, x2 = (1, [a, b, 0, 0]), (1, [a, -b, 0, 0])
            I1 = Q.left_ideal_gen(p, O0c, elem_val(x1), ell)
            I2 = Q.left_ideal_gen(p, O0c, elem_val(x2), ell)
            if Q.ideal_norm(O0c, I1) != ell or Q.ideal_norm(O0c, I2) != ell or I1 == I2:
                raise vlib.BuildError("oracle inconsistency: split prime ideals of O0")
            for (A, B) in ((I1, I2), (I2, I1)):
                S, T = Q.add(A, B), Q.intersect(A, B)
                nS, nT = Q.ideal_norm(O0c, S), Q.ideal_norm(O0c, T)
                g.count("det_small_prime", "inter/add same prime norm %d" % ell)
                cases.append(Case("id.inter %s %s %s" % (raw_ideal_line((A, ell)), raw_ideal_line((B, ell)), O0L), "inter_same_prime_norm",
                                  spec_ideal(T, nT, O0c, "lideal_inter"), dict(order=O0name)))
                cases.append(Case("id.add %s %s %s" % (raw_ideal_line((A, ell)), raw_ideal_line((B, ell)), O0L), "add_same_prime_norm",
                                  spec_ideal(S, nS, O0c, "lideal_add"), dict(order=O0name)))
            for al in alphas:
                av = elem_val(al)
                na = int(Q.qnorm(p, av))
                if gcd(na * na, ell) != gcd(na, ell):
                    continue
                Ia = Q.mul_right(p, I1, av)
                g.count("det_small_prime", "mul I(l=%d)*alpha(n=%d)" % (ell, na))
                IL1 = raw_ideal_line((I1, ell))
                cases.append(Case("id.mul %s %s %s %s 0" % (P, IL1, O0L, hxs(elem_flat(al))), "mul_small_prime",
                                  spec_mul(Ia, ell * na, O0c), dict(order=O0name, alpha=al, IL=IL1)))
                ctx.case("L%d:det:mul:%d:%d" % (g.lvl, ell, na))
    # ---- connecting ideals between pairs of extremal orders
    pairs = [(a, b) for a in range(norders) for b in range(norders) if a != b]
    if quick:
        pairs = [pairs[rng.below(len(pairs))] for _ in range(9)] + [(0, 1)]
    for a, b in pairs:
        Oa, Ob = g.orders[a][1], g.orders[b][1]
        cases.append(Case("id.connect %s %s %s" % (P, hxs(lat_flat(Oa)), hxs(lat_flat(Ob))), "connect",
                          spec_connect(p, Q.canon(*Oa), Q.canon(*Ob)), dict(O1=g.orders[a][0], O2=g.orders[b][0], O1raw=Oa, O2raw=Ob)))
        ctx.case("L%d:connect:%s:%s" % (g.lvl, g.orders[a][0], g.orders[b][0]))
    Oname, Oraw = g.orders[0]
    # ---- create_principal on general (x, O): the lattice O·x is defined for every x != 0 of the algebra, integral norm
    # or not.  The basis mulmat(x)·O handed to quat_lattice_reduce_denom BEFORE the HNF is a full, non-triangular
    # matrix; for x = (p·a + p·b·i + c·j + d·ij)/(p·e) its upper triangle is divisible by p and its lower one is not,
    # so a content routine that looks at part of the matrix only returns a different lattice (which need not even
    # contain x).  Spec: returned lattice == O·x exactly (stored norm not judged: it keeps its previous value when
    # N(x) is not an integer).
    IDL = (1, [[1 if i == j else 0 for j in range(4)] for i in range(4)])
    gen_orders = [("Z<1,i,j,ij>", IDL), (Oname, Oraw)] + ([g.orders[1]] if norders > 1 else [])
    for k in range(12 if quick else 90):
        on, Orw = gen_orders[k % len(gen_orders)]
        Oc = Q.canon(*Orw)
        nzs = lambda: rng.choice([1, -1]) * (1 + rng.below(40))
        if k == 0:
            x, xc = (p, [p, 2 * p, 1, 2]), "witness(p+2p.i+j+2.ij)/p"
        elif k % 4 == 3:
            q = rng.choice([2, 3, 5, 7, 2**32])
            x, xc = (q * rng.choice([1, -1, 2]), [q * nzs(), q * g.sint(6), nzs(), nzs()]), "q-multiple-re-i"
        elif k % 4 == 2:
            x, xc = (rng.choice([2, 3, -5, 12, p]), [g.sint(8), g.sint(8), nzs(), g.sint(8)]), "generic-denominator"
        else:
            e = rng.choice([1, 1, -1, 2, 3])
            x, xc = (p * e, [p * nzs(), p * g.sint(6), nzs(), nzs()]), "p-multiple-re-i"
        Ip = Q.mul_right(p, Oc, elem_val(x))
        g.count("principal_general", xc + "@" + on)
        cases.append(Case("id.principal %s %s %s" % (P, hxs(elem_flat(x)), hxs(lat_flat(Orw))), "principal_general",
                          spec_ideal(Ip, None, Oc, "create_principal", check_index=False, sign_free=True),
                          dict(order=on, x=x, x_class=xc, Oraw=Orw)))
        ctx.case("L%d:principal_general:%s:%s:%d" % (g.lvl, on, xc, k))
    # ---- precondition-violation stream (the C code is still defined): model == C only
    OL = hxs(lat_flat(Oraw))
    O = Q.canon(*Oraw)
    for k in range(6 if quick else 30):
        x, _c = g.primitive_elem(Oraw, rng.choice(["tiny", "small", "word"]))
        m = rng.choice([2, 3, 4, 6, 10])
        xm = (x[0], [m * c for c in x[1]])
        N = rng.choice([m, m * m, 2 * m, 0, 12, -m])
        g.count("violation_stream", "imprimitive x")
        cases.append(Case("id.fromprim %s %s %s %s" % (P, hxs(elem_flat(xm)), hx(N), OL), "fromprim_imprimitive", valid=False))
        # x not in the order (non-integral norm: the stored norm keeps its previous value)
        xo = (x[0] * rng.choice([2, 3, -2, 7]), x[1])
        g.count("violation_stream", "x not in O / negative denominators")
        cases.append(Case("id.principal %s %s %s" % (P, hxs(elem_flat(xo)), OL), "principal_outside", valid=False))
        cases.append(Case("id.fromprim %s %s %s %s" % (P, hxs(elem_flat(xo)), hx(rng.choice(SMALL_PRIMES)), OL), "fromprim_outside", valid=False))
        # negative denominators (same value): x = (-d, -coords)
        xn = (-x[0], [-c for c in x[1]])
        cases.append(Case("id.fromprim %s %s %s %s" % (P, hxs(elem_flat(xn)), hx(rng.choice(SMALL_PRIMES)), OL), "fromprim_negden", valid=False))
        # sum / intersection of lattices that are not ideals (index not a square: ibz_sqrt leaves the index)
        L1 = Q.from_vectors([tuple(Fr(g.sint(6) + (40 if r == c else 0)) for r in range(4)) for c in range(4)])
        L2 = Q.from_vectors([tuple(Fr(g.sint(6) + (30 if r == c else 0), 2) for r in range(4)) for c in range(4)])
        g.count("violation_stream", "add/inter of non-ideals")
        cases.append(Case("id.add %s %s %s" % (raw_ideal_line((L1, 3)), raw_ideal_line((L2, 5)), OL), "add_nonideal", valid=False))
        cases.append(Case("id.inter %s %s %s" % (raw_ideal_line((L1, 3)), raw_ideal_line((L2, 5)), OL), "inter_nonideal", valid=False))
        # bounded generator search that may fail, wrong stored norm
        if pool[0]:
            I, nI, _x, _N = pool[0][k % len(pool[0])]
            g.count("violation_stream", "generator with tiny bound / wrong stored norm")
            cases.append(Case("id.gen %s %s %s %s %s" % (P, raw_ideal_line((I, nI)), OL, hx(rng.choice([1, 2, 6])), hx(rng.choice([1, 2, 3]))),
                              "gen_bounded", valid=False))
            cases.append(Case("id.gen %s %s %s 1 3" % (P, raw_ideal_line((I, nI * 7 + 1)), OL), "gen_wrongnorm", valid=False))
            cases.append(Case("id.equals %s %s %s %s" % (raw_ideal_line((I, nI)), OL, raw_ideal_line((I, nI + 1)), OL), "equals_norm",
                              spec_flag(False, "lideal_equals (norms differ)"), valid=False))
    return cases


def errclass(err):
    """coarse class of an oracle message (numbers removed) so that one defect gives one VIOLATION line per op kind"""
    e = err.split(":", 1)[-1]
    e = re.sub(r"(?<![A-Za-z])-?[0-9a-f]+(?![A-Za-z])", "", e)
    return re.sub(r"[^A-Za-z]+", "_", e).strip("_")[:60]


def spec_flag(expect, what):
    def f(cout):
        return None if cout == ("1" if expect else "0") else "%s returned %s, expected %d" % (what, cout, int(bool(expect)))
    return f


def spec_gen(p, O, I, nI, n):
    def f(cout):
        v = ints(cout)
        if v == [0]:
            return "generator_coprime found no generator with the default bound (a generator exists: ideal built from one)"
        if len(v) != 6 or v[0] != 1 or v[1] == 0:
            return "generator_coprime: malformed output"
        gv = Q.elem(v[1], v[2:6])
        if Q.contains(I, gv) is None:
            return "generator_coprime: returned element is not in the ideal"
        ng = Q.qnorm(p, gv)
        if ng.denominator != 1:
            return "generator_coprime: norm of returned element not integral"
        ng = int(ng)
        if Q.left_ideal_gen(p, O, gv, nI) != I:
            return "generator_coprime: O·gen + O·N(I) is not the ideal"
        if gcd(n, nI) == 1:
            if gcd(ng, n) != 1:
                return "generator_coprime: N(gen) not coprime to n"
        elif gcd(n * n, ng) != gcd(n, nI):
            return "generator_coprime: gcd(n^2, N(gen)) != gcd(n, N(I))"
        return None
    return f


def spec_mul(Ia, nrm, O):
    inner = spec_ideal(Ia, nrm, O, "lideal_mul")

    def f(cout):
        if cout == "0":
            return "lideal_mul found no generator (default bound)"
        if not cout.startswith("1 "):
            return "lideal_mul: malformed output"
        return inner(cout[2:])
    return f


def spec_rord(p, I):
    def f(cout):
        try:
            T = Q.canon(*lat_parse(ints(cout)))
        except (Q.OracleError, IndexError) as e:
            return "right_order: unusable output (%s)" % e
        if T != Q.right_order(p, I):
            return "right_order: returned lattice is not { x : I·x ⊆ I }"
        return None
    return f


def spec_rtrans(p, I, J):
    def f(cout):
        try:
            T = Q.canon(*lat_parse(ints(cout)))
        except (Q.OracleError, IndexError) as e:
            return "right_transporter: unusable output (%s)" % e
        if T != Q.right_transporter(p, I, J):
            return "right_transporter: returned lattice is not { x : I1·x ⊆ I2 }"
        return None
    return f


def spec_isom(p, I, J, expect):
    """expect: True (isomorphic by construction / decided by the oracle), False (provably not), None (unknown)"""
    def f(cout):
        v = ints(cout)
        if v == [0]:
            return "lideal_isom returned 0 on isomorphic ideals" if expect is True else None
        if len(v) != 6 or v[0] != 1 or v[1] == 0:
            return "lideal_isom: malformed output"
        iso = Q.elem(v[1], v[2:6])
        if Q.qnorm(p, iso) == 0 or Q.mul_right(p, I, iso) != J:
            return "lideal_isom returned 1 but I1·iso != I2"
        if expect is False:
            return "lideal_isom returned 1 on non-isomorphic ideals (oracle inconsistent?)"
        return None
    return f


def spec_connect(p, O1, O2):
    def f(cout):
        try:
            raw, nrm = ideal_out(cout)
            I = Q.canon(*raw)
        except (ValueError, Q.OracleError) as e:
            return "connecting_ideal: unusable output (%s)" % e
        if (raw[0], raw[1]) != (I[0], I[1]):
            return "connecting_ideal: basis not in Hermite normal form"
        if not Q.is_left_ideal(p, O1, I):
            return "connecting_ideal: O1·I not contained in I"
        if not Q.is_right_ideal(p, I, O2):
            return "connecting_ideal: I·O2 not contained in I"
        if not Q.subset(I, O1):
            return "connecting_ideal: not contained in O1"
        if Fr(nrm * nrm) != Q.index(I, O1):
            return "connecting_ideal: stored norm squared differs from the index [O1:I]"
        if Q.right_order(p, I) != O2:
            return "connecting_ideal: right order is not O2"
        return None
    return f


# ------------------------------------------------------------------------------------------------ phase 2: certificates
def cert_lines(p, cases, couts):
    """lines for the model's proved checkers, built from the C outputs; each must answer `expect`"""
    P = hx(p)
    out = []
    for c, co in zip(cases, couts):
        try:
            if c.kind == "rord":
                I, nI = c.meta["I"]
                Oraw = c.meta["Oraw"]
                out.append(("id.certrord %s %s %s %s" % (P, raw_ideal_line((I, nI)), hxs(lat_flat(Oraw)), co), "1", c))
                # complete certificate (proved: accepted => T is exactly the right order)
                out.append(("id.certtransx %s %s %s %s %s" % (P, raw_ideal_line((I, nI)), raw_ideal_line((I, nI)), hxs(lat_flat(Oraw)), co), "1", c))
            elif c.kind == "rtrans":
                (I, nI), (J, nJ) = c.meta["I1"], c.meta["I2"]
                out.append(("id.certtransid %s %s %s %s %s" % (P, raw_ideal_line((I, nI)), raw_ideal_line((J, nJ)), hxs(lat_flat(c.meta["Oraw"])), co), "1 1", c))
                out.append(("id.certtransx %s %s %s %s %s" % (P, raw_ideal_line((I, nI)), raw_ideal_line((J, nJ)), hxs(lat_flat(c.meta["Oraw"])), co), "1", c))
            elif c.kind == "isom" and co.startswith("1 "):
                (I, nI), (J, nJ) = c.meta["I1"], c.meta["I2"]
                out.append(("id.certisom %s %s %s %s" % (P, hxs(lat_flat(I)), hxs(lat_flat(J)), co[2:]), "1", c))
            elif c.kind in ("fromprim", "mkprim", "principal", "add", "inter") and c.valid:
                v = ints(co)
                out.append(("id.certleft %s %s %s" % (P, hxs(lat_flat(c.meta["Oraw"])), hxs(v[:17])), "1", c))
                out.append(("id.certnorm %s %s" % (hxs(v[:18]), hxs(lat_flat(c.meta["Oraw"]))), "1", c))
            elif c.kind == "gen" and co.startswith("1 "):
                out.append(("id.certgen %s %s %s %s" % (P, c.meta["IL"], hxs(lat_flat(c.meta["Oraw"])), co[2:]), "1", c))
            elif c.kind == "mul" and co.startswith("1 "):
                v = ints(co[2:])
                out.append(("id.certleft %s %s %s" % (P, hxs(lat_flat(c.meta["Oraw"])), hxs(v[:17])), "1", c))
                out.append(("id.certnorm %s %s" % (hxs(v[:18]), hxs(lat_flat(c.meta["Oraw"]))), "1", c))
                out.append(("id.certisom %s %s %s %s" % (P, " ".join(c.meta["IL"].split()[:17]), hxs(v[:17]), hxs(elem_flat(c.meta["alpha"]))), "1", c))
            elif c.kind == "connect":
                v = ints(co)
                out.append(("id.certleft %s %s %s" % (P, hxs(lat_flat(c.meta["O1raw"])), hxs(v[:17])), "1", c))
                out.append(("id.certnorm %s %s" % (hxs(v[:18]), hxs(lat_flat(c.meta["O1raw"]))), "1", c))
                # right order of the connecting ideal, certificate = O2 itself
                out.append(("id.certtrans %s %s %s %s" % (P, hxs(v[:17]), hxs(v[:17]), hxs(lat_flat(c.meta["O2raw"]))), "1", c))
        except (ValueError, IndexError, KeyError):
            continue
    return out


# ------------------------------------------------------------------------------------------------ bounded process runs
# Process hygiene: every child (C driver, Lean driver) runs in its own session / process group with a time-out, gets
# SIGKILL when this Python process dies for whatever reason (PR_SET_PDEATHSIG), and every group still alive is killed
# on time-out, on an exception in any worker, at interpreter exit and on SIGTERM/SIGINT.  A run leaves nothing behind.
import atexit, ctypes, signal, subprocess, threading
_LIVE = {}                  # pid -> Popen
_GROUPS = {}                # id(event) -> [Popen] of one level
_LIVE_LOCK = threading.Lock()
_ABORT = threading.Event()  # set when one side of a level timed out / failed: its partner is killed as well


def _child_setup():
    os.setsid()
    try:
        ctypes.CDLL("libc.so.6", use_errno=True).prctl(1, signal.SIGKILL)      # PR_SET_PDEATHSIG
    except Exception:       # noqa
        pass


def _kill_group(pr):
    try:
        os.killpg(pr.pid, signal.SIGKILL)
    except (ProcessLookupError, PermissionError, OSError):
        pass
    try:
        pr.kill()
    except Exception:       # noqa
        pass


def kill_all_children():
    with _LIVE_LOCK:
        prs = list(_LIVE.values())
    for pr in prs:
        _kill_group(pr)


atexit.register(kill_all_children)


def _on_signal(signum, frame):
    kill_all_children()
    raise SystemExit(128 + signum)


try:
    if threading.current_thread() is threading.main_thread():
        signal.signal(signal.SIGTERM, _on_signal)
except Exception:           # noqa
    pass


def run_lines(cmd, lines, timeout, tag="", group=None):
    """feed op lines to a driver; on time-out the whole process group is killed and the lines answered so far are
    returned (a changed search loop in ideal.c can turn one op into ~10^9 iterations: that op is then reported, not
    waited for).  `group`: a threading.Event shared by the processes of one level — when one of them times out the
    others are killed too (the Lean driver would otherwise keep walking the same search)."""
    env = dict(os.environ)
    env.setdefault("ASAN_OPTIONS", "detect_leaks=0:abort_on_error=0")
    pr = subprocess.Popen(cmd, stdin=subprocess.PIPE, stdout=subprocess.PIPE, stderr=subprocess.PIPE, env=env,
                          preexec_fn=_child_setup)
    with _LIVE_LOCK:
        _LIVE[pr.pid] = pr
    if group is not None:
        with _LIVE_LOCK:
            _GROUPS.setdefault(id(group), []).append(pr)
    timed_out = False
    so = se = b""
    try:
        # one communicate call only: retrying communicate() after a TimeoutExpired loses the unsent input on CPython <= 3.11
        try:
            so, se = pr.communicate(("\n".join(lines) + "\n").encode(), timeout=timeout)
            if pr.returncode is not None and pr.returncode < 0 and ((group is not None and group.is_set()) or _ABORT.is_set()):
                timed_out = True            # killed because the partner process of this level timed out
        except subprocess.TimeoutExpired:
            timed_out = True
            _kill_group(pr)
            if group is not None:           # stop the partner(s) walking the same search
                group.set()
                with _LIVE_LOCK:
                    partners = [q for q in _GROUPS.get(id(group), []) if q is not pr]
                for q in partners:
                    _kill_group(q)
            so, se = pr.communicate()
    finally:
        if pr.poll() is None:
            _kill_group(pr)
        try:
            pr.wait(timeout=5)
        except Exception:   # noqa
            pass
        with _LIVE_LOCK:
            _LIVE.pop(pr.pid, None)
    txt = so.decode("utf-8", "replace").split("\n")
    if txt and txt[-1] == "":
        txt = txt[:-1]
    elif timed_out and txt:
        txt = txt[:-1]              # drop a partially written last line
    outs = [l[len(tag):] for l in txt if l.startswith(tag)] if tag else txt
    return pr.returncode, outs, se.decode("utf-8", "replace")[-3000:], timed_out


def lean_driver_exe():
    return os.path.join(vlib.LEAN, ".lake", "build", "bin", "driver")


# ------------------------------------------------------------------------------------------------ per level driver
def run_level(ctx, lvl, exe, quick, cov):
    t0 = time.time()
    res = dict(level=lvl, violations=[], ops=0, disagreements=0, cert_ops=0, cert_fail=0)
    ct = c_tables(exe)
    lt = lean_tables(lvl)
    res["table_mismatch"] = tables_agree(ct, lt)
    res["table_oracle"] = table_oracle(lvl, ct)
    if res["table_oracle"]:
        return res          # the orders themselves are broken: the streams below would only repeat it
    p = ct["p"]
    orders = [("MAXORD_O0", ct["o0"])] + [("ALT%d" % k, a["order"]) for k, a in enumerate(ct["alt"])]
    if ct["std"]["order"] != ct["o0"]:
        orders.append(("STANDARD", ct["std"]["order"]))
    rng = ctx.rng.fork("L%d" % lvl)
    g = Gen(rng, lvl, p, orders, quick, cov)
    cases = build_cases(g, ctx)
    byname = dict(orders)
    for c in cases:
        if "order" in c.meta and "Oraw" not in c.meta:
            c.meta["Oraw"] = byname[c.meta["order"]]
    res["t_gen"] = time.time() - t0
    lines = [c.line for c in cases]
    midx = [i for i, c in enumerate(cases) if c.line.startswith("id.")]
    tmo = 150 if quick else 1200
    lean_exe = os.path.join(vlib.LEAN, ".lake", "build", "bin", "driver")
    with ThreadPoolExecutor(2) as ex:
        grp = threading.Event()
        fc = ex.submit(run_lines, [exe], lines, tmo, "R ", grp)
        fm = ex.submit(run_lines, [lean_exe], [lines[i] for i in midx], tmo, "", grp)
        rc, couts, cerr, c_to = fc.result()
        _mrc, mo_, _merr, m_to = fm.result()
    res["timeouts"] = dict(c=c_to, model=m_to)
    mouts = [None] * len(lines)
    for k, i in enumerate(midx):
        mouts[i] = mo_[k] if k < len(mo_) else "<no output>"
    res["t_run"] = time.time() - t0
    res["ops"] = len(lines)
    kinds = {}
    for i, c in enumerate(cases):
        kinds[c.kind] = kinds.get(c.kind, 0) + 1
        co = couts[i] if i < len(couts) else None
        mo = mouts[i]
        if co is None:
            res["violations"].append(dict(key="C15:L%d:crash:%s" % (lvl, c.kind), found=True,
                                          what=("C code did not finish this op within %d s (search loop no longer terminates early?)" % tmo) if c_to
                                          else "C driver stopped (crash / abort) while processing this op, rc=%s" % rc,
                                          replay=dict(level=lvl, op=c.line, stderr=cerr[-1500:], how="echo '<op>' | drv_ideal (level %d)" % lvl)))
            break
        err = None
        if c.spec is not None and co != "skip":
            try:
                err = c.spec(co)
            except (Q.OracleError, ValueError, ZeroDivisionError, IndexError) as e:
                err = "%s: output unusable for the oracle (%s)" % (c.kind, e)
        if err and c.valid:
            res["violations"].append(dict(key="C15:L%d:%s:%s" % (lvl, c.kind, errclass(err)),
                                          found=True, what=err,
                                          replay=dict(level=lvl, op=c.line, c_output=co, model_output=mo, oracle=err, kind=c.kind,
                                                      meta={k: v for k, v in c.meta.items() if k in ("order", "N", "n", "O1", "O2")},
                                                      how="compile tools/harness/drv_ideal.c for level %d (ctx.cc_harness) and feed `op` on stdin; "
                                                          "oracle: tools/props/c15_oracle.py" % lvl)))
        if mo is not None and co != mo and co != "skip":
            res["disagreements"] += 1
            if not (err and c.valid):
                res["violations"].append(dict(key="C15:L%d:model-vs-C:%s" % (lvl, c.kind), found=False,
                                              what="Lean model and C disagree on %s while the oracle accepts the C output "
                                                   "(correspondence broken; property no longer shown)" % c.kind,
                                              replay=dict(level=lvl, op=c.line, c_output=co, model_output=mo, kind=c.kind)))
    res["kinds"] = kinds
    # phase 2: certificates
    cl = cert_lines(p, cases, couts[:len(cases)])
    if cl:
        _rc2, outs, _e2, cert_to = run_lines([lean_driver_exe()], [l for l, _, _ in cl], tmo)
        outs += ["<no output: model driver %s>" % ("timed out" if cert_to else "stopped")] * (len(cl) - len(outs))
        res["cert_ops"] = len(cl)
        for (l, exp, c), o in zip(cl, outs):
            if o != exp:
                res["cert_fail"] += 1
                # is the certificate (C output) really wrong?  ask the oracle through the case's own spec
                i = cases.index(c)
                e2 = None
                try:
                    e2 = c.spec(couts[i]) if c.spec else None
                except Exception as e:        # noqa
                    e2 = str(e)
                res["violations"].append(dict(key="C15:L%d:cert:%s" % (lvl, l.split()[0]), found=bool(e2),
                                              what="model checker rejects the C output of %s (%s)" % (c.kind, e2 or "oracle accepts it: checker/model problem"),
                                              replay=dict(level=lvl, op=c.line, c_output=couts[i], checker_line=l, checker_output=o, expected=exp)))
    res["t_total"] = time.time() - t0
    res["sample"] = dict(level=lvl, op=lines[0][:200] + " ...", c_output=(couts[0][:200] + " ...") if couts else None)
    return res


def report_tables(ctx, lvl, res):
    for name in res.get("table_mismatch", []):
        ctx.violation("C15:L%d:translator:%s" % (lvl, name), "translated table differs from the constant the compiler linked (tie T broken)",
                      dict(level=lvl, table=name), found=False)
    for key, what, detail in res.get("table_oracle", []):
        ctx.violation("C15:" + key, what, dict(level=lvl, detail=detail,
                                               how="constants dumped from the linked library by `tab.*` ops of tools/harness/drv_ideal.c"), found=True)


def build_harness(ctx):
    exes = {}
    with ThreadPoolExecutor(3) as ex:
        futs = {l: ex.submit(ctx.cc_harness, SRC, os.path.join(ctx.tmp, "drv_ideal_l%d" % l), l) for l in (1, 3, 5)}
        for l, f in futs.items():
            exes[l] = f.result()
    return exes


def search(ctx, exes):
    """violation search when the Lean build of SqiProps.C15 fails: evaluate the table facts with the oracle on the
    constants of the linked library; the first failing entry is the concrete failing input"""
    for lvl in (1, 3, 5):
        try:
            bad = table_oracle(lvl, c_tables(exes[lvl]))
        except Exception as e:      # noqa
            ctx.log("search: level %d tables unreadable: %s" % (lvl, e))
            continue
        if bad:
            key, what, detail = bad[0]
            return "C15:" + key, what, dict(level=lvl, failing_entries=[dict(key=k, what=w, detail=d) for k, w, d in bad],
                                            how="`tab.*` ops of tools/harness/drv_ideal.c dump the linked constants; oracle tools/props/c15_oracle.py")
    return None


def run(ctx):
    ctx.trusted += ["GMP integers modelled as exact Int", "tools/translate/tables.py (quaternion_data.c initialisers) — cross-checked against the linked constants",
                    "matkermod.c / lll.c not modelled: their outputs are certificate-checked by proved checkers and by the oracle",
                    "tools/props/c15_oracle.py (independent exact arithmetic) as the executable specification",
                    "tools/harness/drv_ideal.c + line protocol"]
    ctx.build_repo("ref")
    exes = build_harness(ctx)
    ok = vlib.proof_stage(ctx, ["SqiProps.C15"], searcher=lambda: search(ctx, exes), extra_targets=["driver"])
    if not ok:
        # the driver may not have been built; try once more for the correspondence stage
        ok2, _o, _f = ctx.lake(["driver"])
        if not ok2:
            return dict(level="proof", rule="proof stage failed; correspondence not run")
    cov = {}
    results = {}
    try:
        with ThreadPoolExecutor(3) as ex:
            futs = {l: ex.submit(run_level, ctx, l, exes[l], ctx.quick, cov.setdefault("L%d" % l, {})) for l in (1, 3, 5)}
            try:
                for l, f in futs.items():
                    results[l] = f.result()
            except BaseException:
                _ABORT.set()            # one level failed: stop the drivers of the others before re-raising
                kill_all_children()
                raise
    finally:
        kill_all_children()
    tot_ops = tot_dis = tot_cert = tot_cf = 0
    allv = []
    for lvl in (1, 3, 5):
        r = results[lvl]
        report_tables(ctx, lvl, r)
        ctx.obligation("L%d: translated quaternion tables = linked constants" % lvl, not r.get("table_mismatch"), str(r.get("table_mismatch")))
        ctx.obligation("L%d: oracle accepts the linked extremal-order tables" % lvl, not r.get("table_oracle"), str(r.get("table_oracle"))[:400])
        nviol = [v for v in r["violations"] if v["found"]]
        ctx.obligation("L%d: C outputs satisfy the oracle's definitions (%d ops)" % (lvl, r["ops"]), not nviol, json.dumps([v["what"] for v in nviol])[:500])
        ctx.obligation("L%d: correspondence model vs C (%d ops)" % (lvl, r["ops"]), r["disagreements"] == 0, "%d disagreements" % r["disagreements"])
        ctx.obligation("L%d: model checkers accept every C certificate (%d checks)" % (lvl, r["cert_ops"]), r["cert_fail"] == 0, "%d rejected" % r["cert_fail"])
        allv += [(lvl, v) for v in r["violations"]]
        tot_ops += r["ops"]; tot_dis += r["disagreements"]; tot_cert += r["cert_ops"]; tot_cf += r["cert_fail"]
        ctx.evaluations += r["ops"] + r["cert_ops"]
        if "sample" in r:
            ctx.sample(r["sample"])
        ctx.coverage.setdefault("per_level", {})["L%d" % lvl] = dict(ops=r["ops"], kinds=r.get("kinds"), cert_checks=r["cert_ops"],
                                                                   seconds=dict(gen=round(r.get("t_gen", 0), 1), run=round(r.get("t_run", 0), 1), total=round(r.get("t_total", 0), 1)))
    # one VIOLATION line per defect class: the level is dropped from the key (the replay names the level of the first
    # occurrence and lists the others); a model-vs-C disagreement on an op whose C function already has a concrete
    # failing input (oracle contradiction) is the same defect seen on the precondition-violation stream, not a new one
    found_base = {v["key"].split(":")[2].split("_")[0] for _l, v in allv if v["found"] and len(v["key"].split(":")) > 2}
    merged = {}
    for lvl, v in allv:
        parts = v["key"].split(":")
        key = ":".join([parts[0]] + parts[2:])
        if not v["found"] and parts[2] == "model-vs-C" and parts[3].split("_")[0] in found_base:
            continue
        if key in merged:
            merged[key]["replay"].setdefault("also_at_levels", [])
            if lvl not in merged[key]["replay"]["also_at_levels"] and lvl != merged[key]["replay"].get("level"):
                merged[key]["replay"]["also_at_levels"].append(lvl)
            continue
        merged[key] = dict(v, key=key)
    for key, v in merged.items():
        ctx.violation(key, v["what"], v["replay"], found=v["found"])
    ctx.coverage["generator_histograms"] = cov
    ctx.coverage["correspondence"] = dict(drv_ideal=dict(ops=tot_ops, disagreements=tot_dis), certificates=dict(ops=tot_cert, rejected=tot_cf))
    ctx.log("ops=%d disagreements=%d cert checks=%d rejected=%d" % (tot_ops, tot_dis, tot_cert, tot_cf))
    return dict(level="proof", rule="one case = one (level, order, x-class, N-class) constructor input or one ordered pair of extremal orders; "
                                    "each followed by generator / product / sum / intersection / equality / transporter / isomorphism ops",
                explanation="theorems: SqiProps.C15 (tables by kernel evaluation, constructors and checkers at the Z-span level); "
                            "C functions tied by the per-level correspondence harness and the oracle")


def replay(ctx, rp):
    """re-run a recorded op on a fresh build of the current tree and print the C output next to the recorded one"""
    r = rp.get("replay", {})
    print(json.dumps({k: (v if len(str(v)) < 400 else str(v)[:400] + "...") for k, v in rp.items() if k != "replay"}, indent=1))
    if "op" not in r or "level" not in r:
        print(json.dumps(r, indent=1)[:4000])
        return 0
    ctx.build_repo("ref")
    exe = ctx.cc_harness(SRC, os.path.join(ctx.tmp, "drv_ideal_l%d" % r["level"]), r["level"])
    rc, outs, err, _to = run_lines([exe], [r["op"]], 300, "R ")
    print("op        :", r["op"][:300], "...")
    print("recorded C:", str(r.get("c_output"))[:300])
    print("current  C:", (outs[0] if outs else "<none rc=%d>" % rc)[:300])
    print("oracle    :", r.get("oracle"))
    return 0

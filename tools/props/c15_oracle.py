"""Independent exact oracle for C15 (left ideals / orders of the quaternion algebra i^2=-1, j^2=-p, k=ij).
Pure Python ints / Fractions, own Hermite normal form, own rational inverse.  Nothing here is derived from the C
code or from the Lean model: it is the *specification* the violation search evaluates.

A lattice is a canonical pair (d, M): d > 0, M a 4x4 integer matrix (M[row][col], basis vectors = columns) in
column Hermite normal form (upper triangular, positive diagonal, 0 <= M[i][j] < M[i][i] for j > i), gcd(d, M) = 1.
Elements are 4-tuples of Fractions (coordinates in 1, i, j, k)."""
from fractions import Fraction as Fr
from math import gcd, isqrt


class OracleError(Exception):
    pass


# ------------------------------------------------------------------ algebra
def qmul(p, a, b):
    a0, a1, a2, a3 = a
    b0, b1, b2, b3 = b
    return (a0 * b0 - a1 * b1 - p * (a2 * b2 + a3 * b3),
            a0 * b1 + a1 * b0 + p * (a2 * b3 - a3 * b2),
            a0 * b2 + a2 * b0 - a1 * b3 + a3 * b1,
            a0 * b3 + a3 * b0 + a1 * b2 - a2 * b1)


def qconj(a):
    return (a[0], -a[1], -a[2], -a[3])


def qnorm(p, a):
    return a[0] * a[0] + a[1] * a[1] + p * (a[2] * a[2] + a[3] * a[3])


def qinv(p, a):
    n = qnorm(p, a)
    if n == 0:
        raise OracleError("zero element has no inverse")
    return tuple(Fr(c) / n for c in qconj(a))


def elem(den, coords):
    """(denom, [c0..c3]) -> tuple of Fractions"""
    return tuple(Fr(c, den) for c in coords)


# ------------------------------------------------------------------ integer HNF
def hnf_cols(cols):
    """column HNF (4x4, as M[row][col]) of the lattice spanned by the integer vectors `cols` (rank 4 required)"""
    cols = [list(c) for c in cols if any(c)]
    res = [None] * 4
    for i in (3, 2, 1, 0):
        while True:
            nz = [c for c in cols if c[i] != 0]
            if len(nz) <= 1:
                break
            nz.sort(key=lambda c: abs(c[i]))
            piv = nz[0]
            for c in nz[1:]:
                q = c[i] // piv[i]
                for r in range(4):
                    c[r] -= q * piv[r]
        nz = [c for c in cols if c[i] != 0]
        if not nz:
            raise OracleError("lattice not of full rank")
        piv = nz[0]
        cols = [c for c in cols if c is not piv]
        if piv[i] < 0:
            piv = [-v for v in piv]
        if any(piv[r] != 0 for r in range(i + 1, 4)):
            raise OracleError("internal: pivot not reduced")
        res[i] = piv
        for j in range(i + 1, 4):
            q = res[j][i] // piv[i]
            if q:
                for r in range(4):
                    res[j][r] -= q * piv[r]
    if any(any(c) for c in cols):
        raise OracleError("internal: leftover columns")
    return [[res[j][i] for j in range(4)] for i in range(4)]


def canon(d, M):
    """canonical form of the lattice (1/d) * span(columns of M)"""
    if d == 0:
        raise OracleError("zero denominator")
    g = abs(d)
    for r in M:
        for v in r:
            g = gcd(g, v)
    d = abs(d) // g
    M = [[v // g for v in r] for r in M]
    H = hnf_cols([[M[i][j] for i in range(4)] for j in range(len(M[0]))])
    return (d, H)


def from_vectors(vecs):
    """lattice spanned by rational vectors"""
    den = 1
    for v in vecs:
        for c in v:
            c = Fr(c)
            den = den * c.denominator // gcd(den, c.denominator)
    cols = [[int(Fr(c) * den) for c in v] for v in vecs]
    M = [[cols[j][i] for j in range(len(cols))] for i in range(4)]
    return canon(den, M)


def basis(L):
    d, M = L
    return [tuple(Fr(M[i][j], d) for i in range(4)) for j in range(4)]


def det_abs(L):
    d, M = L
    return Fr(M[0][0] * M[1][1] * M[2][2] * M[3][3], d ** 4)


def contains(L, x):
    """x (tuple of Fractions) in L ?  returns coordinates or None"""
    d, M = L
    w = [Fr(c) * d for c in x]
    co = [0] * 4
    for i in (3, 2, 1, 0):
        q = w[i] / M[i][i]
        if q.denominator != 1:
            return None
        co[i] = int(q)
        for r in range(4):
            w[r] -= q * M[r][i]
    if any(w):
        return None
    return co


def subset(L1, L2):
    return all(contains(L2, b) is not None for b in basis(L1))


def index(sub, over):
    """[over : sub] as a Fraction (an integer when sub ⊆ over)"""
    return det_abs(sub) / det_abs(over)


def add(L1, L2):
    return from_vectors(basis(L1) + basis(L2))


def inv_rat(M):
    n = 4
    A = [[Fr(M[i][j]) for j in range(n)] + [Fr(int(i == j)) for j in range(n)] for i in range(n)]
    for c in range(n):
        piv = next((r for r in range(c, n) if A[r][c] != 0), None)
        if piv is None:
            raise OracleError("singular matrix")
        A[c], A[piv] = A[piv], A[c]
        pv = A[c][c]
        A[c] = [v / pv for v in A[c]]
        for r in range(n):
            if r != c and A[r][c] != 0:
                f = A[r][c]
                A[r] = [a - f * b for a, b in zip(A[r], A[c])]
    return [row[n:] for row in A]


def dual(L):
    """dual for the standard dot product on coordinates: columns of (B^-1)^T with B = M/d"""
    d, M = L
    inv = inv_rat(M)            # B^-1 = d * inv ; dual basis = columns of (B^-1)^T = rows of B^-1
    return from_vectors([tuple(d * inv[r][c] for c in range(4)) for r in range(4)])


def intersect(L1, L2):
    R = dual(add(dual(L1), dual(L2)))
    # self-check by the second isomorphism theorem: R ⊆ L1, R ⊆ L2 and [L1 : R] = [L1 + L2 : L2]
    if not (subset(R, L1) and subset(R, L2) and index(R, L1) == index(L2, add(L1, L2))):
        raise OracleError("internal: intersection self-check failed")
    return R


def mul_right(p, L, x):
    """L·x"""
    return from_vectors([qmul(p, b, x) for b in basis(L)])


def mul_left(p, x, L):
    return from_vectors([qmul(p, x, b) for b in basis(L)])


def mul(p, L1, L2):
    return from_vectors([qmul(p, a, b) for a in basis(L1) for b in basis(L2)])


def scale(L, c):
    return from_vectors([tuple(Fr(c) * v for v in b) for b in basis(L)])


def left_ideal_gen(p, O, x, N):
    """O·x + O·N"""
    return from_vectors([qmul(p, b, x) for b in basis(O)] + [tuple(Fr(N) * v for v in b) for b in basis(O)])


def right_transporter(p, L1, L2):
    """{ x : L1·x ⊆ L2 } = ⋂_k b_k^{-1}·L2"""
    R = None
    for b in basis(L1):
        T = mul_left(p, qinv(p, b), L2)
        R = T if R is None else intersect(R, T)
    return R


def right_order(p, I):
    return right_transporter(p, I, I)


def left_order(p, I):
    R = None
    for b in basis(I):
        T = mul_right(p, I, qinv(p, b))
        R = T if R is None else intersect(R, T)
    return R


def is_ring(p, O):
    one = (Fr(1), Fr(0), Fr(0), Fr(0))
    return contains(O, one) is not None and all(contains(O, qmul(p, a, b)) is not None for a in basis(O) for b in basis(O))


def is_left_ideal(p, O, I):
    return all(contains(I, qmul(p, a, b)) is not None for a in basis(O) for b in basis(I))


def is_right_ideal(p, I, O):
    return all(contains(I, qmul(p, b, a)) is not None for a in basis(O) for b in basis(I))


def trace_disc(p, O):
    """det of the Gram matrix of (x,y) -> trd(x * conj(y)) on a basis of O (p^2 for a maximal order)"""
    bs = basis(O)
    G = [[2 * qmul(p, a, qconj(b))[0] for b in bs] for a in bs]
    # fraction-exact determinant
    A = [row[:] for row in G]
    det = Fr(1)
    for c in range(4):
        piv = next((r for r in range(c, 4) if A[r][c] != 0), None)
        if piv is None:
            return Fr(0)
        if piv != c:
            A[c], A[piv] = A[piv], A[c]
            det = -det
        det *= A[c][c]
        for r in range(c + 1, 4):
            f = A[r][c] / A[c][c]
            A[r] = [a - f * b for a, b in zip(A[r], A[c])]
    return det


def ideal_norm(O, I):
    """sqrt([O:I]) when it is a perfect square of a non-negative integer, else None"""
    ix = index(I, O)
    if ix.denominator != 1 or ix < 0:
        return None
    s = isqrt(int(ix))
    return s if s * s == ix else None


def is_primitive(O, x):
    co = contains(O, x)
    if co is None:
        return None
    g = 0
    for c in co:
        g = gcd(g, c)
    return g == 1

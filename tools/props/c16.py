"""C16 — lattice reduction keeps the lattice and reduces it; responses are short.

Proof part (lean/SqiProps/C16.lean): integer row operations preserve the lattice for ALL decision sequences
(float-independent), soundness of the exact certificate checker `lllCheck`, the dimension-2 routines, the decision
logic of `sample_response`.  Tie H: every C output of `quat_lattice_lll` is fed to the Lean checker (through the
model driver) and to an independent exact-rational oracle written here (fractions); the dimension-2 routines and the
sample_response decision logic are compared with their executable Lean models on generated inputs.
"""
import atexit, json, os, signal, subprocess, time
from fractions import Fraction
import vlib

HERE = os.path.dirname(os.path.abspath(__file__))
ROOT = os.path.dirname(os.path.dirname(HERE))
HARNESS = os.path.join(ROOT, "tools", "harness", "drv_lll.c")
CORPUS = os.path.join(ROOT, "corpus", "C16")

PRIMES = {1: 5 * 2**248 - 1, 3: 65 * 2**376 - 1, 5: 27 * 2**500 - 1}
RESP = {1: 128, 3: 194, 5: 255}
FEXP = {1: 248, 3: 376, 5: 500}
# the implemented delta is the double nearest to 0.99 (mpf_set_d(cnst, 0.99)), eta = 1/2
DELTA_IMPL = Fraction(4458563631096791, 4503599627370496)
ETA_IMPL = Fraction(1, 2)
# constants of the certificate check (slightly relaxed for float error; all outputs of the unchanged tree meet the
# exact implemented constants as well: the evidence records how many do)
DELTA_CHK = Fraction(98, 100)
ETA_CHK = Fraction(51, 100)


def hx(x):
    return ("-" if x < 0 else "") + format(abs(x), "x")


def unhx(s):
    return int(s, 16)


def mat_hex(m):
    return " ".join(hx(x) for row in m for x in row)


def parse_mat(ws, n=4):
    v = [unhx(w) for w in ws]
    return [v[n * i:n * i + n] for i in range(n)]


def cols(m):
    return [[m[i][j] for i in range(len(m))] for j in range(len(m[0]))]


def from_cols(cs):
    return [[cs[j][i] for j in range(len(cs))] for i in range(len(cs[0]))]


# ---------------------------------------------------------------------------------- exact oracle (python ints / Fraction)
def form(q, u, v):
    return u[0] * v[0] + u[1] * v[1] + q * (u[2] * v[2] + u[3] * v[3])


def det_int(m):
    """exact determinant (fraction-free Bareiss)"""
    n = len(m)
    a = [row[:] for row in m]
    sign, prev = 1, 1
    for k in range(n - 1):
        if a[k][k] == 0:
            sw = next((i for i in range(k + 1, n) if a[i][k] != 0), None)
            if sw is None:
                return 0
            a[k], a[sw] = a[sw], a[k]
            sign = -sign
        for i in range(k + 1, n):
            for j in range(k + 1, n):
                a[i][j] = (a[i][j] * a[k][k] - a[i][k] * a[k][j]) // prev
        prev = a[k][k]
    return sign * a[n - 1][n - 1]


def solve_int(a, b):
    """X with a * X = b over Q (a square, invertible); returns the Fraction matrix"""
    n = len(a)
    m = [[Fraction(x) for x in a[i]] + [Fraction(x) for x in b[i]] for i in range(n)]
    for c in range(n):
        p = next(i for i in range(c, n) if m[i][c] != 0)
        m[c], m[p] = m[p], m[c]
        inv = 1 / m[c][c]
        m[c] = [x * inv for x in m[c]]
        for i in range(n):
            if i != c and m[i][c] != 0:
                f = m[i][c]
                m[i] = [x - f * y for x, y in zip(m[i], m[c])]
    return [row[n:] for row in m]


def same_lattice_cols(l, r):
    """columns of l and r generate the same full-rank lattice: r = l*U, U integral with det +-1"""
    if det_int(l) == 0 or det_int(r) == 0:
        return False
    u = solve_int(l, r)
    if any(x.denominator != 1 for row in u for x in row):
        return False
    d = det_int([[int(x) for x in row] for row in u])
    return d in (1, -1)


def gram_schmidt(q, vs):
    """exact rational Gram-Schmidt of the vectors vs for the form (1,1,q,q): (mu, B) or None if dependent"""
    n = len(vs)
    bs, B = [], []
    mu = [[Fraction(0)] * n for _ in range(n)]
    for i in range(n):
        v = [Fraction(x) for x in vs[i]]
        for j in range(i):
            mu[i][j] = form(q, [Fraction(x) for x in vs[i]], bs[j]) / B[j]
            v = [x - mu[i][j] * y for x, y in zip(v, bs[j])]
        nb = form(q, v, v)
        if nb == 0:
            return None
        bs.append(v)
        B.append(nb)
    return mu, B


def reduced_report(q, red, delta, eta):
    """(ok, reason, max|mu|, min lovasz ratio B_i/((delta - mu^2) B_{i-1}) ) for the COLUMNS of red"""
    gs = gram_schmidt(q, cols(red))
    if gs is None:
        return False, "not-a-basis", None, None
    mu, B = gs
    mx = max(abs(mu[i][j]) for i in range(4) for j in range(i))
    ok, reason = True, ""
    if mx > eta:
        ok, reason = False, "size"
    lov = min(B[i] / B[i - 1] + mu[i][i - 1] ** 2 for i in range(1, 4))   # must be >= delta
    if lov < delta:
        ok, reason = False, (reason + "+lovasz").strip("+")
    return ok, reason, mx, lov


def lll_oracle(q, lat, ret, red, delta=DELTA_CHK, eta=ETA_CHK):
    """the property's own oracle for one call: returns (ok, reason)"""
    if det_int(lat) == 0:
        return (ret == -1), ("rank-deficient input must be reported" if ret != -1 else "")
    if ret != 0:
        return False, "full-rank input rejected (ret=%d)" % ret
    if not same_lattice_cols(lat, red):
        return False, "lattice changed"
    ok, reason, _, _ = reduced_report(q, red, delta, eta)
    return ok, ("not reduced: " + reason if not ok else "")


# ---------------------------------------------------------------------------------- generators
def is_probable_prime(n, rng):
    if n < 2:
        return False
    for p in (2, 3, 5, 7, 11, 13, 17, 19, 23, 29, 31, 37):
        if n % p == 0:
            return n == p
    d, s = n - 1, 0
    while d % 2 == 0:
        d //= 2
        s += 1
    for _ in range(12):
        a = 2 + rng.below(n - 3)
        x = pow(a, d, n)
        if x in (1, n - 1):
            continue
        for _ in range(s - 1):
            x = x * x % n
            if x == n - 1:
                break
        else:
            return False
    return True


def rand_prime(rng, bits):
    while True:
        n = rng.bits(bits) | (1 << (bits - 1)) | 1
        if is_probable_prime(n, rng):
            return n


def rsigned(rng, bits):
    v = rng.bits(bits) if bits > 0 else 0
    return -v if rng.below(2) else v


def rand_unimodular(rng, steps, cbits):
    """random unimodular 4x4 matrix as a product of elementary operations"""
    u = [[1 if i == j else 0 for j in range(4)] for i in range(4)]
    for _ in range(steps):
        i, j = rng.below(4), rng.below(4)
        if i == j:
            continue
        if rng.below(5) == 0:
            u[i], u[j] = u[j], u[i]
        else:
            c = rsigned(rng, 1 + rng.below(cbits))
            u[i] = [a + c * b for a, b in zip(u[i], u[j])]
    return u


def matmul(a, b):
    n, m, k = len(a), len(b[0]), len(b)
    return [[sum(a[i][t] * b[t][j] for t in range(k)) for j in range(m)] for i in range(n)]


def gen_hnf(rng, totbits):
    """random HNF basis (as the library's lattices): upper triangular, positive diagonal, entries right of a
    diagonal entry reduced modulo it; determinant about 2^totbits"""
    cut = sorted(rng.below(totbits + 1) for _ in range(3))
    sizes = [cut[0], cut[1] - cut[0], cut[2] - cut[1], totbits - cut[2]]
    m = [[0] * 4 for _ in range(4)]
    for i in range(4):
        m[i][i] = (rng.bits(sizes[i]) | (1 << sizes[i])) if sizes[i] > 0 else 1
        for j in range(i + 1, 4):
            m[i][j] = rng.below(m[i][i])
    return m


def gen_dense(rng, bits):
    return [[rsigned(rng, bits) for _ in range(4)] for _ in range(4)]


def gen_skewed(rng, kind, bits):
    if kind == 0:       # huge ratio between the scales of the vectors
        sc = [1 << rng.below(bits) for _ in range(4)]
        b = gen_dense(rng, 8)
        return from_cols([[x * sc[j] for x in cols(b)[j]] for j in range(4)])
    if kind == 1:       # nearly dependent columns: c1 = K*c0 + small, c2 = K'*c1 + small ...
        c = [[rsigned(rng, 16) for _ in range(4)]]
        for _ in range(3):
            k = rsigned(rng, 1 + rng.below(bits))
            c.append([k * x + rsigned(rng, 6) for x in c[-1]])
        return from_cols(c)
    if kind == 2:       # small basis hidden behind a large unimodular transformation (columns: B*U)
        b = gen_dense(rng, 10)
        return matmul(b, rand_unimodular(rng, 30, max(2, bits // 12)))
    # kind 3: one coordinate direction scaled (interaction with q): rows scaled
    b = gen_dense(rng, 12)
    sc = [1 << rng.below(bits) for _ in range(4)]
    return [[b[i][j] * sc[i] for j in range(4)] for i in range(4)]


def gen_unimod_huge(rng, kind, bits):
    """unimodular 4x4 matrix with huge entries: 0 upper unitriangular, 1 lower unitriangular, 2 upper*lower,
    3 lower*upper, 4 the 2x2 block (D, D+1; 1, 1) (det -1) on a random index pair"""
    def tri(upper):
        u = [[1 if i == j else 0 for j in range(4)] for i in range(4)]
        for i in range(4):
            for j in range(4):
                if (j > i) if upper else (j < i):
                    u[i][j] = rsigned(rng, bits - rng.below(8)) if rng.below(4) else 0
        if all(u[i][j] == 0 for i in range(4) for j in range(4) if i != j):
            if upper:
                u[0][3] = rsigned(rng, bits) | 1
            else:
                u[3][0] = rsigned(rng, bits) | 1
        return u
    if kind == 0:
        return tri(True)
    if kind == 1:
        return tri(False)
    if kind == 2:
        return matmul(tri(True), tri(False))
    if kind == 3:
        return matmul(tri(False), tri(True))
    u = [[1 if i == j else 0 for j in range(4)] for i in range(4)]
    a = rng.below(4)
    b = (a + 1 + rng.below(3)) % 4
    d = (1 << bits) + (rng.bits(bits // 2) if rng.below(2) else 0)
    u[a][a], u[a][b], u[b][a], u[b][b] = d, d + 1, 1, 1
    return u


UNIMOD_KINDS = ["upper", "lower", "upper*lower", "lower*upper", "block(D,D+1;1,1)"]


# ---------------------------------------------------------------------------------- process hygiene
# Every child (C driver incl. its forked grandchildren under alarm, Lean model driver) runs in its OWN process group
# with a wall-clock timeout; the whole group is SIGKILLed on timeout, on any exception, and at interpreter exit
# (atexit + SIGTERM/SIGINT/SIGHUP handlers), so that a hanging routine can never leave a process of this check behind.
_LIVE_GROUPS = set()


def _kill_group(pgid):
    try:
        os.killpg(pgid, signal.SIGKILL)
    except (ProcessLookupError, PermissionError, OSError):
        pass


def _kill_all_groups(*_a):
    for g in list(_LIVE_GROUPS):
        _kill_group(g)
    _LIVE_GROUPS.clear()


def _on_signal(signum, _frame):
    _kill_all_groups()
    signal.signal(signum, signal.SIG_DFL)
    os.kill(os.getpid(), signum)


atexit.register(_kill_all_groups)
for _sig in (signal.SIGTERM, signal.SIGINT, signal.SIGHUP):
    try:
        signal.signal(_sig, _on_signal)
    except (ValueError, OSError):      # not in the main thread
        pass


def run_group(cmd, lines, timeout):
    """run `cmd` with the op lines on stdin in its own session/process group; returns (rc, stdout, stderr, timed_out).
    The group is killed before returning in every case (normal end included: stragglers of a finished driver)."""
    p = subprocess.Popen(cmd, stdin=subprocess.PIPE, stdout=subprocess.PIPE, stderr=subprocess.PIPE, start_new_session=True)
    _LIVE_GROUPS.add(p.pid)
    timed_out = False
    try:
        try:
            out, err = p.communicate(("\n".join(lines) + "\n").encode(), timeout=timeout)
        except subprocess.TimeoutExpired:
            timed_out = True
            _kill_group(p.pid)
            out, err = p.communicate()
        return p.returncode, out.decode("utf-8", "replace"), err.decode("utf-8", "replace")[-4000:], timed_out
    finally:
        _kill_group(p.pid)
        try:
            p.wait(timeout=5)
        except Exception:
            pass
        _LIVE_GROUPS.discard(p.pid)


def alarm_budget(lines, base=60):
    """wall-clock budget for a batch: the sum of the per-call alarms of the forked lines (+ slack)"""
    tot = base
    for l in lines:
        if l.startswith("! "):
            try:
                tot += int(l.split()[1]) + 1
            except (ValueError, IndexError):
                tot += 11
    return tot


# ---------------------------------------------------------------------------------- running the two sides
class Side:
    HANG_BUDGET = 6

    def __init__(self, ctx):
        self.ctx = ctx
        self.exe = {}
        self.hangs = 0
        self.skipped = 0

    def build(self, lvls):
        for l in lvls:
            self.exe[l] = self.ctx.cc_harness(HARNESS, os.path.join(self.ctx.tmp, "drv_lll_%d" % l), l)

    def c(self, lvl, lines, timeout=3000):
        """run op lines on the level's C driver.  Lines of the form "! T op" run forked under alarm(T); they are sent
        in batches and once HANG_BUDGET calls have timed out / crashed in this check the remaining ones are answered
        "skipped" (a routine that hangs on most inputs must not eat the time budget; the hangs themselves are
        reported as violations by the stages)."""
        out = []
        forked = bool(lines) and all(x.startswith("! ") for x in lines)
        step = 12 if forked else max(len(lines), 1)
        for b0 in range(0, len(lines), step):
            chunk = lines[b0:b0 + step]
            if forked and self.hangs >= self.HANG_BUDGET:
                out += ["skipped"] * len(chunk)
                self.skipped += len(chunk)
                continue
            rc, so, err, to = run_group([self.exe[lvl]], chunk, min(timeout, alarm_budget(chunk) if forked else timeout))
            o = [l[2:] for l in so.split("\n") if l.startswith("R ")]
            if to:
                err = "C driver exceeded its wall-clock budget and was killed (process group) " + err
            if len(o) < len(chunk):
                o += ["<no output: C driver stopped rc=%d %s>" % (rc, err[-300:].replace("\n", " "))] * (len(chunk) - len(o))
            if forked:
                self.hangs += sum(1 for x in o if x.startswith("timeout"))
            out += o
        return out

    def lean(self, lines, timeout=1800):
        exe = os.path.join(vlib.LEAN, ".lake", "build", "bin", "driver")
        rc, so, err, to = run_group([exe], lines, timeout)
        if to or rc != 0:
            raise vlib.BuildError("lean driver %s: %s" % ("timed out (killed)" if to else "failed rc=%d" % rc, err[-1500:]))
        out = so.split("\n")
        return out[:-1] if so.endswith("\n") else out


def frac4(fr):
    return [hx(fr.numerator), hx(fr.denominator)]


def check_args(delta, eta):
    return " ".join(frac4(delta) + frac4(eta))


# ---------------------------------------------------------------------------------- classification helpers
def precision_slack(q, lat):
    """coverage statistic only: 2*logdet (the mpf precision the routine chose BEFORE repo commit ba3b4ab) minus roughly
    what the norm form needs, bitsize(q) + 2*max-bitsize.  Below ~128 the old code was precision-starved and returned
    unreduced bases; the repaired precision is 2*logdet + 4*bitsize(q) + 128 and NO input is exempt any more."""
    logdet = sum(max(max(abs(x).bit_length(), 1) for x in row) for row in lat)
    mb = max(abs(x).bit_length() for row in lat for x in row)
    return 2 * logdet - (q.bit_length() + 2 * mb)


KEY_UNDERFLOW = "lll:full-rank:ret-1:float-underflow"
WHAT_UNDERFLOW = ("quat_lattice_lll returns -1 (rank deficient) on a FULL-RANK lattice given by a skewed basis: the zero test "
                  "mpf_get_d(B[k]) == 0.0 underflows the double conversion when the exact |b*_k|^2 < 2^-1074 "
                  "(repair: notes/patches/C16-fix-lll-float-zero.diff)")


def float_underflow_index(q, lat):
    """first k >= 1 whose exact Gram-Schmidt norm B_k of the INPUT basis (columns) is below 2^-1074, else None.
    When the routine first computes B[k] (k > kmax) the rows 0..k-1 have only been transformed among themselves and
    row k is untouched, so that B[k] is exactly this number: below 2^-1074 its conversion to double is 0.0."""
    gs = gram_schmidt(q, cols(lat))
    if gs is None:
        return None
    for k in range(1, 4):
        b = gs[1][k]
        if b.numerator.bit_length() - b.denominator.bit_length() < -1073:
            return k
    return None


def flt(x):
    """float for the evidence; values outside the double range are given as '2^k'"""
    if x is None:
        return None
    try:
        return float(x)
    except OverflowError:
        return "%s2^%d" % ("-" if x < 0 else "", abs(x.numerator).bit_length() - abs(x.denominator).bit_length())


def hist(ctx, name, key):
    h = ctx.coverage.setdefault(name, {})
    h[str(key)] = h.get(str(key), 0) + 1


def bucket(x, step):
    return (x // step) * step


# ---------------------------------------------------------------------------------- stage: quat_lattice_lll
def lll_cases(ctx, side, rng):
    """list of (tag, lvl, q, denom, lat) — lvl selects which level's harness binary runs the case"""
    T = 1 if ctx.quick else 12
    cases = []
    lv = lambda: rng.choice([1, 3, 5])
    for _ in range(120 * T):
        l = lv()
        cases.append(("hnf", l, PRIMES[l], 1 + rng.below(7), gen_hnf(rng, 1 + rng.below(1000))))
    for _ in range(40 * T):
        l = lv()
        cases.append(("hnf-smallq", l, rng.choice([1, 2, 3, 7, 103, (1 << 61) - 1]), 1, gen_hnf(rng, 1 + rng.below(1000))))
    for _ in range(60 * T):
        l = lv()
        lo = (PRIMES[l].bit_length() + 128) // 6 + 8
        cases.append(("dense", l, PRIMES[l], 1, gen_dense(rng, lo + rng.below(250))))
    for _ in range(80 * T):
        l = lv()
        k = rng.below(4)
        cases.append(("skew%d" % k, l, PRIMES[l], 1, gen_skewed(rng, k, 8 + rng.below(500))))
    for _ in range(40 * T):      # small entries, large q: the regime where the precision rule before ba3b4ab failed
        l = lv()
        k = rng.below(5)
        m = gen_dense(rng, 1 + rng.below(60)) if k == 4 else gen_skewed(rng, k, 8 + rng.below(120))
        cases.append(("starved", l, PRIMES[l], 1, m))
    # ideal lattices produced by the library itself (all three levels)
    gl = {1: [], 3: [], 5: []}
    for l in (1, 3, 5):
        for _ in range(10 * T):
            gl[l].append(("ideal2e", "gen.ideal %s 0 %s" % (hx(rng.bits(60)), hx(1 + rng.below(FEXP[l])))))
        for _ in range(10 * T):
            n = rand_prime(rng, 8 + rng.below(PRIMES[l].bit_length() + 20))
            gl[l].append(("idealprime", "gen.ideal %s 1 %s" % (hx(rng.bits(60)), hx(n))))
        for _ in range(6 * T):
            gl[l].append(("idealgen", "gen.ideal %s 2 %s" % (hx(rng.bits(60)), hx(2 + rng.bits(1 + rng.below(300))))))
        for _ in range(6 * T):
            gl[l].append(("signlat", "gen.signlat %s %s" % (hx(rng.bits(60)), hx(FEXP[l]))))
        outs = side.c(l, [x[1] for x in gl[l]])
        for (tag, line), o in zip(gl[l], outs):
            if "|" not in o:
                ctx.obligation("generator " + line[:40], False, o[:200])
                continue
            w = o.split("|")[1].split()
            cases.append((tag, l, PRIMES[l], unhx(w[0]), parse_mat(w[1:17])))
    # skewed NON-HNF bases with huge unimodular factors: M = H*U (same lattice as H), H an HNF / ideal lattice,
    # U unimodular with 400..1400-bit entries; all three primes and small q.  Deterministic round-robin over
    # (kind of U, choice of q) so that every combination occurs in the quick tier.
    ideal_pool = [c for c in cases if c[0] in ("ideal2e", "idealprime", "idealgen", "signlat")]
    nsk = 60 * T
    for i in range(nsk):
        kind = i % 5
        qsel = (i // 5) % 4
        l = [1, 3, 5][(i // 20) % 3]
        q = PRIMES[l] if qsel < 2 else rng.choice([1, 3, 7, 103, (1 << 61) - 1])
        if i % 3 == 2 and ideal_pool:
            src = rng.choice(ideal_pool)
            h, den = src[4], src[3]
            if qsel < 2:
                l, q = src[1], src[2]
        else:
            h, den = gen_hnf(rng, 1 + rng.below(rng.choice([8, 200, 1000]))), 1
        bits = 400 + rng.below(1001) if i % 2 else 1000 + rng.below(401)
        u = gen_unimod_huge(rng, kind, bits)
        cases.append(("skewU:" + UNIMOD_KINDS[kind], l, q, den, matmul(h, u)))
    # the witness family of the float-underflow finding, explicitly
    for e in (400, 600, 1000, 1400):
        for q in (103, PRIMES[1]):
            d = 1 << e
            cases.append(("skewU:witness(D=2^%d)" % e, 1, q, 1, from_cols([[d, 1, 0, 0], [d + 1, 1, 0, 0], [0, 0, 1, 0], [0, 0, 0, 1]])))
    return cases


def stage_lll(ctx, side):
    rng = ctx.rng.fork("lll")
    cases = lll_cases(ctx, side, rng)
    by_lvl = {1: [], 3: [], 5: []}
    for i, c in enumerate(cases):
        by_lvl[c[1]].append(i)
    outs = [None] * len(cases)
    lines = [None] * len(cases)
    for l in (1, 3, 5):
        for i in by_lvl[l]:
            tag, _, q, den, lat = cases[i]
            lines[i] = "lll.run %s %s %s" % (hx(q), hx(den), mat_hex(lat))
        # alarm: 5 s (calls take milliseconds), 40 s for the few inputs with entries above 2000 bits (measured: 7 s for
        # 4000-bit entries at level 5)
        alarm = lambda i: 40 if max(abs(x).bit_length() for row in cases[i][4] for x in row) > 2000 else 5
        for i, o in zip(by_lvl[l], side.c(l, ["! %d " % alarm(i) + lines[i] for i in by_lvl[l]])):
            outs[i] = o
    keep = [i for i in range(len(cases)) if outs[i] != "skipped"]
    cases = [cases[i] for i in keep]
    lines = [lines[i] for i in keep]
    outs = [outs[i] for i in keep]
    # Lean certificate check on every output + python oracle
    underflow_ops = set()      # calls explained by the float-underflow finding (reported under its own key)
    lean_lines, lean_idx = [], []
    strict_ok = 0
    nviol = 0
    margins = []
    for i, (tag, l, q, den, lat) in enumerate(cases):
        o = outs[i]
        w = o.split()
        slack = precision_slack(q, lat)
        hist(ctx, "lll_cases_by_class", tag)
        hist(ctx, "lll_cases_by_level", l)
        hist(ctx, "lll_pre_fix_precision_slack_bits(<128 = formerly starved)", bucket(max(min(slack, 4096), -1024), 256))
        hist(ctx, "lll_det_bits", bucket(abs(det_int(lat)).bit_length(), 128))
        ctx.case("lll:%s:%d:%d" % (tag, l, i))
        replay = dict(op=lines[i], level=l, how="echo '<op>' | drv_lll_<level>  (tools/harness/drv_lll.c)", c_output=o[:2000],
                      precision_slack_bits=slack)
        if det_int(lat) == 0:
            # a generator of this stage happened to produce a singular matrix (tiny entries): the property demands -1
            hist(ctx, "lll_stage_singular_inputs", w[0])
            if w[0] != "-1":
                ctx.violation("lll:rank-deficient:" + ("ret0" if w[0] == "0" else w[0]),
                              "quat_lattice_lll: %s on a rank-deficient input (class %s)" % (o[:40], tag), replay)
                nviol += 1
            continue
        if w[0] in ("crash", "timeout") or w[0].startswith("<no"):
            ctx.violation("lll:" + w[0], "quat_lattice_lll %s on a full-rank lattice (class %s)" % (o[:40], tag), replay)
            nviol += 1
            continue
        ret = int(w[0])
        red = parse_mat(w[1:17]) if ret == 0 and len(w) >= 17 else None
        if ret != 0:
            uf = float_underflow_index(q, lat)
            if ret == -1 and uf is not None:
                replay["exact_B_k_below_2^-1074_at_k"] = uf
                underflow_ops.add(lines[i])
                ctx.violation(KEY_UNDERFLOW, WHAT_UNDERFLOW + " (class %s)" % tag, replay)
            else:
                ctx.violation("lll:full-rank-rejected", "quat_lattice_lll returned %d on a full-rank lattice (class %s)" % (ret, tag), replay)
            nviol += 1
            hist(ctx, "lll_full_rank_rejected", "float-underflow" if uf is not None else "other")
            continue
        if not same_lattice_cols(lat, red):
            ctx.violation("lll:lattice-changed", "quat_lattice_lll output does not generate the input lattice "
                          "(no unimodular U with red = basis*U) — class %s" % tag, replay)
            nviol += 1
            verdict = False
        else:
            ok, reason, mx, lov = reduced_report(q, red, DELTA_CHK, ETA_CHK)
            verdict = ok
            if ok:
                ok2, _, _, _ = reduced_report(q, red, DELTA_IMPL, ETA_IMPL)
                strict_ok += 1 if ok2 else 0
                margins.append((float(mx), float(lov)))
            else:
                replay["max_abs_mu"] = flt(mx)
                replay["min_lovasz_ratio"] = flt(lov)
                ctx.violation("lll:not-reduced:" + reason, "quat_lattice_lll output is not (%.2f, %.2f)-reduced: %s "
                              "(class %s, exact rational Gram-Schmidt)" % (DELTA_CHK, ETA_CHK, reason, tag), replay)
                nviol += 1
        lean_lines.append("lll.check %s %s %s %s" % (check_args(DELTA_CHK, ETA_CHK), hx(q), mat_hex(lat), mat_hex(red)))
        lean_idx.append((i, verdict))
        if len(ctx.samples) < 3 and tag in ("signlat", "hnf"):
            ctx.sample(dict(stage="lll", cls=tag, level=l, det_bits=abs(det_int(lat)).bit_length(), op=lines[i][:160] + "..."))
    lo = side.lean(lean_lines)
    dis = []
    for j, ((i, verdict), r) in enumerate(zip(lean_idx, lo)):
        hist(ctx, "lll_lean_checker_codes", r)
        if (r == "0") != verdict:
            dis.append(dict(op=lean_lines[j][:300], lean=r, oracle=verdict, case=lines[i][:300]))
    nnew = len([v for v in ctx.violations if v["key"].startswith("lll:")])
    ctx.obligation("certificate check: Lean lllCheck accepts every C output of quat_lattice_lll (%d outputs)"
                   % len(lean_lines), nnew == 0, "%d outputs rejected, %d new violation keys" % (nviol, nnew))
    ctx.obligation("Lean lllCheck agrees with the independent exact-rational oracle (%d outputs)" % len(lean_lines), not dis,
                   json.dumps(dis[:3])[:600])
    if dis:
        ctx.violation("model:lllCheck-vs-oracle", "Lean checker and python oracle disagree on a C output", dict(disagreements=dis[:5]),
                      found=False)
    guard_correspondence(ctx, side, [(lines[i], outs[i]) for i in range(len(cases)) if lines[i] not in underflow_ops],
                         "full-rank stage" + (" (%d calls filed under %s excluded)" % (len(underflow_ops), KEY_UNDERFLOW) if underflow_ops else ""))
    ctx.coverage["lll_outputs_checked"] = len(lean_lines)
    ctx.coverage["lll_outputs_meeting_exact_implemented_constants(delta=double(0.99),eta=1/2)"] = strict_ok
    if margins:
        ctx.coverage["lll_worst_abs_mu"] = max(m[0] for m in margins)
        ctx.coverage["lll_worst_lovasz_ratio"] = min(m[1] for m in margins)


def guard_correspondence(ctx, side, pairs, name):
    """the entry guard of the repaired routine (Lean `lllGuard` = exact determinant test) against the C return value:
    ret = -1 iff the guard fires"""
    pairs = [(l, o) for l, o in pairs if o.split() and o.split()[0] in ("0", "-1")]
    gl = ["lll.guard " + " ".join(l.split()[3:19]) for l, _ in pairs]
    go = side.lean(gl) if gl else []
    dis = [dict(op=l[:300], impl_ret=o.split()[0], model_guard=g) for (l, o), g in zip(pairs, go)
           if (o.split()[0] == "-1") != (g == "-1")]
    ctx.evaluations += len(gl)
    ctx.obligation("correspondence entry rank test (lllGuard) vs C return value, %s (%d calls)" % (name, len(gl)), not dis,
                   json.dumps(dis[:3])[:600])
    return dis


# ---------------------------------------------------------------------------------- stage: rank-deficient inputs
RANK_CORPUS = [
    # (q, columns) — minimised replays
    (1, [[0, 3, 0, 0], [0, 1, 0, 0], [0, 4, 0, 0], [0, 0, 0, 1]]),           # returns 0, two zero columns in red
    (1, [[0, 0, 0, 0], [0, 0, 0, 0], [0, 0, 0, 0], [0, 0, 0, 0]]),           # zero matrix: SIGFPE (B[0] = 0 never tested)
    (7, [[0, 0, 0, 0], [1, 0, 0, 0], [0, 1, 0, 0], [0, 0, 1, 0]]),           # zero first column: SIGFPE
    (3, [[1, 1, 0, 0], [1, 1, 0, 0], [0, 0, 1, 0], [0, 0, 0, 1]]),           # exact floats: reported (-1)
]


def stage_rank(ctx, side):
    rng = ctx.rng.fork("rank")
    cases = [("corpus%d" % i, 1, q, from_cols(cs)) for i, (q, cs) in enumerate(RANK_CORPUS)]
    n = 40 if ctx.quick else 600
    for i in range(n):
        l = rng.choice([1, 3, 5])
        bits = rng.choice([2, 4, 8, 16, 64, 128, 256, 512, 1000])
        rows = [[rsigned(rng, bits) for _ in range(4)] for _ in range(4)]
        kind = rng.below(6)
        if kind == 0:
            rows[3] = [a + b for a, b in zip(rows[0], rows[1])]
        elif kind == 1:
            rows[2] = [3 * a for a in rows[0]]
        elif kind == 2:
            rows[1 + rng.below(3)] = [0] * 4
        elif kind == 3:
            ca, cb, cc = rsigned(rng, bits), rsigned(rng, bits), rsigned(rng, 3)
            rows[3] = [ca * a + cb * b + cc * c for a, b, c in zip(rows[0], rows[1], rows[2])]
        elif kind == 4:
            rows[1] = [-a for a in rows[0]]
            rows[3] = rows[2][:]
        else:
            rows[0] = [0] * 4
        q = rng.choice([PRIMES[l], 1, 3])
        cases.append(("k%d" % kind, l, q, from_cols(rows)))
    by = {1: [], 3: [], 5: []}
    for i, c in enumerate(cases):
        by[c[1]].append(i)
    res = {}
    for l in (1, 3, 5):
        ls = ["! 5 lll.run %s 1 %s" % (hx(cases[i][2]), mat_hex(cases[i][3])) for i in by[l]]
        for i, o in zip(by[l], side.c(l, ls) if ls else []):
            res[i] = o
    stats = {}
    for i, (tag, l, q, lat) in enumerate(cases):
        assert det_int(lat) == 0
        o = res[i]
        if o == "skipped":
            continue
        w = o.split()
        ctx.case("rank:%s:%d" % (tag, i))
        replay = dict(op="lll.run %s 1 %s" % (hx(q), mat_hex(lat)), level=l, c_output=o[:600],
                      how="echo '! 10 <op>' | drv_lll_<level>")
        if w[0] == "-1":
            cls = "reported(-1)"
        elif w[0] == "0":
            cls = "returned-0"
            ctx.violation("lll:rank-deficient:ret0", "quat_lattice_lll returns 0 (success) on a rank-deficient input: the "
                          "exact rank test at entry (repo commit ba3b4ab) is missing or wrong", replay)
        elif w[0] == "crash":
            cls = "crash-signal-" + (w[1] if len(w) > 1 else "?")
            zero_first = all(lat[r][0] == 0 for r in range(4))
            key = "lll:rank-deficient:zero-first-column:sigfpe" if zero_first and w[1:] == ["8"] else "lll:rank-deficient:crash"
            ctx.violation(key, "quat_lattice_lll crashes (signal %s) on a rank-deficient input%s" %
                          (w[1] if len(w) > 1 else "?", " whose first column is zero (float division by B[0] = 0: the exact rank test at entry is missing)" if zero_first else ""), replay)
        else:
            cls = w[0]
            ctx.violation("lll:rank-deficient:" + w[0], "quat_lattice_lll: %s on a rank-deficient input" % o[:60], replay)
        stats[cls] = stats.get(cls, 0) + 1
    ctx.coverage["rank_deficient_inputs"] = stats
    bad = sum(v for k, v in stats.items() if k != "reported(-1)")
    ctx.obligation("every rank-deficient input is reported with -1 (%d inputs, forked under alarm)" % len(cases), bad == 0,
                   json.dumps(stats))
    guard_correspondence(ctx, side, [("lll.run %s 1 %s" % (hx(q), mat_hex(lat)), res[i]) for i, (tag, l, q, lat) in enumerate(cases)
                                     if res.get(i, "skipped") != "skipped"], "singular stage")


# ---------------------------------------------------------------------------------- stage: dimension-2 routines
def n2(q, v):
    return v[0] * v[0] + q * v[1] * v[1]


def b2(q, u, v):
    return u[0] * v[0] + q * u[1] * v[1]


def d2_same_lattice(a, b):
    """2x2 integer matrices (columns = vectors) generate the same rank-2 lattice"""
    da = a[0][0] * a[1][1] - a[0][1] * a[1][0]
    db = b[0][0] * b[1][1] - b[0][1] * b[1][0]
    if da == 0 or abs(da) != abs(db):
        return False
    # b = a * U  <=>  U = adj(a) * b / det(a) integral
    adj = [[a[1][1], -a[0][1]], [-a[1][0], a[0][0]]]
    u = matmul(adj, b)
    return all(x % da == 0 for row in u for x in row)


def oracle_short(q, bm, out):
    """property oracle for quat_dim2_lattice_short_basis: same lattice, first column not longer than the second,
    |2<b,a>| <= N(b)"""
    r = parse_mat(out.split(), 2)
    c0, c1 = [r[0][0], r[1][0]], [r[0][1], r[1][1]]
    if not d2_same_lattice(bm, r):
        return False, "lattice changed"
    if n2(q, c0) > n2(q, c1):
        return False, "first vector longer than second"
    if abs(2 * b2(q, c0, c1)) > n2(q, c0):
        return False, "not Gauss-reduced"
    return True, ""


def oracle_cvp(q, bm, t, out):
    w = [unhx(x) for x in out.split()]
    tmc, co = w[0:2], w[2:4]
    cl = [bm[0][0] * co[0] + bm[0][1] * co[1], bm[1][0] * co[0] + bm[1][1] * co[1]]
    if [t[0] - tmc[0], t[1] - tmc[1]] != cl:
        return False, "target - target_minus_closest != basis*coords"
    # nearest-plane quality: component along b0 at most half
    b0 = [bm[0][0], bm[1][0]]
    b1 = [bm[0][1], bm[1][1]]
    if abs(2 * b2(q, tmc, b0)) > n2(q, b0):
        return False, "residual not reduced against the first basis vector"
    # component along b1* at most half: <tmc,b1*> with b1* = N(b0) b1 - <b1,b0> b0 (scaled)
    s1 = [n2(q, b0) * b1[0] - b2(q, b1, b0) * b0[0], n2(q, b0) * b1[1] - b2(q, b1, b0) * b0[1]]
    if abs(2 * b2(q, tmc, s1) * n2(q, b0)) > n2(q, s1):
        # <tmc, b1*> / <b1*, b1*> with b1* = s1 / N(b0)
        return False, "residual not reduced against the orthogonalised second basis vector"
    return True, ""


def oracle_enum(q, tmc, bm, bound, p, out):
    """soundness of found=1: the element is (2; v0 v1 v0 v1) with v = tmc - B(x,y), x,y integers, N(v) <= bound,
    (v0+v1) mod p = 2"""
    w = out.split()
    if w[0] == "0":
        return True, ""        # completeness is not claimed
    if w[0] != "1" or len(w) != 6:
        return False, "malformed result"
    e = [unhx(x) for x in w[1:]]
    if e[0] != 2 or e[1] != e[3] or e[2] != e[4]:
        return False, "element not of the form (2; v0 v1 v0 v1)"
    v = [e[1], e[2]]
    d = [tmc[0] - v[0], tmc[1] - v[1]]
    det = bm[0][0] * bm[1][1] - bm[0][1] * bm[1][0]
    if det == 0:
        return False, "degenerate basis"
    x = d[0] * bm[1][1] - d[1] * bm[0][1]
    y = d[1] * bm[0][0] - d[0] * bm[1][0]
    if x % det or y % det:
        return False, "returned vector is not target_minus_closest minus a lattice vector"
    if n2(q, v) > bound:
        return False, "norm above norm_bound"
    if (v[0] + v[1]) % p != 2:
        return False, "condition not satisfied"
    return True, ""


def gen_m2(rng, bits, kind):
    a = [[rsigned(rng, bits), rsigned(rng, bits)], [rsigned(rng, bits), rsigned(rng, bits)]]
    if kind == 1:       # swapped sizes: first column much longer
        a[0][0] *= 1 << rng.below(40)
        a[1][0] *= 1 << rng.below(40)
    elif kind == 2:     # nearly collinear
        k = rsigned(rng, 1 + rng.below(30))
        a[0][1] = k * a[0][0] + rsigned(rng, 2)
        a[1][1] = k * a[1][0] + rsigned(rng, 2)
    elif kind == 3:     # small reduced-looking
        a = [[rsigned(rng, 3), rsigned(rng, 3)], [rsigned(rng, 3), rsigned(rng, 3)]]
    return a


def norm_c(o):
    """C side: GMP aborts / division by zero are the model's `abort`; a hang stays `timeout` (never predicted)"""
    if o.startswith("crash"):
        return "abort"
    return o


def stage_dim2(ctx, side):
    rng = ctx.rng.fork("dim2")
    n = 150 if ctx.quick else 3000
    ops = []       # (kind, op line, data for oracle)
    # deterministic class: lattices whose two successive minima are EQUAL (boundary of the Gauss loop test): Z^2,
    # scaled / rotated squares (q=1), (a,b),(a,-b) for every q, hexagonal (q=3), rectangular with s^2 = q t^2 (q=4, 9);
    # each as given and hidden behind a (seeded) unimodular change of basis.  Run first.
    eqmin = []
    for q0, c0, c1 in [(1, (1, 0), (0, 1)), (1, (3, 0), (0, 3)), (1, (2, 1), (-1, 2)), (1, (-3, -3), (-3, 0)), (1, (-3, -3), (-3, 3)),
                       (1, (-3, -2), (-3, 2)), (1, (5, 12), (-12, 5)), (2, (3, 1), (3, -1)), (2, (4, 3), (4, -3)), (3, (2, 0), (1, 1)),
                       (3, (4, 0), (2, 2)), (3, (3, 2), (3, -2)), (4, (2, 0), (0, 1)), (5, (5, 2), (5, -2)), (7, (3, 1), (3, -1)),
                       (9, (3, 0), (0, 1)), (11, (7, 2), (7, -2)), (103, (11, 1), (11, -1)), (103, (30, 3), (30, -3))]:
        eqmin.append((q0, [[c0[0], c1[0]], [c0[1], c1[1]]]))
        for _ in range(1 if ctx.quick else 6):
            k1, k2 = rsigned(rng, 1 + rng.below(12)), rsigned(rng, 1 + rng.below(12))
            # columns (c0 + k1*c1', c1') with c1' = c1 + k2*c0 : unimodular change of basis
            d1 = (c1[0] + k2 * c0[0], c1[1] + k2 * c0[1])
            d0 = (c0[0] + k1 * d1[0], c0[1] + k1 * d1[1])
            eqmin.append((q0, [[d0[0], d1[0]], [d0[1], d1[1]]]))
    for q0, bm in eqmin:
        hist(ctx, "dim2_basis_kind", "equal-minima")
        mh = " ".join(hx(x) for row in bm for x in row)
        ops.append(("short", "d2.short %s %s" % (hx(q0), mh), (q0, bm)))
        if q0 < 2 ** 31:
            ops.append(("filter", "d2.filter %s %s %s %s %s %s %s" % (mh, hx(5), hx(-7), hx(q0), hx(6), hx(5), hx(40)), (q0, bm, [5, -7], 6, 5)))
    for i in range(n):
        q = rng.choice([1, 2, 3, 5, 7, 11, 103, 1 + rng.bits(20), 1 + rng.bits(1 + rng.below(200))])
        bits = 1 + rng.below(rng.choice([6, 20, 80, 300]))
        kind = rng.below(4)
        bm = gen_m2(rng, bits, kind)
        hist(ctx, "dim2_basis_kind", kind)
        t = [rsigned(rng, bits + rng.below(20)), rsigned(rng, bits + rng.below(20))]
        mh = " ".join(hx(x) for row in bm for x in row)
        ops.append(("short", "d2.short %s %s" % (hx(q), mh), (q, bm)))
        ops.append(("norm", "d2.norm %s %s %s" % (hx(q), hx(t[0]), hx(t[1])), None))
        ops.append(("bil", "d2.bil %s %s %s %s %s" % (hx(q), hx(bm[0][0]), hx(bm[1][0]), hx(t[0]), hx(t[1])), None))
        ops.append(("qf", "d2.qf %s %s" % (hx(q), mh), None))
        ops.append(("contains", "d2.contains %s %s %s" % (mh, hx(t[0]), hx(t[1])), None))
        # a vector that IS in the lattice
        cx, cy = rsigned(rng, 10), rsigned(rng, 10)
        inl = [bm[0][0] * cx + bm[0][1] * cy, bm[1][0] * cx + bm[1][1] * cy]
        ops.append(("contains", "d2.contains %s %s %s" % (mh, hx(inl[0]), hx(inl[1])), None))
        ops.append(("coef", "d2.coef %s %s %s %s %s %s %s" % (hx(q), hx(bm[0][1]), hx(bm[1][1]), hx(bm[0][0]), hx(bm[1][0]), hx(t[0]), hx(t[1])), None))
        ops.append(("cvp", "d2.cvp %s %s %s %s" % (hx(q), mh, hx(t[0]), hx(t[1])), (q, bm, t)))
        na, da, nb, db = rng.bits(1 + rng.below(2 * bits + 2)), rsigned(rng, 1 + rng.below(bits + 1)), rsigned(rng, bits), rsigned(rng, 1 + rng.below(12))
        if rng.below(8) == 0:
            na = -na
        ops.append(("bound", "d2.bound %s %s %s %s" % (hx(na), hx(da), hx(nb), hx(db)), None))
    # enumeration on small inputs (where the loops finish quickly); p small so that the condition is met often
    for i in range(n):
        q = rng.choice([1, 2, 3, 5, 7, 11])
        bm = gen_m2(rng, 1 + rng.below(5), rng.choice([0, 2, 3]))
        t = [rsigned(rng, 8), rsigned(rng, 8)]
        p = 3 + rng.below(9)
        mh = " ".join(hx(x) for row in bm for x in row)
        db = 1 + rng.below(9)
        mt = 1 + rng.below(60)
        ops.append(("filter", "d2.filter %s %s %s %s %s %s %s" % (mh, hx(t[0]), hx(t[1]), hx(q), hx(db), hx(p), hx(mt)), (q, bm, t, db, p)))
        tmc = [rsigned(rng, 5), rsigned(rng, 5)]
        bound = rng.bits(1 + rng.below(10))
        ops.append(("enum", "d2.enum %s %s %s %s %s %s %s" % (hx(q), hx(tmc[0]), hx(tmc[1]), mh, hx(bound), hx(mt), hx(p)), (q, tmc, bm, bound, p)))
        x, y = rsigned(rng, 3), rsigned(rng, 3)
        ops.append(("bac", "d2.bac %s %s %s %s %s %s %s %s" % (hx(q), hx(x), hx(y), hx(tmc[0]), hx(tmc[1]), mh, hx(bound), hx(p)), None))
    # membership oracle of the enumeration (condition "vec == w"): is the lattice-shifted vector w = tmc - B(x,y) tested?
    # (a) the witness of `enumeration_box_misses_ellipse` (Lean): form (4,-4,4), N = 680, z = (7,15): inside the ellipse,
    #     never visited (bound_y = 14); both sides must say 0.  (b) random small vectors: model <-> C, and the fraction of
    #     in-bound vectors that is visited is recorded (completeness is NOT a claimed property: soundness oracle only).
    ops.append(("enumeq", "d2.enumeq 3 0 0 2 -1 0 1 2a8 2710 1 -f", (3, [0, 0], [[2, -1], [0, 1]], 680, [1, -15])))
    ops.append(("enumeq", "d2.enumeq 3 0 0 2 -1 0 1 2a8 2710 2 0", (3, [0, 0], [[2, -1], [0, 1]], 680, [2, 0])))
    for i in range(n):
        q = rng.choice([1, 2, 3, 5, 7, 11])
        bm = gen_m2(rng, 1 + rng.below(5), rng.choice([0, 2, 3]))
        tmc = [rsigned(rng, 4), rsigned(rng, 4)]
        x, y = rsigned(rng, 1 + rng.below(4)), rsigned(rng, 1 + rng.below(4))
        w = [tmc[0] - (bm[0][0] * x + bm[0][1] * y), tmc[1] - (bm[1][0] * x + bm[1][1] * y)]
        bound = max(0, n2(q, w) + rsigned(rng, 1 + rng.below(6)))
        mh = " ".join(hx(v) for row in bm for v in row)
        ops.append(("enumeq", "d2.enumeq %s %s %s %s %s %s %s %s" % (hx(q), hx(tmc[0]), hx(tmc[1]), mh, hx(bound), hx(100000), hx(w[0]), hx(w[1])),
                    (q, tmc, bm, bound, w)))
    lines = [o[1] for o in ops]
    cout = [norm_c(o) for o in side.c(1, ["! 5 " + l for l in lines])]
    mout = side.lean(lines)
    dis = []
    aborts = 0
    for (kind, line, data), c, m in zip(ops, cout, mout):
        if c == "skipped":
            continue
        ctx.case("d2:" + kind)
        hist(ctx, "dim2_ops", kind)
        if c.startswith("timeout") or c.startswith("<no"):
            ctx.violation("d2:%s:hang" % kind, "dimension-2 routine does not return (%s)" % c[:40],
                          dict(op=line, c_output=c, model_output=m, how="echo '! 5 <op>' | drv_lll_1"))
            dis.append(dict(op=line, impl=c, model=m))
            continue
        if c == "abort":
            aborts += 1
        # property oracle, independent of the model, on the C result
        okp, why = True, ""
        if c != "abort":
            if kind == "short":
                okp, why = oracle_short(data[0], data[1], c)
            elif kind == "cvp":
                okp, why = oracle_cvp(data[0], data[1], data[2], c)
            elif kind == "enum":
                okp, why = oracle_enum(data[0], data[1], data[2], data[3], data[4], c)
            elif kind == "enumeq":
                qq, _, _, bnd, ww = data
                inb = n2(qq, ww) <= bnd
                if c.split()[0] == "1":
                    okp, why = (inb and c.split()[1:] == ["1", hx(ww[0]), hx(ww[1]), "0", "0"]), "vector above norm_bound accepted / wrong element"
                hist(ctx, "dim2_enum_membership(in-bound vector visited?)", ("in-bound:" if inb else "out-of-bound:") + c.split()[0])
        if not okp:
            ctx.violation("d2:%s:%s" % (kind, why), "dimension-2 routine violates its specification: %s" % why,
                          dict(op=line, c_output=c, model_output=m, how="echo '<op>' | drv_lll_1"))
        if c != m:
            dis.append(dict(op=line, impl=c, model=m))
            if okp:
                ctx.violation("model:d2:" + kind, "Lean model of the dimension-2 routine disagrees with the C code "
                              "(specification still met on this input)", dict(op=line, impl=c, model=m), found=False)
    ctx.coverage["dim2_ops_where_C_aborts(div by zero / sqrt of negative; model says abort)"] = aborts
    ctx.evaluations += len(lines)
    ctx.obligation("correspondence dim2.c model vs C (%d ops)" % len(lines), not dis, json.dumps(dis[:3])[:600])
    ctx.coverage.setdefault("correspondence", {})["dim2"] = dict(ops=len(lines), disagreements=len(dis))


# ---------------------------------------------------------------------------------- stage: sample_response
def lattice_contains(denom, basis, xden, xcoord):
    """x = xcoord/xden in the lattice basis/denom (columns)?  exact"""
    if det_int(basis) == 0:
        return False
    rhs = [[Fraction(c * denom, xden)] for c in xcoord]
    sol = solve_int(basis, rhs)
    return all(r[0].denominator == 1 for r in sol)


def stage_resp(ctx, side):
    rng = ctx.rng.fork("resp")
    per = 12 if ctx.quick else 300
    stats = dict(found_in_loop=0, fallback=0)
    margins = {1: [], 3: [], 5: []}
    dis = []
    hyp_bad = []
    fb_lines, fb_meta, fb_done, fb_bad = [], [], [], []
    fb_margin = {1: [], 3: [], 5: []}
    import math
    for l in (1, 3, 5):
        p = PRIMES[l]
        gens = ["gen.signlat %s %s" % (hx(rng.bits(60)), hx(FEXP[l])) for _ in range(per)]
        gout = side.c(l, gens)
        lines, metas = [], []
        for g, o in zip(gens, gout):
            if "|" not in o:
                ctx.obligation("generator " + g[:40], False, o[:200])
                continue
            content = unhx(o.split("|")[0].strip())
            w = o.split("|")[1].split()
            denom, lat = unhx(w[0]), parse_mat(w[1:17])
            seed = rng.bits(60)
            lines.append("resp.sample %s %s %s %s" % (hx(seed), hx(content), hx(denom), mat_hex(lat)))
            metas.append((content, denom, lat, g))
        outs = side.c(l, ["! 10 " + x for x in lines])
        mlines, midx = [], []
        for k, (line, (content, denom, lat, g), o) in enumerate(zip(lines, metas, outs)):
            if o == "skipped":
                continue
            ctx.case("resp:%d:%d" % (l, k))
            replay = dict(op=line, level=l, generated_by=g, how="echo '<op>' | drv_lll_<level>", c_output=o[:800])
            parts = [x.strip() for x in o.split("|")]
            if len(parts) < 5:
                ctx.violation("resp:crash", "sample_response did not return on a signing-shaped lattice: %s" % o[:60], replay)
                continue
            xw = [unhx(x) for x in parts[0].split()]
            xden, xc = xw[0], xw[1:5]
            cp, rl = unhx(parts[1].split()[0]), unhx(parts[1].split()[1])
            lll = parse_mat(parts[2].split())
            # property oracle: x in the lattice, 0 < N(x)/content < 2^resp_len
            nn = Fraction(xc[0] ** 2 + xc[1] ** 2 + cp * (xc[2] ** 2 + xc[3] ** 2), xden * xden * content)
            inl = lattice_contains(denom, lat, xden, xc)
            okp = inl and nn.denominator == 1 and 0 < nn < 2 ** rl and cp == p and rl == RESP[l]
            if not okp:
                why = "not in lattice" if not inl else ("norm not divisible by the lattice content" if nn.denominator != 1 else
                                                        ("zero" if nn == 0 else "norm >= 2^response_length"))
                ctx.violation("resp:%s" % why, "sample_response returned a response that is %s "
                              "(log2 norm/content = %.2f, response_length = %d)" % (why, float(nn.numerator.bit_length() - nn.denominator.bit_length()), rl), replay)
            # margin of the first LLL vector (the fallback value)
            c0 = [lll[r][0] for r in range(4)]
            n0 = Fraction(c0[0] ** 2 + c0[1] ** 2 + cp * (c0[2] ** 2 + c0[3] ** 2), denom * denom * content)
            import math
            margins[l].append(rl - (math.log2(n0.numerator) - math.log2(n0.denominator)))
            mlines.append("resp.model %s %s %s %s %s %s" % (hx(cp), hx(rl), hx(denom), hx(content), parts[2], parts[4]))
            midx.append((line, parts, okp))
            # hypotheses of `fallback_short_of_certificate` on this input: accepted certificate for (lattice, lll) and
            #   p^2 det(lattice)^2 < (delta-eta^2)^6 (dg 2^(rl+1))^4,  dg = denom^2 content / 2
            dg = abs(denom * denom * content) // 2
            c6 = (DELTA_CHK - ETA_CHK ** 2) ** 6
            lhs = Fraction(cp * cp * det_int(lat) ** 2)
            rhs = c6 * (dg * 2 ** (rl + 1)) ** 4
            fb_lines.append("lll.check %s %s %s %s" % (check_args(DELTA_CHK, ETA_CHK), hx(cp), mat_hex(lat), mat_hex(lll)))
            fb_meta.append((line, lhs < rhs))
            if lhs > 0:
                fb_margin[l].append((math.log2(rhs.numerator) - math.log2(rhs.denominator) - math.log2(lhs.numerator)) / 4)
        if fb_lines[len(fb_done):]:
            for (line, detok), r in zip(fb_meta[len(fb_done):], side.lean(fb_lines[len(fb_done):])):
                fb_done.append(1)
                hist(ctx, "resp_fallback_theorem_hypotheses(certificate accepted, determinant inequality)", "%s,%s" % (r == "0", detok))
                if r != "0" or not detok:
                    fb_bad.append(dict(op=line[:200], lllCheck=r, det_inequality=detok))
        mo = side.lean(mlines)
        for (line, parts, okp), m in zip(midx, mo):
            mp = [x.strip() for x in m.split("|")]
            mw = mp[0].split()
            cx = " ".join(parts[0].split())
            mx = " ".join(mw[0:5])
            found = mw[5] == "1" if len(mw) > 5 else None
            stats["found_in_loop" if found else "fallback"] += 1
            hist(ctx, "resp_candidates_consumed", mw[6] if len(mw) > 6 else "?")
            cb = " ".join(parts[3].split())
            hyp = mp[2] if len(mp) > 2 else "?"
            hist(ctx, "resp_asserted_conditions(dg>0,division exact,2*norm even,det lll!=0)", hyp)
            if hyp != "1111":
                hyp_bad.append(dict(op=line[:200], flags=hyp))
            if cx != mx or (len(mp) > 1 and cb != mp[1]):
                dis.append(dict(op=line[:200], impl_x=cx, model_x=mx, impl_bounds=cb, model_bounds=mp[1] if len(mp) > 1 else ""))
                if okp:
                    ctx.violation("model:resp", "decision-logic model of sample_response disagrees with the C code "
                                  "(response still short and in the lattice)", dis[-1], found=False)
    ctx.obligation("correspondence sample_response decision logic vs C on replayed candidate draws", not dis, json.dumps(dis[:2])[:600])
    ctx.obligation("hypotheses of sample_response_found_pos (the three C asserts + full rank) hold on every signing-shaped input",
                   not hyp_bad, json.dumps(hyp_bad[:2])[:400])
    ctx.obligation("hypotheses of fallback_short_of_certificate (accepted certificate + determinant inequality) hold on every "
                   "signing-shaped input", not fb_bad, json.dumps(fb_bad[:2])[:400])
    ctx.coverage["resp_fallback_determinant_margin_bits(per unit of norm)"] = {
        str(l): dict(min=round(min(v), 2), n=len(v)) for l, v in fb_margin.items() if v}
    if fb_bad:
        ctx.violation("resp:fallback-hypothesis-fails", "the hypotheses under which the fallback branch of sample_response is proved "
                      "short fail on a signing-shaped lattice", fb_bad[0], found=False)
    if hyp_bad:
        ctx.violation("resp:asserted-condition-fails", "a condition that sample_response only asserts (divisor positive / exact division / "
                      "even 2*norm / full-rank LLL basis) fails on a signing-shaped lattice", hyp_bad[0], found=False)
    ctx.coverage["resp"] = stats
    ctx.coverage["resp_first_lll_vector_margin_bits(response_length - log2 norm)"] = {
        str(l): dict(min=round(min(v), 2), max=round(max(v), 2), n=len(v)) for l, v in margins.items() if v}
    # constructed input: the fallback branch has no norm test.  Lattice 2^k * O0-like with content 1: every vector is
    # longer than the bound, the loop cannot accept, the function silently returns lll[.][0].  NOT reachable from the
    # signer (content always matches the lattice); recorded, not a violation.
    l = 1
    k = 70
    lat = [[(1 << (k + 1)) if i == j else 0 for j in range(4)] for i in range(4)]     # denom 2: the vectors are 2^k e_i
    o = side.c(l, ["! 30 resp.sample 1 1 2 %s" % mat_hex(lat)])[0]
    parts = [x.strip() for x in o.split("|")]
    if len(parts) >= 1 and len(parts[0].split()) == 5:
        xw = [unhx(x) for x in parts[0].split()]
        nn = (xw[1] ** 2 + xw[2] ** 2 + PRIMES[l] * (xw[3] ** 2 + xw[4] ** 2)) // (xw[0] ** 2)
        ctx.coverage["fallback_unguarded_demo"] = dict(input="lattice 2^70*Z^4 (denom 2), content 1, level 1", log2_norm=nn.bit_length() - 1,
                                                       response_length=RESP[l], exceeds_bound=nn >= 2 ** RESP[l],
                                                       note="constructed (non-signer) input: fallback returns lll[.][0] with no norm test")


# ---------------------------------------------------------------------------------- entry point
def stage_corpus(ctx, side):
    """corpus/C16/*.json: replays of the recorded (now fixed) findings and of past failures; run FIRST on every run.
    Each file: {"name", "op": "lll.run q denom B(16)", "level", "what", "fixed_by"}.  The op is run forked on the real
    code and judged by the property's own oracle (+ the Lean checker); a reverted fix gives a VIOLATION with this replay."""
    if not os.path.isdir(CORPUS):
        return
    files = sorted(f for f in os.listdir(CORPUS) if f.endswith(".json"))
    n_ok = 0
    for f in files:
        e = json.load(open(os.path.join(CORPUS, f)))
        op, lvl = e["op"], int(e.get("level", 1))
        out = side.c(lvl, ["! 10 " + op])[0]
        ctx.case("corpus:" + f)
        hist(ctx, "corpus_results", out.split()[0] if out.split() else "?")
        w = op.split()
        q, lat = unhx(w[1]), parse_mat(w[3:19])
        ow = out.split()
        replay = dict(op=op, level=lvl, corpus_file=os.path.join("corpus", "C16", f), recorded_finding=e.get("what", ""),
                      fixed_by=e.get("fixed_by", ""), c_output=out[:1500], how="echo '! 10 <op>' | drv_lll_<level>")
        if not ow or ow[0] not in ("0", "-1"):
            ok, why = False, "no result: %s" % out[:40]
        else:
            ret = int(ow[0])
            red = parse_mat(ow[1:17]) if ret == 0 and len(ow) >= 17 else None
            ok, why = lll_oracle(q, lat, ret, red)
            if ok and red is not None:
                lc = side.lean(["lll.check %s %s %s %s" % (check_args(DELTA_CHK, ETA_CHK), hx(q), mat_hex(lat), mat_hex(red))])[0]
                if lc != "0":
                    ok, why = False, "Lean lllCheck rejects the output (code %s)" % lc
        if ok:
            n_ok += 1
        else:
            ctx.violation("corpus:" + e.get("name", f), "recorded finding is back (%s): %s" % (e.get("what", "")[:120], why), replay)
    ctx.obligation("corpus of past findings (%d replays) passes on the current tree" % len(files), n_ok == len(files),
                   "%d/%d" % (n_ok, len(files)))


def stages(ctx):
    if getattr(ctx, "_c16_done", False):
        return
    ctx._c16_done = True
    side = Side(ctx)
    t = time.time()
    side.build((1, 3, 5))
    ctx.log("harness built for levels 1,3,5 in %.1fs" % (time.time() - t))
    for name, fn in (("corpus", stage_corpus), ("lll", stage_lll), ("rank", stage_rank), ("dim2", stage_dim2), ("resp", stage_resp)):
        t = time.time()
        fn(ctx, side)
        ctx.log("stage %s done in %.1fs (%d evaluations so far)" % (name, time.time() - t, ctx.evaluations))
    if side.skipped:
        ctx.coverage["calls_skipped_after_hang_budget"] = side.skipped
        ctx.log("%d forked calls skipped after %d hangs" % (side.skipped, side.hangs))


def search(ctx):
    """violation search when a proof obligation fails: run the certificate/correspondence stages against the real
    code; the first concrete failing input (if any) is the replay"""
    n0 = len(ctx.violations)
    stages(ctx)
    new = [v for v in ctx.violations[n0:] if v["found"]]
    if new:
        v = new[0]
        ctx.violations.remove(v)
        return v["key"], v["what"], v["replay"]
    return None


def run(ctx):
    ctx.trusted += ["GMP integers (ibz_t) modelled as exact Int; GMP mpf floats NOT modelled (LLL validated per output)",
                    "python exact-rational oracle (fractions) in tools/props/c16.py; C driver tools/harness/drv_lll.c "
                    "(defines randombytes as a seeded SplitMix64 stream)",
                    "hand models lean/SqiModel/{Lll,Dim2}.lean tied to the C code by correspondence on every run"]
    ctx.assumptions += ["LLL termination and reducedness are certificate-checked per output, not proved for all inputs",
                        "sample_response fallback branch: shortness needs |first LLL vector|^2 < 2^response_length (hypothesis of response_short_fallback)"]
    vlib.proof_stage(ctx, ["SqiProps.C16"], searcher=lambda: search(ctx))
    ctx.lake(["driver"])
    stages(ctx)
    return dict(level="proof",
                rule="one case = one C call (quat_lattice_lll / dim2 routine / sample_response) whose output is checked by "
                     "the proved Lean checker or compared with the Lean model, and by an independent exact oracle")


def replay(ctx, rp):
    """./check C16 --replay <file>: re-run the recorded op on the real code (fresh build) and re-evaluate the oracle"""
    r = rp.get("replay", {})
    op = r.get("op")
    if not op:
        print(json.dumps(rp, indent=1))
        return 0
    lvl = int(r.get("level", 1))
    side = Side(ctx)
    side.build((lvl,))
    out = side.c(lvl, ["! 20 " + op])[0]
    print("op      :", op[:400])
    print("C output:", out[:800])
    w = op.split()
    if w[0] == "lll.run":
        q, lat = unhx(w[1]), parse_mat(w[3:19])
        ow = out.split()
        if ow and ow[0] in ("0", "-1"):
            ret = int(ow[0])
            red = parse_mat(ow[1:17]) if ret == 0 else None
            ok, why = lll_oracle(q, lat, ret, red)
            print("oracle  :", "property holds" if ok else "PROPERTY VIOLATED: " + why)
            if red is not None:
                print("lean    :", side.lean(["lll.check %s %s %s %s" % (check_args(DELTA_CHK, ETA_CHK), hx(q), mat_hex(lat), mat_hex(red))])[0],
                      "(0 = certificate accepted, 2 lattice changed, 3 not a basis, 4 not size-reduced, 5 Lovasz fails)")
            return 0 if ok else 1
        print("oracle  : PROPERTY VIOLATED: no result (%s)" % out[:40])
        return 1
    else:
        print("model   :", (side.lean([op]) or ["?"])[0][:800] if not w[0].startswith("resp.") else "(see c_output; model needs the replayed draws)")
    return 0

"""C16 — lattice reduction keeps the lattice and reduces it; responses are short.

Proof part (lean/SqiProps/C16.lean): integer row operations preserve the lattice for ALL decision sequences
(float-independent), soundness of the exact certificate checker `lllCheck`, the dimension-2 routines, the decision
logic of `sample_response`.  Tie H: every C output of `quat_lattice_lll` is fed to the Lean checker (through the
model driver) and to an independent exact-rational oracle written here (fractions); the dimension-2 routines and the
sample_response decision logic are compared with their executable Lean models on generated inputs.
"""
import json, os, subprocess, time
from fractions import Fraction
import vlib

HERE = os.path.dirname(os.path.abspath(__file__))
ROOT = os.path.dirname(os.path.dirname(HERE))
HARNESS = os.path.join(ROOT, "tools", "harness", "drv_lll.c")
LOCAL_KNOWN = os.path.join(ROOT, "tools", "claims", "C16.known.json")

PRIMES = {1: 5 * 2**248 - 1, 3: 65 * 2**376 - 1, 5: 27 * 2**500 - 1}
RESP = {1: 128, 3: 194, 5: 255}
FEXP = {1: 248, 3: 376, 5: 500}
# the implemented delta is the double nearest to 0.99 (mpf_set_d(cnst, 0.99)), eta = 1/2
DELTA_IMPL = Fraction(4458563631096791, 4503599627370496)
ETA_IMPL = Fraction(1, 2)
# constants of the certificate check (slightly relaxed for float error; all outputs of the unchanged tree meet the
# exact implemented constants as well: the evidence records how many do)
DELTA_CHK = Fraction(98, 100)
ETA_CHK = Fraction(51, 100)


def hx(x):
    return ("-" if x < 0 else "") + format(abs(x), "x")


def unhx(s):
    return int(s, 16)


def mat_hex(m):
    return " ".join(hx(x) for row in m for x in row)


def parse_mat(ws, n=4):
    v = [unhx(w) for w in ws]
    return [v[n * i:n * i + n] for i in range(n)]


def cols(m):
    return [[m[i][j] for i in range(len(m))] for j in range(len(m[0]))]


def from_cols(cs):
    return [[cs[j][i] for j in range(len(cs))] for i in range(len(cs[0]))]


# ---------------------------------------------------------------------------------- exact oracle (python ints / Fraction)
def form(q, u, v):
    return u[0] * v[0] + u[1] * v[1] + q * (u[2] * v[2] + u[3] * v[3])


def det_int(m):
    """exact determinant (fraction-free Bareiss)"""
    n = len(m)
    a = [row[:] for row in m]
    sign, prev = 1, 1
    for k in range(n - 1):
        if a[k][k] == 0:
            sw = next((i for i in range(k + 1, n) if a[i][k] != 0), None)
            if sw is None:
                return 0
            a[k], a[sw] = a[sw], a[k]
            sign = -sign
        for i in range(k + 1, n):
            for j in range(k + 1, n):
                a[i][j] = (a[i][j] * a[k][k] - a[i][k] * a[k][j]) // prev
        prev = a[k][k]
    return sign * a[n - 1][n - 1]


def solve_int(a, b):
    """X with a * X = b over Q (a square, invertible); returns the Fraction matrix"""
    n = len(a)
    m = [[Fraction(x) for x in a[i]] + [Fraction(x) for x in b[i]] for i in range(n)]
    for c in range(n):
        p = next(i for i in range(c, n) if m[i][c] != 0)
        m[c], m[p] = m[p], m[c]
        inv = 1 / m[c][c]
        m[c] = [x * inv for x in m[c]]
        for i in range(n):
            if i != c and m[i][c] != 0:
                f = m[i][c]
                m[i] = [x - f * y for x, y in zip(m[i], m[c])]
    return [row[n:] for row in m]


def same_lattice_cols(l, r):
    """columns of l and r generate the same full-rank lattice: r = l*U, U integral with det +-1"""
    if det_int(l) == 0 or det_int(r) == 0:
        return False
    u = solve_int(l, r)
    if any(x.denominator != 1 for row in u for x in row):
        return False
    d = det_int([[int(x) for x in row] for row in u])
    return d in (1, -1)


def gram_schmidt(q, vs):
    """exact rational Gram-Schmidt of the vectors vs for the form (1,1,q,q): (mu, B) or None if dependent"""
    n = len(vs)
    bs, B = [], []
    mu = [[Fraction(0)] * n for _ in range(n)]
    for i in range(n):
        v = [Fraction(x) for x in vs[i]]
        for j in range(i):
            mu[i][j] = form(q, [Fraction(x) for x in vs[i]], bs[j]) / B[j]
            v = [x - mu[i][j] * y for x, y in zip(v, bs[j])]
        nb = form(q, v, v)
        if nb == 0:
            return None
        bs.append(v)
        B.append(nb)
    return mu, B


def reduced_report(q, red, delta, eta):
    """(ok, reason, max|mu|, min lovasz ratio B_i/((delta - mu^2) B_{i-1}) ) for the COLUMNS of red"""
    gs = gram_schmidt(q, cols(red))
    if gs is None:
        return False, "not-a-basis", None, None
    mu, B = gs
    mx = max(abs(mu[i][j]) for i in range(4) for j in range(i))
    ok, reason = True, ""
    if mx > eta:
        ok, reason = False, "size"
    lov = min(B[i] / B[i - 1] + mu[i][i - 1] ** 2 for i in range(1, 4))   # must be >= delta
    if lov < delta:
        ok, reason = False, (reason + "+lovasz").strip("+")
    return ok, reason, mx, lov


def lll_oracle(q, lat, ret, red, delta=DELTA_CHK, eta=ETA_CHK):
    """the property's own oracle for one call: returns (ok, reason)"""
    if det_int(lat) == 0:
        return (ret == -1), ("rank-deficient input must be reported" if ret != -1 else "")
    if ret != 0:
        return False, "full-rank input rejected (ret=%d)" % ret
    if not same_lattice_cols(lat, red):
        return False, "lattice changed"
    ok, reason, _, _ = reduced_report(q, red, delta, eta)
    return ok, ("not reduced: " + reason if not ok else "")


# ---------------------------------------------------------------------------------- generators
def is_probable_prime(n, rng):
    if n < 2:
        return False
    for p in (2, 3, 5, 7, 11, 13, 17, 19, 23, 29, 31, 37):
        if n % p == 0:
            return n == p
    d, s = n - 1, 0
    while d % 2 == 0:
        d //= 2
        s += 1
    for _ in range(12):
        a = 2 + rng.below(n - 3)
        x = pow(a, d, n)
        if x in (1, n - 1):
            continue
        for _ in range(s - 1):
            x = x * x % n
            if x == n - 1:
                break
        else:
            return False
    return True


def rand_prime(rng, bits):
    while True:
        n = rng.bits(bits) | (1 << (bits - 1)) | 1
        if is_probable_prime(n, rng):
            return n


def rsigned(rng, bits):
    v = rng.bits(bits) if bits > 0 else 0
    return -v if rng.below(2) else v


def rand_unimodular(rng, steps, cbits):
    """random unimodular 4x4 matrix as a product of elementary operations"""
    u = [[1 if i == j else 0 for j in range(4)] for i in range(4)]
    for _ in range(steps):
        i, j = rng.below(4), rng.below(4)
        if i == j:
            continue
        if rng.below(5) == 0:
            u[i], u[j] = u[j], u[i]
        else:
            c = rsigned(rng, 1 + rng.below(cbits))
            u[i] = [a + c * b for a, b in zip(u[i], u[j])]
    return u


def matmul(a, b):
    n, m, k = len(a), len(b[0]), len(b)
    return [[sum(a[i][t] * b[t][j] for t in range(k)) for j in range(m)] for i in range(n)]


def gen_hnf(rng, totbits):
    """random HNF basis (as the library's lattices): upper triangular, positive diagonal, entries right of a
    diagonal entry reduced modulo it; determinant about 2^totbits"""
    cut = sorted(rng.below(totbits + 1) for _ in range(3))
    sizes = [cut[0], cut[1] - cut[0], cut[2] - cut[1], totbits - cut[2]]
    m = [[0] * 4 for _ in range(4)]
    for i in range(4):
        m[i][i] = (rng.bits(sizes[i]) | (1 << sizes[i])) if sizes[i] > 0 else 1
        for j in range(i + 1, 4):
            m[i][j] = rng.below(m[i][i])
    return m


def gen_dense(rng, bits):
    return [[rsigned(rng, bits) for _ in range(4)] for _ in range(4)]


def gen_skewed(rng, kind, bits):
    if kind == 0:       # huge ratio between the scales of the vectors
        sc = [1 << rng.below(bits) for _ in range(4)]
        b = gen_dense(rng, 8)
        return from_cols([[x * sc[j] for x in cols(b)[j]] for j in range(4)])
    if kind == 1:       # nearly dependent columns: c1 = K*c0 + small, c2 = K'*c1 + small ...
        c = [[rsigned(rng, 16) for _ in range(4)]]
        for _ in range(3):
            k = rsigned(rng, 1 + rng.below(bits))
            c.append([k * x + rsigned(rng, 6) for x in c[-1]])
        return from_cols(c)
    if kind == 2:       # small basis hidden behind a large unimodular transformation (columns: B*U)
        b = gen_dense(rng, 10)
        return matmul(b, rand_unimodular(rng, 30, max(2, bits // 12)))
    # kind 3: one coordinate direction scaled (interaction with q): rows scaled
    b = gen_dense(rng, 12)
    sc = [1 << rng.below(bits) for _ in range(4)]
    return [[b[i][j] * sc[i] for j in range(4)] for i in range(4)]


# ---------------------------------------------------------------------------------- running the two sides
class Side:
    def __init__(self, ctx):
        self.ctx = ctx
        self.exe = {}

    def build(self, lvls):
        for l in lvls:
            self.exe[l] = self.ctx.cc_harness(HARNESS, os.path.join(self.ctx.tmp, "drv_lll_%d" % l), l)

    def c(self, lvl, lines, timeout=3000):
        rc, out, err = vlib.run_c([self.exe[lvl]], lines, timeout=timeout)
        if len(out) < len(lines):
            out += ["<no output: C driver stopped rc=%d %s>" % (rc, err[-300:].replace("\n", " "))] * (len(lines) - len(out))
        return out

    def lean(self, lines):
        return self.ctx.driver(lines)


def frac4(fr):
    return [hx(fr.numerator), hx(fr.denominator)]


def check_args(delta, eta):
    return " ".join(frac4(delta) + frac4(eta))

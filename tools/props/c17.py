"""C17 — integer and number-theoretic primitives return exact results.

Tie: H (hand models lean/SqiModel/{Intbig,NumberTheory,Kernels}.lean, run against the real C functions by
tools/harness/drv_int.c on every check run).  Theorems: lean/SqiProps/C17.lean.
Independent oracle for the violation search: the defining equations of every routine evaluated with Python
integers on *every* output of the real code (not only on disagreements)."""
import json, math, os, re, subprocess, sys, time
from concurrent.futures import ThreadPoolExecutor
import vlib

HERE = os.path.dirname(os.path.abspath(__file__))
HARNESS = os.path.join(vlib.ROOT, "tools", "harness", "drv_int.c")

# ----------------------------------------------------------------------------------------------- numbers
def hx(z):
    return ("-%x" % -z) if z < 0 else ("%x" % z)


def unhx(s):
    return int(s, 16)


def is_prime(n):
    """deterministic Miller-Rabin with the first 24 primes as bases (exact below 3.3e24, overwhelming above)"""
    if n < 2:
        return False
    small = [2, 3, 5, 7, 11, 13, 17, 19, 23, 29, 31, 37, 41, 43, 47, 53, 59, 61, 67, 71, 73, 79, 83, 89]
    for q in small:
        if n % q == 0:
            return n == q
    d, s = n - 1, 0
    while d % 2 == 0:
        d //= 2
        s += 1
    for a in small:
        x = pow(a, d, n)
        if x in (1, n - 1):
            continue
        for _ in range(s - 1):
            x = x * x % n
            if x == n - 1:
                break
        else:
            return False
    return True


SCHEME_PRIMES = [5 * 2**248 - 1, 65 * 2**376 - 1, 27 * 2**500 - 1]
FIXED_PRIMES = [2, 3, 5, 7, 11, 13, 17, 29, 37, 41, 73, 97, 193, 257, 65537, 2**31 - 1, 2**61 - 1, 2**89 - 1, 2**127 - 1,
                2**521 - 1, 998244353, 469762049, 2013265921, 2**64 - 2**32 + 1, 2**224 - 2**96 + 1,
                2**255 - 19, 2**64 - 59, 2**64 + 13, 2**128 + 51]


def next_prime_in_class(rng, bits, r8):
    """random prime with `bits` bits and p % 8 == r8"""
    while True:
        c = rng.bits(bits) | (1 << (bits - 1))
        c = c - (c % 8) + r8
        for _ in range(4000):
            if c.bit_length() == bits and is_prime(c):
                return c
            c += 8
        # retry from another start


def proth_like_prime(rng, k, extra_bits):
    """prime c*2^k + 1 with c odd: p-1 has exactly k trailing zero bits (deep Tonelli-Shanks)"""
    while True:
        c = rng.bits(extra_bits) | 1 | (1 << (extra_bits - 1))
        for _ in range(4000):
            p = c * 2**k + 1
            if is_prime(p):
                return p
            c += 2


class Gen:
    def __init__(self, ctx):
        self.ctx = ctx
        self.rng = ctx.rng.fork("c17")
        self.hist = {}
        r = self.rng
        self.primes = list(FIXED_PRIMES) + list(SCHEME_PRIMES)
        for bits in (8, 16, 33, 64, 65, 128, 130, 192, 256, 384, 512):
            for r8 in (1, 3, 5, 7):
                self.primes.append(next_prime_in_class(r, bits, r8))
        for k, eb in ((5, 8), (12, 20), (40, 30), (70, 20), (100, 64), (130, 130), (200, 57), (64, 64), (128, 3)):
            self.primes.append(proth_like_prime(r, k, eb))
        self.primes = sorted(set(self.primes))
        self.by_class = {}
        for p in self.primes:
            self.by_class.setdefault(p % 8 if p > 2 else 2, []).append(p)

    def count(self, k):
        self.hist[k] = self.hist.get(k, 0) + 1

    # ------------------------------------------------------------------ integers
    def integer(self, maxbits=600, tag="int"):
        r = self.rng
        c = r.below(16)
        if c == 0:
            v = 0; cl = "zero"
        elif c == 1:
            v = r.choice([1, -1, 2, -2, 3, -3]); cl = "tiny"
        elif c == 2:
            k = r.below(maxbits)
            v = r.choice([1, -1]) * 2**k; cl = "pm2^k"
        elif c in (3, 4):
            k = 64 * (1 + r.below(max(1, maxbits // 64)))
            v = r.choice([1, -1]) * (2**k + r.choice([-1, 0, 1])); cl = "limb-boundary"
        elif c == 5:
            k = 32 * (1 + r.below(max(1, maxbits // 32)))
            v = r.choice([1, -1]) * (2**k) * (1 + r.below(1000)); cl = "mult-of-2^32k"
        elif c in (6, 7):
            v = r.bits(1 + r.below(63)) * r.choice([1, -1]); cl = "single-limb"
        elif c == 8:
            k = 64 * (1 + r.below(max(1, maxbits // 64)))
            v = (2**k - 1 - r.below(4)) * r.choice([1, -1]); cl = "all-ones-limbs"
        else:
            v = r.bits(1 + r.below(maxbits)) * r.choice([1, 1, -1]); cl = "random-multi-limb" if abs(v) >= 2**64 else "random-single-limb"
        self.count(tag + ":" + cl)
        return v

    def nonzero(self, maxbits=600, tag="int"):
        while True:
            v = self.integer(maxbits, tag)
            if v != 0:
                return v

    def prime(self, tag="prime"):
        r = self.rng
        cl = r.choice([1, 1, 1, 3, 5, 5, 7, 2]) if r.below(8) else r.choice([1, 3, 5, 7])
        p = r.choice(self.by_class[cl])
        self.count(tag + ":p%8=" + str(cl if p > 2 else "p=2"))
        return p

    def odd_prime(self, tag="prime"):
        while True:
            p = self.prime(tag)
            if p != 2:
                return p


# ----------------------------------------------------------------------------------------------- case generation
PRIME_LIST_RI = [5]
PRIME_LIST_ND = [2, 5, 13, 17, 29, 37, 41, 53, 61, 73, 89, 97]
BAD_ND = 140227657289781369 * 8695006970070847579 * 4359375434796427649 * 221191130330393351 * 1516192381681334191 * 5474546011261709671


def gen_lines(g, n):
    """returns list of (suite, line). n = approximate total number of cases."""
    r = g.rng
    out = []
    add = lambda suite, line: out.append((suite, line))
    w = max(1, n // 100)      # weight unit
    ncases = n                # (`n` is reused as a local name below)

    # --- division family
    for _ in range(10 * w):
        a, b = g.integer(tag="div.a"), g.nonzero(tag="div.b")
        add("div", "div %s %s" % (hx(a), hx(b)))
        add("div", "divfloor %s %s" % (hx(a), hx(b)))
        add("div", "mod %s %s" % (hx(a), hx(b)))
        add("div", "rdiv %s %s" % (hx(a), hx(b)))
    for _ in range(2 * w):
        # exact ties and near ties for rounded division
        b = g.nonzero(300, "rdiv.b")
        q = g.integer(200, "rdiv.q")
        for d in (0, 1, -1):
            a2 = 2 * q * b + b + d          # a/b = q + 1/2 (+-)  when a = a2/2 is an integer
            if a2 % 2 == 0:
                add("div", "rdiv %s %s" % (hx(a2 // 2), hx(b)))
        add("div", "rdiv %s %s" % (hx(q * b), hx(b)))
    for _ in range(3 * w):
        a = g.integer(tag="div2exp.a")
        e = r.choice([0, 1, 2, 63, 64, 65, 127, 128, r.below(700)])
        add("div", "div2exp %s %x" % (hx(a), e))
    # --- gcd family
    for _ in range(8 * w):
        c = r.below(4)
        if c == 0:
            gg = g.nonzero(200, "xgcd.common")
            a, b = gg * g.integer(300, "xgcd.a"), gg * g.integer(300, "xgcd.b")
        elif c == 1:
            a = g.integer(tag="xgcd.a"); b = r.choice([a, -a, 2 * a, -2 * a, 0, a + 1])
        else:
            a, b = g.integer(tag="xgcd.a"), g.integer(tag="xgcd.b")
        if r.below(2):
            a, b = b, a
        add("gcd", "xgcd %s %s" % (hx(a), hx(b)))
        if a != 0 or b != 0:
            add("gcd", "xgcdann %s %s" % (hx(a), hx(b)))
    for _ in range(6 * w):
        m = g.nonzero(tag="invmod.m")
        a = g.integer(tag="invmod.a") if r.below(3) else r.below(abs(m) + 1)
        add("gcd", "invmod %s %s" % (hx(a), hx(m)))
    for _ in range(8 * w):
        c = r.below(5)
        if c == 0:
            ma, mb = r.choice(SCHEME_PRIMES) + 1, 3 ** (1 + r.below(150))
            ma //= 2 ** (vlib_v2(ma) - r.below(vlib_v2(ma)))      # 2^k cofactor-like
        elif c == 1:
            ma, mb = g.nonzero(200, "crt.m"), g.nonzero(200, "crt.m")     # possibly non coprime / negative
        else:
            ma, mb = abs(g.nonzero(300, "crt.m")), abs(g.nonzero(300, "crt.m"))
            gg = math.gcd(ma, mb)
            while gg != 1:
                ma //= gg
                gg = math.gcd(ma, mb)
        a, b = g.integer(tag="crt.a"), g.integer(tag="crt.b")
        add("gcd", "crt %s %s %s %s" % (hx(a), hx(b), hx(ma), hx(mb)))
    # --- square roots
    for _ in range(22 * w):
        p = g.prime("sqrt.p")
        c = r.below(8)
        if c == 0:
            a = r.choice([0, p, -p, 2 * p]); g.count("sqrt.a:zero-mod-p")
        elif c in (1, 2):
            s = r.below(p); a = s * s % p; g.count("sqrt.a:square")
        elif c == 3:
            s = r.below(p); a = s * s - p * r.below(2**70); g.count("sqrt.a:square-unreduced-negative")
        elif c == 4:
            a = r.choice([1, -1, 2, -2, 4, p - 1, p + 1]); g.count("sqrt.a:special")
        else:
            a = r.below(p) + p * r.choice([0, 0, 1, -1, 2**64]); g.count("sqrt.a:random")
        pre = "!" if p == 2 else ""
        add("sqrt", "%ssqrtp %s %s" % (pre, hx(a), hx(p)))
        add("sqrt", "%ssqrt2p %s %s" % (pre, hx(a), hx(p)))
    for _ in range(3 * w):
        m = g.nonzero(400, "powm.m")
        add("sqrt", "powm %s %s %s" % (hx(abs(g.integer(tag="powm.b"))), hx(abs(g.integer(300, "powm.e"))), hx(m)))
    # --- conversions
    for _ in range(5 * w):
        x = g.integer(700, "get.x")
        add("conv", "get %s" % hx(x))
        add("conv", "tav %s" % hx(x))
        add("conv", "bitsize %s" % hx(x))
        add("conv", "twoadic %s" % hx(x))
    for _ in range(5 * w):
        nd = 1 + r.below(9)
        c = r.below(4)
        if c == 0:
            ds = [r.choice([0, 1, 2**64 - 1, 2**63]) for _ in range(nd)]
        elif c == 1:
            ds = [r.bits(64) for _ in range(nd - 1)] + [0]       # leading zero digit
        else:
            ds = [r.bits(64) for _ in range(nd)]
        add("conv", "fromdigits " + " ".join("%x" % d for d in ds))
        x = sum(d << (64 * i) for i, d in enumerate(ds))
        add("conv", "todigits %x %s" % (nd, hx(x)))
        add("conv", "todigits %x %s" % (nd + r.below(3), hx(-x if r.below(4) == 0 else x)))
        if x >= 2**64:
            add("conv", "todigits %x %s" % (max(1, (x.bit_length() + 63) // 64 - 1), hx(x)))   # destination one digit short
    # --- interval sampling
    for _ in range(14 * w):
        c = r.below(8)
        if c == 0:
            width = 0; cl = "a=b"
        elif c in (1, 2):
            k = 64 * (1 + r.below(6)); width = 2**k - 1 - r.below(2**(k - 1)); cl = "bitlen%64=0"
        elif c == 3:
            k = 64 * (1 + r.below(6)); width = 2**k + r.below(1000); cl = "bitlen%64=1"
        elif c == 4:
            k = 8 * (1 + r.below(40)); width = 2**k - 1; cl = "bitlen%8=0"
        elif c == 5:
            width = r.below(300); cl = "small"
        else:
            width = r.bits(1 + r.below(520)); cl = "random"
        g.count("rand.width:" + cl)
        a = g.integer(300, "rand.a") if r.below(3) else r.choice([0, 1])
        b = a + width
        lb = max(1, width.bit_length())
        nbytes = (lb + 7) // 8
        chunks = r.choice([0, 1, 1, 2, 3, 6, 12])
        tail = r.choice([0, 0, 1, nbytes - 1]) if nbytes > 1 else 0
        c2 = r.below(4)
        if c2 == 0:
            stream = bytes([255] * (nbytes * chunks + tail))          # mostly rejected
        elif c2 == 1:
            stream = bytes([0] * (nbytes * chunks + tail))
        else:
            stream = bytes(r.below(256) for _ in range(nbytes * chunks + tail))
        op = "randint"
        add("rand", "%s %s %s %s" % (op, hx(a), hx(b), stream.hex() or "-"))
    for _ in range(3 * w):
        m = r.choice([0, 1, 2, 2**31 - 1, 2**31, 2**32 - 1, 2**61, 2**62 - 1, r.bits(1 + r.below(61))])
        lb = max(1, (2 * m).bit_length())
        nbytes = (lb + 7) // 8
        stream = bytes(r.below(256) for _ in range(nbytes * r.choice([1, 2, 4, 8])))
        add("rand", "randminm %s %s" % (hx(m), stream.hex()))
    # --- Cornacchia
    for _ in range(8 * w):
        p = g.prime("corn.p")
        n = r.choice([1, 1, 1, 2, 3, 7, 11, 163, 1 + r.below(1000), 1 + r.below(min(p, 2**80))])
        if p != 2 and math.gcd(n, p) != 1:
            continue
        add("corn", "cornp %s %s" % (hx(n), hx(p)))
    for _ in range(3 * w):
        # primes that ARE of the form x^2 + n y^2
        n = r.choice([1, 1, 2, 3, 7, 5, 1 + r.below(50)])
        for _t in range(200):
            x, y = r.bits(1 + r.below(120)), r.bits(1 + r.below(120))
            p = x * x + n * y * y
            if p > 2 and is_prime(p) and math.gcd(n, p) == 1:
                g.count("corn:representable")
                add("corn", "cornp %s %s" % (hx(n), hx(p)))
                break
    for _ in range(4 * w):
        p = g.odd_prime("cornsp.p")
        n = 4 * r.below(2**(1 + r.below(40))) + 3
        e = 1 + r.below(6)
        if r.below(3) == 0:
            for _t in range(200):
                x, y = r.bits(1 + r.below(100)) | 1, r.bits(1 + r.below(100)) | 1
                v = x * x + n * y * y
                e2 = vlib_v2(v)
                if e2 >= 1 and e2 < 60 and is_prime(v >> e2) and (v >> e2) > 2:
                    p, e = v >> e2, e2
                    g.count("cornsp:representable")
                    break
        add("corn", "cornsp %s %s %x" % (hx(n), hx(p), e))
    for _ in range(w):
        p = g.odd_prime("cornsp.p")
        if p % 4 == 3 and p < 2**200:
            g.count("cornsp:p-divides-n")
            add("corn", "cornsp %s %s %x" % (hx(p), hx(p), 1 + r.below(4)))
    for _ in range(6 * w):
        nd = r.below(2)
        pl = PRIME_LIST_ND if nd else PRIME_LIST_RI
        bad = BAD_ND if nd else 1
        c = r.below(4)
        if c == 0:
            x, y = r.bits(1 + r.below(260)), r.bits(1 + r.below(260))
            n = x * x + y * y; g.count("cornext:sum-of-two-squares")
        elif c == 1:
            q = r.choice(g.by_class[1] + g.by_class[5])
            n = q
            for pp in pl:
                n *= pp ** r.choice([0, 0, 1, 2, 5])
            g.count("cornext:smooth-times-prime")
        elif c == 2:
            n = 1
            for pp in pl:
                n *= pp ** r.choice([0, 1, 3])
            g.count("cornext:smooth")
        else:
            n = 1 + r.bits(1 + r.below(300)); g.count("cornext:random")
        if n <= 0:
            continue
        add("corn", "cornext %s %s %s" % (hx(n), "null" if r.below(5) == 0 else hx(bad), " ".join("%x" % q for q in pl)))
    for _ in range(2 * w):
        add("corn", "cmulpow %s %s %s %s %x" % (hx(g.integer(100, "cpow")), hx(g.integer(100, "cpow")), hx(g.integer(40, "cpow")),
                                               hx(g.integer(40, "cpow")), r.choice([0, 1, 2, 3, r.below(40)])))
    # --- 2x2 modular
    for _ in range(6 * w):
        c = r.below(3)
        m = 2 ** (1 + r.below(520)) if c == 0 else (3 ** (1 + r.below(80)) if c == 1 else abs(g.nonzero(300, "inv2.m")))
        es = [g.integer(540, "inv2.e") if r.below(2) else r.below(m) for _ in range(4)]
        if r.below(5) == 0:
            es[3] = es[1] * es[2]; es[0] = 1          # determinant 0
            g.count("inv2:singular")
        add("mat2", "inv2 %s %s" % (hx(m), " ".join(hx(e) for e in es)))
        es2 = [g.integer(540, "mul2.e") for _ in range(8)]
        add("mat2", "mul2 %s %s" % (hx(m), " ".join(hx(e) for e in es2)))
    # --- kernels mod p
    for _ in range(12 * w):
        p = g.odd_prime("ker.p") if r.below(6) else 2
        cols = r.choice([4, 5])
        M, cl = gen_matrix_mod(r, p, 4, cols)
        g.count("ker%dp:%s" % (cols, cl))
        add("ker", "ker4%dp %s %s" % (cols, hx(p), " ".join(hx(e) for row in M for e in row)))
    # --- kernel mod 2^e (Howell form, matkermod.c): NO Lean model; real code vs defining equations only
    for _ in range(4 * w):
        e = r.choice([1, 2, 3, 8, 31, 64, 65, 128, 248, 1 + r.below(300)])
        m = 2 ** e
        c = r.below(4)
        if c in (0, 1):
            v = [r.below(m) for _ in range(4)]
            piv = r.below(4)
            v[piv] |= 1
            inv = pow(v[piv], -1, m)
            M = []
            for _i in range(4):
                row = [r.below(m) for _ in range(4)]
                sacc = sum(row[j] * v[j] for j in range(4) if j != piv)
                row[piv] = (-sacc * inv) % m
                M.append(row)
            g.count("ker2e:planted-primitive-kernel")
        elif c == 2:
            M = [[r.below(m) for _ in range(4)] for _ in range(4)]
            g.count("ker2e:random")
        else:
            M = [[(r.below(m) << r.below(e)) % m for _ in range(4)] for _ in range(4)]
            g.count("ker2e:even-heavy")
        add("ker2e", "ker44two %x %s" % (e, " ".join(hx(x) for row in M for x in row)))
    # --- Howell form / right kernel modulo an arbitrary modulus (matkermod.c), several shapes incl. 16x4 (lattice.c)
    for _ in range(6 * w):
        rows, cols = r.choice([(4, 4), (4, 4), (3, 2), (2, 2), (5, 3), (4, 1), (16, 4), (6, 6)])
        c = r.below(6)
        if c == 0:
            m = 2 ** (1 + r.below(130))
        elif c == 1:
            m = r.choice([2, 3, 4, 6, 12, 30, 36, 210, 1024, 3 ** 5 * 2 ** 7])
        elif c == 2:
            m = r.choice(g.primes[:40])
        elif c == 3:
            m = 2 ** (1 + r.below(20)) * 3 ** r.below(10) * 5 ** r.below(4)
        else:
            m = 1 + r.bits(1 + r.below(200))
        if m < 2:
            m = 2
        c2 = r.below(4)
        if c2 == 0:
            M = [[r.below(m) for _ in range(cols)] for _ in range(rows)]
        elif c2 == 1:
            M = [[(r.below(m) * r.choice([1, 2, 4, 6, m // 2 or 1])) % m for _ in range(cols)] for _ in range(rows)]
        elif c2 == 2:
            M = [[r.choice([0, 0, 1, r.below(m)]) for _ in range(cols)] for _ in range(rows)]
        else:
            M = [[r.below(m) + m * r.choice([0, 1, -1]) for _ in range(cols)] for _ in range(rows)]
        g.count("howell:%dx%d" % (rows, cols))
        flat = " ".join(hx(x) for row in M for x in row)
        add("howell", "howell %x %x %s %s" % (rows, cols, hx(m), flat))
        add("howell", "kermod %x %x %s %s" % (rows, cols, hx(m), flat))
    # --- represent_integer / represent_integer_non_diag: the real functions (level 1 constants) over a byte stream
    for line in gen_repint(g, 1, max(24, min(600, ncases // 400))):
        add("repint", line)
    return out


def gen_repint(g, lvl, nrep):
    """op lines for the real represent_integer(_non_diag) at security level `lvl` (p and trial budget of that level)"""
    r = g.rng
    pL = vlib.LEVELS[lvl]["p"]
    trials = klpt_trials(lvl)
    out = []
    for i in range(nrep):
        nd = i % 2
        c = r.below(10)
        if c == 0:
            tgt = r.bits(1 + r.below(pL.bit_length() - 12)) + 1; cl = "4n<p (empty first interval)"
            stream = bytes(r.below(256) for _ in range(64))
        elif c == 1:
            tgt = pL * 2 ** r.below(12) + r.bits(200); cl = "n~p"
            stream = r.bits(8 * 40000).to_bytes(40000, "little")
        elif c == 2:
            ub = pL.bit_length() // 2 - r.choice([1, 25]); u = r.bits(ub) | 1 | (1 << (ub - 1)); L = pL.bit_length() + 15 - ub
            tgt = u * (2 ** L - u); cl = "stream-too-short"
            stream = bytes(r.below(256) for _ in range(1 + r.below(12)))
        else:
            ub = pL.bit_length() // 2 - r.choice([35, 25, 15, 5, 1, -1, -5]); u = r.bits(ub) | 1 | (1 << (ub - 1)); L = pL.bit_length() + 15 - ub
            tgt = u * (2 ** L - u); cl = "fixed-degree-like u(2^L-u)"
            stream = r.bits(8 * 40000).to_bytes(40000, "little")
        g.count("repint.lvl%d:%s" % (lvl, cl))
        out.append("repint %x %x %s %s %s" % (nd, trials, hx(pL), hx(tgt), stream.hex()))
    return out


def klpt_trials(lvl=1):
    txt = open(os.path.join(vlib.REPO, "src", "precomp", "ref", "lvl%d" % lvl, "include", "klpt_constants.h")).read()
    return int(re.search(r"#define\s+KLPT_repres_num_gamma_trial\s+(\d+)", txt).group(1))


def vlib_v2(x):
    return (x & -x).bit_length() - 1 if x else 0


def gen_matrix_mod(r, p, rows, cols):
    """matrix with a chosen kernel structure modulo p, entries possibly unreduced / negative"""
    c = r.below(8)
    small = lambda: r.below(p)
    if c == 0:
        M = [[small() for _ in range(cols)] for _ in range(rows)]; cl = "random"
    elif c in (1, 2, 3):
        # kernel of dimension >= 1 : pick a kernel vector v and make each row orthogonal to it
        v = [small() for _ in range(cols)]
        nz = [i for i in range(cols) if v[i] % p]
        if not nz:
            v[r.below(cols)] = 1
            nz = [i for i in range(cols) if v[i] % p]
        piv = r.choice(nz)
        inv = pow(v[piv], -1, p)
        M = []
        for _ in range(rows):
            row = [small() for _ in range(cols)]
            s = sum(row[j] * v[j] for j in range(cols) if j != piv)
            row[piv] = (-s * inv) % p
            M.append(row)
        cl = "planted-kernel"
    elif c == 4:
        # rank deficient by 2: two planted relations (rows are combinations of two random rows)
        b1 = [small() for _ in range(cols)]; b2 = [small() for _ in range(cols)]
        M = [[(x * u + y * w_) % p for u, w_ in zip(b1, b2)] for x, y in ((small(), small()) for _ in range(rows))]
        cl = "rank<=2"
    elif c == 5:
        M = [[0] * cols for _ in range(rows)]
        for i in range(rows):
            if r.below(2):
                M[i][r.below(cols)] = small()
        cl = "sparse"
    elif c == 6:
        M = [[(1 if i == j else 0) for j in range(cols)] for i in range(rows)]
        if r.below(2):
            M[r.below(rows)] = [0] * cols
        cl = "identity-like"
    else:
        M = [[small() for _ in range(cols)] for _ in range(rows)]
        M[r.below(rows)] = list(M[r.below(rows)])       # repeated row
        cl = "repeated-row"
    # unreduce some entries
    for i in range(rows):
        for j in range(cols):
            if r.below(4) == 0:
                M[i][j] += p * r.choice([1, -1, -3, 2**64])
    return M, cl


# ----------------------------------------------------------------------------------------------- oracle
def sgn(x):
    return (x > 0) - (x < 0)


def tdiv(a, b):
    q = abs(a) // abs(b)
    return q * sgn(a) * sgn(b)


def rank_mod_p(M, p):
    M = [[x % p for x in row] for row in M]
    rk, rows, cols = 0, len(M), len(M[0])
    for c in range(cols):
        piv = next((i for i in range(rk, rows) if M[i][c]), None)
        if piv is None:
            continue
        M[rk], M[piv] = M[piv], M[rk]
        inv = pow(M[rk][c], -1, p)
        M[rk] = [x * inv % p for x in M[rk]]
        for i in range(rows):
            if i != rk and M[i][c]:
                f = M[i][c]
                M[i] = [(x - f * y) % p for x, y in zip(M[i], M[rk])]
        rk += 1
    return rk


def oracle(line, res):
    """Defining equations, evaluated independently of the model.  Returns None if the real code's answer
    `res` is exact for op `line`, else (key, what).  Keys of deviations already recorded as findings are stable
    strings (see notes/C17.md)."""
    t = line.lstrip("!").split()
    op, args = t[0], t[1:]
    R = res.split()
    I = lambda s: int(s, 16)
    bad = lambda what, key=None: (key or ("%s:%s" % (op, " ".join(args)[:120])), what)
    try:
        if op == "div":
            a, b = I(args[0]), I(args[1]); q, r = I(R[0]), I(R[1])
            if not (q * b + r == a and abs(r) < abs(b) and (r == 0 or sgn(r) == sgn(a))):
                return bad("ibz_div: not the truncated quotient/remainder")
        elif op == "divfloor":
            a, b = I(args[0]), I(args[1]); q, r = I(R[0]), I(R[1])
            if not (q == a // b and r == a - q * b):
                return bad("ibz_div_floor: not the floor quotient/remainder")
        elif op == "mod":
            a, b = I(args[0]), I(args[1]); r = I(R[0])
            if not (0 <= r < abs(b) and (a - r) % abs(b) == 0):
                return bad("ibz_mod: result is not the non-negative remainder")
        elif op == "div2exp":
            a, e = I(args[0]), I(args[1])
            if I(R[0]) != sgn(a) * (abs(a) >> e):
                return bad("ibz_div_2exp: not the quotient truncated toward zero")
        elif op == "rdiv":
            a, b = I(args[0]), I(args[1]); q = I(R[0])
            d = abs(a - q * b)
            if not (2 * d <= abs(b)) or (2 * d == abs(b) and q != tdiv(a, b)):
                return bad("ibz_rounded_div: not the nearest integer (ties toward zero)")
        elif op in ("xgcd", "xgcdann"):
            a, b = I(args[0]), I(args[1])
            if op == "xgcd":
                g_, u, v = map(I, R)
            else:
                g_, s, t_, u, v = map(I, R)
            if g_ != math.gcd(a, b) or u * a + v * b != g_:
                return bad("ibz_xgcd: u*a + v*b = gcd violated")
            if op == "xgcdann" and not (s * a + t_ * b == 0 and s * g_ == b and t_ * g_ == -a):
                return bad("ibz_xgcd_ann: annihilator relation violated")
        elif op == "invmod":
            a, m = I(args[0]), I(args[1])
            if R[0] == "1":
                v = I(R[1])
                if not (0 <= v < abs(m) and (a * v - 1) % abs(m) == 0):
                    return bad("ibz_invmod: returned value is not the inverse in [0,|m|)")
            elif math.gcd(a, m) == 1:
                return bad("ibz_invmod: reports no inverse although gcd = 1")
        elif op == "crt":
            a, b, ma, mb = map(I, args); r = I(R[0])
            if math.gcd(ma, mb) == 1:
                if not (0 <= r < abs(ma * mb) and (r - a) % ma == 0 and (r - b) % mb == 0):
                    return bad("ibz_crt: result does not satisfy both congruences / range (coprime moduli)")
        elif op == "powm":
            b, e, m = map(I, args)
            if I(R[0]) != pow(b, e, abs(m)):
                return bad("ibz_pow_mod wrong")
        elif op in ("sqrtp", "sqrt2p"):
            a, p = I(args[0]), I(args[1])
            mod = p if op == "sqrtp" else 2 * p
            if R[0] == "ub":
                return bad("ibz_sqrt_mod_p aborts inside GMP for p = 2 and odd a (shift count e-2 < 0)", "sqrt_mod_p:p=2:abort")
            if R[0] == "1":
                v = I(R[1])
                if (v * v - a) % mod != 0:
                    return bad("%s: returned value is not a square root" % op)
            else:
                # is a a square modulo `mod`?  (odd p: iff square mod p incl. 0;  mod 2: always;  mod 4: iff a%4 in {0,1})
                if p > 2:
                    is_sq = a % p == 0 or pow(a % p, (p - 1) // 2, p) == 1
                else:
                    is_sq = True if op == "sqrtp" else (a % 4 in (0, 1))
                if is_sq and a % p == 0:
                    return bad("ibz_sqrt_mod_p reports 'no square root' for a = 0 mod p (0 is a square)", "sqrt_mod_p:a=0-mod-p")
                if is_sq:
                    return bad("%s: reports failure although a is a square modulo %s" % (op, "p" if op == "sqrtp" else "2p"))
        elif op == "get":
            x = I(args[0]); v = I(R[0])
            if not (-2**63 <= v < 2**63 and (v - x) % 2**63 == 0 and (sgn(v) == sgn(x) or v == 0 or x == 0 or abs(x) % 2**63 == 0)):
                return bad("ibz_get: not sign/low 63 bits")
        elif op == "tav":
            x = I(args[0]); v = I(R[0])
            if v != vlib_v2(x):
                if x != 0 and x % 2**32 == 0:
                    return bad("two_adic_valuation(ibz_get(x)) = 0 when 2^32 | x (int truncation)", "two_adic_valuation:2^32-divides-x")
                return bad("two_adic_valuation wrong")
        elif op == "twoadic":
            x = I(args[0])
            if I(R[0]) != vlib_v2(x):
                return bad("ibz_two_adic: not the 2-adic valuation of x (0 for x = 0)")
        elif op == "bitsize":
            x = I(args[0])
            if I(R[0]) != max(1, abs(x).bit_length()):
                return bad("ibz_bitsize wrong")
        elif op == "fromdigits":
            if I(R[0]) != sum(I(d) << (64 * i) for i, d in enumerate(args)):
                return bad("ibz_copy_digits wrong")
        elif op == "todigits":
            n, x = I(args[0]), I(args[1])
            need = max(1, (abs(x).bit_length() + 63) // 64)
            if R[0] == "ub":
                if need <= n:
                    return bad("ibz_to_digits: driver refused although it fits")
            else:
                ds = [I(d) for d in R[1:]]
                if len(ds) != n or sum(d << (64 * i) for i, d in enumerate(ds)) != abs(x) or any(d >= 2**64 for d in ds):
                    return bad("ibz_to_digits: digits do not represent |x|")
        elif op in ("randint", "randint86", "randminm"):
            if op == "randminm":
                m = I(args[0]); a, b = -m, m
            else:
                a, b = I(args[0]), I(args[1])
            if R[0] == "1":
                v = I(R[1])
                if not (a <= v <= b):
                    return bad("ibz_rand_interval: sample outside [a,b]")
            elif R[0] == "ub":
                return bad("ibz_rand_interval: undefined shift", "rand_interval:shift-by-64")
        elif op == "cornp":
            n, p = I(args[0]), I(args[1])
            if R[0] == "1":
                x, y = I(R[1]), I(R[2])
                if x * x + n * y * y != p:
                    return bad("ibz_cornacchia_prime: false solution")
            elif p > 2 and n >= 1 and math.gcd(n, p) == 1 and is_prime(p) and py_cornacchia(n, p) is not None:
                return bad("ibz_cornacchia_prime: reports failure although x^2 + n y^2 = p has the solution %s" % (py_cornacchia(n, p),))
        elif op == "cornsp":
            n, p, e = I(args[0]), I(args[1]), I(args[2])
            if R[0] == "1":
                x, y = I(R[1]), I(R[2])
                if x * x + n * y * y != p * 2**e:
                    if p != 2 and n % p == 0:
                        return bad("ibz_cornacchia_special_prime returns 1 with untouched outputs when p | n", "cornacchia_special_prime:p-divides-n")
                    return bad("ibz_cornacchia_special_prime: false solution")
        elif op == "cornext":
            n = I(args[0])
            if R[0] == "1":
                x, y = I(R[1]), I(R[2])
                if x * x + y * y != n:
                    return bad("ibz_cornacchia_extended: false solution")
        elif op == "cmulpow":
            r0, r1, a0, a1, e = map(I, args)
            z = complex_pow((a0, a1), e)
            exp = (r0 * z[0] - r1 * z[1], r0 * z[1] + r1 * z[0])
            if (I(R[0]), I(R[1])) != exp:
                return bad("ibz_complex_mul_by_complex_power wrong")
        elif op == "inv2":
            m = I(args[0]); a, b, c, d = map(I, args[1:5])
            det = a * d - b * c
            if R[0] == "1":
                w, x, y, z = map(I, R[1:5])
                P = [a * w + b * y - 1, a * x + b * z, c * w + d * y, c * x + d * z - 1]
                if any(v % abs(m) for v in P) or not all(0 <= v < abs(m) for v in (w, x, y, z)):
                    return bad("ibz_2x2_inv_mod: M*inv != I (mod m)")
            elif math.gcd(det, m) == 1:
                return bad("ibz_2x2_inv_mod: fails although det is a unit")
        elif op == "mul2":
            m = I(args[0]); A = list(map(I, args[1:5])); B = list(map(I, args[5:9])); P = list(map(I, R))
            E = [A[0] * B[0] + A[1] * B[2], A[0] * B[1] + A[1] * B[3], A[2] * B[0] + A[3] * B[2], A[2] * B[1] + A[3] * B[3]]
            if [e % abs(m) for e in E] != P:
                return bad("ibz_2x2_mul_mod wrong")
        elif op in ("ker44p", "ker45p"):
            cols = 4 if op == "ker44p" else 5
            p = I(args[0]); es = list(map(I, args[1:]))
            M = [es[i * cols:(i + 1) * cols] for i in range(4)]
            rk = rank_mod_p(M, p)
            if R[0] == "1":
                v = list(map(I, R[1:]))
                if len(v) != cols or all(x % p == 0 for x in v) or any(sum(M[i][j] * v[j] for j in range(cols)) % p for i in range(4)):
                    return bad("%s: returned vector is not a non-zero kernel vector" % op)
                if cols - rk != 1:
                    return bad("%s: reports a 1-dimensional kernel but the kernel has dimension %d" % (op, cols - rk))
            elif cols - rk == 1:
                return bad("%s: kernel has dimension 1 but the routine reports failure" % op)
        elif op == "ker44two":
            e = I(args[0]); es = list(map(I, args[1:]))
            M = [es[i * 4:(i + 1) * 4] for i in range(4)]
            if R[0] == "1":
                v = list(map(I, R[1:]))
                if all(x % 2 == 0 for x in v) or any(sum(M[i][j] * v[j] for j in range(4)) % 2**e for i in range(4)):
                    return bad("ibz_4x4_right_ker_mod_power_of_2: returned vector is not a primitive kernel vector")
        elif op == "repint":
            pL, n = I(args[2]), I(args[3])
            if R[0] == "1":
                nout = I(R[1]); c0, c1, c2, c3, den = map(I, R[2:7])
                if den != 2 or c0 * c0 + c1 * c1 + pL * (c2 * c2 + c3 * c3) != 4 * nout:
                    return bad("represent_integer: returned element does not have the returned norm")
                if nout <= 0 or n % nout != 0 or not is_square(n // nout):
                    return bad("represent_integer: returned norm is not the target divided by a square")
                if (c0 - c3) % 2 or (c1 - c2) % 2 or math.gcd(math.gcd((c0 - c3) // 2, (c1 - c2) // 2), math.gcd(c2, c3)) != 1:
                    return bad("represent_integer: returned element is not a primitive element of the standard order")
        elif op in ("howell", "kermod"):
            rows, cols, m = I(args[0]), I(args[1]), I(args[2]); es = list(map(I, args[3:]))
            M = [es[i * cols:(i + 1) * cols] for i in range(rows)]
            if op == "kermod":
                K = list(map(I, R))
                K = [K[i * cols:(i + 1) * cols] for i in range(cols)]
                for i in range(rows):
                    for j in range(cols):
                        if sum(M[i][k] * K[k][j] for k in range(cols)) % m:
                            return bad("ibz_mat_right_ker_mod: a returned column is not in the kernel of the matrix modulo m")
            else:
                z = I(R[0]); bar = R.index("|")
                H = list(map(I, R[1:bar])); T = list(map(I, R[bar + 1:]))
                n1 = rows + 1
                extra = rows + 1 - cols
                H = [H[i * n1:(i + 1) * n1] for i in range(rows)]; T = [T[i * n1:(i + 1) * n1] for i in range(n1)]
                for i in range(rows):
                    for j in range(n1):
                        if (sum(M[i][k] * T[k + extra][j] for k in range(cols)) - H[i][j]) % m:
                            return bad("ibz_mat_howell: howell != [0|mat]*trans modulo m")
                if any(H[i][j] % m for i in range(rows) for j in range(z)):
                    return bad("ibz_mat_howell: the first `zeros` columns are not zero")
        else:
            return bad("unknown op in oracle")
    except (IndexError, ValueError):
        return bad("unparsable result %r" % res)
    return None


def py_sqrt_mod(a, p):
    """square root of a modulo an odd prime p (Tonelli-Shanks), or None"""
    a %= p
    if a == 0:
        return 0
    if pow(a, (p - 1) // 2, p) != 1:
        return None
    q, e = p - 1, 0
    while q % 2 == 0:
        q //= 2; e += 1
    z = 2
    while pow(z, (p - 1) // 2, p) != p - 1:
        z += 1
    c, x, t, m = pow(z, q, p), pow(a, (q + 1) // 2, p), pow(a, q, p), e
    while t != 1:
        i, t2 = 0, t
        while t2 != 1:
            t2 = t2 * t2 % p; i += 1
        b = pow(c, 1 << (m - i - 1), p)
        x, t, c, m = x * b % p, t * b * b % p, b * b % p, i
    return x


def py_cornacchia(n, p):
    """independent implementation: a solution of x^2 + n y^2 = p (p odd prime, gcd(n,p)=1) or None"""
    r = py_sqrt_mod(-n, p)
    if r is None:
        return None
    for r0 in (r, p - r):
        a, b = p, r0
        while b * b >= p:
            a, b = b, a % b
        rem = p - b * b
        if rem % n == 0 and is_square(rem // n):
            return b, math.isqrt(rem // n)
    return None


def is_square(v):
    return v >= 0 and math.isqrt(v) ** 2 == v


def complex_pow(a, e):
    x = (1, 0)
    for _ in range(e):
        x = (x[0] * a[0] - x[1] * a[1], x[0] * a[1] + x[1] * a[0])
    return x


# ----------------------------------------------------------------------------------------------- running
def run_parallel(ctx, exe, lines, nproc=16):
    """returns (c_out, model_out) lists aligned with lines"""
    n = len(lines)
    if n == 0:
        return [], []
    k = min(nproc, max(1, n // 200))
    # round-robin assignment: expensive suites (repint, howell) are contiguous in `lines`
    chunks = [lines[i::k] for i in range(k)]

    def one(ch):
        rc, cout, cerr = vlib.run_c([exe], ch)
        mout = ctx.driver([l.lstrip("!") for l in ch])
        cres = [cout[i] if i < len(cout) else "<no output: C driver stopped rc=%d %s>" % (rc, cerr[-300:]) for i in range(len(ch))]
        mres = [mout[i] if i < len(mout) else "<no output>" for i in range(len(ch))]
        return cres, mres

    with ThreadPoolExecutor(max_workers=k) as ex:
        parts = list(ex.map(one, chunks))
    c = [None] * n
    m = [None] * n
    for i, (cres, mres) in enumerate(parts):
        c[i::k] = cres
        m[i::k] = mres
    return c, m


def harness_stage(ctx, exe, ncases):
    g = Gen(ctx)
    cases = gen_lines(g, ncases)
    corpus = os.path.join(vlib.ROOT, "corpus", "C17", "ops.txt")
    if os.path.exists(corpus):
        cases = [("corpus", l.strip()) for l in open(corpus) if l.strip() and not l.startswith("#")] + cases
    lines = [l for _, l in cases]
    t = time.time()
    cout, mout = run_parallel(ctx, exe, lines)
    ctx.log("ran %d ops on C and model in %.1fs" % (len(lines), time.time() - t))
    per = {}
    found = []
    for (suite, line), c, m in zip(cases, cout, mout):
        st = per.setdefault(suite, dict(ops=0, disagreements=0, examples=[]))
        st["ops"] += 1
        ctx.case(line)
        if suite.endswith("-oracle"):
            m = c            # no model for this routine: only the defining equations are checked
        if c != m:
            st["disagreements"] += 1
            if len(st["examples"]) < 5:
                st["examples"].append(dict(op=line, impl=c, model=m))
        o = oracle(line, c)
        if o:
            found.append((o, line, c, m))
    for suite, st in sorted(per.items()):
        kind = "oracle-only run" if suite.endswith("-oracle") else "correspondence"
        ctx.obligation("%s %s (%d ops)" % (kind, suite, st["ops"]), st["disagreements"] == 0, json.dumps(st["examples"])[:600])
        ctx.coverage.setdefault("correspondence", {})[suite] = dict(ops=st["ops"], disagreements=st["disagreements"])
    # certificate pass: every vector returned by the (unmodelled) Howell-form kernel routine goes through the Lean
    # checker kerPow2Check, whose soundness is theorem SqiProps.C17.ker_pow2_check_sound
    cert = []
    for (suite, line), c in zip(cases, cout):
        t = line.split()
        if t[0] == "ker44two" and c.startswith("1 "):
            cert.append(("chkker2e %s %s %s" % (t[1], " ".join(t[2:18]), c[2:]), line, c))
    if cert:
        verdicts = ctx.driver([x[0] for x in cert])
        rejected = [(x, v) for x, v in zip(cert, verdicts) if v != "1"]
        ctx.obligation("Lean certificate checker accepts every kernel vector mod 2^e returned by the real code (%d vectors)" % len(cert),
                       not rejected, json.dumps([dict(op=x[1], impl=x[2], checker=v) for x, v in rejected[:3]])[:600])
        ctx.coverage["ker2e_certificates"] = dict(checked=len(cert), rejected=len(rejected))
        for x, v in rejected[:2]:
            found.append((("ker44two:" + x[1][9:130], "ibz_4x4_right_ker_mod_power_of_2: returned vector rejected by the proved-sound Lean checker (not a primitive kernel vector)"), x[1], x[2], "checker:" + v))
    # certificate pass 2: outputs of the real ibz_mat_howell / ibz_mat_right_ker_mod through the Lean checker matMulCheck
    # (theorem SqiProps.C17.mat_mul_check_sound):  [0|mat]*trans = howell (mod m)   and   mat*ker = 0 (mod m)
    cert2 = []
    for (suite, line), c in zip(cases, cout):
        t = line.split()
        if t[0] not in ("howell", "kermod") or c.startswith("<"):
            continue
        try:
            rows, cols, m = int(t[1], 16), int(t[2], 16), t[3]
            es = t[4:]
            R = c.split()
            if t[0] == "kermod":
                zero = ["0"] * (rows * cols)
                cert2.append(("chkmul %x %x %x %s %s %s %s" % (rows, cols, cols, m, " ".join(es), " ".join(R), " ".join(zero)), line, c))
            else:
                bar = R.index("|"); H = R[1:bar]; T = R[bar + 1:]
                n1 = rows + 1; extra = n1 - cols
                A = []
                for i in range(rows):
                    A += ["0"] * extra + es[i * cols:(i + 1) * cols]
                cert2.append(("chkmul %x %x %x %s %s %s %s" % (rows, n1, n1, m, " ".join(A), " ".join(T), " ".join(H)), line, c))
        except (ValueError, IndexError):
            cert2.append(("chkmul 0", line, c))
    if cert2:
        verd = ctx.driver([x[0] for x in cert2])
        rej = [(x, v) for x, v in zip(cert2, verd) if v != "1"]
        ctx.obligation("Lean certificate checker accepts every output of the real ibz_mat_howell / ibz_mat_right_ker_mod (%d matrices)" % len(cert2),
                       not rej, json.dumps([dict(op=x[1][:200], impl=x[2][:200], checker=v) for x, v in rej[:3]])[:600])
        ctx.coverage["howell_certificates"] = dict(checked=len(cert2), rejected=len(rej))
        for x, v in rej[:2]:
            found.append((((x[1].split()[0] + ":" + " ".join(x[1].split()[1:])[:120]), "ibz_mat_howell / ibz_mat_right_ker_mod: output rejected by the proved-sound Lean checker (matrix identity modulo m fails)"), x[1], x[2], "checker:" + v))
    ctx.coverage["generator_histogram"] = dict(sorted(g.hist.items()))
    ctx.coverage["oracle_failures_total"] = len(found)
    ctx.coverage["primes_used"] = len(g.primes)
    for s in cases[:3] + cases[len(cases) // 2: len(cases) // 2 + 3]:
        ctx.sample(s[1][:200])
    # classification
    seen = set()
    per_op = {}
    for (key, what), line, c, m in found:
        if key in seen:
            continue
        seen.add(key)
        opn = line.lstrip("!").split()[0]
        per_op[opn] = per_op.get(opn, 0) + 1
        if per_op[opn] > 2 and not any(k.get("key") == key for k in ctx.known):
            continue            # at most two replays per routine: the others are counted in the evidence
        ctx.violation(key, what, dict(op=line, impl_output=c, model_output=m,
                                      how_to_replay="echo '%s' | <drv_int built by ./check C17>   (tools/harness/drv_int.c)" % line[:400]))
    # disagreements where the real code still meets its defining equations: property no longer *shown*
    for suite, st in per.items():
        for ex in st["examples"][:1]:
            if oracle(ex["op"], ex["impl"]) is None:
                ctx.violation("corr:%s:%s" % (suite, ex["op"][:100]),
                              "model and implementation disagree on this input although the implementation satisfies the defining equations (model no longer describes the code)",
                              dict(ex), found=False)
    return per, found


def ubsan_replay(ctx):
    """Replay of the shift-by-64 witness on the real code under UBSan (clang, -fsanitize=undefined)."""
    try:
        b = ctx.build_repo("ref", san=True, targets=["sqisign_intbig_generic", "sqisign_quaternion_generic", "sqisign_common_test"])
    except vlib.BuildError as e:
        ctx.log("sanitizer build failed: %s" % str(e)[-300:])
        return None
    exe = ctx.cc_harness(HARNESS, os.path.join(ctx.tmp, "drv_int_san"), 1, san=True, build=b, defs=("DRV_NO_KLPT",))
    res = {}
    for name, line in (("witness", "randint 0 ffffffffffffffff 0102030405060708"), ("control", "randint 0 fffffffffffffff 0102030405060708")):
        p = subprocess.run([exe], input=(line + "\n").encode(), stdout=subprocess.PIPE, stderr=subprocess.PIPE,
                           env=dict(os.environ, UBSAN_OPTIONS="print_stacktrace=0", ASAN_OPTIONS="detect_leaks=0"))
        err = p.stderr.decode("utf-8", "replace")
        res[name] = dict(rc=p.returncode, out=p.stdout.decode().strip(), ubsan=[l for l in err.split("\n") if "runtime error" in l][:2])
    return res


def replay(ctx, rp):
    """./check C17 --replay <file>: re-run the recorded op on a freshly built harness (and on the model) and re-evaluate
    the defining equation; exit 1 iff the real code still violates it"""
    op = (rp.get("replay") or {}).get("op")
    print(json.dumps(rp, indent=1)[:3000])
    if not op:
        return 0
    b = ctx.build_repo("ref")
    lvl = (rp.get("replay") or {}).get("level", 1)
    exe = ctx.cc_harness(HARNESS, os.path.join(ctx.tmp, "drv_int"), lvl, build=b)
    ctx.lake(["driver"])
    rc, cout, cerr = vlib.run_c([exe], [op])
    mout = ctx.driver([op.lstrip("!")])
    c = cout[0] if cout else "<no output rc=%d %s>" % (rc, cerr[-300:])
    verdict = oracle(op, c)
    print("REPLAY op:    %s" % op[:400])
    print("REPLAY impl:  %s" % c[:400])
    print("REPLAY model: %s" % (mout[0] if mout else "<none>")[:400])
    print("REPLAY oracle: %s" % (verdict[1] if verdict else "defining equation satisfied"))
    return 1 if verdict else 0


def run(ctx):
    ctx.trusted += ["GMP (mpz_*) is MODELLED as exact Int arithmetic with its documented conventions (tdiv/fdiv/mod, gcdext normalisation, invert, powm, get_si, sizeinbase, jacobi for prime modulus = Euler criterion); not verified",
                    "hand models lean/SqiModel/{Intbig,NumberTheory,Kernels}.lean tied to the C by tools/harness/drv_int.c + tools/props/c17.py (correspondence on every run)",
                    "randombytes is replaced in the harness by a byte stream given on the op line (the model consumes the same list)",
                    "ibz_probab_prime is a parameter of the Cornacchia model (Miller-Rabin stand-in in the driver); soundness theorems do not depend on it",
                    "C compiler, libc; Python oracle (defining equations) for the violation search"]
    ctx.assumptions += ["p prime in sqrt_mod_p / Cornacchia / kernel-mod-p theorems (hypothesis Nat.Prime p in the statements)",
                        "Howell-form kernel modulo 2^e (matkermod.c) is not modelled: every vector the real code returns during a run is validated by the proved-sound Lean checker kerPow2Check (certificate per output) and by the Python oracle; completeness not covered (partial)"]
    b = ctx.build_repo("ref")
    exe = ctx.cc_harness(HARNESS, os.path.join(ctx.tmp, "drv_int"), 1, build=b)
    state = {}

    def searcher():
        if "hs" not in state:
            ctx.lake(["driver"])
            state["hs"] = harness_stage(ctx, exe, 10**4 if ctx.quick else 10**6)
        per, found = state["hs"]
        for (key, what), line, c, m in found:
            if not any(k.get("key") == key and k.get("status") == "open" for k in ctx.known):
                return "proof-obligation-broken:" + key, what + " [found while searching after a proof obligation / tie-T equation stopped checking]", dict(op=line, impl_output=c, model_output=m)
        return None

    ok = vlib.proof_stage(ctx, ["SqiProps.C17"], searcher=searcher, extra_targets=["driver"])
    if not ok:
        ctx.obligation("lake build SqiProps.C17 (theorems + tie-T equations `generated from C = hand model`, SqiProofs.C17.Translated)", False,
                       "a proof obligation no longer checks: see the replay with broken_obligations")
    if "hs" not in state:
        state["hs"] = harness_stage(ctx, exe, 10**4 if ctx.quick else 10**6)
    # represent_integer at the two other security levels (separate harness binaries: the level is a compile-time choice)
    for lvl in (3, 5):
        exe_l = ctx.cc_harness(HARNESS, os.path.join(ctx.tmp, "drv_int_l%d" % lvl), lvl, build=b)
        gl = Gen.__new__(Gen); gl.ctx = ctx; gl.rng = ctx.rng.fork("c17-lvl%d" % lvl); gl.hist = {}
        ll = gen_repint(gl, lvl, 8 if ctx.quick else 120)
        cout_l, mout_l = run_parallel(ctx, exe_l, ll)
        dis = [dict(op=l[:200], impl=c[:200], model=m[:200]) for l, c, m in zip(ll, cout_l, mout_l) if c != m]
        ctx.evaluations += len(ll)
        ctx.obligation("correspondence repint level %d (%d ops)" % (lvl, len(ll)), not dis, json.dumps(dis[:2])[:600])
        ctx.coverage.setdefault("correspondence", {})["repint-lvl%d" % lvl] = dict(ops=len(ll), disagreements=len(dis))
        ctx.coverage.setdefault("generator_histogram", {}).update(gl.hist)
        for l, c, m in zip(ll, cout_l, mout_l):
            o = oracle(l, c)
            if o:
                ctx.violation(o[0], o[1], dict(op=l[:400], impl_output=c, model_output=m, level=lvl))
            elif c != m:
                ctx.violation("corr:repint-lvl%d:%s" % (lvl, l[:80]), "model and implementation disagree on represent_integer at level %d although the implementation satisfies the defining equations" % lvl,
                              dict(op=l[:400], impl=c, model=m), found=False)
    # UBSan replay of the shift witness (known finding) on the real code
    rp = ubsan_replay(ctx)
    if rp is not None:
        ctx.coverage["ubsan_replay_rand_interval"] = rp
        ctx.obligation("UBSan: width with bit length 64 (former shift-by-64 witness) runs clean",
                       not rp["witness"]["ubsan"] and rp["witness"]["rc"] == 0, json.dumps(rp["witness"]))
        if rp["witness"]["ubsan"] or rp["witness"]["rc"] != 0:
            ctx.violation("rand_interval:shift-by-64", "ibz_rand_interval shifts a 64-bit word by 64 when bitlen(b-a) %% 64 == 0 (UBSan: %s)" % (rp["witness"]["ubsan"] or ["abnormal exit"])[0][-120:],
                          dict(op="randint 0 ffffffffffffffff 0102030405060708", ubsan=rp["witness"]["ubsan"], control=rp["control"]))
        ctx.obligation("UBSan: control width (bitlen % 64 != 0) runs clean", not rp["control"]["ubsan"] and rp["control"]["rc"] == 0, json.dumps(rp["control"]))
        if rp["control"]["ubsan"] or rp["control"]["rc"] != 0:
            ctx.violation("rand_interval:ubsan-control", "sanitizer reports a problem in ibz_rand_interval for a width whose bit length is not a multiple of 64", dict(rp["control"]))
    return dict(level="proof", rule="one case = one op line (function, arguments) run on the real C function and on the Lean model, and checked against the defining equation in Python; distinct = distinct op lines")

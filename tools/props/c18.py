"""C18 — precomputed tables. Tie: T (tables regenerated from /repo each run). Decided by kernel evaluation
(`decide +kernel`) of every table fact; lifted to valid strategies by checkStrat_sound."""
import json, os, re
import vlib

FACTS = """
import SqiProps.C18Search
"""

SEARCH_TMPL = r'''
import SqiModel.Strategy
import SqiModel.Mat2
import SqiModel.Fp2N
import SqiGen.Tables1
import SqiGen.Tables3
import SqiGen.Tables5
open SqiModel
def badRows (leaves : Nat → Nat) (cols : Nat) (table : List (List Nat)) : List Nat :=
  (table.zipIdx).filterMap fun (row, i) => if checkStrat (leaves i) row && row.length == cols then none else some i
def diffIdx (a b : List Int) : List Nat :=
  ((a.zip b).zipIdx).filterMap fun ((x, y), i) => if x == y then none else some i
%s
'''

PER_LEVEL = r'''
section
open SqiGen.L{l}
#eval IO.println s!"L{l} STRATEGY4 bad={{badRows (fun i => (D_POWER_OF_2 - i) / 2) STRATEGY4_cols STRATEGY4}}"
#eval IO.println s!"L{l} strategies bad={{badRows (fun i => D_POWER_OF_2 - i) strategies_cols strategies}}"
#eval IO.println s!"L{l} widths16 bad={{diffIdx WIDTH16_all WIDTH64_all}} lens={{WIDTH16_all.length}},{{WIDTH64_all.length}}"
#eval IO.println s!"L{l} widths32 bad={{diffIdx WIDTH32_all WIDTH64_all}} lens={{WIDTH32_all.length}},{{WIDTH64_all.length}}"
#eval IO.println s!"L{l} fact p_plus_one={{decide (FP_p + 1 = p_cofactor_for_2f * 2 ^ D_POWER_OF_2)}} p_mod4={{decide (FP_p % 4 = 3)}} one_is_R={{decide (FP_ONE = 2 ^ (64 * D_NWORDS_FIELD) % FP_p)}} TWOpF={{decide (TWOpF = 2 ^ D_POWER_OF_2 ∧ 2 * TWOpFm1 = TWOpF)}} char={{decide (W64.CHARACTERISTIC = (FP_p : Int))}}"
#eval IO.println s!"L{l} action I2={{Mat2.eqMod (2 ^ D_POWER_OF_2) (Mat2.mul W64.ACTION_I W64.ACTION_I) (Mat2.scalar (-1))}} J2={{Mat2.eqMod (2 ^ D_POWER_OF_2) (Mat2.mul W64.ACTION_J W64.ACTION_J) (Mat2.scalar (-(FP_p : Int)))}} IJ={{Mat2.eqMod (2 ^ D_POWER_OF_2) (Mat2.mul W64.ACTION_I W64.ACTION_J) W64.ACTION_K}} G2={{Mat2.eqMod (2 ^ D_POWER_OF_2) W64.ACTION_GEN2 W64.ACTION_I}} G3={{Mat2.eqMod (2 ^ D_POWER_OF_2) (Mat2.smul 2 W64.ACTION_GEN3) (Mat2.add W64.ACTION_I W64.ACTION_J)}} G4={{Mat2.eqMod (2 ^ D_POWER_OF_2) (Mat2.smul 2 W64.ACTION_GEN4) (Mat2.add (Mat2.scalar 1) W64.ACTION_K)}}"
#eval IO.println s!"L{l} NQR_TABLE bad={{(W64.NQR_TABLE.zipIdx).filterMap fun (x, i) => if Fp2N.isSquare FP_p x then some i else none}}"
#eval IO.println s!"L{l} Z_NQR_TABLE bad={{(W64.Z_NQR_TABLE.zipIdx).filterMap fun (z, i) => if Fp2N.isSquare FP_p z && !Fp2N.isSquare FP_p (Fp2N.sub FP_p z (FP_ONE, 0)) then none else some i}}"
#eval IO.println s!"L{l} BASIS_EVEN bad={{(W64.BASIS_EVEN.zipIdx).filterMap fun (P, i) => if Fp2N.exactOrder2f FP_p W64.CURVE_E0.1 W64.CURVE_E0.2 D_POWER_OF_2 P then none else some i}}"
end
'''


def search(ctx):
    """evaluate each table fact separately in the model; return the first concrete failing entry"""
    src = SEARCH_TMPL % "".join(PER_LEVEL.format(l=l) for l in (1, 3, 5))
    rc, out = vlib.lean_eval(ctx, src)
    bad = []
    for line in out.split("\n"):
        m = re.match(r"L(\d) (\S+) bad=\[([^\]]+)\]", line)
        if m:
            bad.append(dict(level=int(m.group(1)), table=m.group(2), bad_entries=[int(x) for x in m.group(3).split(",")]))
        m = re.match(r"L(\d) (fact|action) (.*)", line)
        if m:
            for kv in m.group(3).split():
                k, v = kv.split("=")
                if v != "true":
                    bad.append(dict(level=int(m.group(1)), fact=k, value=v))
    if not bad:
        return None
    b = bad[0]
    key = "tables:L%d:%s:%s" % (b["level"], b.get("table") or b.get("fact"), (b.get("bad_entries") or [""])[0])
    return key, "precomputed table entry inconsistent with the mathematics the code assumes", dict(failing_entries=bad,
            how_to_replay="python3 tools/translate/tables.py; then evaluate the named fact in lean/SqiProps/C18.lean")


def run(ctx):
    ctx.trusted += ["tools/translate/tables.py (regex/brace extraction of C initialisers)",
                    "C compiler's reading of the same initialisers (zero-fill of short rows modelled explicitly)"]
    ok = vlib.proof_stage(ctx, ["SqiProps.C18"], searcher=lambda: search(ctx))
    # coverage statistics: count table entries the theorems range over
    n = 0
    for l in (1, 3, 5):
        t = open(os.path.join(vlib.LEAN, "SqiGen", "Tables%d.lean" % l)).read()
        rows = len(re.findall(r"^def (?:STRATEGY4|strategies)_r\d+ ", t, re.M))
        n += rows
        ctx.case("L%d:rows=%d" % (l, rows), rows)
        ctx.sample(dict(level=l, strategy_rows=rows, first_row=re.search(r"def strategies_r0 : List Nat := (\[[^\]]{0,120})", t).group(1) + " ...]"))
    ctx.coverage["exhaustive"] = True
    ctx.coverage["table_rows_checked"] = n
    return dict(level="proof", rule="every entry of every generated table (finite; kernel decide); one case = one table row / constant fact")

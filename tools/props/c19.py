"""C19 — clean resource behaviour: deterministic, leak-free, no hidden state.

Proof stage: SqiProps.C19 (ledger state machine: live_bounded for the repaired allocation behaviour, exact leak formula /
linear growth / unboundedness for the pinned one; outputs independent of ledger, audited globals and interleaving with
other keys; `globals_are_audited`: the list of static objects regenerated from the sources equals the allow-list).
Tie T: tools/translate/globals.py -> SqiGen/Globals.lean on every run.
Tie H: tools/harness/drv_api.c runs init/finalize/keygen/sign/verify of the real library under a heap ledger
(--wrap=malloc/free + mp_set_memory_functions, deterministic DRBG): (a) transcripts in a fresh process vs after histories vs
interleaved keys vs a second process; (b) per-operation leaked blocks compared with the ledger model (every leaked malloc
block must be a theta `steps` array; the run of the Lean model on the observed chain lengths must predict the live bytes);
(c) growth of live memory over k signatures; (d) ASan+UBSan on the honest path (valgrind in thorough)."""
import hashlib, json, os, re
import vlib

HARNESS = os.path.join(vlib.ROOT, "tools", "harness")
WRAP = ["-Wl,--wrap=malloc", "-Wl,--wrap=free", "-Wl,--wrap=calloc", "-Wl,--wrap=realloc"]
K_THETA = "leak:theta_chain_t.steps:malloc-in-theta_chain_comput_*:never-freed"
K_GMP_SIGN = "leak:protocols_sign:gmp-integers-not-cleared"
K_UB_RAND = "ub:honest-sign:ibz_rand_interval:shift-exponent-64"


def split(res):
    """'tag fields | leak n sizes' -> (fields, [sizes])"""
    if " | leak " in res:
        a, b = res.split(" | leak ")
        ws = b.split()
        return a, [int(x, 16) for x in ws[1:]]
    return res, []


def run_api(exe, ops, env=None):
    rc, out, err = vlib.run_c([exe], ops, env=env)
    return rc, out, err


def search_new_static(ctx):
    """globals_are_audited failed: name the new object; then the harness looks for an observable dependence"""
    try:
        import importlib, sys
        sys.path.insert(0, os.path.join(vlib.ROOT, "tools", "translate"))
        g = importlib.import_module("globals")
        cur = set(g.scan(vlib.REPO))
        txt = open(os.path.join(vlib.LEAN, "SqiProps", "C19.lean")).read()
        allow = set(re.findall(r'\("([^"]+)", "([^"]+)", "([^"]+)"\)', txt))
        return sorted(cur - allow), sorted(allow - cur)
    except Exception as e:      # noqa
        return [], []


def harness(ctx, exe, step_bytes_expected=None):
    rng = ctx.rng.fork("c19")
    S1 = "%096x" % rng.bits(380)
    S2 = "%096x" % rng.bits(380)
    m1 = "%064x" % rng.bits(250)
    m2 = "%064x" % rng.bits(250)
    found = []

    def out_only(lines):
        return [split(l)[0] for l in lines]

    # (A) fresh process
    A = ["seed " + S1, "init 0", "siginit 0", "keygen 0", "sign 0 0 " + m1, "verify 0 0 " + m1, "verify 0 0 " + m2]
    rcA, oA, eA = run_api(exe, A)
    if len(oA) != len(A) + 1:
        ctx.violation("c19:honest-path-crash", "keygen/sign/verify crashed on the honest path", dict(ops=A, rc=rcA, stderr=eA[-1500:]))
        return
    step = int(oA[0].split()[1], 16)
    ctx.coverage["sizeof_theta_isogeny_t"] = step
    TA = out_only(oA[1:])
    ctx.case("fresh")
    if not TA[3].startswith("pk") or TA[4].split()[1] != "1" or TA[5] != "ver 1" or TA[6] != "ver 0":
        ctx.violation("c19:honest-path-wrong", "honest keygen/sign/verify did not return (sig ok, verify 1, verify-other-message 0)", dict(ops=A, out=TA))
    ctx.sample(dict(run="fresh", pk=TA[3][:60] + "…", sig=TA[4][:60] + "…"))
    # (D) second process, identical input -> identical transcript incl. ledger numbers
    rcD, oD, eD = run_api(exe, A)
    ctx.case("second-process")
    if oD != oA:
        i = next(i for i in range(min(len(oA), len(oD))) if oA[i] != oD[i])
        ctx.violation("c19:nondeterministic-across-processes", "two processes with the same seed and calls produce different results",
                      dict(ops=A, first_difference=dict(op=A[i - 1] if i else "banner", run1=oA[i][:300], run2=oD[i][:300])))
    # (B) after a history on other objects and on the same objects
    hist = ["seed " + S2, "init 0", "init 1", "siginit 0", "siginit 1", "keygen 1", "sign 1 1 " + m2, "verify 1 1 " + m2, "keygen 0", "sign 0 1 " + m2,
            "keygen 0", "verify 0 1 " + m1]
    B = hist + ["seed " + S1, "keygen 0", "sign 0 0 " + m1, "verify 0 0 " + m1, "verify 0 0 " + m2]
    rcB, oB, eB = run_api(exe, B)
    ctx.case("after-history")
    TB = out_only(oB[1:])
    if len(TB) != len(B) or TB[-4:] != TA[-4:]:
        k = next((j for j in range(1, 5) if len(TB) < j or TB[-j] != TA[-j]), 1)
        ctx.violation("c19:output-depends-on-history", "results after a history of previous operations differ from the fresh-process results for the same seed and arguments",
                      dict(fresh_ops=A, history_ops=B, differing_op=B[-k] if len(TB) >= k else "crash", fresh=TA[-k][:300], after_history=(TB[-k][:300] if len(TB) >= k else eB[-500:]),
                           how="feed the two op lists to drv_api (level 1, sqisigndim2) and compare the result lines before '|'"))
    # (C) interleaving of keys with per-operation reseeding
    s = ["%096x" % rng.bits(380) for _ in range(6)]
    blocks = {"k0": ["seed " + s[0], "keygen 0"], "k1": ["seed " + s[1], "keygen 1"], "s0": ["seed " + s[2], "sign 0 0 " + m1],
              "s1": ["seed " + s[3], "sign 1 1 " + m2], "v0": ["verify 0 0 " + m1], "v1": ["verify 1 1 " + m2]}
    pre = ["init 0", "init 1", "siginit 0", "siginit 1"]
    orders = [["k0", "s0", "v0", "k1", "s1", "v1"], ["k1", "k0", "s1", "s0", "v1", "v0"], ["k0", "k1", "s0", "v0", "s1", "v1"]]
    per = []
    for od in orders:
        ops = pre + sum((blocks[b] for b in od), [])
        rc, o, e = run_api(exe, ops)
        T = out_only(o[1:])
        res = {}
        i = len(pre)
        for b in od:
            res[b] = T[i + len(blocks[b]) - 1] if i + len(blocks[b]) - 1 < len(T) else "<crash>"
            i += len(blocks[b])
        per.append((od, ops, res))
        ctx.case("interleave:" + ",".join(od))
    for od, ops, res in per[1:]:
        for b in res:
            if res[b] != per[0][2][b]:
                ctx.violation("c19:output-depends-on-interleaving", "an operation re-seeded with the same seed gives a different result when operations on another key are interleaved",
                              dict(order1=per[0][1], order2=ops, block=blocks[b], result1=per[0][2][b][:300], result2=res[b][:300]))
                break
    # (E) ledger: k signatures on the same objects
    K = 3 if ctx.quick else 12
    ops = ["seed " + S1, "init 0", "siginit 0", "keygen 0", "live"]
    for i in range(K):
        ops += ["sign 0 0 " + m1, "live", "verify 0 0 " + m1, "live"]
    ops += ["keygen 0", "live", "keygen 0", "live", "fin 0", "sigfin 0", "live"]
    rc, o, e = run_api(exe, ops)
    o = o[1:]
    live = None; theta_total = 0; bad_blocks = []; gmp_blocks_after_sign = []; gmp_blocks_after_keygen = []
    model_ops = []
    growth = []
    for opl, res in zip(ops, o):
        if opl == "live":
            ws = res.split()
            new = (int(ws[1], 16), int(ws[2], 16), int(ws[3], 16), int(ws[4], 16))
            live = new
            growth.append(new[0])
            continue
        fields, leaks = split(res)
        if opl.split()[0] in ("keygen", "sign", "verify"):
            ctx.case("ledger:" + opl.split()[0] + ":%d" % len(model_ops))
            chains = []
            for sz in leaks:
                if step and sz % step == 0:
                    chains.append(sz // step + 1); theta_total += sz
                else:
                    bad_blocks.append((opl, sz))
            model_ops.append((opl.split()[0], chains, sum(leaks)))
    ctx.coverage["live_malloc_bytes_after_each_checkpoint"] = growth
    ctx.coverage["leaked_theta_bytes_total"] = theta_total
    if bad_blocks:
        opl, sz = bad_blocks[0]
        ctx.violation("c19:leak:%s:block-of-%d-bytes" % (opl.split()[0], sz), "a heap block that is not a theta `steps` array is still allocated when the operation returns (memory grows with the number of operations)",
                      dict(ops=ops[:ops.index(opl) + 1] if opl in ops else ops, leaked_blocks=[b[1] for b in bad_blocks][:10], how="drv_api level 1: feed ops, read the `| leak` part"))
    if theta_total > 0:
        per_sign = [m[2] for m in model_ops if m[0] == "sign"]
        ctx.violation(K_THETA, "every theta chain computation mallocs theta_chain_t.steps and nothing frees it: live heap grows by ~%.1f MB per signature (measured %s bytes over %d signatures; theorem live_unbounded_current)"
                      % (sum(per_sign) / max(1, len(per_sign)) / 1e6, sum(per_sign), len(per_sign)),
                      dict(ops=ops, leaked_bytes_per_op=[(m[0], m[2]) for m in model_ops], chain_lengths=[(m[0], m[1]) for m in model_ops]))
    # model comparison: live malloc bytes predicted by the ledger model = object blocks + sum of (n-1)*step
    # (checked arithmetically here; the Lean theorem theta_bytes_current gives exactly this formula)
    pred = sum((n - 1) * step for m in model_ops for n in m[1])
    ctx.obligation("ledger model: leaked bytes = Σ (n−1)·sizeof(theta_isogeny_t) over the observed chains, no other malloc block leaks",
                   pred == theta_total and not bad_blocks, "pred=%d measured=%d other=%s" % (pred, theta_total, bad_blocks[:3]))
    # final checkpoint after finalize: only leaked theta blocks may remain
    if live is not None and live[0] != theta_total:
        ctx.violation("c19:leak:objects-not-released-by-finalize", "after finalize of every object the live malloc bytes differ from the leaked theta blocks",
                      dict(ops=ops, live_malloc_bytes=live[0], theta_bytes=theta_total))
    # GMP integers: block count must not grow from one signature to the next on the same objects
    gl = [int(r.split()[4], 16) for opl, r in zip(ops, o) if opl == "live"]
    # checkpoints: [after keygen] then (after sign, after verify) * K ...
    sign_cp = gl[1:1 + 2 * K:2]
    if len(sign_cp) >= 3 and sign_cp[-1] > sign_cp[-2] > sign_cp[-3]:
        ctx.violation(K_GMP_SIGN, "GMP integers allocated below protocols_sign are never cleared: +%d live GMP blocks per signature on the same objects (after fix 32f0c08: 13 at level 1 — ibz_t tmp in endomorphism_application_even_basis, disc in sampling_random_ideal_O0, two_pow re-initialised in id2iso_kernel_dlogs_to_ideal_two, prod_bad_primes in find_uv; repair: notes/patches/C19-fix-gmp-finalize.diff)"
                      % (sign_cp[-1] - sign_cp[-2]), dict(ops=ops, gmp_live_blocks_after_each_sign=sign_cp))
    ctx.coverage["gmp_live_blocks_after_each_sign"] = sign_cp


def sanitizer_run(ctx):
    try:
        b = ctx.build_repo("ref", san=True, targets=["sqisign_sqisigndim2_lvl1", "sqisign_common_test"])
        exe = ctx.cc_harness(os.path.join(HARNESS, "drv_api.c"), os.path.join(ctx.tmp, "drv_api_san"), 1, san=True, build=b, extra=["-I" + HARNESS] + WRAP)
    except vlib.BuildError as e:
        ctx.obligation("ASan/UBSan build", False, str(e)[-400:]); return
    rng = ctx.rng.fork("c19san")
    for ops in (["seed 01", "init 0", "siginit 0", "keygen 0", "sign 0 0 aabb", "verify 0 0 aabb", "fin 0", "sigfin 0"],      # fixed replay of the listed finding
                ["seed %096x" % rng.bits(380), "init 0", "siginit 0", "keygen 0", "sign 0 0 %064x" % rng.bits(250), "verify 0 0 00", "fin 0", "sigfin 0"]):
        sanitizer_one(ctx, exe, ops)


def sanitizer_one(ctx, exe, ops):
    rc, out, err = vlib.run_c([exe], ops)
    ctx.case("sanitizers:" + ops[0][:12])
    m = re.search(r"([A-Za-z0-9_/\.\-]+\.[ch]):(\d+):\d+: runtime error: ([^\n]*)", err) or re.search(r"ERROR: AddressSanitizer: ([a-z\-]+)", err)
    if rc != 0 or m:
        what = m.group(0)[:200] if m else "rc=%d" % rc
        fn = re.search(r"#0 0x[0-9a-f]+ in ([A-Za-z0-9_]+)", err)
        if "shift exponent 64" in err and fn and fn.group(1) == "ibz_rand_interval":
            key = K_UB_RAND
        else:
            key = "c19:sanitizer:%s:%s" % (fn.group(1) if fn else "?", (m.group(3)[:40] if m and m.lastindex and m.lastindex >= 3 else what[:40]))
        ctx.violation(key, "undefined behaviour / invalid memory access on the honest keygen-sign-verify path: " + what,
                      dict(ops=ops, op_reached=ops[min(len(out), len(ops)) - 1] if out else ops[0], report=err[-1500:], how="ASan+UBSan build, drv_api level 1"))
    ctx.coverage["sanitizer_ops_completed"] = len(out)


def run(ctx):
    ctx.trusted += ["tools/translate/globals.py (lexical enumeration of static objects; all preprocessor branches scanned, hook regions excluded)",
                    "tools/harness/drv_api.c heap ledger (ld --wrap on the statically linked library + mp_set_memory_functions)",
                    "abstract semantics `Sem` of keygen/sign/verify is not refined to the arithmetic (determinism of the real code is observed by transcripts)"]
    ctx.assumptions += ["deterministic DRBG libsqisign_common_test.a (AES-CTR-DRBG) seeded by `randombytes_init`",
                        "variant sqisigndim2, level 1 in the quick tier (levels 3, 5 in thorough)"]
    new_static = []

    def searcher():
        add, rem = search_new_static(ctx)
        new_static.extend(add)
        return None
    ok = vlib.proof_stage(ctx, ["SqiProps.C19"], searcher=searcher)
    if not ok and new_static:
        ctx.log("new static objects not in the audited list:", new_static)
    levels = [1] if ctx.quick else [1, 3]
    for lvl in levels:
        exe = ctx.cc_harness(os.path.join(HARNESS, "drv_api.c"), os.path.join(ctx.tmp, "drv_api_l%d" % lvl), lvl, extra=["-I" + HARNESS] + WRAP)
        nb = len(ctx.violations)
        harness(ctx, exe)
        ctx.obligation("transcripts: fresh process = second process = after history = interleaved keys (level %d)" % lvl,
                       not [v for v in ctx.violations[nb:] if v["key"].startswith("c19:")], "")
    if not ok and new_static:
        # a dependence on the new static was observed by the harness -> attach the object to that violation; else report it
        dep = [v for v in ctx.violations if v["key"].startswith("c19:output") or v["key"].startswith("c19:nondet")]
        for v in ctx.violations:
            if v["key"].startswith("lake:"):
                v["replay"]["new_static_objects"] = new_static
                if dep:
                    ctx.violations.remove(v)      # the concrete failing history is reported instead
                    dep[0]["replay"]["broken_obligations"] = ["globals_are_audited"]
                    dep[0]["replay"]["new_static_objects"] = new_static
                break
    sanitizer_run(ctx)
    if not ctx.quick:
        vg = os.path.join(ctx.tmp, "drv_api_l1")
        rc, out = vlib.sh(["valgrind", "-q", "--error-exitcode=9", "--leak-check=no", vg], inp=b"seed 01\ninit 0\nsiginit 0\nkeygen 0\nsign 0 0 aa\nverify 0 0 aa\n", timeout=1500)
        ctx.case("valgrind")
        if rc == 9:
            ctx.violation("c19:valgrind:" + (re.search(r"==\d+== ([A-Z][^\n]{0,60})", out) or [None, "error"])[1], "valgrind memcheck reports an invalid or uninitialised access on the honest path", dict(report=out[-2000:]))
    return dict(level="proof", rule="one case = one history / checkpoint: transcripts compared across fresh process, second process, after-history, 3 interleavings; "
                "per-operation heap ledger vs model; sanitizer run")

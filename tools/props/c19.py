"""C19 — clean resource behaviour: deterministic, leak-free, no hidden state.

Proof stage: SqiProps.C19 (ledger state machine: live_bounded for the repaired allocation behaviour, exact leak formula /
linear growth / unboundedness for the pinned one; outputs independent of ledger, audited globals and interleaving with
other keys; `globals_are_audited`: the list of static objects regenerated from the sources equals the allow-list).
Tie T: tools/translate/globals.py -> SqiGen/Globals.lean on every run.
Tie H: tools/harness/drv_api.c runs init/finalize/keygen/sign/verify of the real library under a heap ledger
(--wrap=malloc/free + mp_set_memory_functions, deterministic DRBG): (a) transcripts in a fresh process vs after histories vs
interleaved keys vs a second process; (b) per-operation leaked blocks compared with the ledger model (every leaked malloc
block must be a theta `steps` array; the run of the Lean model on the observed chain lengths must predict the live bytes);
(c) growth of live memory over k signatures; (d) ASan+UBSan on the honest path (valgrind in thorough); (e) the same signature /
public-key objects verified repeatedly and interleaved with another key (A, A, B, A, B, A-wrong-message, A): verdicts must repeat and
the objects must be bit-identical before/after each verification (deep image incl. the A24 cache and its flag); (f) failure / retry
paths: the library's failure-injection hook H2 (find_uv, fixed_degree_isogeny, represent_integer, represent_integer_non_diag) and the
corpus of DRBG seeds whose first find_uv box fails: live GMP blocks must not grow over identical rounds.
Tie T (2): tools/translate/retpaths.py -> SqiGen/ReturnPaths.lean (lexical init/finalize balance of every return; theorem
return_paths_audited)."""
import hashlib, json, os, re
import vlib

HARNESS = os.path.join(vlib.ROOT, "tools", "harness")
WRAP = ["-Wl,--wrap=malloc", "-Wl,--wrap=free", "-Wl,--wrap=calloc", "-Wl,--wrap=realloc"]
K_THETA = "leak:theta_chain_t.steps:malloc-in-theta_chain_comput_*:never-freed"
K_GMP_SIGN = "leak:protocols_sign:gmp-integers-not-cleared"
K_UB_RAND = "ub:honest-sign:ibz_rand_interval:shift-exponent-64"
K_RETRY = "leak:retry-path:%s:gmp-integers-not-cleared"


def split(res):
    """'tag fields | leak n sizes' -> (fields, [sizes])"""
    if " | leak " in res:
        a, b = res.split(" | leak ")
        ws = b.split()
        return a, [int(x, 16) for x in ws[1:]]
    return res, []


def run_api(exe, ops, env=None):
    rc, out, err = vlib.run_c([exe], ops, env=env)
    return rc, out, err


def search_new_static(ctx):
    """globals_are_audited failed: name the new object; then the harness looks for an observable dependence"""
    try:
        import importlib, sys
        sys.path.insert(0, os.path.join(vlib.ROOT, "tools", "translate"))
        g = importlib.import_module("globals")
        cur = set(g.scan(vlib.REPO))
        txt = open(os.path.join(vlib.LEAN, "SqiProps", "C19.lean")).read()
        allow = set(re.findall(r'\("([^"]+)", "([^"]+)", "([^"]+)"\)', txt))
        new = sorted(cur - allow)
        try:
            rp = importlib.import_module("retpaths")
            curr = set((a, b, str(c), d) for a, b, c, d in rp.scan(vlib.REPO))
            allowr = set(re.findall(r'\("([^"]+)", "([^"]+)", (\d+), "([^"]*)"\)', txt))
            new += [("unbalanced-return",) + x for x in sorted(curr - allowr)]
        except Exception:      # noqa
            pass
        return new, sorted(allow - cur)
    except Exception as e:      # noqa
        return [], []


def harness(ctx, exe, step_bytes_expected=None):
    rng = ctx.rng.fork("c19")
    S1 = "%096x" % rng.bits(380)
    S2 = "%096x" % rng.bits(380)
    m1 = "%064x" % rng.bits(250)
    m2 = "%064x" % rng.bits(250)
    found = []

    def out_only(lines):
        return [split(l)[0] for l in lines]

    # (A) fresh process
    A = ["seed " + S1, "init 0", "siginit 0", "keygen 0", "sign 0 0 " + m1, "verify 0 0 " + m1, "verify 0 0 " + m2]
    rcA, oA, eA = run_api(exe, A)
    if len(oA) != len(A) + 1:
        ctx.violation("c19:honest-path-crash", "keygen/sign/verify crashed on the honest path", dict(ops=A, rc=rcA, stderr=eA[-1500:]))
        return
    step = int(oA[0].split()[1], 16)
    ctx.coverage["sizeof_theta_isogeny_t"] = step
    TA = out_only(oA[1:])
    ctx.case("fresh")
    if not TA[3].startswith("pk") or TA[4].split()[1] != "1" or not TA[5].startswith("ver 1") or not TA[6].startswith("ver 0"):
        ctx.violation("c19:honest-path-wrong", "honest keygen/sign/verify did not return (sig ok, verify 1, verify-other-message 0)", dict(ops=A, out=TA))
    ctx.sample(dict(run="fresh", pk=TA[3][:60] + "…", sig=TA[4][:60] + "…"))
    # (D) second process, identical input -> identical transcript incl. ledger numbers
    rcD, oD, eD = run_api(exe, A)
    ctx.case("second-process")
    if oD != oA:
        i = next(i for i in range(min(len(oA), len(oD))) if oA[i] != oD[i])
        ctx.violation("c19:nondeterministic-across-processes", "two processes with the same seed and calls produce different results",
                      dict(ops=A, first_difference=dict(op=A[i - 1] if i else "banner", run1=oA[i][:300], run2=oD[i][:300])))
    # (B) after a history on other objects and on the same objects
    hist = ["seed " + S2, "init 0", "init 1", "siginit 0", "siginit 1", "keygen 1", "sign 1 1 " + m2, "verify 1 1 " + m2, "keygen 0", "sign 0 1 " + m2,
            "keygen 0", "verify 0 1 " + m1]
    B = hist + ["seed " + S1, "keygen 0", "sign 0 0 " + m1, "verify 0 0 " + m1, "verify 0 0 " + m2]
    rcB, oB, eB = run_api(exe, B)
    ctx.case("after-history")
    TB = out_only(oB[1:])
    if len(TB) != len(B) or TB[-4:] != TA[-4:]:
        k = next((j for j in range(1, 5) if len(TB) < j or TB[-j] != TA[-j]), 1)
        ctx.violation("c19:output-depends-on-history", "results after a history of previous operations differ from the fresh-process results for the same seed and arguments",
                      dict(fresh_ops=A, history_ops=B, differing_op=B[-k] if len(TB) >= k else "crash", fresh=TA[-k][:300], after_history=(TB[-k][:300] if len(TB) >= k else eB[-500:]),
                           how="feed the two op lists to drv_api (level 1, sqisigndim2) and compare the result lines before '|'"))
    # (C) interleaving of keys with per-operation reseeding
    s = ["%096x" % rng.bits(380) for _ in range(6)]
    blocks = {"k0": ["seed " + s[0], "keygen 0"], "k1": ["seed " + s[1], "keygen 1"], "s0": ["seed " + s[2], "sign 0 0 " + m1],
              "s1": ["seed " + s[3], "sign 1 1 " + m2], "v0": ["verify 0 0 " + m1], "v1": ["verify 1 1 " + m2]}
    pre = ["init 0", "init 1", "siginit 0", "siginit 1"]
    orders = [["k0", "s0", "v0", "k1", "s1", "v1"], ["k1", "k0", "s1", "s0", "v1", "v0"], ["k0", "k1", "s0", "v0", "s1", "v1"]]
    per = []
    for od in orders:
        ops = pre + sum((blocks[b] for b in od), [])
        rc, o, e = run_api(exe, ops)
        T = out_only(o[1:])
        res = {}
        i = len(pre)
        for b in od:
            res[b] = T[i + len(blocks[b]) - 1] if i + len(blocks[b]) - 1 < len(T) else "<crash>"
            i += len(blocks[b])
        per.append((od, ops, res))
        ctx.case("interleave:" + ",".join(od))
    for od, ops, res in per[1:]:
        for b in res:
            if res[b] != per[0][2][b]:
                ctx.violation("c19:output-depends-on-interleaving", "an operation re-seeded with the same seed gives a different result when operations on another key are interleaved",
                              dict(order1=per[0][1], order2=ops, block=blocks[b], result1=per[0][2][b][:300], result2=res[b][:300]))
                break
    # (F) repeated verification of the same objects, interleaved with another key: A, A, B, A, B — verification must not write to
    #     its inputs (deep image before/after, computed by the driver) and the verdict must not depend on the history
    F_ops = ["seed " + S1, "init 0", "init 1", "siginit 0", "siginit 1", "keygen 0", "sign 0 0 " + m1, "keygen 1", "sign 1 1 " + m2]
    seq = [("A", "verify 0 0 " + m1), ("A", "verify 0 0 " + m1), ("B", "verify 1 1 " + m2), ("A", "verify 0 0 " + m1), ("B", "verify 1 1 " + m2),
           ("A-wrong-msg", "verify 0 0 " + m2), ("A", "verify 0 0 " + m1)]
    rcF, oF, eF = run_api(exe, F_ops + [q for _, q in seq])
    TF = out_only(oF[1:])[len(F_ops):]
    for i, (who, q) in enumerate(seq):
        ctx.case("repeat-verify:%d:%s" % (i, who))
        r = TF[i] if i < len(TF) else "<crash>"
        want = "ver 0" if who.endswith("wrong-msg") else "ver 1"
        repF = dict(ops=F_ops + [x for _, x in seq[:i + 1]], result=r, how="drv_api level 1 (sqisigndim2): feed the ops; the last line must be `%s img same`" % want)
        if "img changed" in r:
            ctx.violation("c19:verify-writes-to-its-inputs", "protocols_verif modifies the signature / public-key object it is given (hidden state in the caller's object)", repF)
        if not r.startswith(want):
            ctx.violation("c19:verdict-depends-on-history", "verifying the same (pk, message, signature) objects again gives a different verdict: the result of verification depends on previous calls", repF)
            break
    # (G) failure / retry paths must be leak-free: same seed and same objects three times under each failure injection (hook H2) and for the
    #     DRBG seeds of the corpus whose first find_uv box fails; the number of live GMP blocks must not grow from round 2 to round 3
    def demo_seed(n):
        e = bytearray((i * 17 + 3) & 0xff for i in range(48)); e[0:8] = n.to_bytes(8, "little"); return e.hex()
    scen = [("none", S1, None), ("find_uv:1", S1, "find_uv"), ("fixed_degree_isogeny:1", S1, "fixed_degree_isogeny"),
            ("represent_integer:1", S1, "represent_integer"), ("represent_integer_non_diag:1", S1, "represent_integer_non_diag"),
            ("corpus-seed-120(find_uv retry in sign)", demo_seed(120), None), ("corpus-seed-3673(find_uv retry in keygen)", demo_seed(3673), None)]
    if not ctx.quick:
        scen += [("corpus-seed-%d" % n, demo_seed(n), None) for n in (1289, 1591, 2203, 3197)] + [("find_uv:2", S1, "find_uv"), ("fixed_degree_isogeny:2", S1, "fixed_degree_isogeny")]
    retry = {}
    for name, sd, site in scen:
        ops = ["init 0", "siginit 0"]
        for r in range(3):
            if site:
                k = name.split(":")[1]
                ops.append("h2 %s:%s%s" % (site, k, ["", "-" + k, "-" + k + "-"][r]))      # three spellings = three re-armings of the counter
            ops += ["seed " + sd, "keygen 0", "sign 0 0 " + m1, "verify 0 0 " + m1, "live"]
        ops += ["h2 off"]
        rcG, oG, eG = run_api(exe, ops)
        ctx.case("retry-path:" + name)
        lives = [int(x.split()[4], 16) for q, x in zip(ops, oG[1:]) if q == "live"]
        fired = eG.count("verif-h2: fired")
        retry[name] = dict(gmp_blocks=lives, h2_fired=fired)
        if len(lives) < 3:
            ctx.violation("c19:retry-path-crash:" + name.split(":")[0], "keygen/sign crashed on a failure / retry path", dict(ops=ops, stderr=eG[-800:])); continue
        if lives[2] > lives[1]:
            key = K_RETRY % name.split(":")[0].split("(")[0]
            ctx.violation(key, "a failure / retry path of keygen-sign leaves GMP integers allocated: live GMP blocks after rounds 1,2,3 of the same seed on the same objects = %s (scenario %s)" % (lives, name),
                          dict(ops=ops, gmp_live_blocks=lives, h2_fired=fired, how="drv_api level 1: feed the ops, read the 4th number of each `live` line"))
    ctx.coverage["retry_paths"] = retry
    ctx.obligation("failure / retry paths are leak-free (H2 injection at 4 sites + seed corpus: live GMP blocks constant over identical rounds)",
                   all(len(v["gmp_blocks"]) >= 3 and v["gmp_blocks"][2] <= v["gmp_blocks"][1] for v in retry.values()), json.dumps({k: v["gmp_blocks"] for k, v in retry.items()})[:500])
    # (E) ledger: k signatures on the same objects
    K = 3 if ctx.quick else 12
    ops = ["seed " + S1, "init 0", "siginit 0", "keygen 0", "live"]
    for i in range(K):
        ops += ["sign 0 0 " + m1, "live", "verify 0 0 " + m1, "live"]
    ops += ["keygen 0", "live", "keygen 0", "live", "fin 0", "sigfin 0", "live"]
    rc, o, e = run_api(exe, ops)
    o = o[1:]
    live = None; theta_total = 0; bad_blocks = []; gmp_blocks_after_sign = []; gmp_blocks_after_keygen = []
    model_ops = []
    growth = []
    for opl, res in zip(ops, o):
        if opl == "live":
            ws = res.split()
            new = (int(ws[1], 16), int(ws[2], 16), int(ws[3], 16), int(ws[4], 16))
            live = new
            growth.append(new[0])
            continue
        fields, leaks = split(res)
        if opl.split()[0] in ("keygen", "sign", "verify"):
            ctx.case("ledger:" + opl.split()[0] + ":%d" % len(model_ops))
            chains = []
            for sz in leaks:
                if step and sz % step == 0:
                    chains.append(sz // step + 1); theta_total += sz
                else:
                    bad_blocks.append((opl, sz))
            model_ops.append((opl.split()[0], chains, sum(leaks)))
    ctx.coverage["live_malloc_bytes_after_each_checkpoint"] = growth
    ctx.coverage["leaked_theta_bytes_total"] = theta_total
    if bad_blocks:
        opl, sz = bad_blocks[0]
        ctx.violation("c19:leak:%s:block-of-%d-bytes" % (opl.split()[0], sz), "a heap block that is not a theta `steps` array is still allocated when the operation returns (memory grows with the number of operations)",
                      dict(ops=ops[:ops.index(opl) + 1] if opl in ops else ops, leaked_blocks=[b[1] for b in bad_blocks][:10], how="drv_api level 1: feed ops, read the `| leak` part"))
    if theta_total > 0:
        per_sign = [m[2] for m in model_ops if m[0] == "sign"]
        ctx.violation(K_THETA, "a theta chain's `steps` array (malloc in theta_chain_comput_*) is still allocated when keygen / sign / verify return: a theta_chain_finalize is missing; live heap grows with "
                      "the number of operations (%s bytes over %d signatures; model of a reverted fix: live_unbounded_current)" % (sum(per_sign), len(per_sign)),
                      dict(ops=ops, leaked_bytes_per_op=[(m[0], m[2]) for m in model_ops], chain_lengths=[(m[0], m[1]) for m in model_ops],
                           how="drv_api level 1: feed the ops, read the `| leak` part of each keygen/sign/verify line"))
    # model of the current code (leaky = false, theorem live_bounded): no malloc block allocated during an operation survives it
    ctx.obligation("ledger model of the current code: no heap block allocated by keygen / sign / verify survives the call (live_bounded)",
                   theta_total == 0 and not bad_blocks, "theta=%d other=%s" % (theta_total, bad_blocks[:3]))
    # final checkpoint after finalize: only leaked theta blocks may remain
    if live is not None and live[0] != theta_total:
        ctx.violation("c19:leak:objects-not-released-by-finalize", "after finalize of every object the live malloc bytes differ from the leaked theta blocks",
                      dict(ops=ops, live_malloc_bytes=live[0], theta_bytes=theta_total))
    # GMP integers: block count must not grow from one signature to the next on the same objects
    gl = [int(r.split()[4], 16) for opl, r in zip(ops, o) if opl == "live"]
    # checkpoints: [after keygen] then (after sign, after verify) * K ...
    sign_cp = gl[1:1 + 2 * K:2]
    if len(sign_cp) >= 3 and sign_cp[-1] > sign_cp[-2] > sign_cp[-3]:
        ctx.violation(K_GMP_SIGN, "GMP integers allocated below protocols_sign are never cleared: +%d live GMP blocks per signature on the same objects (after fix 32f0c08: 13 at level 1 — ibz_t tmp in endomorphism_application_even_basis, disc in sampling_random_ideal_O0, two_pow re-initialised in id2iso_kernel_dlogs_to_ideal_two, prod_bad_primes in find_uv; repair: notes/patches/C19-fix-gmp-finalize.diff)"
                      % (sign_cp[-1] - sign_cp[-2]), dict(ops=ops, gmp_live_blocks_after_each_sign=sign_cp))
    ctx.coverage["gmp_live_blocks_after_each_sign"] = sign_cp


def variants_growth(ctx):
    """every protocol variant (sqisigndim2, heuristic, hd) and level: live malloc bytes / blocks and GMP blocks after k rounds of
    keygen + sign (+ verify) on the same objects must not depend on k, and must be 0 after finalizing the objects"""
    W = list(WRAP)
    plan = [(1, ["1", "3"])] if ctx.quick else [(1, ["1", "5", "20"]), (3, ["1", "5", "20"]), (5, ["1", "5", "20"])]
    b = ctx.build_repo("ref")
    allv = ("sqisigndim2_lvl", "sqisigndim2_heuristic_lvl", "sqisignhd_lvl")
    res = {}
    for variant, hdr, hv in (("sqisigndim2", "<sqisigndim2.h>", 1), ("sqisigndim2_heuristic", "<sqisigndim2_heuristic.h>", 1), ("sqisignhd", "<sqisignhd.h>", 0)):
        for lvl, ks in plan:
            orig = ctx.libs
            ctx.libs = lambda bb, ll, common="test", _o=orig, _v=variant: [x for x in _o(bb, ll, common)
                                                                          if not any(("libsqisign_" + a) in os.path.basename(x) for a in allv) or os.path.basename(x).startswith("libsqisign_%s_lvl" % _v)]
            try:
                exe = ctx.cc_harness(os.path.join(HARNESS, "drv_leak.c"), os.path.join(ctx.tmp, "drv_leak_%s_%d" % (variant, lvl)), lvl, build=b, variant=variant,
                                     extra=W + ["-DVARIANT_HEADER=%s" % hdr, "-DHAS_VERIF=%d" % hv])
            finally:
                ctx.libs = orig
            rc, out, err = vlib.run_c([exe] + ks, [], timeout=3000)
            ctx.case("growth:%s:L%d" % (variant, lvl))
            rows = [o.split() for o in out]
            nums = [tuple(int(x) for x in r[1:4]) for r in rows if r and r[0] != "end"]
            end = [tuple(int(x) for x in r[1:4]) for r in rows if r and r[0] == "end"]
            res["%s:L%d" % (variant, lvl)] = dict(after_k=dict(zip(ks, nums)), end=end[:1])
            rep = dict(variant=variant, level=lvl, rounds=ks, output=out, stderr=err[-500:],
                       how="compile tools/harness/drv_leak.c against lib %s level %d with -Wl,--wrap=malloc,free,calloc,realloc; run `drv_leak %s`" % (variant, lvl, " ".join(ks)))
            if rc != 0 or len(nums) != len(ks) or not end:
                ctx.violation("c19:growth-run-crash:%s:L%d" % (variant, lvl), "keygen/sign/verify loop crashed", rep); continue
            if any(n != nums[0] for n in nums):
                ctx.violation("c19:live-memory-grows:%s" % variant, "live heap (malloc bytes, malloc blocks, GMP blocks) after k operations on the same objects depends on k: %s" % dict(zip(ks, nums)), rep)
            if end[0] != (0, 0, 0):
                ctx.violation("c19:memory-left-after-finalize:%s" % variant, "heap blocks remain allocated after every object was finalised: %s" % (end[0],), rep)
    ctx.coverage["variants_growth"] = res


def sanitizer_run(ctx):
    try:
        b = ctx.build_repo("ref", san=True, targets=["sqisign_sqisigndim2_lvl1", "sqisign_common_test"])
        exe = ctx.cc_harness(os.path.join(HARNESS, "drv_api.c"), os.path.join(ctx.tmp, "drv_api_san"), 1, san=True, build=b, extra=["-I" + HARNESS] + WRAP)
    except vlib.BuildError as e:
        ctx.obligation("ASan/UBSan build", False, str(e)[-400:]); return
    rng = ctx.rng.fork("c19san")
    for ops in (["seed 01", "init 0", "siginit 0", "keygen 0", "sign 0 0 aabb", "verify 0 0 aabb", "fin 0", "sigfin 0"],      # fixed replay of the listed finding
                ["seed %096x" % rng.bits(380), "init 0", "siginit 0", "keygen 0", "sign 0 0 %064x" % rng.bits(250), "verify 0 0 00", "fin 0", "sigfin 0"]):
        sanitizer_one(ctx, exe, ops)


def sanitizer_one(ctx, exe, ops):
    rc, out, err = vlib.run_c([exe], ops)
    ctx.case("sanitizers:" + ops[0][:12])
    m = re.search(r"([A-Za-z0-9_/\.\-]+\.[ch]):(\d+):\d+: runtime error: ([^\n]*)", err) or re.search(r"ERROR: AddressSanitizer: ([a-z\-]+)", err)
    if rc != 0 or m:
        what = m.group(0)[:200] if m else "rc=%d" % rc
        fn = re.search(r"#0 0x[0-9a-f]+ in ([A-Za-z0-9_]+)", err)
        if "shift exponent 64" in err and fn and fn.group(1) == "ibz_rand_interval":
            key = K_UB_RAND
        else:
            key = "c19:sanitizer:%s:%s" % (fn.group(1) if fn else "?", (m.group(3)[:40] if m and m.lastindex and m.lastindex >= 3 else what[:40]))
        ctx.violation(key, "undefined behaviour / invalid memory access on the honest keygen-sign-verify path: " + what,
                      dict(ops=ops, op_reached=ops[min(len(out), len(ops)) - 1] if out else ops[0], report=err[-1500:], how="ASan+UBSan build, drv_api level 1"))
    ctx.coverage["sanitizer_ops_completed"] = len(out)


def run(ctx):
    ctx.trusted += ["tools/translate/globals.py (lexical enumeration of static objects; all preprocessor branches scanned, hook regions excluded)",
                    "tools/harness/drv_api.c heap ledger (ld --wrap on the statically linked library + mp_set_memory_functions)",
                    "abstract semantics `Sem` of keygen/sign/verify is not refined to the arithmetic (determinism of the real code is observed by transcripts)"]
    ctx.assumptions += ["deterministic DRBG libsqisign_common_test.a (AES-CTR-DRBG) seeded by `randombytes_init`",
                        "variant sqisigndim2, level 1 in the quick tier (levels 3, 5 in thorough)"]
    new_static = []

    def searcher():
        add, rem = search_new_static(ctx)
        new_static.extend(add)
        return None
    ok = vlib.proof_stage(ctx, ["SqiProps.C19"], searcher=searcher)
    if not ok and new_static:
        ctx.log("new static objects not in the audited list:", new_static)
    levels = [1] if ctx.quick else [1, 3]
    for lvl in levels:
        exe = ctx.cc_harness(os.path.join(HARNESS, "drv_api.c"), os.path.join(ctx.tmp, "drv_api_l%d" % lvl), lvl, extra=["-I" + HARNESS] + WRAP)
        nb = len(ctx.violations)
        harness(ctx, exe)
        ctx.obligation("transcripts: fresh process = second process = after history = interleaved keys (level %d)" % lvl,
                       not [v for v in ctx.violations[nb:] if v["key"].startswith("c19:")], "")
    if not ok and new_static:
        # a dependence on the new static was observed by the harness -> attach the object to that violation; else report it
        dep = [v for v in ctx.violations if v["key"].startswith(("c19:output", "c19:nondet", "c19:verify", "c19:verdict", "leak:", "c19:leak", "c19:live", "c19:memory"))]
        for v in ctx.violations:
            if v["key"].startswith("lake:"):
                v["replay"]["new_static_objects"] = new_static
                if dep:
                    ctx.violations.remove(v)      # the concrete failing history is reported instead
                    dep[0]["replay"]["broken_obligations"] = ["globals_are_audited"]
                    dep[0]["replay"]["new_static_objects"] = new_static
                break
    nbv = len(ctx.violations)
    variants_growth(ctx)
    ctx.obligation("live heap independent of the number of operations, 0 after finalize (3 variants%s)" % ("" if ctx.quick else " x 3 levels, k = 1, 5, 20"), len(ctx.violations) == nbv, "")
    sanitizer_run(ctx)
    if not ctx.quick:
        vg = os.path.join(ctx.tmp, "drv_api_l1")
        rc, out = vlib.sh(["valgrind", "-q", "--error-exitcode=9", "--leak-check=no", vg], inp=b"seed 01\ninit 0\nsiginit 0\nkeygen 0\nsign 0 0 aa\nverify 0 0 aa\n", timeout=1500)
        ctx.case("valgrind")
        if rc == 9:
            ctx.violation("c19:valgrind:" + (re.search(r"==\d+== ([A-Z][^\n]{0,60})", out) or [None, "error"])[1], "valgrind memcheck reports an invalid or uninitialised access on the honest path", dict(report=out[-2000:]))
    return dict(level="proof", rule="one case = one history / checkpoint: transcripts compared across fresh process, second process, after-history, 3 interleavings; "
                "per-operation heap ledger vs model; sanitizer run")

"""C20 — hashing and randomness plumbing conform to their standards.

Ties:  T  tools/translate/keccak.py regenerates SqiGen/Keccak.lean (permutation, round constants, rates, domain
          bytes) from fips202.c; `keccakF_gen_eq_spec` & co. are re-checked against it.
       H  tools/harness/drv_hash.c runs the real fips202.c / aes_c.c / randombytes_ctrdrbg.c / mem.c /
          hash_to_challenge (each of the three variants) against the hand models through the Lean driver.
Violation search / classification oracle: python3 hashlib.shake_128/256 and a pure-Python AES-256 CTR-DRBG
written from SP 800-90A / FIPS 197 below (independent of both the C code and the Lean model)."""
import hashlib, json, os, subprocess
import vlib

HERE = os.path.dirname(os.path.abspath(__file__))
HARNESS = os.path.join(os.path.dirname(HERE), "harness", "drv_hash.c")
RATE = {128: 168, 256: 136}
VARIANTS = ["sqisigndim2", "sqisigndim2_heuristic", "sqisignhd"]


# ------------------------------------------------------------------ independent oracles
def shake(v, msg, n):
    h = hashlib.shake_128(msg) if v == 128 else hashlib.shake_256(msg)
    return h.digest(n) if n else b""


def _xt(b):
    return ((b << 1) ^ (0x1B if b & 0x80 else 0)) & 0xFF


def _gmul(a, b):
    r = 0
    for _ in range(8):
        if b & 1:
            r ^= a
        a = _xt(a); b >>= 1
    return r


def _sbox_table():
    t = []
    for a in range(256):
        inv = 0
        if a:
            for c in range(1, 256):
                if _gmul(a, c) == 1:
                    inv = c; break
        r = inv
        for k in (1, 2, 3, 4):
            r ^= ((inv << k) | (inv >> (8 - k))) & 0xFF
        t.append(r ^ 0x63)
    return t


_SB = None


def aes256(key, blk):
    """FIPS 197 cipher, Nk = 8, Nr = 14 (pure Python)"""
    global _SB
    if _SB is None:
        _SB = _sbox_table()
    w = [list(key[4 * i:4 * i + 4]) for i in range(8)]
    rc = 1
    for i in range(8, 60):
        t = list(w[i - 1])
        if i % 8 == 0:
            t = [_SB[x] for x in t[1:] + t[:1]]; t[0] ^= rc; rc = _xt(rc)
        elif i % 8 == 4:
            t = [_SB[x] for x in t]
        w.append([a ^ b for a, b in zip(w[i - 8], t)])
    rk = lambda r: sum(w[4 * r:4 * r + 4], [])
    s = [a ^ b for a, b in zip(blk, rk(0))]
    for r in range(1, 15):
        s = [_SB[x] for x in s]
        s = [s[(i % 4) + 4 * ((i // 4 + i % 4) % 4)] for i in range(16)]
        if r < 14:
            o = []
            for c in range(4):
                a = s[4 * c:4 * c + 4]
                o += [_xt(a[0]) ^ _xt(a[1]) ^ a[1] ^ a[2] ^ a[3], a[0] ^ _xt(a[1]) ^ _xt(a[2]) ^ a[2] ^ a[3],
                      a[0] ^ a[1] ^ _xt(a[2]) ^ _xt(a[3]) ^ a[3], _xt(a[0]) ^ a[0] ^ a[1] ^ a[2] ^ _xt(a[3])]
            s = o
        s = [a ^ b for a, b in zip(s, rk(r))]
    return bytes(s)


class PyDrbg:
    """SP 800-90A CTR_DRBG(AES-256), no df, V an integer mod 2^128"""

    def __init__(self, seed, pers=None):
        sm = bytes(a ^ b for a, b in zip(seed, pers or bytes(48)))
        self.k, self.v, self.c = bytes(32), 0, 1
        self._upd(sm)

    def _blk(self):
        self.v = (self.v + 1) % 2**128
        return aes256(self.k, self.v.to_bytes(16, "big"))

    def _upd(self, pd):
        t = b"".join(self._blk() for _ in range(3))
        t = bytes(a ^ b for a, b in zip(t, pd))
        self.k, self.v = t[:32], int.from_bytes(t[32:48], "big")

    def gen(self, n):
        t = b""
        while len(t) < n:
            t += self._blk()
        self._upd(bytes(48)); self.c += 1
        return t[:n]


def hx(b):
    return b.hex() if b else "-"


def unhx(s):
    return b"" if s == "-" else bytes.fromhex(s)


def correspond(ctx, name, lines, cmd, model_lines=None):
    """vlib.correspond + guard: an op that both sides reject (`bad-op`) would agree silently"""
    dis = vlib.correspond(ctx, name, lines, cmd, model_lines=model_lines)
    mout = ctx.driver((model_lines if model_lines is not None else lines)[:50])
    nbad = sum(1 for o in mout if "bad-op" in o)
    ctx.obligation("driver protocol accepted the ops of: " + name, nbad == 0, "%d bad-op results" % nbad)
    if nbad:
        raise vlib.BuildError("check bug: model driver rejected %d ops of %s" % (nbad, name))
    return dis


# ------------------------------------------------------------------ builds
def compile_drv(ctx, b, out, lvl=1, opt="-O1", variant=None, static_perm=False, wrap_free=False, static_aes=False):
    cmd = ["gcc", opt, "-g", "-std=gnu11", "-DRADIX_64", "-DTARGET_AMD64", "-DTARGET_OS_UNIX", "-DNDEBUG",
           "-D%s" % vlib.GUARD]
    cmd += ["-I" + i for i in ctx.includes(lvl, "ref", variant or "sqisigndim2")]
    libs = []
    if static_perm:
        cmd += ["-DWITH_FIPS202_STATIC", '-DFIPS202_C="%s"' % os.path.join(vlib.REPO, "src/common/generic/fips202.c")]
    elif static_aes:
        cmd += ["-DWITH_AES_STATIC", '-DAES_C="%s"' % os.path.join(vlib.REPO, "src/common/generic/aes_c.c"), "-Wno-unused-function"]
    else:
        allv = ["libsqisign_%s_lvl%d.a" % (v, lvl) for v in VARIANTS]
        for l in ctx.libs(b, lvl, "test"):
            base = os.path.basename(l)
            if base in allv and (variant is None or base != "libsqisign_%s_lvl%d.a" % (variant, lvl)):
                continue        # exactly one sign.o (they all define hash_to_challenge)
            libs.append(l)
        if variant:
            cmd += ["-DWITH_H2C"]
    if wrap_free:
        cmd += ["-DWRAP_FREE", "-Wl,--wrap=free"]
    cmd += [HARNESS, "-o", out, "-Wl,--start-group"] + libs + ["-Wl,--end-group", "-lgmp", "-lm"]
    rc, o = vlib.sh(cmd)
    if rc != 0:
        raise vlib.BuildError("harness compile failed (%s):\n%s" % (" ".join(cmd[:6]), o[-3000:]))
    return out


# ------------------------------------------------------------------ generators
def rbytes(rng, n):
    return rng.bits(8 * n).to_bytes(n, "little") if n else b""


def chunking(rng, n):
    """random composition of n, including empty chunks and rate-aligned cuts"""
    out, left = [], n
    while left > 0:
        mode = rng.below(6)
        if mode == 0:
            k = 0
        elif mode == 1:
            k = min(left, rng.choice([1, 7, 8, 9, 135, 136, 137, 167, 168, 169, 272, 336]))
        elif mode == 2:
            k = left
        else:
            k = 1 + rng.below(min(left, 400))
        out.append(k); left -= k
    if rng.below(4) == 0:
        out.append(0)
    return out


def msg_lengths(ctx, quick):
    rng = ctx.rng.fork("lens")
    ls = set([0, 1, 2, 7, 8, 9, 63, 64, 65])
    for r in (136, 168):
        ls.update(range(r - 2, 2 * r + 3))
        ls.update([3 * r - 1, 3 * r, 3 * r + 1, 10 * r - 1, 10 * r, 10 * r + 1])
    ls.update([2**k for k in range(4, 17)] + [2**16 - 1, 2**16 - 136, 2**16 - 168])
    for _ in range(40 if quick else 400):
        ls.add(rng.below(2**16 + 1))
    for _ in range(60 if quick else 600):
        ls.add(rng.below(1200))
    return sorted(ls)


def out_lengths(rng, quick):
    ls = [0, 1, 2, 31, 32, 33, 64, 135, 136, 137, 167, 168, 169, 271, 272, 273, 335, 336, 337, 1000, 10**4]
    return ls + [rng.below(10**4 + 1) for _ in range(10 if quick else 60)]


# ------------------------------------------------------------------ the check
def run(ctx):
    quick = ctx.quick
    ctx.trusted += ["tools/translate/keccak.py (subset parser for KeccakF1600_StatePermute, constants, wrappers)",
                    "tools/harness/drv_hash.c + Lean driver (correspondence on generated inputs, this run)",
                    "gcc's compilation of fips202.c/aes_c.c/randombytes_ctrdrbg.c/mem.c (runtime behaviour observed, not proved)",
                    "little-endian host for `(void *)digits` in hash_to_challenge",
                    "AES: aes_c.c is tied to the Lean FIPS-197 spec by correspondence only"]
    ctx.assumptions += ["collision / preimage resistance of SHAKE256 (cryptographic assumption, not provable)",
                        "C08/C06 own j-invariant and fp2_encode canonicity; here only: equal j-encodings => equal challenge",
                        "secure_clear: that the compiler does not elide the store is a runtime fact, observed at -O2/-O3 only"]
    state = {}

    def searcher():
        return search(ctx, state)

    ok = vlib.proof_stage(ctx, ["SqiProps.C20"], searcher=searcher, extra_targets=["driver"])
    if not ok:
        # a translator refusal ends proof_stage before the violation search: run it here, so that the refusal is reported
        # together with a concrete failing input of the property whenever the real code has one
        tv = [v for v in ctx.violations if str(v["key"]).startswith("translator:")]
        if tv:
            res = search(ctx, state)
            if res:
                key, what, replay = res
                replay = dict(replay); replay["broken_obligations"] = [v["key"] for v in tv]
                ctx.violations = [v for v in ctx.violations if v not in tv]
                ctx.violation(key, what, replay, found=True)
    b = ctx.build_repo("ref", targets=None)
    state["build"] = b
    exe = os.path.join(ctx.tmp, "drv_hash")
    compile_drv(ctx, b, exe)
    state["exe"] = exe
    if not ok:
        # lake failed: the Lean driver may be stale/unbuildable; the search already ran against the real code.
        return dict(level="proof", rule=RULE)
    spec_kats(ctx)
    corr_perm(ctx, b)
    corr_shake(ctx, exe, quick)
    corr_inc(ctx, exe, quick)
    corr_drbg(ctx, exe, quick)
    corr_aes(ctx, exe, quick)
    corr_aesct(ctx, b, quick)
    corr_mem(ctx, b, quick)
    corr_h2c(ctx, b, quick)
    return dict(level="proof", rule=RULE,
                explanation="partial: AES internals and secure_clear's non-elision are tied by runtime observation only; "
                            "SHAKE collision resistance and C08's j-invariant canonicity are assumptions")


RULE = ("one case = one (function, input) pair fed to both the real C code and the Lean model/spec: "
        "a message x length x chunking for SHAKE, a seed x request-size sequence for the DRBG, "
        "a curve pair x rescaling x message for hash_to_challenge")


def classify(ctx, name, dis, oracle):
    """a correspondence disagreement: decide with the independent oracle whether the real code violates the
    property (VIOLATION with replay) or only the model is off (no-failing-input-found)"""
    for d in dis[:3]:
        verdict = oracle(d)
        key = "%s:%s" % (name, d["op"][:60])
        if verdict is not None:
            ctx.violation(key, verdict, dict(op=d["op"][:2000], impl=d["impl"][:600], model=d["model"][:600],
                                             how_to_replay="echo '<op>' | drv_hash (tools/harness/drv_hash.c linked against the working tree)"))
        else:
            ctx.violation(key, "model and implementation disagree but the independent oracle agrees with the implementation "
                          "(model no longer describes the code: property not shown)",
                          dict(op=d["op"][:2000], impl=d["impl"][:600], model=d["model"][:600]), found=False)


def spec_kats(ctx):
    """known-answer *tests* of the executable specifications through the driver (labelled tests, not theorems; the
    kernel-checked KATs are in SqiProofs/C20Kat.lean): NIST SHAKE example values (1600-bit message 0xA3 x 200), the
    CTR_DRBG KAT with seed bytes 0..47 (= seed of PQCgenKAT count 0), and agreement of the Lean specs with hashlib /
    the pure-Python DRBG on a few more inputs."""
    a3 = "a3" * 200
    lines = ["spec.shake 128 10 " + a3, "spec.shake 256 10 " + a3, "spec.shake 256 20 -",
             "spec.drbg %s - 30" % bytes(range(48)).hex()]
    want = ["131ab8d2b594946b9c81333f9bb6e0ce", "cd8a920ed141aa0407a22d59288652e9",
            "46b9dd2b0ba88d13233b3feb743eeb243fcd52ea62b81b82b50c27646ed5762f",
            "061550234d158c5ec95595fe04ef7a25767f2e24cc2bc479d09d86dc9abcfde7056a8c266f9ef97ed08541dbd2e1ffa1"]
    rng = ctx.rng.fork("speckat")
    for _ in range(12):
        v = rng.choice([128, 256]); m = rbytes(rng, rng.choice([0, 1, 135, 136, 137, 167, 168, 169, 400])); n = rng.choice([1, 32, 136, 168, 300])
        lines.append("spec.shake %d %x %s" % (v, n, hx(m))); want.append(hx(shake(v, m, n)))
    seed = rbytes(rng, 48); reqs = [0, 1, 15, 16, 17, 100]
    g = PyDrbg(seed); outs = [hx(g.gen(n)) for n in reqs]
    lines.append("spec.drbg %s - %s" % (seed.hex(), " ".join("%x" % n for n in reqs))); want.append("|".join(outs))
    out = ctx.driver(lines)
    bad = [dict(op=lines[i][:200], got=out[i][:200], want=want[i][:200]) for i in range(len(lines)) if not out[i].startswith(want[i])]
    ctx.evaluations += len(lines)
    ctx.obligation("specification KATs through the driver (NIST SHAKE examples, CTR_DRBG seed 0..47, hashlib agreement; %d)" % len(lines),
                   not bad, json.dumps(bad[:2])[:500])
    if bad:
        ctx.violation("speckat:" + bad[0]["op"][:40], "the Lean specification disagrees with a published known answer (check is unsound until fixed)",
                      bad[0], found=False)


def corr_perm(ctx, b):
    exe = compile_drv(ctx, b, os.path.join(ctx.tmp, "drv_perm"), static_perm=True)
    rng = ctx.rng.fork("perm")
    lines = ["hash.perm " + " ".join("0" for _ in range(25)),
             "hash.perm " + " ".join("ffffffffffffffff" for _ in range(25))]
    for i in range(25):
        for bit in (0, 63):
            lines.append("hash.perm " + " ".join("%x" % ((1 << bit) if j == i else 0) for j in range(25)))
    for _ in range(150):
        lines.append("hash.perm " + " ".join("%x" % rng.bits(64) for _ in range(25)))
    for l in lines:
        ctx.case("perm:" + hashlib.sha1(l.encode()).hexdigest()[:12])
    ctx.sample(dict(kind="perm", op=lines[2][:120]))
    dis = correspond(ctx, "KeccakF1600_StatePermute (static, via #include) vs SqiGen.Keccak.keccakF", lines, [exe])
    if dis:
        # no independent oracle for the bare permutation: hashlib decides through SHAKE below
        ctx.coverage["perm_disagreements"] = dis[:3]
        ctx.violation("perm:" + dis[0]["op"][:40], "generated permutation and compiled permutation disagree",
                      dict(op=dis[0]["op"], impl=dis[0]["impl"], model=dis[0]["model"]), found=False)


def shake_oracle(d):
    t = d["op"].split()
    v, n, m = int(t[1]), int(t[2], 16), unhx(t[3])
    want = hx(shake(v, m, n))
    if d["impl"] != want:
        return "SHAKE%d(message of %d bytes, %d output bytes) differs from FIPS 202 (hashlib)" % (v, len(m), n)
    return None


def corr_shake(ctx, exe, quick):
    rng = ctx.rng.fork("shake")
    lines, hist = [], {}
    outs = out_lengths(rng, quick)
    for v in (256, 128):
        for L in msg_lengths(ctx, quick):
            if v == 128 and quick and L > 1200 and rng.below(3):
                continue
            m = rbytes(rng, L)
            n = rng.choice(outs) if L > 600 else rng.choice([32, 64, rng.choice(outs)])
            lines.append("hash.shake %d %x %s" % (v, n, hx(m)))
            hist["len<=%d" % (136 if L <= 136 else 400 if L <= 400 else 2**16)] = hist.get("len<=%d" % (136 if L <= 136 else 400 if L <= 400 else 2**16), 0) + 1
            ctx.case("shake:%d:%d:%d" % (v, L, n))
        for n in outs:
            m = rbytes(rng, rng.choice([0, 1, 64, 135, 136, 137, 168, 500]))
            lines.append("hash.shake %d %x %s" % (v, n, hx(m)))
            ctx.case("shakeout:%d:%d:%d" % (v, len(m), n))
    ctx.coverage["shake_message_length_hist"] = hist
    ctx.sample(dict(kind="shake", op=lines[5][:160]))
    # the implementation is additionally compared with hashlib on every line (independent of the model)
    rc, cout, cerr = vlib.run_c([exe], lines)
    bad = []
    for i, l in enumerate(lines):
        t = l.split()
        want = hx(shake(int(t[1]), unhx(t[3]), int(t[2], 16)))
        got = cout[i] if i < len(cout) else "<none>"
        if got != want:
            bad.append(dict(op=l, impl=got, model=want))
    ctx.obligation("SHAKE128/SHAKE256 (real code) == hashlib on %d inputs" % len(lines), not bad, json.dumps(bad[:2])[:500])
    for d in bad[:3]:
        ctx.violation("shake:" + d["op"][:60], shake_oracle(d) or "SHAKE output differs from FIPS 202",
                      dict(op=d["op"][:4000], impl=d["impl"][:400], expected=d["model"][:400], oracle="python3 hashlib"))
    dis = correspond(ctx, "SHAKE128/SHAKE256 one-shot vs model (generated permutation)", lines, [exe])
    if dis and not bad:
        classify(ctx, "shake", dis, shake_oracle)


def inc_oracle(d):
    """replay an incremental session with hashlib: valid sessions only (absorb* f squeeze*)"""
    t = d["op"].split()
    v, ops = int(t[1]), t[2:]
    msg, k = b"", 0
    while k < len(ops) and ops[k][0] == "a":
        msg += unhx(ops[k][1:] or "-"); k += 1
    if k >= len(ops) or ops[k] != "f":
        return None
    reqs = []
    for o in ops[k + 1:]:
        if o[0] != "s":
            return None
        reqs.append(int(o[1:], 16))
    stream = shake(v, msg, sum(reqs))
    want, off = [], 0
    for n in reqs:
        want.append(hx(stream[off:off + n])); off += n
    got = d["impl"].split(";")[0]
    if got != "|".join(want):
        return ("incremental SHAKE%d session (chunks %s, squeeze requests %s) differs from the one-shot FIPS 202 stream"
                % (v, [len(unhx(o[1:] or "-")) for o in ops[:k]], reqs))
    return None


def corr_inc(ctx, exe, quick):
    rng = ctx.rng.fork("inc")
    lines = []
    hist = dict(chunks=0, empty_chunks=0, boundary_chunks=0, squeezes=0, misuse=0)
    nsess = 260 if quick else 2500
    for s in range(nsess):
        v = 256 if rng.below(3) else 128
        r = RATE[v]
        mode = rng.below(10)
        if mode < 3:
            L = rng.choice([r - 2, r - 1, r, r + 1, r + 2, 2 * r - 1, 2 * r, 2 * r + 1, 0, 1])
        elif mode < 8:
            L = rng.below(3 * r + 3)
        else:
            L = rng.below(5000)
        msg = rbytes(rng, L)
        ops, off = [], 0
        if mode == 3:     # chunks ending exactly at the rate boundary
            cuts = []
            left = L
            first = rng.below(r) if L else 0
            for k in [min(first, left)] + [r - min(first, left) if first else r] + [r] * 40:
                k = min(k, left); cuts.append(k); left -= k
                if left == 0:
                    break
            ch = [c for c in cuts]
            hist["boundary_chunks"] += 1
        else:
            ch = chunking(rng, L)
        for k in ch:
            ops.append("a" + (msg[off:off + k].hex())); off += k
            hist["chunks"] += 1; hist["empty_chunks"] += (k == 0)
        ops.append("f")
        total = rng.choice([0, 1, r - 1, r, r + 1, 2 * r, 2 * r + 1, 32, 64, rng.below(1500), rng.below(10**4 + 1) if rng.below(8) == 0 else 100])
        for k in chunking(rng, total):
            ops.append("s%x" % k); hist["squeezes"] += 1
        if rng.below(25) == 0:   # separate malformed stream: API misuse (absorb after finalize, squeeze before finalize)
            ops.insert(rng.below(len(ops) + 1), rng.choice(["f", "s5", "a00ff"])); hist["misuse"] += 1
        lines.append("hash.inc %d %s" % (v, " ".join(ops)))
        ctx.case("inc:%d:%d:%s" % (v, L, hashlib.sha1(" ".join(ops).encode()).hexdigest()[:10]))
    ctx.coverage["inc_session_hist"] = hist
    ctx.sample(dict(kind="inc", op=lines[0][:200]))
    rc, cout, cerr = vlib.run_c([exe], lines)
    bad = []
    for i, l in enumerate(lines):
        d = dict(op=l, impl=cout[i] if i < len(cout) else "<none>", model="")
        w = inc_oracle(d)
        if w:
            d["what"] = w; bad.append(d)
    ctx.obligation("incremental SHAKE sessions (real code) == hashlib stream on %d sessions" % len(lines), not bad, json.dumps(bad[:1])[:500])
    for d in bad[:3]:
        ctx.violation("inc:" + hashlib.sha1(d["op"].encode()).hexdigest()[:12], d["what"],
                      dict(op=d["op"][:4000], impl=d["impl"][:400], oracle="python3 hashlib"))
    dis = correspond(ctx, "shake*_inc_* sessions vs model (positions s_inc[25] and lanes after every session)", lines, [exe])
    if dis and not bad:
        classify(ctx, "inc", dis, inc_oracle)
    # absorb + squeezeblocks
    lines = []
    for _ in range(60 if quick else 600):
        v = rng.choice([128, 256]); r = RATE[v]
        L = rng.choice([0, 1, r - 1, r, r + 1, 2 * r, rng.below(1000)])
        blocks = [rng.below(4) for _ in range(1 + rng.below(3))]
        lines.append("hash.absblk %d %s %s" % (v, ",".join("%x" % k for k in blocks), hx(rbytes(rng, L))))
        ctx.case("absblk:%d:%d:%s" % (v, L, blocks))

    def ab_oracle(d):
        t = d["op"].split()
        v, blocks, m = int(t[1]), [int(x, 16) for x in t[2].split(",")], unhx(t[3])
        stream = shake(v, m, sum(blocks) * RATE[v])
        want, off = [], 0
        for k in blocks:
            want.append(hx(stream[off:off + k * RATE[v]])); off += k * RATE[v]
        if d["impl"].split(";")[0] != "|".join(want):
            return "shake%d_absorb + squeezeblocks %s differs from the FIPS 202 stream" % (v, blocks)
        return None
    dis = correspond(ctx, "shake*_absorb / shake*_squeezeblocks vs model", lines, [exe])
    if dis:
        classify(ctx, "absblk", dis, ab_oracle)


def drbg_oracle(d):
    t = d["op"].split()
    seed, pers, reqs = unhx(t[1]), (None if t[2] == "-" else unhx(t[2])), [int(x, 16) for x in t[3:]]
    g = PyDrbg(seed, pers)
    outs = [hx(g.gen(n)) for n in reqs]
    want = "%s;k=%s;v=%s;c=%x" % ("|".join(outs), hx(g.k), hx(g.v.to_bytes(16, "big")), g.c)
    if d["impl"] != want:
        return "randombytes after randombytes_init(seed) with request sizes %s differs from SP 800-90A CTR_DRBG(AES-256)" % reqs
    return None


def crafted_seed(target_v, rng, pers=None):
    """a 48-byte entropy input such that, right after randombytes_init(seed, pers), V == target_v (16 bytes).
    Instantiate starts from Key = 0, V = 0, so V_after = AES256(0^256, be128(3)) xor seed_material[32..47]
    (computed with the independent pure-Python AES above)."""
    e3 = aes256(bytes(32), (3).to_bytes(16, "big"))
    sm = rbytes(rng, 32) + bytes(a ^ b for a, b in zip(e3, target_v))
    if pers:
        sm = bytes(a ^ b for a, b in zip(sm, pers))
    return sm


def crafted_drbg_lines(rng, quick, hist=None):
    """structured DRBG histories: V right after instantiate has every carry-chain shape — low k bytes 0xff for
    k = 1..16 (k = 16: all-ones, wraps to 0), the byte above being 0xfe / 0x00 / random — minus a small offset d, and
    request sizes chosen so that the carry happens (a) at the first / a middle / the last (partial) block of the
    generate loop, (b) at the 1st / 2nd / 3rd increment of the Update that follows, (c) in a zero-length request."""
    lines = []
    combos = [(0, [0]), (0, [1]), (0, [16, 5]), (0, [17]), (2, [67]), (4, [16 * 5]), (1, [16]), (2, [16, 1]), (3, [16]),
              (5, [48, 5]), (7, [16 * 6 + 1]), (40, [16 * 40 + 9])]
    if not quick:
        combos += [(d, [16 * nb + tail]) for d in range(0, 9) for nb in range(0, 9) for tail in (0, 1)]
    for k in range(1, 17):
        for (d, reqs) in combos:
            above = rng.choice([0xfe, 0x00, rng.below(255)])
            hi = rbytes(rng, 16 - k)
            if k < 16:
                hi = hi[:-1] + bytes([above])
            v = (int.from_bytes(hi + b"\xff" * k, "big") - d) % 2**128
            pers = rbytes(rng, 48) if rng.below(5) == 0 else None
            seed = crafted_seed(v.to_bytes(16, "big"), rng, pers)
            lines.append("drbg.run %s %s %s" % (hx(seed), hx(pers) if pers else "-", " ".join("%x" % n for n in reqs)))
            if hist is not None:
                hist["carry_k=%d" % k] = hist.get("carry_k=%d" % k, 0) + 1
    return lines


def corr_drbg(ctx, exe, quick):
    rng = ctx.rng.fork("drbg")
    lines = []
    carry_hist = {}
    crafted = crafted_drbg_lines(ctx.rng.fork("drbg-crafted"), quick, carry_hist)
    ctx.coverage["drbg_crafted_V_carry_shapes"] = carry_hist
    for l in crafted:
        ctx.case("drbgcarry:" + hashlib.sha1(l.encode()).hexdigest()[:12])
    fixed = [[0], [1], [15], [16], [17], [0, 1, 15, 16, 17, 10**4], [16, 16, 16], [17, 15, 1, 0, 33], [10**4], [31, 32, 33, 47, 48, 49]]
    seeds = [bytes(range(48)), bytes(48), bytes([255] * 48)]
    hist = {}
    for i in range(14 if quick else 120):
        seed = seeds[i] if i < len(seeds) else rbytes(rng, 48)
        pers = None if rng.below(3) else rbytes(rng, 48)
        reqs = fixed[i] if i < len(fixed) else [rng.choice([0, 1, 15, 16, 17, 31, 32, 33, rng.below(200), rng.below(200), rng.below(10**4 + 1) if rng.below(10) == 0 else 48])
                                                 for _ in range(1 + rng.below(8))]
        for n in reqs:
            hist["mult16" if n % 16 == 0 else "other"] = hist.get("mult16" if n % 16 == 0 else "other", 0) + 1
        lines.append("drbg.run %s %s %s" % (hx(seed), hx(pers) if pers else "-", " ".join("%x" % n for n in reqs)))
        ctx.case("drbg:%s:%s" % (seed[:4].hex(), reqs))
    # V carry across byte boundaries: a seed cannot steer V directly, so long request sequences exercise the low-byte carry
    lines.append("drbg.run %s - %s" % (hx(bytes(range(48))), " ".join("%x" % 4096 for _ in range(3))))
    lines += crafted
    ctx.coverage["drbg_request_hist"] = hist
    ctx.sample(dict(kind="drbg", op=lines[5][:200]))
    ctx.sample(dict(kind="drbg-crafted-V", op=crafted[0][:200]))
    rc, cout, cerr = vlib.run_c([exe], lines)
    bad = []
    for i, l in enumerate(lines):
        d = dict(op=l, impl=cout[i] if i < len(cout) else "<none>", model="")
        w = drbg_oracle(d)
        if w:
            d["what"] = w; bad.append(d)
    ctx.obligation("randombytes (real code) == pure-Python SP 800-90A CTR_DRBG on %d histories" % len(lines), not bad, json.dumps(bad[:1])[:500])
    for d in bad[:3]:
        t = d["op"].split()
        ctx.violation("drbg:" + hashlib.sha1(d["op"].encode()).hexdigest()[:12], d["what"],
                      dict(op=d["op"][:2000], seed=t[1], personalization=t[2], request_sizes=[int(x, 16) for x in t[3:]],
                           impl=d["impl"][:600], oracle="pure-Python CTR_DRBG (tools/props/c20.py)"))
    # determinism: same seed, same request sequence => same bytes (second run in the same process after re-init)
    rc2, cout2, _ = vlib.run_c([exe], lines[:6] + lines[:6])
    ctx.obligation("randombytes deterministic (re-init with the same seed, same requests)", cout2[:6] == cout2[6:12] and len(cout2) == 12)
    if cout2[:6] != cout2[6:12]:
        ctx.violation("drbg:nondeterministic", "same seed and same request sequence gave different bytes", dict(ops=lines[:6]))
    dis = correspond(ctx, "randombytes_init / randombytes histories vs DRBG model (outputs, Key, V, reseed_counter, guard bytes)", lines, [exe])
    if dis and not bad:
        classify(ctx, "drbg", dis, drbg_oracle)


def corr_aes(ctx, exe, quick):
    rng = ctx.rng.fork("aes")
    lines = ["aes.enc256 %s %s" % (bytes(range(32)).hex(), bytes(17 * i for i in range(16)).hex())]
    for _ in range(40 if quick else 400):
        lines.append("aes.enc256 %s %s" % (rbytes(rng, 32).hex(), rbytes(rng, 16).hex()))
    for l in lines:
        ctx.case("aes:" + l[-20:])

    def oracle(d):
        t = d["op"].split()
        if d["impl"] != aes256(unhx(t[1]), unhx(t[2])).hex():
            return "AES_256_ECB differs from FIPS 197"
        return None
    dis = correspond(ctx, "AES_256_ECB vs Lean FIPS-197 specification", lines, [exe])
    if dis:
        classify(ctx, "aes", dis, oracle)
    dis = correspond(ctx, "AES_256_ECB vs hand model of key schedule + aes_ecb + aes_ecb4x over the generated primitives (aes256Ecb)",
                     lines, [exe], model_lines=[l.replace("aes.enc256", "aesct.enc256") for l in lines])
    if dis:
        classify(ctx, "aesct256", dis, oracle)


def corr_aesct(ctx, b, quick):
    """the generated bitsliced primitives (SqiGen.Aes, run by the Lean driver) against the static C functions they were
    generated from (reached by #include "aes_c.c"), the hand model of aes_ecb4x against the C one on random states and
    random expanded keys, and — the part of AES that is *not* proved — the C key schedule: its sk_exp must be, round by
    round and in all four lanes, the bitsliced FIPS-197 round keys (hypothesis `hkeys` of theorem aes_ecb4x_eq_spec)."""
    exe = compile_drv(ctx, b, os.path.join(ctx.tmp, "drv_aesct"), static_aes=True)
    rng = ctx.rng.fork("aesct")
    np = dict(sbox=8, ortho=8, shift_rows=8, mix_columns=8, add_round_key=16, interleave_in=6, interleave_out=6)
    lines = []
    for name, n in np.items():
        for k in range(12 if quick else 120):
            ws = [rng.bits(64) for _ in range(n)]
            if k == 0:
                ws = [0] * n
            if k == 1:
                ws = [2**64 - 1] * n
            if name == "interleave_in":
                ws = [w & 0xFFFFFFFF for w in ws[:4]] + [0, 0]
            if name == "interleave_out":
                ws = ws[:2] + [0, 0, 0, 0]
            lines.append("aesct.prim %s %s" % (name, " ".join("%x" % w for w in ws)))
            ctx.case("aesprim:%s:%d" % (name, k))
    dis = correspond(ctx, "bitsliced AES primitives: static C functions vs generated register programs (SqiGen.Aes)", lines, [exe])
    for d in dis[:2]:
        ctx.violation("aesct:" + d["op"][:40], "generated AES primitive and compiled C primitive disagree (translator no longer describes the code)",
                      dict(op=d["op"], impl=d["impl"], model=d["model"]), found=False)
    lines = []
    for k in range(6 if quick else 60):
        nr = rng.choice([10, 12, 14])
        ws = [rng.bits(32) for _ in range(16)] + [rng.bits(64) for _ in range(8 * (nr + 1))]
        lines.append("aesct.ecb4x %x %s" % (nr, " ".join("%x" % w for w in ws)))
        ctx.case("aesecb4x:%d:%d" % (nr, k))
    dis = correspond(ctx, "aes_ecb4x (static C) vs hand model over the generated primitives", lines, [exe])
    for d in dis[:2]:
        ctx.violation("aesct:ecb4x:" + hashlib.sha1(d["op"].encode()).hexdigest()[:10], "aes_ecb4x model and C disagree",
                      dict(op=d["op"][:3000], impl=d["impl"], model=d["model"]), found=False)
    # key schedule (correspondence only): sk_exp of the C code unslices to the FIPS-197 round keys
    keys = [bytes(range(32)), bytes(32), bytes([255] * 32)] + [rbytes(rng, 32) for _ in range(9 if quick else 200)]
    klines = ["aesct.keys %s" % k.hex() for k in keys]
    rc, cout, cerr = vlib.run_c([exe], klines)
    mlines = ["aesct.keys %s %s" % (k.hex(), cout[i] if i < len(cout) else "") for i, k in enumerate(keys)]
    mout = ctx.driver(mlines)
    bad = [dict(key=keys[i].hex(), verdict=mout[i] if i < len(mout) else "<none>") for i in range(len(keys)) if i >= len(mout) or mout[i] != "ok"]
    ctx.evaluations += len(keys)
    for k in keys:
        ctx.case("aeskeys:" + k[:4].hex())
    ctx.obligation("AES-256 key schedule (C): sk_exp = bitsliced FIPS-197 round keys in all four lanes (%d keys; correspondence only)" % len(keys),
                   not bad, json.dumps(bad[:2])[:400])
    for d in bad[:2]:
        ok = True
        ctx.violation("aesct:keys:" + d["key"][:16], "the AES-256 key schedule of aes_c.c does not produce the FIPS 197 round keys",
                      dict(key=d["key"], verdict=d["verdict"], how_to_replay="aesct.keys <key> on drv_aesct, then aesct.keys <key> <words> on the Lean driver"))


def corr_mem(ctx, b, quick):
    rng = ctx.rng.fork("mem")
    lines = []
    for _ in range(30):
        L = 1 + rng.below(300)
        n = rng.choice([0, 1, L, L - 1, rng.below(L + 1)])
        buf = bytes((x | 1) for x in rbytes(rng, L))       # no zero bytes: cleared bytes are distinguishable
        lines.append("mem.clear %s %x" % (buf.hex(), n))
        lines.append("mem.free %s %x" % (buf.hex(), n))
        ctx.case("mem:%d:%d" % (L, n))
    model_lines = [l.replace("mem.free", "mem.clear") for l in lines]
    for opt in ("-O2", "-O3"):
        exe = compile_drv(ctx, b, os.path.join(ctx.tmp, "drv_mem" + opt), opt=opt, wrap_free=True)
        dis = correspond(ctx, "sqisign_secure_clear / sqisign_secure_free (buffer inspected after the call, harness %s) vs model" % opt,
                              lines, [exe], model_lines=model_lines)
        for d in dis[:2]:
            ctx.violation("mem:" + d["op"][:40], "secure clear left non-zero bytes / touched bytes outside the range",
                          dict(op=d["op"], impl=d["impl"], model=d["model"], harness_opt=opt))


def enc_fp2(lvl, re, im):
    n = 8 * vlib.LEVELS[lvl]["nwords"]
    return re.to_bytes(n, "little") + im.to_bytes(n, "little")


def corr_h2c(ctx, b, quick):
    """the real hash_to_challenge of each variant x level: rescaled / A -> -A curve models give the same challenge,
    and the challenge equals the model on (enc j1, enc j2, msg)."""
    rng = ctx.rng.fork("h2c")
    iters_of = {}
    for lvl in (1, 3, 5):
        t = open(os.path.join(vlib.LEAN, "SqiGen", "Tables%d.lean" % lvl)).read()
        import re
        iters_of[lvl] = int(re.search(r"def D_SQIsign2D_heuristic_challenge_hash_iteration : Nat := (\d+)", t).group(1))
    combos = [(v, l) for v in VARIANTS for l in (1, 3, 5)]
    if quick:
        combos = [(v, l) for v in VARIANTS for l in (1,)] + [("sqisigndim2", 3), ("sqisigndim2_heuristic", 5)]
    for variant, lvl in combos:
        try:
            exe = compile_drv(ctx, b, os.path.join(ctx.tmp, "drv_h2c_%s_%d" % (variant, lvl)), lvl=lvl, variant=variant)
        except vlib.BuildError as e:
            ctx.obligation("hash_to_challenge harness %s lvl%d builds" % (variant, lvl), False, str(e)[-400:])
            ctx.violation("h2c:build:%s:%d" % (variant, lvl), "hash_to_challenge is no longer callable with its current signature",
                          dict(error=str(e)[-1500:]), found=False)
            continue
        p = vlib.LEVELS[lvl]["p"]
        nw = vlib.LEVELS[lvl]["nwords"]
        iters = 0 if variant == "sqisigndim2" else iters_of[lvl]
        lines, groups = [], []
        for g in range(6 if quick else 40):
            c1 = (rng.below(p), rng.below(p), 1 + rng.below(p - 1), rng.below(p))
            c2 = (rng.below(p), rng.below(p), 1 + rng.below(p - 1), rng.below(p))
            L = rng.choice([0, 1, 32, 135, 136, 137, rng.below(600)]) if g else 0
            msg = rbytes(rng, L)
            grp = []
            for k in range(4):
                lam = (1, 0, 1, 0) if k == 0 else (1 + rng.below(p - 1), rng.below(p), 1 + rng.below(p - 1), rng.below(p))
                flags = k & 1 if k < 2 else rng.below(2)
                grp.append(len(lines))
                lines.append("h2c.curve %s %s %s %x %s" % ((enc_fp2(lvl, c1[0], c1[1]) + enc_fp2(lvl, c1[2], c1[3])).hex(),
                                                          (enc_fp2(lvl, c2[0], c2[1]) + enc_fp2(lvl, c2[2], c2[3])).hex(),
                                                          (enc_fp2(lvl, lam[0], lam[1]) + enc_fp2(lvl, lam[2], lam[3])).hex(), flags, hx(msg)))
            # perturbed messages: one byte flipped, one byte appended, one byte dropped
            variants_msg = []
            if L:
                i = rng.below(L)
                variants_msg.append(msg[:i] + bytes([msg[i] ^ (1 << rng.below(8))]) + msg[i + 1:])
                variants_msg.append(msg[:-1])
            variants_msg.append(msg + b"\x00")
            pert = []
            for m2 in variants_msg:
                pert.append(len(lines))
                lines.append(lines[grp[0]].rsplit(" ", 1)[0] + " " + hx(m2))
            groups.append((grp, pert, L))
            ctx.case("h2c:%s:%d:%d:%d" % (variant, lvl, g, L))
        rc, cout, cerr = vlib.run_c([exe], lines)
        if len(cout) != len(lines):
            ctx.obligation("hash_to_challenge %s lvl%d runs" % (variant, lvl), False, cerr[-300:])
            ctx.violation("h2c:crash:%s:%d" % (variant, lvl), "hash_to_challenge harness stopped", dict(stderr=cerr[-1500:], op=lines[len(cout)][:500]), found=False)
            continue
        bad = []
        for grp, pert, L in groups:
            base = cout[grp[0]].split()
            for i in grp[1:]:
                o = cout[i].split()
                if o[0:2] == base[0:2] and o[2:] != base[2:]:
                    bad.append(dict(what="same j-invariant encodings, different challenge", op=lines[i][:1500], impl=cout[i], base=cout[grp[0]]))
                if o[0:2] != base[0:2]:
                    # j-invariant of a rescaled / negated-A model differs: C08's concern, but it breaks C20's invariance too
                    bad.append(dict(what="challenge input changes under projective rescaling / A -> -A of the curve model", op=lines[i][:1500], impl=cout[i], base=cout[grp[0]]))
            for i in pert:
                if cout[i].split()[3] == base[3]:
                    bad.append(dict(what="challenge unchanged although the message changed (byte or length)", op=lines[i][:1500], impl=cout[i], base=cout[grp[0]]))
        ctx.obligation("hash_to_challenge %s lvl%d: invariant under curve-model change, sensitive to message bytes/length (%d groups)" % (variant, lvl, len(groups)),
                       not bad, json.dumps(bad[:1])[:500])
        for d in bad[:2]:
            ctx.violation("h2c:%s:%d:%s" % (variant, lvl, d["what"][:30]), d["what"], d)
        # model: challenge = leNat(SHAKE256^(1+iters)(enc j1 || enc j2 || msg))
        mlines, expect = [], []
        for i, l in enumerate(lines):
            o = cout[i].split()
            mlines.append("hash.h2c %x %x %s %s %s" % (nw, iters, o[0], o[1], l.split()[5]))
            expect.append("%s %s" % (o[2], o[3]))
        mout = ctx.driver(mlines)
        dis = [dict(op=mlines[i], impl=expect[i], model=mout[i] if i < len(mout) else "<none>") for i in range(len(mlines))
               if i >= len(mout) or mout[i] != expect[i]]
        ctx.evaluations += len(mlines)
        ctx.obligation("correspondence hash_to_challenge %s lvl%d vs model (%d ops)" % (variant, lvl, len(mlines)), not dis, json.dumps(dis[:1])[:500])
        ctx.coverage.setdefault("correspondence", {})["h2c %s lvl%d" % (variant, lvl)] = dict(ops=len(mlines), disagreements=len(dis))

        def oracle(d, iters=iters, nw=nw):
            t = d["op"].split()
            dg = shake(256, unhx(t[3]) + unhx(t[4]) + unhx(t[5]), 8 * nw)
            for _ in range(iters):
                dg = shake(256, dg, 8 * nw)
            if d["impl"] != "1 %x" % int.from_bytes(dg, "little"):
                return "hash_to_challenge differs from SHAKE256(enc j(E_com) || enc j(E_pk) || msg) (iterated %d times)" % iters
            return None
        if dis:
            classify(ctx, "h2c:%s:%d" % (variant, lvl), dis, oracle)
        if lines:
            ctx.sample(dict(kind="h2c", variant=variant, lvl=lvl, op=lines[0][:160], out=cout[0][:200]))


# ------------------------------------------------------------------ violation search when the proofs break
def search(ctx, state):
    """lake build failed (a theorem about the regenerated SqiGen.Keccak or about the models no longer checks):
    look for a concrete input on which the *real code* contradicts FIPS 202 / SP 800-90A."""
    try:
        b = ctx.build_repo("ref")
        exe = compile_drv(ctx, b, os.path.join(ctx.tmp, "drv_hash_search"))
    except vlib.BuildError as e:
        return None
    rng = ctx.rng.fork("search")
    lines = []
    for v in (256, 128):
        for L in [0, 1, 135, 136, 137, 167, 168, 169, 300, 1000]:
            for n in (32, 200, 400):
                lines.append("hash.shake %d %x %s" % (v, n, hx(rbytes(rng, L))))
    rc, cout, cerr = vlib.run_c([exe], lines)
    for i, l in enumerate(lines):
        t = l.split()
        want = hx(shake(int(t[1]), unhx(t[3]), int(t[2], 16)))
        got = cout[i] if i < len(cout) else "<none>"
        if got != want:
            return ("shake:" + l[:60], "SHAKE%s(%d-byte message, %d output bytes) computed by the library differs from FIPS 202"
                    % (t[1], len(unhx(t[3])), int(t[2], 16)),
                    dict(op=l[:4000], impl=got[:400], expected=want[:400], oracle="python3 hashlib",
                         how_to_replay="echo '<op>' | drv_hash"))
    # incremental sessions (chunks ending at / straddling the rate boundary, split squeezes) against the hashlib stream
    il = []
    for v in (256, 128):
        r = RATE[v]
        for ch in ([r], [r - 1, 1], [r, 5], [2 * r], [3, r - 3, r], [0, r + 1, r - 1], [1] * 5, []):
            # incl. several requests served from one buffered block (C20-m3: early return that skips the s_inc[25] update)
            for sq in ([32], [r, 1], [r - 1, 2, r], [20, 20, 20], [1, 1, 1, r], [r + 5, 3, 3, 3, r], [7] * 6):
                msg = rbytes(rng, sum(ch)); off = 0; ops = []
                for k in ch:
                    ops.append("a" + msg[off:off + k].hex()); off += k
                il.append("hash.inc %d %s f %s" % (v, " ".join(ops), " ".join("s%x" % n for n in sq)))
    rc, cout, cerr = vlib.run_c([exe], il)
    for i, l in enumerate(il):
        dd = dict(op=l, impl=cout[i] if i < len(cout) else "<none>")
        w = inc_oracle(dd)
        if w:
            return ("inc:" + hashlib.sha1(l.encode()).hexdigest()[:12], w,
                    dict(op=l[:3000], impl=dd["impl"][:400], oracle="python3 hashlib",
                         how_to_replay="echo '<op>' | drv_hash  (shake*_inc_init / absorb each a<hex> / finalize / squeeze each s<len>)"))
    # AES_256_ECB against the independent pure-Python FIPS 197
    al = ["aes.enc256 %s %s" % (bytes(range(32)).hex(), bytes(17 * i for i in range(16)).hex())] + \
         ["aes.enc256 %s %s" % (rbytes(rng, 32).hex(), rbytes(rng, 16).hex()) for _ in range(8)]
    rc, cout, cerr = vlib.run_c([exe], al)
    for i, l in enumerate(al):
        t = l.split()
        want = aes256(unhx(t[1]), unhx(t[2])).hex()
        got = cout[i] if i < len(cout) else "<none>"
        if got != want:
            return ("aes:" + l[:50], "AES_256_ECB(key, block) differs from FIPS 197",
                    dict(op=l, key=t[1], block=t[2], impl=got, expected=want, oracle="pure-Python FIPS 197 (tools/props/c20.py)"))
    # hash_to_challenge of the three variants (level 1) against SHAKE256(enc j(E_com) || enc j(E_pk) || msg), iterated
    for variant in VARIANTS:
        try:
            hexe = compile_drv(ctx, b, os.path.join(ctx.tmp, "drv_h2c_search_%s" % variant), lvl=1, variant=variant)
        except vlib.BuildError:
            continue
        p = vlib.LEVELS[1]["p"]
        iters = 0 if variant == "sqisigndim2" else 16
        hl = []
        for L in (0, 1, 33, 136, 200):
            c1 = (rng.below(p), rng.below(p), 1 + rng.below(p - 1), rng.below(p))
            c2 = (rng.below(p), rng.below(p), 1 + rng.below(p - 1), rng.below(p))
            hl.append("h2c.curve %s %s %s 0 %s" % ((enc_fp2(1, c1[0], c1[1]) + enc_fp2(1, c1[2], c1[3])).hex(),
                                                 (enc_fp2(1, c2[0], c2[1]) + enc_fp2(1, c2[2], c2[3])).hex(),
                                                 (enc_fp2(1, 1, 0) + enc_fp2(1, 1, 0)).hex(), hx(rbytes(rng, L))))
        rc, cout, cerr = vlib.run_c([hexe], hl)
        for i, l in enumerate(hl):
            if i >= len(cout):
                break
            o = cout[i].split()
            dg = shake(256, unhx(o[0]) + unhx(o[1]) + unhx(l.split()[5]), 32)
            for _ in range(iters):
                dg = shake(256, dg, 32)
            if o[2:] != ["1", "%x" % int.from_bytes(dg, "little")]:
                return ("h2c:%s:%s" % (variant, hashlib.sha1(l.encode()).hexdigest()[:10]),
                        "hash_to_challenge (%s, lvl1) differs from SHAKE256(enc j(E_com) || enc j(E_pk) || msg) iterated %d times" % (variant, iters),
                        dict(op=l[:1500], impl=cout[i][:400], j_com=o[0], j_pk=o[1], message=l.split()[5],
                             expected_challenge="%x" % int.from_bytes(dg, "little"), oracle="python3 hashlib"))
    dl = ["drbg.run %s - 0 1 15 10 11 2710" % hx(bytes(range(48)))] + crafted_drbg_lines(ctx.rng.fork("drbg-crafted"), True)
    rc, cout, cerr = vlib.run_c([exe], dl)
    for i, l in enumerate(dl):
        d = dict(op=l, impl=cout[i] if i < len(cout) else "<none>")
        w = drbg_oracle(d)
        if w:
            t = l.split()
            return ("drbg:" + hashlib.sha1(l.encode()).hexdigest()[:12], w,
                    dict(op=l, seed=t[1], personalization=t[2], request_sizes=[int(x, 16) for x in t[3:]], impl=d["impl"][:600],
                         oracle="pure-Python SP 800-90A CTR_DRBG (tools/props/c20.py)",
                         how_to_replay="echo '<op>' | drv_hash   (randombytes_init(seed, pers, 256); randombytes(n) for each n)"))
    return None

"""Independent exact-arithmetic oracle for C09 / C12 (python big integers, no code shared with the library).

Curves are kept in the general form  y^2 = x^3 + a2 x^2 + a4 x + a6  over Fp2 = Fp[i]/(i^2+1); 2-isogenies by Velu's
formulas (kernel point (x0, 0):  t = 3x0^2 + 2 a2 x0 + a4,  w = x0 t,  a4' = a4 - 5t,  a6' = a6 - 4 a2 t - 7w,
X = x + t/(x - x0)), x-only doubling by the division polynomial formula.  No square roots, no special case for
the kernel (0,0).  The 2^n-chain is driven by a plain balanced recursion (independent of the strategy tables).
Isomorphism-invariant quantities: j(E) and, for a point, I(P) = 18 * xW * c4 / c6  with xW = x + b2/12."""


class Fp2:
    __slots__ = ("p",)

    def __init__(self, p):
        self.p = p

    def add(self, a, b):
        return ((a[0] + b[0]) % self.p, (a[1] + b[1]) % self.p)

    def sub(self, a, b):
        return ((a[0] - b[0]) % self.p, (a[1] - b[1]) % self.p)

    def neg(self, a):
        return ((-a[0]) % self.p, (-a[1]) % self.p)

    def mul(self, a, b):
        p = self.p
        return ((a[0] * b[0] - a[1] * b[1]) % p, (a[0] * b[1] + a[1] * b[0]) % p)

    def sqr(self, a):
        return self.mul(a, a)

    def smul(self, k, a):
        return ((k * a[0]) % self.p, (k * a[1]) % self.p)

    def inv(self, a):
        p = self.p
        n = (a[0] * a[0] + a[1] * a[1]) % p
        ni = pow(n, p - 2, p)
        return ((a[0] * ni) % p, (-a[1] * ni) % p)

    def is_zero(self, a):
        return a[0] % self.p == 0 and a[1] % self.p == 0

    def pow(self, a, e):
        r = (1, 0)
        b = a
        while e:
            if e & 1:
                r = self.mul(r, b)
            b = self.mul(b, b)
            e >>= 1
        return r


ZERO = (0, 0)
ONE = (1, 0)


class Curve:
    """y^2 = x^3 + a2 x^2 + a4 x + a6"""

    def __init__(self, K, a2, a4, a6):
        self.K, self.a2, self.a4, self.a6 = K, a2, a4, a6

    @staticmethod
    def montgomery(K, A):
        return Curve(K, A, ONE, ZERO)

    def bs(self):
        K = self.K
        b2 = K.smul(4, self.a2)
        b4 = K.smul(2, self.a4)
        b6 = K.smul(4, self.a6)
        b8 = K.sub(K.smul(4, K.mul(self.a2, self.a6)), K.sqr(self.a4))
        return b2, b4, b6, b8

    def c4c6(self):
        K = self.K
        b2, b4, b6, b8 = self.bs()
        c4 = K.sub(K.sqr(b2), K.smul(24, b4))
        c6 = K.add(K.sub(K.smul(36, K.mul(b2, b4)), K.mul(K.sqr(b2), b2)), K.neg(K.smul(216, b6)))
        return c4, c6

    def j(self):
        K = self.K
        c4, c6 = self.c4c6()
        # 1728 Delta = c4^3 - c6^2
        num = K.smul(1728, K.mul(K.sqr(c4), c4))
        den = K.sub(K.mul(K.sqr(c4), c4), K.sqr(c6))
        return K.mul(num, K.inv(den))

    def dbl(self, P):
        """x-only doubling, P = (X, Z)"""
        K = self.K
        X, Z = P
        if K.is_zero(Z):
            return P
        b2, b4, b6, b8 = self.bs()
        X2, Z2 = K.sqr(X), K.sqr(Z)
        XZ = K.mul(X, Z)
        num = K.sub(K.sub(K.sub(K.sqr(X2), K.mul(b4, K.mul(X2, Z2))), K.smul(2, K.mul(b6, K.mul(XZ, Z2)))),
                    K.mul(b8, K.sqr(Z2)))
        den = K.add(K.add(K.add(K.smul(4, K.mul(X2, XZ)), K.mul(b2, K.mul(X2, Z2))),
                          K.smul(2, K.mul(b4, K.mul(XZ, Z2)))), K.mul(b6, K.mul(Z2, Z2)))
        # x(2P) = num / den with both homogeneous of degree 4 in (X, Z)
        return (num, den)

    def dbl_iter(self, P, k):
        for _ in range(k):
            P = self.dbl(P)
        return P

    def inv_pt(self, P):
        """isomorphism invariant of a point, or None for infinity / c6 = 0"""
        K = self.K
        X, Z = P
        if K.is_zero(Z):
            return "inf"
        x = K.mul(X, K.inv(Z))
        b2, _, _, _ = self.bs()
        c4, c6 = self.c4c6()
        if K.is_zero(c6):
            return None
        xw = K.add(x, K.mul(b2, K.inv((12 % K.p, 0))))
        return K.mul(K.smul(18, K.mul(xw, c4)), K.inv(c6))


def isog2(E, Kpt, pts):
    """quotient by the order-2 point Kpt = (X0 : Z0); returns (E', images)"""
    K = E.K
    x0 = K.mul(Kpt[0], K.inv(Kpt[1]))
    # check it is a 2-torsion point
    f = K.add(K.add(K.add(K.mul(K.sqr(x0), x0), K.mul(E.a2, K.sqr(x0))), K.mul(E.a4, x0)), E.a6)
    if not K.is_zero(f):
        raise ValueError("kernel point is not of order 2")
    t = K.add(K.add(K.smul(3, K.sqr(x0)), K.smul(2, K.mul(E.a2, x0))), E.a4)
    w = K.mul(x0, t)
    E2 = Curve(K, E.a2, K.sub(E.a4, K.smul(5, t)), K.sub(K.sub(E.a6, K.smul(4, K.mul(E.a2, t))), K.smul(7, w)))
    out = []
    for (X, Z) in pts:
        if K.is_zero(Z):
            out.append((X, Z)); continue
        # x + t/(x - x0) = (X (X - x0 Z) + t Z^2) / (Z (X - x0 Z))
        d = K.sub(X, K.mul(x0, Z))
        out.append((K.add(K.mul(X, d), K.mul(t, K.sqr(Z))), K.mul(Z, d)))
    return E2, out


def chain(E, Kpt, n, pts):
    """2^n-isogeny with kernel <Kpt> (Kpt of exact order 2^n), balanced recursion; returns (E', images of pts, image of Kpt)"""
    # iterative version of the recursion with an explicit stack of (point, remaining order exponent)
    pts = list(pts)
    if n <= 0:
        return E, pts
    stack = [(Kpt, n)]
    while stack:
        P, e = stack[-1]
        if e == 1:
            stack.pop()
            allp = [q for (q, _) in stack] + pts
            E, imgs = isog2(E, P, allp)
            stack = [(imgs[i], stack[i][1] - 1) for i in range(len(stack))]
            pts = imgs[len(stack):]
        else:
            h = e // 2
            stack.append((E.dbl_iter(P, e - h), h))
    return E, pts


def parse_fp2(s):
    if s == "inf":
        return None
    a, b = s.split(",")
    return (int(a, 16), int(b, 16))

"""Shared machinery of the C07 / C06 checks: level constants, structured operand generators, the exact
specification oracle (Python integers modulo p — mirrors the Lean Spec `toZ`), and the parallel
model-vs-C runner for the GF(p)/GF(p^2) line protocol of tools/harness/drv_gf.c."""
import concurrent.futures as cf
import os, subprocess
import vlib

T32 = 0xFFFFFFFF
HARNESS = os.path.join(vlib.ROOT, "tools", "harness", "drv_gf.c")
DRIVER = os.path.join(vlib.LEAN, ".lake", "build", "bin", "driver")


class Lv:
    def __init__(self, lvl):
        n, c, e, B = {1: (4, 5, 248, 251), 3: (6, 65, 376, 383), 5: (8, 27, 500, 505)}[lvl]
        self.lvl, self.n, self.c, self.e, self.B = lvl, n, c, e, B
        self.p = c * 2 ** e - 1
        self.R = 2 ** (64 * n)
        self.Rinv = pow(self.R, -1, self.p)
        self.nbytes = 8 * n

    def dom(self, be):
        """exclusive upper bound of the representation domain"""
        return self.p if be == "ref" else 2 ** self.B

    def val(self, raw):
        return raw * self.Rinv % self.p

    def mont(self, x):
        return x * self.R % self.p

    def is_sq(self, v):
        v %= self.p
        return v == 0 or pow(v, (self.p - 1) // 2, self.p) == 1


LEVELS = {l: Lv(l) for l in (1, 3, 5)}


# ------------------------------------------------------------------------------------- generators
def gen_zero(rng, L, be):
    """a stored representative of zero (the x86 back-end also stores non-canonical ones: multiples of q below 2^B)"""
    if be == "ref":
        return 0
    return rng.choice([k * L.p for k in range(4) if k * L.p < L.dom(be)])


def gen_elem(rng, L, be, hist=None):
    """one stored representative in the domain of back-end `be`, drawn from structured classes"""
    D, p, n = L.dom(be), L.p, L.n
    k = rng.below(20)
    if k == 0:
        cls, v = "zero", 0
    elif k == 1:
        cls, v = "one", L.mont(1)
    elif k == 2:
        cls, v = "minus_one", L.mont(p - 1)
    elif k == 3:
        cls, v = "p-2", L.mont(p - 2)
    elif k == 4:
        cls, v = "raw_small", rng.choice([1, 2, 3, p - 1, p - 2])
    elif k == 5:
        e = rng.choice([63, 64, 65, 127, 128, 129, 191, 192, 193, 64 * (n - 1) - 1, 64 * (n - 1), 64 * (n - 1) + 1, L.e - 1, L.e, L.e + 1, L.e + 2])
        cls, v = "raw_2^k+-1", (2 ** e + rng.choice([-1, 0, 1])) % D
    elif k == 6:
        e = rng.below(L.e + 2)
        cls, v = "val_2^k+-1", L.mont((2 ** e + rng.choice([-1, 1])) % p)
    elif k == 7:
        # all-ones limbs in a random subset of limbs
        v = 0
        for i in range(n):
            if rng.below(2):
                v |= (2 ** 64 - 1) << (64 * i)
        cls, v = "allones_limbs", v % D
    elif k == 8:
        v = 0
        for i in range(n):
            if rng.below(2):
                v |= 1 << (64 * i + rng.below(64))
        cls, v = "singlebit_limbs", v % D
    elif k == 9:
        # carries across limb boundaries: low j limbs all ones (+ small)
        j = 1 + rng.below(n - 1)
        cls, v = "carry_chain", (2 ** (64 * j) - 1 + rng.below(3) + (rng.bits(64) << (64 * j))) % D
    elif k == 10:
        cls, v = "mont_small", L.mont(rng.below(1000))
    elif k == 11:
        x = rng.below(p)
        cls, v = "square", L.mont(x * x % p)
    elif k == 12:
        while True:
            x = 1 + rng.below(p - 1)
            if not L.is_sq(x):
                break
        cls, v = "nonsquare", L.mont(x)
    elif k == 13 and be != "ref":
        # x86 back-end only: partially reduced representatives at and above q
        v = rng.choice([p, p + 1, p + 2, 2 * p % D, D - 1, D - 2, p + rng.below(D - p)])
        cls, v = "unreduced", v % D
    elif k == 14:
        cls, v = "high_limb_pattern", ((2 ** 64 - 1 - rng.below(4)) << (64 * (n - 2)) | rng.bits(64 * (n - 2)) | (rng.bits(64) << (64 * (n - 1)))) % D
    elif k == 15:
        m, j, sg = 1 + 2 * rng.below(1000), rng.below(65), rng.choice([1, -1])
        x = sg * m * pow(2, rng.choice([j, -j]), p) % p
        cls, v = "gcd_hard_m*2^+-j", L.mont(x)
    else:
        cls, v = "uniform", rng.below(D)
    if be != "ref" and rng.below(4) == 0 and v + p < D:
        v, cls = v + p, cls + "+q"      # same class, other representative
    if hist is not None:
        hist[cls] = hist.get(cls, 0) + 1
    return v


def gen_elem2(rng, L, be, hist=None):
    """GF(p^2) element: generic, pure real, pure imaginary, zero, square, non-square"""
    k = rng.below(10)
    if k == 0:
        r = (gen_elem(rng, L, be, hist), 0)
        t = "pure_real"
    elif k == 1:
        r = (0, gen_elem(rng, L, be, hist))
        t = "pure_imag"
    elif k == 2:
        r, t = (0, 0), "zero2"
    elif k == 3:
        # a square of GF(p^2): (a+bi)^2
        a, b = gen_elem(rng, L, be), gen_elem(rng, L, be)
        va, vb = L.val(a), L.val(b)
        r, t = (L.mont((va * va - vb * vb) % L.p), L.mont(2 * va * vb % L.p)), "square2"
    elif k == 4:
        # square with zero imaginary part whose real part is a non-square of GF(p) (rare sqrt branch)
        while True:
            x = 1 + rng.below(L.p - 1)
            if not L.is_sq(x):
                break
        r, t = (L.mont(x), 0), "real_nonsquare"
    else:
        r, t = (gen_elem(rng, L, be, hist), gen_elem(rng, L, be, hist)), "generic2"
    if hist is not None:
        hist[t] = hist.get(t, 0) + 1
    return r


def words_of(e, nw):
    return [(e >> (64 * i)) & (2 ** 64 - 1) for i in range(nw)]


def gen_exponent(rng, L, hist=None):
    """exponent of a square-and-multiply loop as 64-bit words, least significant first; every word count
    1..NWORDS, with zero words in low / middle / high position (a loop that skips or mis-steps on a zero word,
    a word boundary or the top word is wrong exactly there)"""
    n = L.n
    nw = 1 + rng.below(n)
    k = rng.below(14)
    M = 2 ** 64 - 1
    if k == 0:
        j = rng.below(nw)
        cls, ws = "exp_2^(64j)", words_of(1 << (64 * j), nw)
    elif k == 1:
        j = rng.below(nw)
        cls, ws = "exp_k*2^(64j)", words_of((1 + rng.bits(rng.choice([1, 8, 64]))) << (64 * j), n)[:max(nw, j + 1)]
    elif k == 2:
        cls, ws = "exp_low_word_zero", [0] + [rng.choice([1, M, rng.bits(64)]) for _ in range(max(nw - 1, 1))]
    elif k == 3:
        nw = max(nw, 3)
        ws = [rng.choice([1, M, rng.bits(64)]) for _ in range(nw)]
        ws[1 + rng.below(nw - 2)] = 0
        cls = "exp_middle_word_zero"
    elif k == 4:
        cls, ws = "exp_only_top_word", [0] * (nw - 1) + [rng.choice([1, 2, M, rng.bits(64) | 1])]
    elif k == 5:
        cls, ws = "exp_all_ones_words", [M] * nw
    elif k == 6:
        cls, ws = "exp_p+-1", words_of(L.p + rng.choice([1, -1]), n)
    elif k == 7:
        cls, ws = "exp_(p+-1)/2", words_of((L.p + rng.choice([1, -1])) // 2, n)
    elif k == 8:
        j = 1 + rng.below(n - 1)
        e = 1 << (64 * j + rng.choice([-1, 0, 1]))
        cls, ws = "exp_single_bit_at_word_boundary", words_of(e, n)[:j + 1]
    elif k == 9:
        ws = [rng.choice([0, 0, 1, M, rng.bits(64), 1 << rng.below(64)]) for _ in range(nw)]
        cls = "exp_sparse_words"
    elif k == 10:
        cls, ws = "exp_high_zero_padding", [rng.bits(64)] + [0] * (nw - 1)
    elif k == 11:
        cls, ws = "exp_small", [rng.choice([0, 1, 2, 3, rng.bits(8)])] + [0] * rng.below(2)
    else:
        cls, ws = "exp_uniform", [rng.bits(64) for _ in range(nw)]
    if hist is not None:
        hist[cls] = hist.get(cls, 0) + 1
        hist["exp_words=%d" % len(ws)] = hist.get("exp_words=%d" % len(ws), 0) + 1
    return ws


def pow_fixed_lines(L):
    """deterministic exponent corner cases for fp2_pow_vartime (base 3+5i and a generic base)"""
    M = 2 ** 64 - 1
    bases = [(L.mont(3), L.mont(5)), (L.mont(L.p - 2), L.mont(7))]
    exps = [[0, 1], [0, 0, 1], [0, 3], [5, 0, 7], [0, 0, 0, 1], [0, M], [M, 0, M], [1, 0], [0], [0, 0],
            words_of(L.p + 1, L.n), words_of(L.p - 1, L.n), words_of((L.p + 1) // 2, L.n), words_of(1 << (64 * (L.n - 1)), L.n)]
    for j in range(1, L.n):
        exps += [words_of(1 << (64 * j - 1), j + 1)[:j + 1], words_of((1 << (64 * j)) + 1, j + 1)]
    out = []
    for bi, b in enumerate(bases):
        for ws in (exps if bi == 0 else exps[:6]):
            out.append("fp2_pow_vartime %d %x %x %x %s" % (bi, b[0], b[1], len(ws), " ".join("%x" % w for w in ws)))
    return out


# operations of the x86 back-end that call gf*_square
SQUARE_USERS = {"fp_sqr", "fp_sqrt", "gf_sqrt", "gf_xsquare", "fp2_inv", "fp2_is_square", "fp2_sqrt", "fp2_batched_inv"}
CHEAP1 = ["fp_neg", "fp_sqr"]
CHEAP2 = ["fp_add", "fp_sub", "fp_mul"]
EXP1 = ["fp_inv", "fp_sqrt", "fp_half"]


def gen_lines(rng, L, be, n_cheap, n_exp, hist, ophist, for_c06=False):
    """op lines for one (level, back-end). Lines are valid API uses (operands in the domain, ctl in
    {0,0xFFFFFFFF}, canonical decode input, set_small < 2^32) unless for_c06 asks for the extra classes."""
    H = lambda x: "%x" % x
    E = lambda: gen_elem(rng, L, be, hist)
    E2 = lambda: gen_elem2(rng, L, be, hist)
    out = []

    def add(op, al, *args):
        ophist[op] = ophist.get(op, 0) + 1
        out.append("%s %d %s" % (op, al, " ".join(H(a) for a in args)))

    for _ in range(n_cheap):
        k = rng.below(26)
        if k < 6:
            op = rng.choice(CHEAP2)
            al = rng.below(5)
            a = E()
            b = a if al >= 3 else E()
            if al < 3 and rng.below(4) == 0:
                # boundary pairs: raw sum at the reduction thresholds / raw difference around 0
                D = L.dom(be)
                if op == "fp_sub":
                    b2 = a + rng.choice([-2, -1, 0, 1, 2])
                else:
                    T = rng.choice([L.p - 2, L.p - 1, L.p, L.p + 1, D - 1, D, D + 1, 2 * L.p - 1, 2 * L.p, D + L.p - 1, D + L.p, D + L.p + 1])
                    b2 = T - a
                if 0 <= b2 < D:
                    b = b2
                    hist["boundary_pair"] = hist.get("boundary_pair", 0) + 1
            add(op, al, a, b)
        elif k < 8:
            add(rng.choice(CHEAP1), rng.below(2), E())
        elif k == 8:
            a = E()
            add("fp_is_zero", 0, rng.choice([a, 0, a, L.p if be != "ref" else 0]))
        elif k == 9:
            a = E()
            al = rng.choice([0, 0, 3])
            b = a if al == 3 else rng.choice([E(), a, (a + L.p) if (be != "ref" and a + L.p < L.dom(be)) else a])
            add("fp_is_equal", al, a, b)
        elif k == 10:
            add("fp_select", rng.below(3), E(), E(), rng.choice([0, T32]))
        elif k == 11:
            add("fp_cswap", 0, E(), E(), rng.choice([0, T32]))
        elif k == 12:
            v = rng.choice([0, 1, 2, 3, 2 ** 31, 2 ** 32 - 1, rng.bits(32), rng.bits(16)])
            if for_c06 or be == "ref":
                v = rng.choice([v, v, 2 ** 32, 2 ** 63, 2 ** 64 - 1, rng.bits(64)])
            add("fp_set_small", 0, v)
        elif k == 13:
            if rng.below(2):
                add(rng.choice(["fp_set_one", "fp_set_zero"]), 0)
            else:
                # fp_decode_reduce: ref ignores len (C06 finding fp_decode_reduce:len-ignored), so C07 only uses len <= FP_ENCODED_BYTES there
                ln = rng.choice([L.nbytes, L.nbytes, L.nbytes - 1, 1, 8, 0] + ([L.nbytes + 1, 2 * L.nbytes, 2 * L.nbytes + 3] if be != "ref" else []))
                add("fp_decode_reduce", 0, ln, (rng.bits(8 * ln) | (1 << (8 * ln - 1))) if ln else 0)
        elif k == 14:
            add("fp_encode", 0, E())
        elif k == 15:
            v = rng.choice([0, 1, L.p - 1, L.p - 2, rng.below(L.p), 2 ** rng.below(L.e + 2) % L.p])
            if for_c06:
                v = rng.choice([v, L.p, L.p + 1, L.R - 1, L.p + rng.below(L.R - L.p)])
            add("fp_decode", 0, v)
        elif k < 20:
            op = rng.choice(["fp2_add", "fp2_sub", "fp2_mul", "fp2_mul"])
            al = rng.below(5)
            a = E2()
            b = a if al >= 3 else E2()
            add(op, al, a[0], a[1], b[0], b[1])
        elif k == 20:
            a = E2()
            add(rng.choice(["fp2_neg", "fp2_sqr", "fp2_sqr"]), rng.below(2), a[0], a[1])
        elif k == 21:
            a = E2()
            add(rng.choice(["fp2_is_zero", "fp2_is_one"]), 0, *rng.choice([a, (0, 0), (L.mont(1), 0), a]))
        elif k == 22:
            a = E2()
            al = rng.choice([0, 3])
            b = a if al == 3 else rng.choice([E2(), a])
            add("fp2_is_equal", al, a[0], a[1], b[0], b[1])
        elif k == 23:
            a, b = E2(), E2()
            if rng.below(2):
                add("fp2_select", rng.below(3), a[0], a[1], b[0], b[1], rng.choice([0, T32]))
            else:
                add("fp2_cswap", 0, a[0], a[1], b[0], b[1], rng.choice([0, T32]))
        elif k == 24:
            a = E2()
            if rng.below(2):
                add("fp2_encode", 0, a[0], a[1])
            else:
                v = rng.below(L.p) + (rng.below(L.p) << (8 * L.nbytes))
                add("fp2_decode", 0, v)
        else:
            if rng.below(2):
                add("fp2_set_small", 0, rng.bits(rng.choice([3, 16, 32])))
            else:
                add("fp2_set_one", 0)
        if not be == "ref" and rng.below(12) == 0:
            add("gf_mul_small", rng.below(2), E(), rng.choice([0, 1, 2, 2 ** 32 - 1, rng.bits(32)]))
        if be == "ref" and rng.below(12) == 0:
            if rng.below(2):
                add("fp_tomont", rng.below(2), rng.choice([rng.below(L.p), rng.below(L.R), L.R - 1, L.p]))
            else:
                add("fp_frommont", rng.below(2), E())

    for _ in range(n_exp):
        k = rng.below(16)
        if k < 3:
            add(EXP1[k], rng.below(2) if EXP1[k] == "fp_half" else 0, E())
        elif k == 3:
            add("fp_is_square", 0, E())
        elif k == 4:
            a = E2()
            add("fp2_inv", 0, a[0], a[1])
        elif k < 8:
            a = E2()
            add("fp2_sqrt", 0, a[0], a[1])
        elif k == 8:
            a = E2()
            add("fp2_is_square", 0, a[0], a[1])
        elif k == 9:
            a = E2()
            add("fp2_half", rng.below(2), a[0], a[1])
        elif k < 13:
            ln = 1 + rng.below(16)
            xs = []
            zmode = rng.below(6)        # 0: zeros sprinkled in, 1: only zeros, 2: a single zero at either end, else none forced
            zpos = rng.choice([0, ln - 1])
            for _i in range(ln):
                a = E2()
                if zmode == 1 or (zmode == 0 and rng.below(3) == 0) or (zmode == 2 and _i == zpos):
                    a = (gen_zero(rng, L, be), gen_zero(rng, L, be))
                xs += [a[0], a[1]]
            add("fp2_batched_inv", 0, ln, *xs)
        elif k == 13:
            a = E2()
            ws = gen_exponent(rng, L, hist)
            add("fp2_pow_vartime", rng.below(2), a[0], a[1], len(ws), *ws)
        elif be != "ref":
            g = rng.choice(["gf_div", "gf_invert", "gf_sqrt", "gf_legendre", "gf_decode_reduce", "gf_xsquare"])
            if g == "gf_div":
                al = rng.below(5)
                a = E()
                b = a if al >= 3 else E()
                add(g, al, a, b)
            elif g == "gf_decode_reduce":
                ln = rng.choice([0, 1, 7, L.nbytes - 1, L.nbytes, L.nbytes + 1, 2 * L.nbytes, 2 * L.nbytes + 3, 3 * L.nbytes, rng.below(200)])
                add(g, 0, ln, rng.bits(8 * ln) if ln else 0)
            elif g == "gf_xsquare":
                add(g, rng.below(2), E(), rng.below(5))
            else:
                add(g, rng.below(2) if g != "gf_legendre" else 0, E())
        else:
            add("fp_is_square", 0, E())
    # exponentiation loops: dedicated share of structured exponents (zero words low / middle / top, boundaries)
    for _ in range(max(8, n_exp // 5)):
        a = E2()
        ws = gen_exponent(rng, L, hist)
        add("fp2_pow_vartime", rng.below(2), a[0], a[1], len(ws), *ws)
    return out


FIAT_TO_FP = {"fiat_mul": "fp_mul", "fiat_square": "fp_sqr", "fiat_add": "fp_add", "fiat_sub": "fp_sub", "fiat_opp": "fp_neg",
              "fiat_to_montgomery": "fp_tomont", "fiat_from_montgomery": "fp_frommont", "fiat_set_one": "fp_set_one"}


def fiat_lines(rng, L, count, hist, ophist):
    """calls of the fiat-crypto functions themselves (ref build): executed by the real code, by the interpreter on the
    programs re-extracted from the C text (tie T), and — through FIAT_TO_FP — by the generic Montgomery model"""
    E = lambda: gen_elem(rng, L, "ref", hist)
    out = []

    def add(op, al, *args):
        ophist[op] = ophist.get(op, 0) + 1
        out.append("%s %d %s" % (op, al, " ".join("%x" % a for a in args)))
    for _ in range(count):
        k = rng.below(12)
        if k < 4:
            al = rng.below(5)
            a = E()
            b = a if al >= 3 else E()
            add(rng.choice(["fiat_mul", "fiat_mul", "fiat_add", "fiat_sub"]), al, a, b)
        elif k < 6:
            add(rng.choice(["fiat_square", "fiat_opp", "fiat_from_montgomery"]), rng.below(2), E())
        elif k == 6:
            add("fiat_to_montgomery", rng.below(2), rng.choice([E(), rng.below(L.R), L.R - 1, L.p, L.p + 1]))
        elif k == 7:
            add("fiat_nonzero", 0, rng.choice([0, E(), 1 << (64 * rng.below(L.n)), 1 << rng.below(64 * L.n)]))
        elif k == 8:
            add("fiat_selectznz", 0, rng.choice([0, 1, 1, 0xff]), E(), E())
        elif k == 9:
            add("fiat_to_bytes", 0, E())
        elif k == 10:
            add("fiat_from_bytes", 0, rng.choice([rng.below(L.p), L.p - 1, 0, 1 << rng.below(8 * L.nbytes - 8)]))
        else:
            add("fiat_set_one", 0)
    return out


def corpus_lines(prop, L, be=None):
    """minimised past failures from corpus/<prop>/*.txt (run first on every check)"""
    d = os.path.join(vlib.ROOT, "corpus", prop)
    out = []
    if not os.path.isdir(d):
        return out
    for f in sorted(os.listdir(d)):
        for ln in open(os.path.join(d, f)):
            t = ln.split()
            if not t or t[0].startswith("#"):
                continue
            if be is not None:
                if t[0] in (be, "*") and t[1] in (str(L.lvl), "*"):
                    out.append(" ".join(t[2:]))
            elif t[0] in (str(L.lvl), "*"):
                out.append(" ".join(t[1:]))
    return out


def fixed_lines(L, be):
    """deterministic corner cases that always run (corpus): the listed findings and classic edge cases"""
    o = ["fp_is_square 0 0", "fp2_is_square 0 0 0", "fp_inv 0 0", "fp2_inv 0 0 0", "fp_sqrt 0 0", "fp2_sqrt 0 0 0",
         "fp2_batched_inv 0 2 %x 0 0 0" % L.mont(1), "fp2_batched_inv 0 3 %x %x 0 0 %x 0" % (L.mont(2), L.mont(3), L.mont(5)),
         "fp2_batched_inv 0 1 0 0", "fp2_batched_inv 0 1 %x %x" % (L.mont(3), L.mont(4)),
         "fp_half 0 %x" % L.mont(1), "fp_half 0 %x" % L.mont(L.p - 1), "fp_neg 0 0", "fp_sub 0 0 %x" % L.mont(1),
         "fp2_sqrt 0 %x 0" % L.mont(L.p - 1), "fp2_sqrt 0 %x 0" % L.mont(4), "fp2_sqrt 0 0 %x" % L.mont(2),
         "fp2_sqrt 0 0 %x" % L.mont(L.p - 2), "fp_encode 0 %x" % L.mont(L.p - 1), "fp_decode 0 %x" % (L.p - 1)]
    o += pow_fixed_lines(L)
    if be != "ref":
        o += ["fp_is_zero 0 %x" % L.p, "fp_is_square 0 %x" % L.p, "fp_inv 0 %x" % L.p, "fp_encode 0 %x" % L.p,
              "fp_is_equal 0 0 %x" % L.p, "fp_neg 0 %x" % L.p, "fp_add 0 %x %x" % (2 ** L.B - 1, 2 ** L.B - 1),
              "fp_sub 0 0 %x" % (2 ** L.B - 1), "fp_mul 0 %x %x" % (2 ** L.B - 1, 2 ** L.B - 1), "fp_sqr 0 %x" % (2 ** L.B - 1),
              "fp_half 0 %x" % (2 ** L.B - 1), "gf_legendre 0 0", "gf_legendre 0 %x" % L.p]
    return o


# ------------------------------------------------------------------------------------------ oracle
def cmul(p, x, y):
    return ((x[0] * y[0] - x[1] * y[1]) % p, (x[0] * y[1] + x[1] * y[0]) % p)


def cinv(p, x):
    nrm = (x[0] * x[0] + x[1] * x[1]) % p
    if nrm == 0:
        return (0, 0)
    i = pow(nrm, -1, p)
    return (x[0] * i % p, (-x[1]) * i % p)


def oracle(L, be, line, res):
    """Exact specification of the property on one API call. `res` = list of result tokens printed by the
    real code. Returns None when the real code meets the spec, else (key, what)."""
    t = line.split()
    op, a = t[0], [int(x, 16) for x in t[2:]]
    p, D = L.p, L.dom(be)
    V = L.val
    if op in FIAT_TO_FP:
        return oracle(L, be, " ".join([FIAT_TO_FP[op]] + t[1:]), res)
    if "bad-op" in res or any(x.startswith("<") for x in res):
        return ("%s:lvl%d:%s:no-result" % (be, L.lvl, op), "no result from the real code (crash / rejected call)")
    try:
        r = [int(x, 16) for x in res]
    except ValueError:
        return ("%s:lvl%d:%s:garbled" % (be, L.lvl, op), "unparsable result %r" % res)

    def bad(detail, key=None):
        return (key or "%s:lvl%d:%s" % (be, L.lvl, op), "%s: %s" % (op, detail))

    def rng_ok(*xs):
        return all(x < D for x in xs)

    def fpres(expected_val):
        if len(r) != 1 or not rng_ok(r[0]):
            return bad("result outside the representation range")
        if V(r[0]) != expected_val % p:
            return bad("result is not the exact field value")
        return None

    def fp2res(e):
        if len(r) != 2 or not rng_ok(*r):
            return bad("result outside the representation range")
        if (V(r[0]), V(r[1])) != (e[0] % p, e[1] % p):
            return bad("result is not the exact GF(p^2) value")
        return None

    def mask(cond):
        if len(r) != 1 or r[0] != (T32 if cond else 0):
            return bad("Boolean result wrong (expected %s)" % ("true" if cond else "false"))
        return None

    if op == "fp_add": return fpres(V(a[0]) + V(a[1]))
    if op == "fp_sub": return fpres(V(a[0]) - V(a[1]))
    if op == "fp_mul": return fpres(V(a[0]) * V(a[1]))
    if op == "fp_neg": return fpres(-V(a[0]))
    if op == "fp_sqr": return fpres(V(a[0]) ** 2)
    if op == "fp_half": return fpres(V(a[0]) * pow(2, -1, p))
    if op == "fp_inv": return fpres(pow(V(a[0]), -1, p) if V(a[0]) else 0)
    if op == "fp_tomont":
        return fpres(a[0]) if a[0] < p else None        # outside [0,p): not an API operand
    if op == "fp_frommont":
        return None if (len(r) == 1 and r[0] == V(a[0])) else bad("not the canonical representative")
    if op == "fp_sqrt":
        v = V(a[0])
        if not L.is_sq(v):
            return None if rng_ok(*r) else bad("result outside the representation range")
        if len(r) != 1 or not rng_ok(r[0]) or V(r[0]) ** 2 % p != v:
            return bad("result of a square is not a square root")
        if V(r[0]) % 2:
            return bad("square root not in the documented sign normalisation (odd canonical representative)")
        return None
    if op == "fp_is_square":
        e = mask(L.is_sq(V(a[0])))
        if e and V(a[0]) == 0:
            return bad("returns false on 0 (0 is a square)", key="%s:fp_is_square:0" % be)
        return e
    if op == "fp_is_zero": return mask(V(a[0]) == 0)
    if op == "fp_is_equal": return mask(V(a[0]) == V(a[1]))
    if op == "fp_select":
        return None if (len(r) == 1 and r[0] == (a[1] if a[2] == T32 else a[0])) else bad("wrong operand selected")
    if op == "fp_cswap":
        return None if r == ([a[1], a[0]] if a[2] == T32 else [a[0], a[1]]) else bad("wrong swap")
    if op == "fp_set_small": return fpres(a[0])
    if op == "fp_set_one": return fpres(1)
    if op == "fp_set_zero": return fpres(0)
    if op == "fp_encode":
        return None if (len(r) == 1 and r[0] == V(a[0])) else bad("encoding is not the canonical little-endian integer")
    if op == "fp_decode":
        if a[0] >= p:
            return None                                  # non-canonical input: outside C07 (see C06)
        if len(r) != 2 or not rng_ok(r[0]) or V(r[0]) != a[0] or r[1] != T32:
            return bad("decode of a canonical string is not the encoded value")
        return None
    if op == "fiat_nonzero":
        return None if (len(r) == 1 and (r[0] == 0) == (a[0] == 0)) else bad("nonzero test wrong")
    if op == "fiat_selectznz":
        return None if r == [a[2] if a[0] else a[1]] else bad("wrong operand selected")
    if op == "fiat_to_bytes":
        return None if r == [a[0]] else bad("byte serialisation is not the little-endian integer")
    if op == "fiat_from_bytes":
        return None if r == [a[0]] else bad("byte deserialisation is not the little-endian integer")
    # ---- GF(p^2)
    X = lambda i: (V(a[i]), V(a[i + 1]))
    if op == "fp2_add": return fp2res((X(0)[0] + X(2)[0], X(0)[1] + X(2)[1]))
    if op == "fp2_sub": return fp2res((X(0)[0] - X(2)[0], X(0)[1] - X(2)[1]))
    if op == "fp2_mul": return fp2res(cmul(p, X(0), X(2)))
    if op == "fp2_neg": return fp2res((-X(0)[0], -X(0)[1]))
    if op == "fp2_sqr": return fp2res(cmul(p, X(0), X(0)))
    if op == "fp2_half":
        h = pow(2, -1, p)
        return fp2res((X(0)[0] * h, X(0)[1] * h))
    if op == "fp2_inv": return fp2res(cinv(p, X(0)))
    if op == "fp2_is_zero": return mask(X(0) == (0, 0))
    if op == "fp2_is_one": return mask(X(0) == (1, 0))
    if op == "fp2_is_equal": return mask(X(0) == X(2))
    if op == "fp2_is_square":
        x = X(0)
        sq = L.is_sq(x[0] * x[0] + x[1] * x[1])
        e = mask(sq)
        if e and x == (0, 0):
            return bad("returns false on 0 (0 is a square)", key="%s:fp2_is_square:0" % be)
        return e
    if op == "fp2_sqrt":
        x = X(0)
        if len(r) != 2 or not rng_ok(*r):
            return bad("result outside the representation range")
        if not L.is_sq(x[0] * x[0] + x[1] * x[1]):
            return None
        y = (V(r[0]), V(r[1]))
        if cmul(p, y, y) != x:
            return bad("result of a square is not a square root")
        if y[0] % 2 == 1 or (y[0] == 0 and y[1] % 2 == 1):
            return bad("square root not in the documented sign normalisation")
        return None
    if op == "fp2_select":
        return None if r == (a[2:4] if a[4] == T32 else a[0:2]) else bad("wrong operand selected")
    if op == "fp2_cswap":
        return None if r == (a[2:4] + a[0:2] if a[4] == T32 else a[0:4]) else bad("wrong swap")
    if op == "fp2_set_small": return fp2res((a[0], 0))
    if op == "fp2_set_one": return fp2res((1, 0))
    if op == "fp2_encode":
        x = X(0)
        return None if (len(r) == 1 and r[0] == x[0] + (x[1] << (8 * L.nbytes))) else bad("encoding is not canonical")
    if op == "fp2_decode":
        re, im = a[0] % 2 ** (8 * L.nbytes), a[0] >> (8 * L.nbytes)
        if re >= p or im >= p:
            return None
        if len(r) != 3 or not rng_ok(r[0], r[1]) or (V(r[0]), V(r[1])) != (re, im) or r[2] != T32:
            return bad("decode of a canonical string is not the encoded value")
        return None
    if op == "fp2_batched_inv":
        n = a[0]
        xs = [(V(a[1 + 2 * i]), V(a[2 + 2 * i])) for i in range(n)]
        if len(r) != 2 * n or not rng_ok(*r):
            return bad("result outside the representation range")
        got = [(V(r[2 * i]), V(r[2 * i + 1])) for i in range(n)]
        want = [cinv(p, x) for x in xs]
        if got != want:
            if any(x == (0, 0) for x in xs):
                return bad("batch with a zero entry: not element-wise inversion with 0 -> 0 (before commit 17faca0 a zero entry zeroed every entry)", key="fp2_batched_inv:contains-zero")
            return bad("not element-wise inversion")
        return None
    if op == "fp2_pow_vartime":
        x, k = X(0), a[2]
        e = sum(w << (64 * i) for i, w in enumerate(a[3:3 + k]))
        acc, b = (1, 0), x
        while e:
            if e & 1:
                acc = cmul(p, acc, b)
            b = cmul(p, b, b)
            e >>= 1
        return fp2res(acc)
    # ---- x86 API below the macro layer
    if op == "gf_mul_small":
        e = fpres(V(a[0]) * a[1])
        if e and len(r) == 1 and r[0] >= 1 and V(r[0] - 1) == V(a[0]) * a[1] % p:
            return bad("result is a*x + 1 (stale carry flag enters the fold chain; defect repaired by 2ef264b has returned)", key="bw:gf_mul_small:stale-carry")
        return e
    if op == "gf_xsquare":
        if a[1] == 0:
            return None if r == [a[0]] else bad("n = 0 must copy")
        return fpres(pow(V(a[0]), 2 ** a[1], p))
    if op == "gf_div":
        vb = V(a[1])
        if len(r) != 2 or not rng_ok(r[0]):
            return bad("result outside the representation range")
        want = V(a[0]) * pow(vb, -1, p) % p if vb else 0
        if V(r[0]) != want or r[1] != (T32 if vb else 0):
            return bad("not the exact quotient / wrong flag")
        return None
    if op == "gf_invert":
        va = V(a[0])
        if len(r) != 2 or not rng_ok(r[0]) or V(r[0]) != (pow(va, -1, p) if va else 0) or r[1] != (T32 if va else 0):
            return bad("not the exact inverse / wrong flag")
        return None
    if op == "gf_legendre":
        va = V(a[0])
        want = 0 if va == 0 else (1 if L.is_sq(va) else T32)
        return None if r == [want] else bad("wrong Legendre symbol")
    if op == "gf_sqrt":
        va = V(a[0])
        if len(r) != 2 or not rng_ok(r[0]):
            return bad("result outside the representation range")
        y = V(r[0])
        sq = L.is_sq(va)
        if y % 2 or r[1] != (T32 if sq else 0) or y * y % p != (va if sq else (-va) % p):
            return bad("wrong root / flag / sign normalisation")
        return None
    if op == "fp_decode_reduce":
        return fpres(a[1] % 2 ** (8 * a[0]) if a[0] else 0)
    if op == "gf_decode_reduce":
        return fpres(a[1] % 2 ** (8 * a[0]) if a[0] else 0)
    return ("%s:lvl%d:%s:no-oracle" % (be, L.lvl, op), "operation without oracle")


# ---------------------------------------------------------------- binary-GCD stress (x86 inversion / Legendre)
def gcd_hard_values(L, mmax=2000, jmax=40, extra_rng=None):
    """field VALUES that drive a binary GCD close to its worst case: ±m/2^j and ±m·2^j for small odd m, values
    near q/2, q/3, 2^k ± 1, ratios of consecutive Fibonacci numbers. Returns [(label, value, legendre or None)];
    the Legendre symbol of ±m·2^(±j) is obtained multiplicatively from those of m, 2, −1 (cheap oracle)."""
    p = L.p
    leg = lambda v: 0 if v % p == 0 else (1 if pow(v % p, (p - 1) // 2, p) == 1 else -1)
    l2, lm1 = leg(2), leg(p - 1)
    inv2 = pow(2, -1, p)
    out = []
    pw = [1]
    ipw = [1]
    for _ in range(jmax):
        pw.append(pw[-1] * 2 % p)
        ipw.append(ipw[-1] * inv2 % p)
    for m in range(1, mmax, 2):
        lm = leg(m)
        for j in range(jmax + 1):
            lj = l2 if j % 2 else 1
            for sg in (1, -1):
                ls = lm * lj * (lm1 if sg < 0 else 1)
                out.append(("%s%d/2^%d" % ("-" if sg < 0 else "", m, j), sg * m * ipw[j] % p, ls))
                if j:
                    out.append(("%s%d*2^%d" % ("-" if sg < 0 else "", m, j), sg * m * pw[j] % p, ls))
    ext = []
    for d in (2, 3, 5, 7):
        for e in range(-3, 4):
            ext.append(("q/%d%+d" % (d, e), (p // d + e) % p))
    for k in list(range(1, 70)) + list(range(L.e - 4, L.e + 8)) + [64 * i + t for i in range(1, L.n) for t in (-1, 0, 1)]:
        for e in (-1, 1):
            ext.append(("2^%d%+d" % (k, e), (pow(2, k, p) + e) % p))
    f0, f1 = 1, 1
    for i in range(2, 2 * L.B):
        f0, f1 = f1, f0 + f1
        if i % 3 == 0 or i > 2 * L.B - 40:
            ext.append(("fib%d/fib%d" % (i + 1, i), f1 * pow(f0, -1, p) % p))
            ext.append(("-fib%d/fib%d" % (i, i + 1), (-f0) * pow(f1, -1, p) % p))
    if extra_rng is not None:
        for _ in range(300):
            a, b = 1 + extra_rng.below(2 ** 20), 1 + extra_rng.below(2 ** 20)
            ext.append(("%d/%d" % (a, b), a * pow(b, -1, p) % p))
    out += [(n, v, None) for n, v in ext]
    return out


def gcd_sweep(ctx, exe, L, be, thorough=False, ref_exe=None, mmax=2000):
    """oracle-only sweep (no Lean model: ~10^5 calls per level) of fp_is_square / fp_inv / fp_sqrt / fp2_sqrt /
    fp2_inv on binary-GCD-hard operands of back-end `be`; each real result is checked against the exact
    specification. With `ref_exe` (C06) the ref build is run on the fp_is_square / fp_sqrt lines too and must agree."""
    p, V = L.p, L.val
    vals = gcd_hard_values(L, mmax, 64 if thorough else 40, ctx.rng.fork("gcd:%d" % L.lvl))
    lines, chk = [], []
    for idx, (name, v, ls) in enumerate(vals):
        raw = L.mont(v)
        lines.append("fp_is_square 0 %x" % raw); chk.append(("sq", name, v, ls))
        small = ls is None or idx % 9 == 0 or name.split("/")[0].lstrip("-").split("*")[0] in ("1", "3", "5", "7", "9", "11", "13", "15")
        if small:
            lines.append("fp_inv 0 %x" % raw); chk.append(("inv", name, v, ls))
            lines.append("fp_sqrt 0 %x" % raw); chk.append(("sqrt", name, v, ls))
            lines.append("fp2_sqrt 0 %x 0" % raw); chk.append(("sqrt2", name, v, ls))
            lines.append("fp2_inv 0 %x %x" % (raw, L.mont(1))); chk.append(("inv2", name, v, ls))
    out = run_c(exe, lines)
    D = L.dom(be)
    bad = 0
    legc = {}
    for l, o, (kind, name, v, ls) in zip(lines, out, chk):
        if ls is None:
            if v not in legc:
                legc[v] = 0 if v == 0 else (1 if pow(v, (p - 1) // 2, p) == 1 else -1)
            ls = legc[v]
        ok = True
        try:
            r = [int(x, 16) for x in o.split()]
            if kind == "sq":
                ok = r == [T32 if ls >= 0 else 0]
            elif kind == "inv":
                ok = len(r) == 1 and r[0] < D and (V(r[0]) * v % p == (1 if v else 0))
            elif kind == "sqrt":
                ok = len(r) == 1 and r[0] < D and (ls < 0 or (V(r[0]) ** 2 % p == v and V(r[0]) % 2 == 0))
            elif kind == "sqrt2":
                y = (V(r[0]), V(r[1]))
                ok = len(r) == 2 and max(r) < D and cmul(p, y, y) == (v, 0) and y[0] % 2 == 0 and (y[0] != 0 or y[1] % 2 == 0)
            else:
                y = (V(r[0]), V(r[1]))
                ok = len(r) == 2 and max(r) < D and cmul(p, y, (v, 1)) == (1, 0)
        except ValueError:
            ok = False
        ctx.evaluations += 1
        if not ok:
            bad += 1
            v2 = oracle(L, be, l, o.split()) or ("%s:lvl%d:%s" % (be, L.lvl, l.split()[0]), "result contradicts the specification")
            ctx.violation(v2[0], "%s [%s lvl%d, binary-GCD-hard operand %s] %s" % (v2[1], be, L.lvl, name, l[:160]),
                          dict(backend=be, level=L.lvl, op_line=l, real_code_output=o, operand=name,
                               how_to_replay="echo '%s' | <drv_gf compiled for %s lvl%d>" % (l, be, L.lvl)))
    ctx.case(("gcd-sweep", be, L.lvl), 0)
    ndiff = 0
    if ref_exe is not None:
        sel = [i for i, c in enumerate(chk) if c[0] in ("sq", "sqrt", "sqrt2")]
        elines = ["E:" + lines[i] for i in sel]
        ro, bo = run_c(ref_exe, elines), run_c(exe, elines)
        for i, a, b in zip(sel, ro, bo):
            if a != b:
                ndiff += 1
                ctx.violation("lvl%d:%s:encodings-differ" % (L.lvl, lines[i].split()[0]),
                              "ref and x86 builds give different results on a binary-GCD-hard operand (%s) [lvl%d] %s" % (chk[i][1], L.lvl, lines[i][:160]),
                              dict(level=L.lvl, ref_op_line="E:" + lines[i], x86_op_line="E:" + lines[i], ref_output=a, x86_output=b, operand=chk[i][1]))
    ctx.obligation("binary-GCD stress sweep %s lvl%d (%d calls, oracle only)" % (be, L.lvl, len(lines)), bad == 0 and ndiff == 0,
                   "%d contradictions of the specification, %d ref/x86 differences" % (bad, ndiff))
    ctx.coverage.setdefault("gcd_sweep", {})["%s lvl%d" % (be, L.lvl)] = dict(calls=len(lines), operands=len(vals), contradictions=bad, ref_x86_differences=ndiff)
    return bad + ndiff



# ------------------------------------------------------------------------------------------ running
def run_model(prefix, lines, chunk=400, workers=16):
    """run the Lean model driver on `lines` (prefix added), in parallel chunks; returns result lines"""
    chunks = [lines[i:i + chunk] for i in range(0, len(lines), chunk)]

    def one(ch):
        p = subprocess.run([DRIVER], input=("\n".join(prefix + l for l in ch) + "\n").encode(), stdout=subprocess.PIPE,
                           stderr=subprocess.PIPE, timeout=3000)
        if p.returncode != 0:
            raise vlib.BuildError("lean driver failed: " + p.stderr.decode()[-1000:])
        o = p.stdout.decode().split("\n")[:-1]
        if len(o) != len(ch):
            raise vlib.BuildError("lean driver returned %d lines for %d ops" % (len(o), len(ch)))
        return o
    with cf.ThreadPoolExecutor(workers) as ex:
        res = list(ex.map(one, chunks))
    return [x for ch in res for x in ch]


def run_c(exe, lines):
    rc, outs, err = vlib.run_c([exe], lines)
    while len(outs) < len(lines):
        outs.append("<no output: C driver stopped rc=%d %s>" % (rc, err[-300:].replace("\n", " | ")))
    return outs


def build_drivers(ctx, kinds=("ref", "broadwell"), full=False):
    """build the repo working tree for the requested back-ends (gf libraries only unless `full`) and
    compile drv_gf.c against each level; returns {(be, lvl): exe}"""
    exes = {}
    for kind in kinds:
        tg = None if full else ["sqisign_gf_lvl1", "sqisign_gf_lvl3", "sqisign_gf_lvl5"]
        b = ctx.build_repo(kind, targets=tg, extra_cflags="" if full else "-DVERIF_GF_ONLY")
        be = "ref" if kind == "ref" else "bw"
        for lvl in (1, 3, 5):
            out = os.path.join(ctx.tmp, "drv_gf_%s_%d" % (be, lvl))
            ctx.cc_harness(HARNESS, out, lvl, kind=kind, build=b, defs=(["VERIF_BW"] if be == "bw" else []))
            exes[(be, lvl)] = out
    return exes

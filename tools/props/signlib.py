"""Helper shared by the signer-side checks C04 / C01 / C05 (owner: a8): compile the probe driver
tools/harness/drv_sign.c against ONE protocol variant (the three variant libraries export the same
symbol names, so the generic vlib.libs() link group cannot be used), run probes in subprocesses with a
timeout, classify crashes."""
import os, re, subprocess, sys, time, signal
from concurrent.futures import ThreadPoolExecutor
import vlib

VARIANTS = {"dim2": (0, "sqisigndim2"), "heur": (1, "sqisigndim2_heuristic"), "hd": (2, "sqisignhd")}
HARNESS = os.path.join(vlib.ROOT, "tools", "harness", "drv_sign.c")


def variant_libs(ctx, b, lvl, variant):
    vname = VARIANTS[variant][1]
    names = ["%s_lvl%d" % (vname, lvl), "dim2id2iso_lvl%d" % lvl, "hd_lvl%d" % lvl, "id2iso_lvl%d" % lvl,
             "klpt_lvl%d" % lvl, "quaternion_generic", "precomp_lvl%d" % lvl, "intbig_generic",
             "gf_lvl%d" % lvl, "ec_lvl%d" % lvl, "common_test"]
    found = {}
    for d, _, fs in os.walk(b):
        for f in fs:
            if f.startswith("libsqisign_") and f.endswith(".a"):
                found[f[len("libsqisign_"):-2]] = os.path.join(d, f)
    return [found[n] for n in names]


def compile_probe(ctx, b, lvl, variant, san, outdir, src=HARNESS, tag="sign"):
    vid, vname = VARIANTS[variant]
    out = os.path.join(outdir, "%s_%s_l%d%s" % (tag, variant, lvl, "_san" if san else ""))
    cc = "clang" if san else "gcc"
    cmd = [cc, "-O1", "-g", "-std=gnu11", "-DRADIX_64", "-DTARGET_AMD64", "-DTARGET_OS_UNIX", "-DNDEBUG",
           "-D" + vlib.GUARD, "-DVERIF_LVL=%d" % lvl, "-DVERIF_VARIANT=%d" % vid]
    if san:
        cmd += ["-fsanitize=address,undefined", "-fno-sanitize-recover=all", "-fno-omit-frame-pointer"]
    cmd += ["-I" + i for i in ctx.includes(lvl, "ref", vname)]
    cmd += [src, "-o", out, "-Wl,--start-group"] + variant_libs(ctx, b, lvl, variant) + ["-Wl,--end-group", "-lgmp", "-lm"]
    rc, o = vlib.sh(cmd)
    if rc != 0:
        raise vlib.BuildError("probe compile failed (%s):\n%s" % (" ".join(cmd), o[-3000:]))
    return out


def compile_all(ctx, b, san, levels=(1, 3, 5), variants=("dim2", "heur", "hd"), src=HARNESS, tag="sign"):
    outdir = os.path.join(ctx.tmp, "probes")
    os.makedirs(outdir, exist_ok=True)
    jobs = [(l, v) for l in levels for v in variants]
    with ThreadPoolExecutor(16) as ex:
        res = list(ex.map(lambda lv: compile_probe(ctx, b, lv[0], lv[1], san, outdir, src, tag), jobs))
    return dict(zip(jobs, res))


SAN_RE = re.compile(r"(ERROR: AddressSanitizer: [a-z\-A-Z]+|runtime error: [^\n]{0,160}|LeakSanitizer[^\n]*)")


def run_probe(exe, ops, env=None, timeout=600, keep=False):
    """returns dict(rc, results[list of R-lines], crash(None|str), where(op that was running), stderr_tail, fired)"""
    e = dict(os.environ)
    for k in list(e):
        if k.startswith("SQI_VERIF_"):
            del e[k]
    e["ASAN_OPTIONS"] = "detect_leaks=0:abort_on_error=0:allocator_may_return_null=1"
    e["UBSAN_OPTIONS"] = "print_stacktrace=1"
    if env:
        e.update({k: str(v) for k, v in env.items()})
    t = time.time()
    try:
        p = subprocess.run([exe], input=("\n".join(ops) + "\n").encode(), stdout=subprocess.PIPE,
                           stderr=subprocess.PIPE, timeout=timeout, env=e)
        rc, out, err = p.returncode, p.stdout.decode("utf-8", "replace"), p.stderr.decode("utf-8", "replace")
        to = False
    except subprocess.TimeoutExpired as ex:
        rc, out, err, to = -999, (ex.stdout or b"").decode("utf-8", "replace"), (ex.stderr or b"").decode("utf-8", "replace"), True
    res = [l[2:] for l in out.split("\n") if l.startswith("R ")]
    crash = None
    if to:
        crash = "timeout(%ds)" % timeout
    elif rc != 0:
        m = SAN_RE.search(err)
        if m:
            crash = m.group(1)
            fr = re.findall(r"#\d+ 0x[0-9a-f]+ in (\w+)", err)
            fr = [f for f in fr if not f.startswith("__")][:3]
            if fr:
                crash += " in " + "<".join(fr)
        elif rc < 0:
            crash = "signal %s" % (signal.Signals(-rc).name if -rc in signal.Signals._value2member_map_ else -rc)
        else:
            crash = "exit %d" % rc
    where = None
    for l in res:
        if l.startswith("begin "):
            where = l[6:]
        elif where and l.startswith(where):
            where = None
    fired = len(re.findall(r"verif-h2: fired", err))
    d = dict(rc=rc, results=res, crash=crash, where=where if crash else None, stderr=err[-1500:], fired=fired,
             wall=round(time.time() - t, 2))
    if keep:
        d["stderr_full"] = err
        d["raw_out"] = out
    return d


def parse_sign(line):
    """'sign ret=1 v2=3 bt=0 hb=0 hints=..' -> dict"""
    d = {}
    for kv in line.split()[1:]:
        if "=" in kv:
            k, v = kv.split("=", 1)
            d[k] = int(v) if re.fullmatch(r"-?\d+", v) else v
    return d


def run_many(jobs, workers=16, keep=False):
    """jobs: list of (key, exe, ops, env, timeout) -> dict key -> result"""
    with ThreadPoolExecutor(workers) as ex:
        futs = {j[0]: ex.submit(run_probe, j[1], j[2], j[3], j[4], keep) for j in jobs}
        return {k: f.result() for k, f in futs.items()}

"""Shared helpers of the C03 / C02 checks (verifier side): building tools/harness/drv_verify.c for a level and
variant, running probes (one process per probe: a crash or a timeout is a result), token <-> model conversions,
an independent SHAKE256 recomputation of the challenge, and the honest-signature cache of a run."""
import concurrent.futures, hashlib, os, re, subprocess, sys, time
import vlib

HARNESS = os.path.join(vlib.ROOT, "tools", "harness")
LVLS = (1, 3, 5)
INT_MIN, INT_MAX = -2**31, 2**31 - 1

# level constants mirrored for the generators only (the theorems use the generated tables)
CONST = {1: dict(f=248, resp=128, bt=16, hb=126, hc=122, rows=134, nw=4, p=5 * 2**248 - 1, hit=16),
         3: dict(f=376, resp=194, bt=18, hb=192, hc=184, rows=198, nw=6, p=65 * 2**376 - 1, hit=256),
         5: dict(f=500, resp=255, bt=18, hb=253, hc=247, rows=260, nw=8, p=27 * 2**500 - 1, hit=64)}

VAR = {
    "dim2": dict(lib="sqisigndim2", defs=(), nsig=16,
                 names=["Are", "Aim", "Cre", "Cim", "bt", "trl", "m00", "m01", "m10", "m11", "chall", "chall_b", "ha0", "ha1", "hc0", "hc1"],
                 ints=["bt", "trl", "chall_b", "ha0", "ha1", "hc0", "hc1"], bigs=["m00", "m01", "m10", "m11", "chall"],
                 model_order=["bt", "trl", "m00", "m01", "m10", "m11", "chall", "chall_b", "ha0", "ha1", "hc0", "hc1"]),
    "heur": dict(lib="sqisigndim2_heuristic", defs=("VARIANT_HEUR",), nsig=15,
                 names=["Are", "Aim", "Cre", "Cim", "trl", "ha0", "ha1", "x", "hint_b", "b0", "d0", "b1", "d1", "c0", "e0"],
                 ints=["trl", "ha0", "ha1", "hint_b"], bigs=["x", "b0", "d0", "b1", "d1", "c0", "e0"],
                 model_order=["trl", "ha0", "ha1", "x", "hint_b", "b0", "d0", "b1", "d1", "c0", "e0"]),
}
PK_NAMES = ["Are", "Aim", "Cre", "Cim", "h0", "h1"]


def max_trl(lvl, variant):
    c = CONST[lvl]
    return c["rows"] - (c["f"] - c["resp"]) - 1 if variant == "dim2" else c["rows"] - (c["f"] - c["hb"] + 2) - 1


# ------------------------------------------------------------------------------------------ building
def compile_driver(ctx, lvl, variant, san, src="drv_verify.c", extra_libs=(), out=None):
    """like ctx.cc_harness, but links exactly one protocol library (both variants define protocols_verif)"""
    b = ctx.build_repo("ref", san=san)
    V = VAR[variant]
    cc = "clang" if san else "gcc"
    out = out or os.path.join(ctx.tmp, "%s_%s_l%d%s" % (src.split(".")[0], variant, lvl, "_san" if san else ""))
    cmd = [cc, "-O1", "-g", "-std=gnu11", "-DRADIX_64", "-DTARGET_AMD64", "-DTARGET_OS_UNIX", "-DNDEBUG",
           "-D%s" % vlib.GUARD, "-DVERIF_LVL=%d" % lvl, "-Wno-implicit-function-declaration"] + ["-D" + d for d in V["defs"]]
    if san:
        cmd += ["-fsanitize=address,undefined", "-fno-sanitize-recover=all", "-fno-omit-frame-pointer"]
    cmd += ["-I" + i for i in ctx.includes(lvl, "ref", V["lib"])]
    other = [v["lib"] for k, v in VAR.items() if k != variant] + ["sqisignhd"]
    libs = [l for l in ctx.libs(b, lvl, "test") if not any(("libsqisign_%s_lvl" % o) in os.path.basename(l) for o in other)]
    cmd += [os.path.join(HARNESS, src), "-o", out, "-Wl,--start-group"] + list(extra_libs) + libs + ["-Wl,--end-group", "-lgmp", "-lm"]
    rc, o = vlib.sh(cmd)
    if rc != 0:
        raise vlib.BuildError("harness compile failed (%s lvl%d %s):\n%s" % (src, lvl, variant, o[-3000:]))
    return out


def build_both(ctx):
    """sanitizer build (verifier probes) and plain build (honest keygen/sign: the signer has sanitizer findings of its
    own that belong to other properties) in parallel"""
    with concurrent.futures.ThreadPoolExecutor(max_workers=2) as ex:
        f1 = ex.submit(ctx.build_repo, "ref", True)
        f2 = ex.submit(ctx.build_repo, "ref", False)
        return f1.result(), f2.result()


def compile_all(ctx, san, combos=None):
    combos = combos or [(l, v) for l in LVLS for v in VAR]
    ctx.build_repo("ref", san=san)
    with concurrent.futures.ThreadPoolExecutor(max_workers=8) as ex:
        futs = {c: ex.submit(compile_driver, ctx, c[0], c[1], san) for c in combos}
        return {c: f.result() for c, f in futs.items()}


# ------------------------------------------------------------------------------------------ running
ENV = dict(ASAN_OPTIONS="detect_leaks=0:abort_on_error=0:allocator_may_return_null=1", UBSAN_OPTIONS="print_stacktrace=0")


def run_lines(exe, lines, timeout=120):
    """-> (status, result lines, stderr). status: 'ok' | 'timeout' | 'crash:<canonical reason>'"""
    e = dict(os.environ); e.update(ENV)
    try:
        p = subprocess.run([exe], input=("\n".join(lines) + "\n").encode(), stdout=subprocess.PIPE, stderr=subprocess.PIPE,
                           timeout=timeout, env=e)
    except subprocess.TimeoutExpired:
        return "timeout", [], ""
    out = [l[2:] for l in p.stdout.decode("utf-8", "replace").split("\n") if l.startswith("R ")]
    err = p.stderr.decode("utf-8", "replace")
    if p.returncode != 0 or len(out) < len(lines):
        return "crash:" + crash_reason(err, p.returncode), out, err[-3000:]
    return "ok", out, err[-500:]


def crash_reason(err, rc):
    m = re.search(r"runtime error: ([^\n]*)", err)
    loc = re.search(r"([\w./-]+\.[ch]):(\d+):\d+: runtime error", err)
    if m:
        what = re.sub(r"-?\d{3,}", "N", m.group(1))
        what = re.sub(r"index -?\w+ out of bounds", "index out of bounds", what)
        return "ubsan:%s@%s" % (what[:70], os.path.basename(loc.group(1)) if loc else "?")
    m = re.search(r"ERROR: AddressSanitizer: ([\w-]+)", err)
    if m:
        fn = re.search(r"SUMMARY: AddressSanitizer: [\w-]+ [^\s]+ in (\w+)", err)
        return "asan:%s@%s" % (m.group(1), fn.group(1) if fn else "?")
    if "GNU MP" in err or "gmp" in err.lower():
        return "gmp-abort"
    return "exit:%d" % rc


def parse_kv(line):
    return dict(x.split("=", 1) for x in line.split() if "=" in x)


def verify_line(variant, pk, sig, msghex):
    return "verify PK %s SIG %s MSG %s" % (" ".join(pk), " ".join(sig), msghex or "-")


def gen(exe, variant, seedhex, msghex, timeout=600):
    st, out, err = run_lines(exe, ["gen %s %s" % (seedhex, msghex or "-")], timeout)
    if st != "ok":
        return dict(status=st, stderr=err)
    t = out[0].split()
    n = VAR[variant]["nsig"]
    i = t.index("PK"); j = t.index("SIG")
    return dict(status="ok", ok=int(t[1].split("=")[1]), pk=t[i + 1:i + 7], sig=t[j + 1:j + 1 + n], v=int(t[-1].split("=")[1]), msg=msghex)


def honest_set(ctx, drivers, combos, seeds, msgs):
    """honest (pk, msg, sig) triples from the library's own keygen/sign with the deterministic DRBG, in parallel"""
    jobs = [(l, v, s, m) for (l, v) in combos for s in seeds for m in msgs]
    res = {}
    with concurrent.futures.ThreadPoolExecutor(max_workers=16) as ex:
        futs = {j: ex.submit(gen, drivers[(j[0], j[1])], j[1], j[2], j[3]) for j in jobs}
        for j, f in futs.items():
            res[j] = f.result()
    return res


def pmap(fn, items, workers=16):
    with concurrent.futures.ThreadPoolExecutor(max_workers=workers) as ex:
        return list(ex.map(fn, items))


# ------------------------------------------------------------------------------------------ model side
def hx(v):
    v = int(v)
    return ("-" if v < 0 else "") + "%x" % abs(v)


def tok_int(variant, name, tok):
    """driver token -> python int (int fields decimal, big integers / field elements hex)"""
    if name in VAR[variant]["ints"] or name in ("h0", "h1"):
        return int(tok, 10)
    return int(tok, 16)


def sig_dict(variant, sig):
    return {n: tok_int(variant, n, t) for n, t in zip(VAR[variant]["names"], sig)}


def sig_tokens(variant, d):
    V = VAR[variant]
    return [str(d[n]) if n in V["ints"] else hx(d[n]) for n in V["names"]]


def pk_dict(pk):
    return {n: (int(t, 10) if n in ("h0", "h1") else int(t, 16)) for n, t in zip(PK_NAMES, pk)}


def pk_tokens(d):
    return [str(d[n]) if n in ("h0", "h1") else hx(d[n]) for n in PK_NAMES]


def model_pk(pk):
    d = pk_dict(pk)
    return ["1" if (d["Cre"], d["Cim"]) == (1, 0) else "0", "0", hx(d["h0"]), hx(d["h1"])]


def model_sig(variant, sig):
    d = sig_dict(variant, sig)
    return ["1" if (d["Cre"], d["Cim"]) == (1, 0) else "0", "0"] + [hx(d[n]) for n in VAR[variant]["model_order"]]


def acc_line(variant, lvl, pk, sig, guard="gen"):
    return "verif.acc %s %d %s %s %s" % (variant, lvl, guard, " ".join(model_pk(pk)), " ".join(model_sig(variant, sig)))


def dec_line(variant, lvl, pk, sig, kv, guard="gen", checks="gen"):
    """decision-model op from the tapped values of one C run (missing values default to 0: the model only consults
    them at stages the C code reached, and the stage is compared too)"""
    ordb = kv.get("ord", "-")
    ordb = list(ordb) if ordb != "-" and len(ordb) == 6 else ["0"] * 6
    ker = kv.get("ker", "-")
    ker = ker if ker in ("0", "1") else "0"
    split = "1" if kv.get("jcom", "-") != "-" else "0"
    h = kv.get("H", "-"); h = h if h != "-" else "0"
    toks = [ker] + ordb + [split, h]
    if variant == "heur":
        h2 = kv.get("H2", "-"); toks.append(h2 if h2 != "-" else "0")
    return "verif.dec %s %d %s %s %s %s %s" % (variant, lvl, guard, checks, " ".join(model_pk(pk)), " ".join(model_sig(variant, sig)),
                                               " ".join(toks))


def c_stage(kv):
    """stage at which the C function returned, from the taps that fired (see SqiModel.Verify.stageDim2):
    c = E_chall, k = small/challenge kernel, t = chain kernel set up, m = chain done and split, h = hash recomputed"""
    taps = kv.get("taps", "-")
    if "h" in taps:
        return 4
    if "t" in taps:
        ordb = kv.get("ord", "-")
        return 2 if (ordb == "-" or "0" in ordb) else 3
    if "k" in taps:
        return 1
    return 0


def challenge_py(lvl, variant, jcom_hex, jpk_hex, msg_hex):
    """independent recomputation of hash_to_challenge: SHAKE256(enc(j(E_com)) || enc(j(pk)) || m) as little-endian integer
    (the heuristic variant re-hashes the digest SQIsign2D_heuristic_challenge_hash_iteration times)"""
    data = bytes.fromhex(jcom_hex) + bytes.fromhex(jpk_hex) + (bytes.fromhex(msg_hex) if msg_hex and msg_hex != "-" else b"")
    n = 8 * CONST[lvl]["nw"]
    dig = hashlib.shake_256(data).digest(n)
    if variant == "heur":
        for _ in range(CONST[lvl]["hit"]):
            dig = hashlib.shake_256(dig).digest(n)
    return int.from_bytes(dig, "little")


def replay(ctx, rp, san):
    """./check CNN --replay file: re-run the recorded probe on the current tree and say whether it still fails"""
    r = rp.get("replay", {})
    if not all(k in r for k in ("level", "variant", "pk", "sig")):
        print(json_dumps(rp))
        return 0
    lvl, variant = int(r["level"]), r["variant"]
    msg = r.get("msg", "-")
    if "…" in msg:
        print("message was abbreviated in the replay file; re-run the check with the same VERIF_SEED instead"); return 0
    exe = compile_driver(ctx, lvl, variant, san)
    st, out, err = run_lines(exe, [verify_line(variant, r["pk"], r["sig"], msg)], 120)
    kv = parse_kv(out[0]) if out else {}
    print("replay %s: result=%s verdict=%s taps=%s" % (rp.get("key"), st, kv.get("v"), kv.get("taps")))
    if st != "ok":
        print(err[-1500:]); return 1
    bad_accept = kv.get("v") == "1" and r.get("probe_class") in ("forgery", "other-pk", "other-msg")
    return 1 if bad_accept else 0


def json_dumps(x):
    import json
    return json.dumps(x, indent=1)

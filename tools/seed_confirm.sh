#!/bin/bash
# Confirm a seeded change independently: usage seed_confirm.sh <ID> <mN> [ctest-regex]
# Uses the scratch worktree /tmp/seed/<ID>/repo; writes /tmp/seed/<ID>/out/<mN>/confirm.json
ID=$1; M=$2; RX=${3:-.}
W=/tmp/seed/$ID; R=$W/repo; O=$W/out/$M; B=$W/cb_$M
cd $R && git checkout -q -- . && git checkout -q --detach main && git apply --check $O/patch.diff || { echo "patch does not apply"; exit 2; }
run_demo() { # $1 = build dir.  Conventions seen: run_demo.sh <build> [repo]; build_demo.sh that also runs; build_demo.sh + exe
  local rc
  if [ -f $O/run_demo.sh ]; then (cd $O && timeout 2400 sh ./run_demo.sh $1 $R > $O/demo_run.log 2>&1); return $?; fi
  if [ -f $O/build_demo.sh ]; then
    if grep -q "^exec \|runs it\|and run" $O/build_demo.sh; then
      (cd $O && timeout 2400 sh ./build_demo.sh $1 > $O/demo_run.log 2>&1); return $?
    fi
    (cd $O && bash ./build_demo.sh $1 > $O/demo_build.log 2>&1) || (cd $O && bash ./build_demo.sh $1 $R > $O/demo_build.log 2>&1)
  fi
  local exe=$(find $O $1 -maxdepth 1 -type f -executable -name 'demo*' ! -name '*.sh' -newer $O/patch.diff | head -1)
  if [ -z "$exe" ]; then exe=$(find $O -maxdepth 1 -type f -executable ! -name '*.sh' -newer $O/patch.diff | head -1); fi
  if [ -z "$exe" ]; then echo "no demo exe"; return 99; fi
  (cd $O && timeout 2400 $exe > $O/demo_run.log 2>&1); return $?
}
build() { cmake -G Ninja -S $R -B $B -DCMAKE_BUILD_TYPE=Release -DSQISIGN_BUILD_TYPE=${BUILD_TYPE:-ref} > $B.log 2>&1 && cmake --build $B -j 8 >> $B.log 2>&1; }
mkdir -p $B
git apply $O/patch.diff && build || { echo "build with change failed"; git checkout -q -- .; exit 3; }
run_demo $B; WITH=$?
ctest --test-dir $B -R "$RX" -j8 --timeout 1500 > $O/ctest_confirm.log 2>&1; CT=$?
PASSLINE=$(grep "tests passed" $O/ctest_confirm.log | tail -1)
git checkout -q -- .
build || { echo "clean build failed"; exit 4; }
run_demo $B; WITHOUT=$?
rm -rf $B $B.log
echo "{\"id\":\"$ID\",\"m\":\"$M\",\"demo_rc_with_change\":$WITH,\"demo_rc_without_change\":$WITHOUT,\"ctest_rc_with_change\":$CT,\"ctest_regex\":\"$RX\",\"ctest_summary\":\"$PASSLINE\"}" | tee $O/confirm.json

#!/usr/bin/env python3
"""Copy a confirmed seeded change from /tmp/seed/<ID>/out/<mN> into /verif/seeded/<ID>-<mN>/ (patch.diff, demo, meta.json)."""
import json, os, shutil, sys
ROOT = os.path.dirname(os.path.dirname(os.path.abspath(__file__)))
def keep(ID, m):
    src = "/tmp/seed/%s/out/%s" % (ID, m)
    conf = json.load(open(os.path.join(src, "confirm.json")))
    assert conf["demo_rc_with_change"] != 0 and conf["demo_rc_without_change"] == 0 and conf["ctest_rc_with_change"] == 0, conf
    dst = os.path.join(ROOT, "seeded", "%s-%s" % (ID, m))
    os.makedirs(dst, exist_ok=True)
    for f in os.listdir(src):
        p = os.path.join(src, f)
        if os.path.isfile(p) and os.path.getsize(p) < 200000 and not os.access(p, os.X_OK) or f.endswith(".sh"):
            if f.endswith((".log", ".txt")) and f not in ("ctest_confirm.log",):
                continue
            shutil.copy(p, dst)
    meta = json.load(open(os.path.join(src, "meta.json")))
    meta["property"] = ID
    meta.setdefault("checks", [ID])
    meta["confirmed_by_integrator"] = dict(
        how="tools/seed_confirm.sh %s %s . : applied patch in a scratch worktree, built (cmake Release, ref), ran the demo (must fail), ran the full ctest suite (must pass), reverted, rebuilt, ran the demo (must pass)" % (ID, m),
        **conf)
    json.dump(meta, open(os.path.join(dst, "meta.json"), "w"), indent=1)
    print("kept", dst)
if __name__ == "__main__":
    keep(sys.argv[1], sys.argv[2])

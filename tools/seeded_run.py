#!/usr/bin/env python3
"""Run checks against the kept seeded changes: for each seeded/<name>/ (patch.diff + meta.json{"property": ID, "checks": [IDs]})
apply the patch to /repo (must be clean), run `./check <ID> --tier quick` for the listed checks, undo the patch, and
record whether a VIOLATION was reported.  Usage: tools/seeded_run.py [name ...]   (default: all)"""
import json, os, subprocess, sys, time
ROOT = os.path.dirname(os.path.dirname(os.path.abspath(__file__)))
REPO = os.environ.get("VERIF_REPO", "/repo")

def sh(cmd, **kw):
    p = subprocess.run(cmd, shell=isinstance(cmd, str), stdout=subprocess.PIPE, stderr=subprocess.STDOUT, **kw)
    return p.returncode, p.stdout.decode("utf-8", "replace")

def main():
    names = sys.argv[1:] or sorted(d for d in os.listdir(os.path.join(ROOT, "seeded")) if os.path.isdir(os.path.join(ROOT, "seeded", d)))
    rc, st = sh(["git", "-C", REPO, "status", "--porcelain", "--untracked-files=no"])
    if st.strip():
        print("repo not clean:\n" + st); return 2
    results = {}
    for n in names:
        d = os.path.join(ROOT, "seeded", n)
        meta = json.load(open(os.path.join(d, "meta.json")))
        checks = meta.get("checks") or [meta["property"]]
        rc, out = sh(["git", "-C", REPO, "apply", os.path.join(d, "patch.diff")])
        if rc != 0:
            print(n, "PATCH DOES NOT APPLY", out); results[n] = "patch-failed"; continue
        try:
            res = {}
            saved = {}
            for c in checks:      # evidence committed in /verif must come from the unchanged tree: save and restore it
                ev = os.path.join(ROOT, "evidence", "%s.json" % c)
                saved[ev] = open(ev).read() if os.path.exists(ev) else None
            for c in checks:
                t = time.time()
                rc, out = sh([os.path.join(ROOT, "check"), c, "--tier", "quick"], cwd=ROOT)
                v = [l for l in out.split("\n") if l.startswith("VIOLATION")]
                res[c] = dict(rc=rc, violation_lines=v, wall_s=round(time.time() - t, 1), tail=out[-600:] if rc not in (0, 1) else "")
                print(n, c, "rc=%d" % rc, v[:1], "%.0fs" % (time.time() - t), flush=True)
            results[n] = res
        finally:
            sh(["git", "-C", REPO, "checkout", "--", "."])
            for ev, txt in saved.items():
                if txt is not None:
                    open(ev, "w").write(txt)
    allp = os.path.join(ROOT, "seeded", "RESULTS_ALL.json")
    allr = json.load(open(allp)) if os.path.exists(allp) else {}
    allr.update(results)
    json.dump(allr, open(allp, "w"), indent=1)
    json.dump(results, open(os.path.join(ROOT, "seeded", "RESULTS.json"), "w"), indent=1)
    return 0

if __name__ == "__main__":
    sys.exit(main())

#!/bin/sh
# MANIFEST.setup_cmd: regenerate the translated Lean sources from /repo and build the whole Lean
# development plus the model driver, offline, from files on disk only.
set -e
cd "$(dirname "$0")/.."
python3 tools/translate/run_all.py
python3 tools/gen_driver.py
cd lean
lake build 2>&1 | grep -v '^✔\|^⚠' | tail -40
test -x .lake/build/bin/driver
echo "setup ok"

#!/bin/sh
# MANIFEST.setup_cmd: regenerate the translated Lean sources from /repo and build the whole Lean
# development plus the model driver, offline, from files on disk only.
set -e
cd "$(dirname "$0")/.."
python3 tools/translate/run_all.py
python3 tools/gen_driver.py
cd lean
lake build > .lake/setup_lake.log 2>&1 || { grep -v '^✔\|^⚠' .lake/setup_lake.log | tail -60; echo 'setup FAILED: lake build'; exit 1; }
grep -v '^✔\|^⚠' .lake/setup_lake.log | tail -5
test -x .lake/build/bin/driver
echo "setup ok"

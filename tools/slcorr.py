"""Correspondence check of the straight-line translator (tie T is itself checked, DESIGN §2.2):
every generated definition (SqiGen.Ec / Isog / Theta) is run — through the model driver — against the C function
it was generated from, under the no-alias calling convention and under every alias pattern found at call sites.

Usage from a property check (after vlib.proof_stage / ctx.lake built the driver):

    import slcorr
    H = slcorr.Harness(ctx)                       # translates, writes gen_ops.inc, compiles drv_ec.c per level
    dis = H.correspond_generated(modules=["Ec"], per_op=6)      # -> list of disagreements (dicts)

Inputs are random field elements with structured classes mixed in (0, 1, -1, equal / negated copies of an earlier
structure of the same type) so that the data-dependent branches (∞, P = ±Q, x = z) are taken.
"""
import os, sys
import vlib
sys.path.insert(0, os.path.join(vlib.ROOT, "tools", "translate"))
import straightline, _slops

HARNESS = os.path.join(vlib.ROOT, "tools", "harness", "drv_ec.c")


def hx(n):
    return "%x" % n


class Harness:
    def __init__(self, ctx, levels=(1, 3, 5), kind="ref"):
        self.ctx = ctx
        self.W, _ = straightline.analyze(vlib.REPO)
        self.inc_dir = os.path.join(ctx.tmp, "geninc")
        os.makedirs(self.inc_dir, exist_ok=True)
        open(os.path.join(self.inc_dir, "gen_ops.inc"), "w").write(_slops.c_ops(self.W, vlib.REPO))
        self.exe = {}
        b = ctx.build_repo(kind)
        for l in levels:
            self.exe[l] = ctx.cc_harness(HARNESS, os.path.join(ctx.tmp, "drv_ec_%s_lvl%d" % (kind, l)), l, kind=kind,
                                         build=b, extra=["-I" + self.inc_dir, "-w"])
        self.desc = _slops.describe(self.W)

    # ------------------------------------------------------------------ explicit op lines (by parameter / leaf labels)
    def line(self, lvl, op, **params):
        """op line for a generated wrapper; params: Lean input name -> value (fp2 pair / int) or dict leaf-path -> value"""
        d = [x for x in self.desc if x["op"] == op]
        if not d:
            raise KeyError("no generated op %r" % op)
        inp = d[0]["inputs"]

        def get(lab):
            name, _, path = lab.partition(".")
            v = params[name]
            return v[path] if path else v
        F = [get(l) for l in inp["F"]]
        I = [get(l) for l in inp["I"]]
        return ("gen %x %s %x " % (lvl, op, len(F)) + " ".join("%x %x" % f for f in F) + (" " + " ".join("%x" % i for i in I) if I else "")).strip()

    # ------------------------------------------------------------------ input generation
    def rand_fp2(self, rng, p, cls=None):
        c = rng.below(20) if cls is None else cls
        if c == 0:
            return (0, 0)
        if c == 1:
            return (1, 0)
        if c == 2:
            return (p - 1, 0)
        if c == 3:
            return (rng.below(p), 0)
        if c == 4:
            return (0, rng.below(p))
        return (rng.below(p), rng.below(p))

    def gen_op_line(self, rng, lvl, d):
        p = vlib.LEVELS[lvl]["p"]
        F = []
        inp = d["inputs"]
        # group the fixed F leaves by parameter so that structured copies are possible
        groups = {}
        for i, lab in enumerate(inp["F"]):
            groups.setdefault(lab.split(".")[0], []).append(i)
        vals = [None] * len(inp["F"])
        prev = {}
        ptypes = dict(d["params"])
        mode = rng.below(10)
        for g, idxs in groups.items():
            ty = str(ptypes.get(g))
            same = prev.get((ty, len(idxs)))
            r = rng.below(12)
            if same is not None and r < 3 and mode < 6:
                for k, i in enumerate(idxs):
                    vals[i] = vals[same[k]]
                if r == 1 and len(idxs) == 3:          # Jacobian: negate y -> P = -Q
                    a, b = vals[idxs[1]]
                    vals[idxs[1]] = ((p - a) % p, (p - b) % p)
                if r == 2:                             # projective rescaling of the copy (xz points only)
                    pass
            elif r == 3 and mode < 6:
                for i in idxs:
                    vals[i] = (0, 0)
            else:
                for i in idxs:
                    vals[i] = self.rand_fp2(rng, p)
            prev[(ty, len(idxs))] = idxs
        toks = []
        nF = len(vals)
        lst = inp["list"]
        lvals = []
        if lst:
            n = rng.below(_slops.MAXLIST) + (0 if rng.below(8) == 0 else 1)
            n = min(n, _slops.MAXLIST)
            for _ in range(n * lst["width"]):
                lvals.append(self.rand_fp2(rng, p))
        ints = []
        for lab in inp["I"]:
            ints.append(rng.below(2))
        allF = vals + lvals
        line = "gen %x %s %x " % (lvl, d["op"], len(allF)) + " ".join("%x %x" % v for v in allF)
        if ints:
            line += " " + " ".join("%x" % i for i in ints)
        return line.strip()

    def correspond_generated(self, modules=None, per_op=6, levels=None, name="generated defs vs C"):
        ctx = self.ctx
        dis_all = []
        hist = {}
        for l in (levels or sorted(self.exe)):
            rng = ctx.rng.fork("slcorr:%d" % l)
            lines = []
            for d in self.desc:
                if modules and d["module"] not in modules:
                    continue
                for _ in range(per_op):
                    lines.append(self.gen_op_line(rng, l, d))
                hist[d["op"]] = hist.get(d["op"], 0) + per_op
            # the executable sqrt / inv used by the driver are checked too
            p = vlib.LEVELS[l]["p"]
            for k in range(4 * per_op):
                a = self.rand_fp2(rng, p, cls=None if k % 3 else 5)
                if k % 2:
                    a = ((a[0] * a[0] - a[1] * a[1]) % p, 2 * a[0] * a[1] % p)      # a square
                for op in ("fp2.sqrt", "fp2.inv", "fp2.issquare"):
                    lines.append("%s %x %x %x" % (op, l, a[0], a[1]))
            dis = vlib.correspond(ctx, "%s lvl%d" % (name, l), lines, [self.exe[l]])
            # agreement on an error token would be vacuous: every op line must have been understood by both sides
            mout = ctx.driver(lines)
            nbad = [lines[i] for i, m in enumerate(mout) if m.startswith("bad-")]
            ctx.obligation("%s lvl%d: all ops understood" % (name, l), not nbad, "; ".join(x[:80] for x in nbad[:3]))
            if nbad:
                dis.append(dict(index=-1, op=nbad[0], impl="?", model="bad-op / bad-args"))
            for x in dis:
                x["level"] = l
            dis_all += dis
        ctx.coverage.setdefault("generated_ops", {}).update(hist)
        for d in self.desc:
            if (not modules or d["module"] in modules):
                ctx.case("genop:" + d["op"], 0)
        return dis_all

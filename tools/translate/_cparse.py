"""Tokenizer + tiny recursive-descent parser for the C subset accepted by straightline.py (DESIGN §2.2).
python3 stdlib only. Anything outside the subset raises `Unsupported` with file:line — the refusal is a
check failure by design.

AST (tuples):
  expressions  ('id', name) ('num', int) ('un', op, e) ('bin', op, a, b) ('call', name, [args])
               ('member', e, field, arrow:bool) ('index', e, idx) ('cast', typestr, e) ('init', [...])
  statements   ('decl', ctype, [(name, ptr:bool, dims:[expr], init|None)], line)
               ('expr', e, line) ('assign', lhs, rhs, line) ('if', cond, then:[stmts], else:[stmts]|None, line)
               ('for', var, lo, hi_expr, body:[stmts], line) ('return', e|None, line) ('block', [stmts], line)
"""
import re


class Unsupported(Exception):
    pass


def strip_comments(src):
    """remove /* */ and // comments, keep newlines (line numbers stay valid)"""
    out, i, n = [], 0, len(src)
    while i < n:
        if src.startswith("/*", i):
            j = src.find("*/", i + 2)
            j = n if j < 0 else j + 2
            out.append("".join(c if c == "\n" else " " for c in src[i:j]))
            i = j
        elif src.startswith("//", i):
            j = src.find("\n", i)
            j = n if j < 0 else j
            i = j
        elif src[i] == '"':
            j = i + 1
            while j < n and src[j] != '"':
                j += 2 if src[j] == "\\" else 1
            out.append(src[i:j + 1]); i = j + 1
        else:
            out.append(src[i]); i += 1
    return "".join(out)


TOKEN = re.compile(r"""\s*(?:(?P<num>0[xX][0-9a-fA-F]+|\d+)(?:[uUlL]*)|(?P<id>[A-Za-z_]\w*)|(?P<str>"(?:\\.|[^"\\])*")|
                   (?P<op>->|\+\+|--|<<=|>>=|<<|>>|<=|>=|==|!=|&&|\|\||\+=|-=|\*=|/=|%=|&=|\|=|\^=|[-+*/%&|^~!<>=?:;,.(){}\[\]]))""", re.X)


def tokenize(src, fname="?", line0=1):
    toks, i, line, n = [], 0, line0, len(src)
    while i < n:
        m = TOKEN.match(src, i)
        if not m or m.end() == i:
            if src[i:].strip() == "":
                break
            raise Unsupported("%s:%d: cannot tokenize %r" % (fname, line, src[i:i + 20]))
        line += src.count("\n", i, m.start(m.lastgroup))
        kind = m.lastgroup
        val = m.group(kind)
        if kind == "num":
            val = int(val, 0)
        toks.append((kind, val, line))
        line += src.count("\n", m.start(kind), m.end())
        i = m.end()
    return toks


TYPE_WORDS = {"const", "unsigned", "signed", "int", "long", "short", "char", "bool", "void", "static", "inline",
              "struct", "uint64_t", "uint32_t", "int32_t", "uint8_t", "uint16_t", "int64_t", "digit_t", "size_t",
              "fp_t", "fp2_t"}


class Parser:
    def __init__(self, toks, fname, typenames):
        self.t, self.i, self.f = toks, 0, fname
        self.types = set(typenames) | TYPE_WORDS

    # ---------------------------------------------------------------- helpers
    def peek(self, k=0):
        return self.t[self.i + k] if self.i + k < len(self.t) else ("eof", None, self.t[-1][2] if self.t else 0)

    def line(self):
        return self.peek()[2]

    def err(self, msg):
        raise Unsupported("%s:%d: %s (construct not in subset)" % (self.f, self.line(), msg))

    def accept(self, val):
        if self.peek()[1] == val and self.peek()[0] in ("op", "id"):
            self.i += 1
            return True
        return False

    def expect(self, val):
        if not self.accept(val):
            self.err("expected %r, got %r" % (val, self.peek()[1]))

    def is_type_start(self, k=0):
        kind, v, _ = self.peek(k)
        return kind == "id" and v in self.types

    def parse_type(self):
        ws = []
        while self.is_type_start():
            ws.append(self.peek()[1]); self.i += 1
        if not ws:
            self.err("type expected")
        return " ".join(w for w in ws if w not in ("static", "inline"))

    # ---------------------------------------------------------------- expressions
    BINPREC = [("||",), ("&&",), ("|",), ("^",), ("&",), ("==", "!="), ("<", ">", "<=", ">="), ("<<", ">>"),
               ("+", "-"), ("*", "/", "%")]

    def expr(self, lvl=0):
        if lvl == len(self.BINPREC):
            return self.unary()
        a = self.expr(lvl + 1)
        while self.peek()[0] == "op" and self.peek()[1] in self.BINPREC[lvl]:
            op = self.peek()[1]; self.i += 1
            b = self.expr(lvl + 1)
            a = ("bin", op, a, b)
        return a

    def unary(self):
        k, v, _ = self.peek()
        if k == "op" and v in ("&", "*", "-", "!", "~", "+"):
            self.i += 1
            return ("un", v, self.unary())
        if k == "op" and v == "(":
            # cast?
            j = 1
            if self.is_type_start(1):
                save = self.i
                self.i += 1
                ty = self.parse_type()
                stars = 0
                while self.accept("*"):
                    stars += 1
                    while self.peek()[1] == "const":
                        self.i += 1
                if self.accept(")"):
                    return ("cast", ty + "*" * stars, self.unary())
                self.i = save
        return self.postfix()

    def postfix(self):
        k, v, _ = self.peek()
        if k == "num":
            self.i += 1
            e = ("num", v)
        elif k == "id":
            self.i += 1
            if self.peek()[1] == "(" and self.peek()[0] == "op":
                self.i += 1
                args = []
                if not self.accept(")"):
                    while True:
                        args.append(self.expr())
                        if self.accept(")"):
                            break
                        self.expect(",")
                e = ("call", v, args)
            else:
                e = ("id", v)
        elif k == "op" and v == "(":
            self.i += 1
            e = self.expr()
            self.expect(")")
        elif k == "op" and v == "{":
            self.i += 1
            items = []
            while not self.accept("}"):
                items.append(self.expr())
                self.accept(",")
            e = ("init", items)
        else:
            self.err("unexpected token %r in expression" % (v,))
        while True:
            if self.accept("."):
                e = ("member", e, self.peek()[1], False); self.i += 1
            elif self.accept("->"):
                e = ("member", e, self.peek()[1], True); self.i += 1
            elif self.accept("["):
                idx = self.expr()
                self.expect("]")
                e = ("index", e, idx)
            else:
                return e

    # ---------------------------------------------------------------- statements
    def block(self):
        self.expect("{")
        out = []
        while not self.accept("}"):
            out.append(self.stmt())
        return out

    def stmt_or_block(self):
        if self.peek()[1] == "{":
            return self.block()
        return [self.stmt()]

    def stmt(self):
        ln = self.line()
        k, v, _ = self.peek()
        if k == "op" and v == "{":
            return ("block", self.block(), ln)
        if k == "op" and v == ";":
            self.i += 1
            return ("block", [], ln)
        if k == "id" and v == "if":
            self.i += 1
            self.expect("(")
            c = self.expr()
            self.expect(")")
            th = self.stmt_or_block()
            el = None
            if self.accept("else"):
                el = self.stmt_or_block()
            return ("if", c, th, el, ln)
        if k == "id" and v == "for":
            self.i += 1
            self.expect("(")
            if self.is_type_start():
                self.parse_type()
            var = self.peek()[1]; self.i += 1
            self.expect("=")
            lo = self.expr()
            self.expect(";")
            if not (self.peek()[1] == var):
                self.err("for-condition must compare the loop variable `%s`" % var)
            self.i += 1
            cmpop = self.peek()[1]
            if cmpop not in ("<", ">=", ">", "<="):
                self.err("for-condition operator %r" % (cmpop,))
            self.i += 1
            hi = self.expr()
            self.expect(";")
            if not (self.peek()[1] == var and self.peek(1)[1] in ("++", "--")):
                self.err("for-increment must be `%s++` or `%s--`" % (var, var))
            step = self.peek(1)[1]
            self.i += 2
            self.expect(")")
            body = self.stmt_or_block()
            if cmpop == "<" and step == "++":
                return ("for", var, lo, hi, body, ln)
            return ("forg", var, lo, cmpop, hi, step, body, ln)
        if k == "id" and v == "return":
            self.i += 1
            e = None
            if not self.accept(";"):
                e = self.expr()
                self.expect(";")
            return ("return", e, ln)
        if k == "id" and v in ("while", "do", "switch", "goto", "break", "continue"):
            self.err("statement %r" % v)
        if self.is_type_start() and not (self.peek(1)[1] == "("):
            ty = self.parse_type()
            decls = []
            while True:
                ptr = False
                while self.accept("*"):
                    ptr = True
                    while self.peek()[1] == "const":
                        self.i += 1
                name = self.peek()[1]
                if self.peek()[0] != "id":
                    self.err("declarator expected")
                self.i += 1
                dims = []
                while self.accept("["):
                    dims.append(self.expr())
                    self.expect("]")
                init = None
                if self.accept("="):
                    init = self.expr()
                decls.append((name, ptr, dims, init))
                if self.accept(";"):
                    break
                self.expect(",")
            return ("decl", ty, decls, ln)
        e = self.expr()
        if self.accept("="):
            r = self.expr()
            self.expect(";")
            return ("assign", e, r, ln)
        if self.peek()[0] == "op" and self.peek()[1] in ("+=", "-=", "*=", "<<=", ">>=", "|=", "&=", "^="):
            op = self.peek()[1][:-1]
            self.i += 1
            r = self.expr()
            self.expect(";")
            return ("assign", e, ("bin", op, e, r), ln)
        if self.peek()[0] == "op" and self.peek()[1] in ("++", "--"):
            self.err("increment statement %r" % self.peek()[1])
        self.expect(";")
        return ("expr", e, ln)


# -------------------------------------------------------------------------- top-level extraction
def find_function(src, name):
    """src: comment-stripped file text. Returns (rettype, params_text, body_text, line_of_body) of the
    *definition* of `name`, or None."""
    for m in re.finditer(r"(?m)^(?P<ret>[A-Za-z_][\w \t\*]*?)[ \t\n]*\b%s[ \t]*\(" % re.escape(name), src):
        # definition: parameter list followed by '{'
        i = m.end() - 1
        depth, j = 0, i
        while j < len(src):
            if src[j] == "(":
                depth += 1
            elif src[j] == ")":
                depth -= 1
                if depth == 0:
                    break
            j += 1
        k = j + 1
        while k < len(src) and src[k] in " \t\n":
            k += 1
        if k >= len(src) or src[k] != "{":
            continue
        ret = m.group("ret").strip()
        if not ret or ret.split()[0] in ("return", "else", "if"):
            continue
        depth, e = 0, k
        while e < len(src):
            if src[e] == "{":
                depth += 1
            elif src[e] == "}":
                depth -= 1
                if depth == 0:
                    break
            e += 1
        return ret, src[i + 1:j], src[k:e + 1], src.count("\n", 0, k) + 1
    return None


def parse_params(text, fname, typenames):
    """-> [(ctype, name, is_ptr, is_const_pointee, dims)]"""
    out = []
    text = text.strip()
    if text in ("", "void"):
        return out
    for part in split_top(text, ","):
        toks = tokenize(part, fname)
        p = Parser(toks, fname, typenames)
        words, ptr, name = [], False, None
        dims = 0
        idx = 0
        while idx < len(toks):
            k, v, _ = toks[idx]
            if k == "op" and v == "*":
                ptr = True
            elif k == "op" and v == "[":
                dims += 1
                while toks[idx][1] != "]":
                    idx += 1
            elif k == "id":
                words.append((v, ptr))
            idx += 1
        name = words[-1][0]
        tw = [w for w, _ in words[:-1]]
        # const applying to the pointee: `const T *p` or `T const *p`; `T *const p` is a const pointer only
        const_pointee = any(w == "const" and not after for (w, after) in words[:-1])
        ctype = " ".join(w for w in tw if w != "const")
        out.append((ctype, name, ptr or dims > 0, const_pointee, dims))
    return out


def split_top(text, sep):
    out, depth, cur = [], 0, []
    for c in text:
        if c in "([{":
            depth += 1
        elif c in ")]}":
            depth -= 1
        if c == sep and depth == 0:
            out.append("".join(cur)); cur = []
        else:
            cur.append(c)
    if "".join(cur).strip():
        out.append("".join(cur))
    return out


def parse_structs(src, fname):
    """typedef struct [tag] { fields } name;  ->  {name: [(ctype, field, arraylen|None)]}"""
    out = {}
    for m in re.finditer(r"typedef\s+struct\s*\w*\s*\{([^{}]*)\}\s*(\w+)\s*;", src):
        fields = []
        for decl in m.group(1).split(";"):
            decl = decl.strip()
            if not decl:
                continue
            mm = re.match(r"^([\w\s]+?)\s*(\*?)\s*(\w+)\s*(?:\[\s*(\w+)\s*\])?$", decl)
            if not mm:
                raise Unsupported("%s: cannot parse struct field %r in %s" % (fname, decl, m.group(2)))
            ty = " ".join(w for w in mm.group(1).split() if w != "const")
            n = mm.group(4)
            fields.append((ty + ("*" if mm.group(2) else ""), mm.group(3), int(n) if n and n.isdigit() else (n or None)))
        out[m.group(2)] = fields
    return out


def parse_body(body_text, fname, line0, typenames):
    toks = tokenize(body_text, fname, line0)
    p = Parser(toks, fname, typenames)
    stmts = p.block()
    if p.peek()[0] != "eof":
        p.err("trailing tokens after function body")
    return stmts


def call_sites(src, name):
    """all calls `name(args)` in comment-stripped text -> [(line, [arg texts])] (definitions/prototypes excluded)"""
    out = []
    for m in re.finditer(r"(?<![\w.>])%s\s*\(" % re.escape(name), src):
        i = m.end() - 1
        depth, j = 0, i
        while j < len(src):
            if src[j] == "(":
                depth += 1
            elif src[j] == ")":
                depth -= 1
                if depth == 0:
                    break
            j += 1
        k = j + 1
        while k < len(src) and src[k] in " \t\n":
            k += 1
        # a call is followed by ; , ) or an operator; a definition by { ; a prototype looks like a call + ';' but its
        # arguments contain type words — filtered by the caller through arg-shape
        if k < len(src) and src[k] == "{":
            continue
        # exclude prototypes: preceded (on the same or previous line) by a type word and at brace depth 0
        args = [a.strip() for a in split_top(src[i + 1:j], ",")]
        out.append((src.count("\n", 0, m.start()) + 1, args, m.start()))
    return out

"""Companion of straightline.py: makes every generated definition *runnable against the C function it came from*.

  ops_files(W)   -> {"EcOps": lean text, ...}: per generated function (and per recorded alias pattern) a wrapper
                    `List F → List Int → Option (List F × List Int)` over flat leaf lists + one table per module;
  c_ops(W)       -> C source (included by tools/harness/drv_ec.c) with the mirror-image wrappers calling the real C
                    functions, under the no-alias calling convention and under every alias pattern found in the repo;
  describe(W)    -> wire format of every op (for the input generators).

Wire format of one op line:   gen <lvl> <op> tok...      (hex tokens; an F leaf is two tokens `re im`, an Int leaf one,
a list input is `n` followed by n elements). Result line: the output leaves in order (a Bool result as 0/1).
"""
import re
from straightline import FP, INT_TYPES, lean_ident, camel, tuple_proj

MAXLIST = 8
MASK_TYPES = {"digit_t", "uint32_t", "uint64_t"}


def leaves(T, ty):
    """[(comps, 'F'|'I')] of a (non-list) type"""
    return [(p, "F" if t == FP else "I") for p, t in T.leaves(ty)]


def lean_proj(T, ty, comps):
    """Lean projection suffix for leaf path `comps` of type ty"""
    out, i = "", 0
    while i < len(comps):
        c = comps[i]
        fty = T.child(ty, c)
        if isinstance(fty, tuple):
            out += ".%s%s" % (c, comps[i + 1]); ty = fty[1]; i += 2
        else:
            out += "." + lean_ident(str(c)); ty = fty; i += 1
    return out


def c_proj(comps):
    out = ""
    for c in comps:
        out += "[%d]" % c if isinstance(c, int) else "." + c
    return out


def lean_build(T, ty, getF, getI):
    """Lean term constructing a value of type ty from successive leaves"""
    if ty == FP:
        return getF()
    if ty in INT_TYPES:
        return getI()
    parts = []
    for c, t in T.children(ty):
        if isinstance(t, tuple):
            for i in range(t[2]):
                parts.append("%s%d := %s" % (c, i, lean_build(T, t[1], getF, getI)))
        else:
            parts.append("%s := %s" % (lean_ident(c), lean_build(T, t, getF, getI)))
    return "({ " + ", ".join(parts) + " } : %s F)" % camel(ty)


class Op:
    pass


def suffix_comps(suffix):
    return tuple(int(c) if c.isdigit() else c for c in re.findall(r"\w+", suffix))


def plan(W, fn, pat):
    """how to call `fn` under alias pattern `pat` (None = all arguments distinct)"""
    T = W.types
    names = [p[1] for p in fn.params]
    ptype = {p[1]: p[0] for p in fn.params}
    loc = {n: (n, ()) for n in names}              # param -> (representative, comps)
    if pat:
        m = {}
        for i, j, suffix in pat["pairs"]:
            m[names[i]] = (names[j], suffix_comps(suffix))
        for n in names:
            r, comps = n, ()
            seen = 0
            while r in m and seen < 8:
                r, comps = m[r][0], m[r][1] + comps
                seen += 1
            loc[n] = (r, comps)
    o = Op()
    o.fn, o.pat, o.loc, o.T = fn, pat, loc, T
    o.name = fn.name if pat is None else "%s@%d" % (fn.name, fn.patterns.index(pat))
    variant = pat.get("variant") if pat else None
    o.lean_fn = variant["name"] if variant else fn.name
    ins = variant["ins"] if variant else fn.ins
    outs = variant["outs"] if variant else fn.outs
    o.lean_ins, o.lean_outs = ins, outs
    # which Lean inputs travel on the wire: those whose location is not inside another input's location
    ent = []
    for lname, ty, cparam, mode in ins:
        ent.append(dict(lname=lname, ty=ty, cparam=cparam, loc=loc.get(cparam, (cparam, ()))))
    for e in ent:
        e["from"] = None
        for e2 in ent:
            if e2 is e or isinstance(e["ty"], tuple) or isinstance(e2["ty"], tuple):
                continue
            (r1, c1), (r2, c2) = e["loc"], e2["loc"]
            if r1 == r2 and c1[:len(c2)] == c2 and (len(c1) > len(c2) or ent.index(e2) < ent.index(e)) and e2.get("from") is None:
                e["from"] = (e2, c1[len(c2):])
                break
    o.entries = ent
    o.uses_sqrt = variant["uses_sqrt"] if variant else fn.uses_sqrt
    return o


def wire_inputs(o):
    """dict(F=[labels of fixed F leaves], I=[labels of Int leaves], list=None|dict(name, width, labels))"""
    F, I, lst = [], [], None
    for e in o.entries:
        if e["from"] is not None:
            continue
        if isinstance(e["ty"], tuple):      # list
            el = leaves(o.T, e["ty"][1])
            lst = dict(name=e["lname"], width=len(el), labels=[".".join(map(str, p)) for p, k in el], ctype=e["ty"][1])
        else:
            for p, k in leaves(o.T, e["ty"]):
                (F if k == "F" else I).append(e["lname"] + "".join("." + str(c) for c in p))
    return dict(F=F, I=I, list=lst)


def lean_wrapper(o, idx):
    T, fn = o.T, o.fn
    nf = ni = 0
    lines = []
    cnt = {"f": 0, "i": 0}

    def getF():
        cnt["f"] += 1
        return "(fs.getD %d 0)" % (cnt["f"] - 1)

    def getI():
        cnt["i"] += 1
        return "(is_.getD %d 0)" % (cnt["i"] - 1)
    list_entry = None
    for e in o.entries:
        if e["from"] is not None or isinstance(e["ty"], tuple):
            if isinstance(e["ty"], tuple):
                list_entry = e
            continue
        lines.append("let %s := %s" % (e["lname"], lean_build(T, e["ty"], getF, getI)))
    for e in o.entries:
        if e["from"] is not None:
            src, comps = e["from"]
            lines.append("let %s := %s%s" % (e["lname"], src["lname"], lean_proj(T, src["ty"], comps)))
    nF, nI = cnt["f"], cnt["i"]
    if list_entry is not None:
        ety = list_entry["ty"][1]
        el = leaves(T, ety)
        if any(k != "F" for _, k in el):
            raise Exception("list of structures with integer leaves")
        w = len(el)
        k = {"n": 0}

        def getE():
            k["n"] += 1
            return "(e.getD %d 0)" % (k["n"] - 1)
        lines.append("let %s := (chunks %d (fs.drop %d)).map (fun e => %s)" % (list_entry["lname"], w, nF, lean_build(T, ety, getE, getE)))
    call = o.lean_fn + (" sqrt" if o.uses_sqrt else "") + "".join(" " + e["lname"] for e in o.entries)
    lines.append("let r := %s" % call)
    outF, outI = [], []
    if fn.retkind:
        outI.append("(if r then 1 else 0)" if fn.retkind == "bool" else "r")
    else:
        n = len(o.lean_outs)
        for i, (cparam, ty) in enumerate(o.lean_outs):
            base = "r" + ("." + tuple_proj(i, n) if n > 1 else "")
            if isinstance(ty, tuple):
                el = leaves(T, ty[1])
                lines.append("let outl := %s.flatMap (fun e => [%s])" % (base, ", ".join("e" + lean_proj(T, ty[1], p) for p, _ in el)))
                outF.append("LIST")
            else:
                for p, k in leaves(T, ty):
                    (outF if k == "F" else outI).append(base + lean_proj(T, ty, p))
    # output order on the wire: all F leaves in order, then Int leaves (kept separate by construction)
    if outF == ["LIST"]:
        res = "some (outl, [%s])" % ", ".join(outI)
    else:
        res = "some ([%s], [%s])" % (", ".join(outF), ", ".join(outI))
    guard = ("if fs.length < %d || (fs.length - %d) %% %d != 0 || is_.length != %d then none else" % (nF, nF, len(leaves(T, list_entry["ty"][1])), nI)
             if list_entry is not None else "if fs.length != %d || is_.length != %d then none else" % (nF, nI))
    name = "op%d_%s" % (idx, re.sub(r"\W", "_", o.name))
    txt = "def %s (sqrt : F → F) (fs : List F) (is_ : List Int) : Option (List F × List Int) :=\n  %s\n" % (name, guard)
    txt += "".join("  " + l + "\n" for l in lines) + "  " + res + "\n"
    return name, txt


def all_ops(W, module=None):
    out = []
    for name in W.order:
        fn = W.fns[name]
        if module and fn.module != module:
            continue
        out.append(plan(W, fn, None))
        for pat in fn.patterns:
            out.append(plan(W, fn, pat))
    return out


CHUNKS = """def chunks (w : Nat) (l : List F) : List (List F) :=
  if w = 0 then [] else
  (List.range (l.length / w)).map (fun i => (l.drop (i * w)).take w)

"""


def ops_files(W):
    from straightline import UNITS
    out = {}
    first = True
    for u in UNITS:
        mod = u["module"]
        txt = "import SqiGen.%s\n" % mod + ("" if first else "import SqiGen.%sOps\n" % UNITS[0]["module"])
        txt += "/- GENERATED by tools/translate/_slops.py: flat-leaf wrappers of the generated definitions (driver ops). -/\n"
        txt += "set_option linter.unusedVariables false\nnamespace SqiGen\n"
        txt += "variable {F : Type} [Add F] [Sub F] [Mul F] [Neg F] [Inv F] [Zero F] [One F] [NatCast F] [DecidableEq F]\n\n"
        if first:
            txt += CHUNKS
        rows = []
        for i, o in enumerate(all_ops(W, mod)):
            nm, t = lean_wrapper(o, i)
            txt += t + "\n"
            rows.append('  ("%s", %s sqrt)' % (o.name, nm))
        txt += "def ops%s (sqrt : F → F) : List (String × (List F → List Int → Option (List F × List Int))) :=\n  [\n%s\n  ]\n\nend SqiGen\n" % (mod, ",\n".join(rows))
        out[mod + "Ops"] = txt
        first = False
    return out


# ------------------------------------------------------------------------------------------------ C side
def c_ops(W, repo):
    """C wrappers: each reads its inputs from the global token cursor and prints `R <leaves>`"""
    T = W.types
    static_files = []
    for name in W.order:
        fn = W.fns[name]
        if "static" in fn.ret and fn.file.endswith(".c") and fn.file not in static_files:
            static_files.append(fn.file)
    src = ["/* GENERATED by tools/translate/_slops.py — wrappers calling the real C functions */"]
    for f in static_files:
        src.append('#include "%s/%s"   /* static function(s) needed: compiled from the working tree text */' % (repo, f))
    table = []
    for idx, o in enumerate(all_ops(W)):
        fn = o.fn
        cname = "cop%d_%s" % (idx, re.sub(r"\W", "_", o.name))
        b = ["static void %s(void) {" % cname]
        ptype = {p[1]: p for p in fn.params}
        reps = []
        for p in fn.params:
            r, comps = o.loc[p[1]]
            if r == p[1] and r not in reps:
                reps.append(r)
        is_map = fn.kind == "map"
        # declarations
        for r in reps:
            ctype, name, is_ptr, const, dims = ptype[r]
            if ctype in INT_TYPES:
                b.append("  long v_%s = 0;" % r)
            elif is_map and name in (fn.extra["elem_in"], fn.extra["elem_out"]):
                b.append("  %s v_%s[%d]; memset(v_%s, 0, sizeof v_%s);" % (ctype, r, MAXLIST, r, r))
            else:
                b.append("  %s v_%s; memset(&v_%s, 0, sizeof v_%s);" % (ctype, r, r, r))
                for pth, k in leaves(T, ctype):
                    b.append("  %s" % (("fp2_set_small(&v_%s%s, 0x5a5a);" % (r, c_proj(pth))) if k == "F" else ("v_%s%s = 77;" % (r, c_proj(pth)))))
        # inputs: fixed entries first (F and Int cursors are independent), then the list (rest of the F tokens)
        for e in o.entries:
            if e["from"] is not None or isinstance(e["ty"], tuple):
                continue
            r, comps = e["loc"]
            if e["ty"] in INT_TYPES:
                b.append("  v_%s%s = rd_int();" % (r, c_proj(comps)))
            else:
                for pth, k in leaves(T, e["ty"]):
                    tgt = "v_%s%s%s" % (r, c_proj(comps), c_proj(pth))
                    b.append("  rd_fp2(&%s);" % tgt if k == "F" else "  %s = rd_int();" % tgt)
        for e in o.entries:
            if e["from"] is None and isinstance(e["ty"], tuple):
                r, comps = e["loc"]
                el = leaves(T, e["ty"][1])
                b.append("  long n_list = rd_remaining_fp2() / %d; if (n_list > %d) n_list = %d;" % (len(el), MAXLIST, MAXLIST))
                b.append("  for (long j = 0; j < n_list; j++) {")
                for pth, k in el:
                    b.append("    rd_fp2(&v_%s[j]%s);" % (r, c_proj(pth)))
                b.append("  }")
        # call
        args = []
        for ctype, name, is_ptr, const, dims in fn.params:
            r, comps = o.loc[name]
            if ctype in INT_TYPES:
                if is_map and name == fn.extra.get("len_param"):
                    args.append("(int)n_list")
                elif name not in [e["cparam"] for e in o.entries]:
                    args.append("0")
                elif ctype in MASK_TYPES:
                    args.append("(%s)0 - (%s)(v_%s != 0)" % (ctype, ctype, r))
                else:
                    args.append("(%s)v_%s" % (ctype, r))
            elif is_map and ptype[r][1] in (fn.extra["elem_in"], fn.extra["elem_out"]):
                args.append("v_%s" % r)
            else:
                args.append(("&" if is_ptr else "") + "v_%s%s" % (r, c_proj(comps)))
        call = "%s(%s)" % (fn.name, ", ".join(args))
        b.append("  out_begin();")
        if fn.retkind:
            b.append("  out_int((long)(%s != 0));" % call if fn.retkind == "bool" else "  out_int((long)%s);" % call)
        else:
            b.append("  %s;" % call)
            ints = []
            for cparam, ty in o.lean_outs:
                r, comps = o.loc[cparam]
                if isinstance(ty, tuple):
                    b.append("  for (long j = 0; j < n_list; j++) {")
                    for pth, k in leaves(T, ty[1]):
                        b.append("    out_fp2(&v_%s[j]%s);" % (r, c_proj(pth)))
                    b.append("  }")
                else:
                    for pth, k in leaves(T, ty):
                        tgt = "v_%s%s%s" % (r, c_proj(comps), c_proj(pth))
                        if k == "F":
                            b.append("  out_fp2(&%s);" % tgt)
                        else:
                            ints.append("  out_int((long)%s);" % tgt)
            b += ints
        b.append("  out_end();")
        b.append("}")
        src.append("\n".join(b))
        table.append('  {"%s", %s},' % (o.name, cname))
    src.append("static const struct { const char *name; void (*fn)(void); } GEN_OPS[] = {\n%s\n  {0, 0}\n};" % "\n".join(table))
    return "\n\n".join(src) + "\n"


def describe(W, module=None):
    """[dict(op=name, fn=fname, module, inputs=[(label, kind)], uses_sqrt)]"""
    out = []
    for o in all_ops(W, module):
        out.append(dict(op=o.name, fn=o.fn.name, module=o.fn.module, inputs=wire_inputs(o), uses_sqrt=o.uses_sqrt,
                        pattern=(o.pat or {}).get("pairs"), params=[(e["lname"], e["ty"]) for e in o.entries if e["from"] is None]))
    return out

"""Translator T, AES part: src/common/generic/aes_c.c -> lean/SqiGen/Aes.lean.

The bitsliced primitives of the BearSSL-derived constant-time AES are straight-line 64-bit word code.  Each of
  br_aes_ct64_bitslice_Sbox, br_aes_ct64_ortho, br_aes_ct64_interleave_in, br_aes_ct64_interleave_out,
  add_round_key, shift_rows, mix_columns (with rotr32 inlined)
is re-extracted on every run (after `gcc -E`, so that the SWAPN/SWAP2/4/8 macros are expanded by the C preprocessor
itself) into a `SqiModel.Bitslice.Prog`: a list of register assignments over the expression language
reg / const / xor / and / or / not / shl / shr.  Accepted C subset (anything else raises TranslateError):
  declarations of uint64_t locals; `for (i = 0; i < N; i++) { … }` with literal N (unrolled); `do { … } while (0);`;
  assignments `lv = e`, `lv |= e`, `lv &= e`, `lv ^= e` with lv a local, `p[const-index]` or `*p` of a parameter;
  expressions with | ^ & ~ << >> (constant shift amounts), integer literals, casts (uint64_t) [identity] and
  (uint32_t) [mask 0xFFFFFFFF], calls of `rotr32` (inlined from its own definition).
Register layout per function is fixed here (parameters first, locals after) and emitted next to the program.
Also extracted as plain data: the Rcon table and the round structure of aes_ecb4x / AES_256_ECB / the key schedule
driver constants that the hand model mirrors (checked shapes, see `extract_structure`)."""
import os, re, subprocess, sys

sys.path.insert(0, os.path.dirname(os.path.dirname(os.path.abspath(__file__))))
from vlib import write_if_changed
from keccak import TranslateError, find_function

TOK = re.compile(r"\s*(0[xX][0-9a-fA-F]+(?:ULL|UL|U|LL|L)?|\d+(?:ULL|UL|U|LL|L)?|[A-Za-z_]\w*|<<=|>>=|<<|>>|\+\+|--|\^=|\|=|&=|[(){}\[\]^&|~+\-=,;*<>])")
TYPES = {"uint64_t", "uint32_t", "int", "unsigned", "size_t"}


def tokenize(s, where):
    out, i = [], 0
    s = s.strip()
    while i < len(s):
        m = TOK.match(s, i)
        if not m:
            raise TranslateError("%s: cannot tokenize %r" % (where, s[i:i + 40]))
        out.append(m.group(1)); i = m.end()
    return out


def lit(tok):
    return int(re.sub(r"[uUlL]+$", "", tok), 0)


def preprocess(path):
    p = subprocess.run(["gcc", "-E", "-P", path], stdout=subprocess.PIPE, stderr=subprocess.PIPE)
    if p.returncode != 0:
        raise TranslateError("gcc -E failed on %s: %s" % (path, p.stderr.decode()[-300:]))
    return p.stdout.decode()


class Fn:
    """parser/translator for one function body"""

    def __init__(self, name, body, params, helpers):
        self.name, self.t, self.i = name, tokenize(body, name), 0
        self.regs = dict(params["scalars"])            # name -> reg
        self.arrays = dict(params["arrays"])           # name -> (base, size)
        self.ptrs = dict(params["ptrs"])               # name -> reg   (written as *name)
        self.nreg = params["nparam"]
        self.u32 = set(params.get("u32", ()))
        self.loopvars = {}
        self.helpers = helpers
        self.prog = []

    def peek(self, k=0):
        return self.t[self.i + k] if self.i + k < len(self.t) else None

    def eat(self, x=None):
        tok = self.peek()
        if tok is None or (x is not None and tok != x):
            raise TranslateError("%s: expected %r, got %r (at token %d)" % (self.name, x, tok, self.i))
        self.i += 1
        return tok

    def fresh(self):
        self.nreg += 1
        return self.nreg - 1

    # ---------------- statements
    def block(self, scope):
        while self.peek() is not None and self.peek() != "}":
            self.stmt(scope)

    def stmt(self, scope):
        tok = self.peek()
        if tok == ";":
            self.eat(); return
        if tok == "uint64_t":
            self.eat()
            while True:
                n = self.eat()
                if not re.match(r"[A-Za-z_]\w*$", n):
                    raise TranslateError("%s: bad declarator %r" % (self.name, n))
                scope[n] = self.fresh()
                if self.peek() == ",":
                    self.eat(); continue
                self.eat(";"); break
            return
        if tok == "int":
            self.eat(); v = self.eat(); self.eat(";"); self.loopvars[v] = None; return
        if tok == "do":
            self.eat(); self.eat("{")
            inner = dict(scope)
            self.block(inner)
            self.eat("}"); self.eat("while"); self.eat("("); z = self.eat(); self.eat(")"); self.eat(";")
            if lit(z) != 0:
                raise TranslateError("%s: only `do { } while (0)` accepted" % self.name)
            return
        if tok == "for":
            self.eat(); self.eat("(")
            v = self.eat()
            if v not in self.loopvars:
                raise TranslateError("%s: loop variable %r not declared as int" % (self.name, v))
            self.eat("="); lo = lit(self.eat()); self.eat(";")
            if self.eat() != v:
                raise TranslateError("%s: loop condition not on %s" % (self.name, v))
            self.eat("<"); hi = lit(self.eat()); self.eat(";")
            if self.eat() != v:
                raise TranslateError("%s: loop increment not on %s" % (self.name, v))
            self.eat("++"); self.eat(")"); self.eat("{")
            start = self.i
            for k in range(lo, hi):
                self.i = start
                self.loopvars[v] = k
                self.block(dict(scope))
            if lo >= hi:
                raise TranslateError("%s: empty loop" % self.name)
            self.loopvars[v] = None
            self.eat("}")
            return
        # assignment
        dst = self.lvalue(scope)
        op = self.eat()
        if op not in ("=", "|=", "&=", "^="):
            raise TranslateError("%s: assignment operator %r not in subset" % (self.name, op))
        e = self.expr(scope)
        self.eat(";")
        if op != "=":
            e = {"|=": ".or", "&=": ".and", "^=": ".xor"}[op] + " (.reg %d) %s" % (dst, e)
            e = "(%s)" % e
        self.prog.append((dst, e))

    def index(self):
        """constant index expression: literals, loop variables, + and <<"""
        v = self.iatom()
        while self.peek() in ("+", "<<"):
            o = self.eat(); w = self.iatom()
            v = v + w if o == "+" else v << w
        return v

    def iatom(self):
        tok = self.eat()
        if re.match(r"\d", tok):
            return lit(tok)
        if tok in self.loopvars and self.loopvars[tok] is not None:
            return self.loopvars[tok]
        if tok == "(":
            v = self.index(); self.eat(")"); return v
        raise TranslateError("%s: index %r is not a constant" % (self.name, tok))

    def lvalue(self, scope):
        tok = self.eat()
        if tok == "(":
            r = self.lvalue(scope); self.eat(")"); return r
        if tok == "*":
            n = self.eat()
            if n not in self.ptrs:
                raise TranslateError("%s: *%s is not an output pointer" % (self.name, n))
            return self.ptrs[n]
        if tok in self.arrays and self.peek() == "[":
            self.eat("["); k = self.index(); self.eat("]")
            base, size = self.arrays[tok]
            if not (0 <= k < size):
                raise TranslateError("%s: %s[%d] out of the declared range %d" % (self.name, tok, k, size))
            return base + k
        if tok in scope:
            return scope[tok]
        if tok in self.regs:
            return self.regs[tok]
        raise TranslateError("%s: %r is not an assignable location in the subset" % (self.name, tok))

    # ---------------- expressions
    def binlevel(self, sub, ops, scope):
        l = sub(scope)
        while self.peek() in ops:
            o = self.eat()
            r = sub(scope)
            l = "(%s %s %s)" % (ops[o], l, r)
        return l

    def expr(self, scope):
        return self.binlevel(self.xor, {"|": ".or"}, scope)

    def xor(self, scope):
        return self.binlevel(self.band, {"^": ".xor"}, scope)

    def band(self, scope):
        return self.binlevel(self.shift, {"&": ".and"}, scope)

    def shift(self, scope):
        l = self.unary(scope)
        while self.peek() in ("<<", ">>"):
            o = self.eat()
            n = self.constexpr()
            if not (0 <= n < 64):
                raise TranslateError("%s: shift amount %d not in 0..63" % (self.name, n))
            l = "(%s %s %d)" % (".shl" if o == "<<" else ".shr", l, n)
        return l

    def constexpr(self):
        tok = self.eat()
        if tok == "(":
            v = self.constexpr(); self.eat(")"); return v
        if re.match(r"\d", tok):
            return lit(tok)
        raise TranslateError("%s: shift amount %r is not a literal" % (self.name, tok))

    def unary(self, scope):
        if self.peek() == "~":
            self.eat()
            return "(.not %s)" % self.unary(scope)
        if self.peek() == "(" and self.peek(1) in TYPES:
            self.eat(); ty = self.eat(); self.eat(")")
            e = self.unary(scope)
            if ty == "uint64_t":
                return e
            if ty == "uint32_t":
                return "(.and %s (.const 0xffffffff))" % e
            raise TranslateError("%s: cast to %s not in subset" % (self.name, ty))
        return self.primary(scope)

    def primary(self, scope):
        tok = self.eat()
        if tok == "(":
            e = self.expr(scope); self.eat(")"); return e
        if re.match(r"\d", tok):
            v = lit(tok)
            if v >> 64:
                raise TranslateError("%s: literal exceeds 64 bits" % self.name)
            return "(.const 0x%x)" % v
        if tok in self.helpers and self.peek() == "(":
            self.eat("("); a = self.expr(scope); self.eat(")")
            return self.helpers[tok](a)
        if tok in self.arrays and self.peek() == "[":
            self.eat("["); k = self.index(); self.eat("]")
            base, size = self.arrays[tok]
            if not (0 <= k < size):
                raise TranslateError("%s: %s[%d] out of the declared range %d" % (self.name, tok, k, size))
            if tok in self.u32:      # a uint32_t object read into a 64-bit expression: zero extension
                return "(.and (.reg %d) (.const 0xffffffff))" % (base + k)
            return "(.reg %d)" % (base + k)
        if tok in scope:
            return "(.reg %d)" % scope[tok]
        if tok in self.regs:
            return "(.reg %d)" % self.regs[tok]
        raise TranslateError("%s: identifier %r not in the accepted subset" % (self.name, tok))


def helper_from(src, name):
    """a one-expression static inline helper `uint64_t name(uint64_t x) { return e; }` as an inliner"""
    args, body = find_function(src, name)
    m = re.match(r"\s*uint64_t\s+(\w+)\s*$", args)
    mb = re.match(r"\s*return\s+(.*);\s*$", body, re.S)
    if not m or not mb:
        raise TranslateError("%s: not a single-return helper" % name)
    var, text = m.group(1), mb.group(1)

    def inline(arg):
        f = Fn(name, text, dict(scalars={}, arrays={}, ptrs={}, nparam=0), {})
        f.regs = {}
        # parse with the parameter bound to a placeholder register, then substitute the argument expression
        f.regs[var] = 10**6
        e = f.expr({})
        if f.peek() is not None:
            raise TranslateError("%s: trailing tokens in helper" % name)
        return e.replace("(.reg %d)" % 10**6, arg)
    return inline


# name -> (C function, parameter layout)
LAYOUT = {
    "sbox": ("br_aes_ct64_bitslice_Sbox", r"uint64_t\s*\*\s*q", dict(scalars={}, arrays={"q": (0, 8)}, ptrs={}, nparam=8)),
    "ortho": ("br_aes_ct64_ortho", r"uint64_t\s*\*\s*q", dict(scalars={}, arrays={"q": (0, 8)}, ptrs={}, nparam=8)),
    "interleave_in": ("br_aes_ct64_interleave_in", r"uint64_t\s*\*\s*q0\s*,\s*uint64_t\s*\*\s*q1\s*,\s*const\s+uint32_t\s*\*\s*w",
                      dict(scalars={}, arrays={"w": (0, 4)}, ptrs={"q0": 4, "q1": 5}, nparam=6, u32=["w"])),
    "interleave_out": ("br_aes_ct64_interleave_out", r"uint32_t\s*\*\s*w\s*,\s*uint64_t\s+q0\s*,\s*uint64_t\s+q1",
                       dict(scalars={"q0": 0, "q1": 1}, arrays={"w": (2, 4)}, ptrs={}, nparam=6)),
    "add_round_key": ("add_round_key", r"uint64_t\s*\*\s*q\s*,\s*const\s+uint64_t\s*\*\s*sk",
                      dict(scalars={}, arrays={"q": (0, 8), "sk": (8, 8)}, ptrs={}, nparam=16)),
    "shift_rows": ("shift_rows", r"uint64_t\s*\*\s*q", dict(scalars={}, arrays={"q": (0, 8)}, ptrs={}, nparam=8)),
    "mix_columns": ("mix_columns", r"uint64_t\s*\*\s*q", dict(scalars={}, arrays={"q": (0, 8)}, ptrs={}, nparam=8)),
}


def extract(repo):
    path = os.path.join(repo, "src/common/generic/aes_c.c")
    src = preprocess(path)
    helpers = {"rotr32": helper_from(src, "rotr32")}
    d = {}
    for key, (cname, argpat, layout) in LAYOUT.items():
        args, body = find_function(src, cname)
        if not re.match(r"\s*" + argpat + r"\s*$", args):
            raise TranslateError("%s: unexpected parameter list %r" % (cname, args))
        f = Fn(cname, body, layout, helpers)
        f.block({})
        if f.peek() is not None:
            raise TranslateError("%s: unparsed trailing tokens from %r" % (cname, f.peek()))
        # uint32_t output arrays are truncated on store
        if key == "interleave_out":
            f.prog = [(dst, "(.and %s (.const 0xffffffff))" % e if 2 <= dst < 6 else e) for dst, e in f.prog]
        # every local register must be written before it is read (C locals are uninitialised)
        written = set(range(layout["nparam"]))
        for dst, ex in f.prog:
            for r in re.findall(r"\(\.reg (\d+)\)", ex):
                if int(r) not in written:
                    raise TranslateError("%s: local register %s read before it is assigned" % (cname, r))
            written.add(dst)
        d[key] = dict(prog=f.prog, nreg=f.nreg, cname=cname)
    m = re.search(r"static\s+const\s+unsigned\s+char\s+Rcon\s*\[\s*\]\s*=\s*\{([^}]*)\}\s*;", src)
    if not m:
        raise TranslateError("Rcon table not found")
    d["Rcon"] = [lit(x.strip()) for x in m.group(1).split(",") if x.strip()]
    return d


def emit(d):
    L = ["/- GENERATED by tools/translate/aes.py from src/common/generic/aes_c.c (after gcc -E) — do not edit.",
         "   The bitsliced AES primitives as straight-line 64-bit register programs (SqiModel.Bitslice.Prog). -/",
         "import SqiModel.Bitslice", "namespace SqiGen.Aes", "open SqiModel.Bitslice", ""]
    for key in LAYOUT:
        e = d[key]
        L.append("/-- `%s`; registers: parameters first (see tools/translate/aes.py LAYOUT), then locals -/" % e["cname"])
        L.append("def %s_nreg : Nat := %d" % (key, e["nreg"]))
        L.append("def %s_prog : Prog := [" % key)
        L.append(",\n".join("  (%d, %s)" % (dst, ex) for dst, ex in e["prog"]))
        L.append("]")
        L.append("")
    L.append("def Rcon : List UInt8 := [" + ", ".join("0x%02x" % x for x in d["Rcon"]) + "]")
    L += ["", "end SqiGen.Aes", ""]
    return "\n".join(L)


def generate(repo, outdir):
    d = extract(repo)
    return ["Aes.lean regenerated"] if write_if_changed(os.path.join(outdir, "Aes.lean"), emit(d)) else []


if __name__ == "__main__":
    import vlib
    print(generate(vlib.REPO, os.path.join(vlib.LEAN, "SqiGen")))

"""Translator T, AES part: src/common/generic/aes_c.c -> lean/SqiGen/Aes.lean.

The bitsliced primitives of the BearSSL-derived constant-time AES are straight-line 64-bit word code.  Each of
  br_aes_ct64_bitslice_Sbox, br_aes_ct64_ortho, br_aes_ct64_interleave_in, br_aes_ct64_interleave_out,
  add_round_key, shift_rows, mix_columns (with rotr32 inlined)
is re-extracted on every run (after `gcc -E`, so that the SWAPN/SWAP2/4/8 macros are expanded by the C preprocessor
itself) into a `SqiModel.Bitslice.Prog`: a list of register assignments over the expression language
reg / const / xor / and / or / not / shl / shr.  Accepted C subset (anything else raises TranslateError):
  declarations of uint64_t locals; `for (i = 0; i < N; i++) { … }` with literal N (unrolled); `do { … } while (0);`;
  assignments `lv = e`, `lv |= e`, `lv &= e`, `lv ^= e` with lv a local, `p[const-index]` or `*p` of a parameter;
  expressions with | ^ & ~ << >> (constant shift amounts), integer literals, casts (uint64_t) [identity] and
  (uint32_t) [mask 0xFFFFFFFF], calls of `rotr32` (inlined from its own definition).
Register layout per function is fixed here (parameters first, locals after) and emitted next to the program.
Also extracted as plain data: the Rcon table and the round structure of aes_ecb4x / AES_256_ECB / the key schedule
driver constants that the hand model mirrors (checked shapes, see `extract_structure`)."""
import os, re, subprocess, sys

sys.path.insert(0, os.path.dirname(os.path.dirname(os.path.abspath(__file__))))
from vlib import write_if_changed
from keccak import TranslateError, find_function

TOK = re.compile(r"\s*(0[xX][0-9a-fA-F]+(?:ULL|UL|U|LL|L)?|\d+(?:ULL|UL|U|LL|L)?|[A-Za-z_]\w*|<<=|>>=|<<|>>|\+\+|--|\^=|\|=|&=|[(){}\[\]^&|~+\-=,;*<>])")
TYPES = {"uint64_t", "uint32_t", "int", "unsigned", "size_t"}


def tokenize(s, where):
    out, i = [], 0
    s = s.strip()
    while i < len(s):
        m = TOK.match(s, i)
        if not m:
            raise TranslateError("%s: cannot tokenize %r" % (where, s[i:i + 40]))
        out.append(m.group(1)); i = m.end()
    return out


def lit(tok):
    return int(re.sub(r"[uUlL]+$", "", tok), 0)


def preprocess(path):
    p = subprocess.run(["gcc", "-E", "-P", path], stdout=subprocess.PIPE, stderr=subprocess.PIPE)
    if p.returncode != 0:
        raise TranslateError("gcc -E failed on %s: %s" % (path, p.stderr.decode()[-300:]))
    return p.stdout.decode()


class Fn:
    """parser/translator for one function body"""

    def __init__(self, name, body, params, helpers):
        self.name, self.t, self.i = name, tokenize(body, name), 0
        self.regs = dict(params["scalars"])            # name -> reg
        self.arrays = dict(params["arrays"])           # name -> (base, size)
        self.ptrs = dict(params["ptrs"])               # name -> reg   (written as *name)
        self.nreg = params["nparam"]
        self.u32 = set(params.get("u32", ()))
        self.local_arrays = []
        self.callees = params.get("callees", {})
        self.loopvars = {}
        self.helpers = helpers
        self.prog = []

    def peek(self, k=0):
        return self.t[self.i + k] if self.i + k < len(self.t) else None

    def eat(self, x=None):
        tok = self.peek()
        if tok is None or (x is not None and tok != x):
            raise TranslateError("%s: expected %r, got %r (at token %d)" % (self.name, x, tok, self.i))
        self.i += 1
        return tok

    def fresh(self):
        self.nreg += 1
        return self.nreg - 1

    # ---------------- statements
    def block(self, scope):
        while self.peek() is not None and self.peek() != "}":
            self.stmt(scope)

    def stmt(self, scope):
        tok = self.peek()
        if tok == ";":
            self.eat(); return
        if tok == "uint64_t":
            self.eat()
            while True:
                n = self.eat()
                if not re.match(r"[A-Za-z_]\w*$", n):
                    raise TranslateError("%s: bad declarator %r" % (self.name, n))
                if self.peek() == "[":            # local array
                    self.eat("["); size = lit(self.eat()); self.eat("]")
                    base = self.nreg
                    self.nreg += size
                    self.arrays[n] = (base, size)
                    self.local_arrays.append((n, base, size))
                    if self.peek() == ",":
                        self.eat(); continue
                    self.eat(";"); break
                scope[n] = self.fresh()
                if self.peek() == ",":
                    self.eat(); continue
                self.eat(";"); break
            return
        if tok == "int":
            self.eat(); v = self.eat(); self.eat(";"); self.loopvars[v] = None; return
        if tok == "do":
            self.eat(); self.eat("{")
            inner = dict(scope)
            self.block(inner)
            self.eat("}"); self.eat("while"); self.eat("("); z = self.eat(); self.eat(")"); self.eat(";")
            if lit(z) != 0:
                raise TranslateError("%s: only `do { } while (0)` accepted" % self.name)
            return
        if tok == "for":
            self.eat(); self.eat("(")
            v = self.eat()
            if v not in self.loopvars:
                raise TranslateError("%s: loop variable %r not declared as int" % (self.name, v))
            self.eat("="); lo = lit(self.eat()); self.eat(";")
            if self.eat() != v:
                raise TranslateError("%s: loop condition not on %s" % (self.name, v))
            self.eat("<"); hi = lit(self.eat()); self.eat(";")
            if self.eat() != v:
                raise TranslateError("%s: loop increment not on %s" % (self.name, v))
            self.eat("++"); self.eat(")"); self.eat("{")
            start = self.i
            for k in range(lo, hi):
                self.i = start
                self.loopvars[v] = k
                self.block(dict(scope))
            if lo >= hi:
                raise TranslateError("%s: empty loop" % self.name)
            self.loopvars[v] = None
            self.eat("}")
            return
        if tok in self.callees and self.peek(1) == "(":
            self.call(scope); return
        # assignment (possibly chained: a = b = c = e)
        dsts = [self.lvalue(scope)]
        op = self.eat()
        if op not in ("=", "|=", "&=", "^=", ">>=", "<<="):
            raise TranslateError("%s: assignment operator %r not in subset" % (self.name, op))
        if op == "=":
            while True:
                save = self.i
                try:
                    d2 = self.lvalue(scope)
                    if self.peek() == "=":
                        self.eat(); dsts.append(d2); continue
                except TranslateError:
                    pass
                self.i = save
                break
        if op in (">>=", "<<="):
            n = self.constexpr()
            if not (0 <= n < 64):
                raise TranslateError("%s: shift amount %d not in 0..63" % (self.name, n))
            e = "(%s (.reg %d) %d)" % (".shr" if op == ">>=" else ".shl", dsts[0], n)
        else:
            e = self.expr(scope)
            if op != "=":
                e = "(%s (.reg %d) %s)" % ({"|=": ".or", "&=": ".and", "^=": ".xor"}[op], dsts[0], e)
        self.eat(";")
        # C evaluates a chained assignment right to left; all targets receive the same value
        self.prog.append((dsts[-1], e))
        for d in reversed(dsts[:-1]):
            self.prog.append((d, "(.reg %d)" % dsts[-1]))

    def call(self, scope):
        """inline a call of an already translated function: its parameter registers are renamed to the actuals,
        its locals to fresh registers"""
        name = self.eat(); self.eat("(")
        callee = self.callees[name]
        args = []
        while True:
            if self.peek() == "&":
                self.eat(); a = self.eat(); self.eat("["); k = self.index(); self.eat("]")
                base, size = self.arrays[a]
                if not (0 <= k < size):
                    raise TranslateError("%s: &%s[%d] out of range" % (self.name, a, k))
                args.append(("ptr", base + k))
            else:
                a = self.eat()
                if a not in self.arrays:
                    raise TranslateError("%s: call argument %r is not an array" % (self.name, a))
                off = 0
                if self.peek() == "+":
                    self.eat(); off = self.index()
                base, size = self.arrays[a]
                args.append(("arr", base + off, size - off))
            if self.peek() == ",":
                self.eat(); continue
            self.eat(")"); self.eat(";"); break
        if len(args) != len(callee["params"]):
            raise TranslateError("%s: call of %s with %d arguments" % (self.name, name, len(args)))
        ren = {}
        for (kind, creg, csize), a in zip(callee["params"], args):
            if kind == "ptr":
                if a[0] != "ptr":
                    raise TranslateError("%s: %s expects a pointer to one word" % (self.name, name))
                ren[creg] = a[1]
            else:
                if a[0] != "arr" or a[2] < csize:
                    raise TranslateError("%s: %s expects an array of %d words" % (self.name, name, csize))
                for k in range(csize):
                    ren[creg + k] = a[1] + k
        for r in range(callee["nparam"], callee["nreg"]):
            ren[r] = self.fresh()
        def rn(m):
            return "(.reg %d)" % ren[int(m.group(1))]
        for dst, ex in callee["prog"]:
            self.prog.append((ren[dst], re.sub(r"\(\.reg (\d+)\)", rn, ex)))

    def index(self):
        """constant index expression: literals, loop variables, + and <<"""
        v = self.iatom()
        while self.peek() in ("+", "<<"):
            o = self.eat(); w = self.iatom()
            v = v + w if o == "+" else v << w
        return v

    def iatom(self):
        tok = self.eat()
        if re.match(r"\d", tok):
            return lit(tok)
        if tok in self.loopvars and self.loopvars[tok] is not None:
            return self.loopvars[tok]
        if tok == "(":
            v = self.index(); self.eat(")"); return v
        raise TranslateError("%s: index %r is not a constant" % (self.name, tok))

    def lvalue(self, scope):
        tok = self.eat()
        if tok == "(":
            r = self.lvalue(scope); self.eat(")"); return r
        if tok == "*":
            n = self.eat()
            if n not in self.ptrs:
                raise TranslateError("%s: *%s is not an output pointer" % (self.name, n))
            return self.ptrs[n]
        if tok in self.arrays and self.peek() == "[":
            self.eat("["); k = self.index(); self.eat("]")
            base, size = self.arrays[tok]
            if not (0 <= k < size):
                raise TranslateError("%s: %s[%d] out of the declared range %d" % (self.name, tok, k, size))
            return base + k
        if tok in scope:
            return scope[tok]
        if tok in self.regs:
            return self.regs[tok]
        raise TranslateError("%s: %r is not an assignable location in the subset" % (self.name, tok))

    # ---------------- expressions
    def binlevel(self, sub, ops, scope):
        l = sub(scope)
        while self.peek() in ops:
            o = self.eat()
            r = sub(scope)
            l = "(%s %s %s)" % (ops[o], l, r)
        return l

    def expr(self, scope):
        return self.binlevel(self.xor, {"|": ".or"}, scope)

    def xor(self, scope):
        return self.binlevel(self.band, {"^": ".xor"}, scope)

    def band(self, scope):
        return self.binlevel(self.shift, {"&": ".and"}, scope)

    def addsub(self, scope):
        l = self.unary(scope)
        while self.peek() == "-":
            self.eat()
            r = self.unary(scope)
            l = "(.sub %s %s)" % (l, r)
        return l

    def shift(self, scope):
        l = self.addsub(scope)
        while self.peek() in ("<<", ">>"):
            o = self.eat()
            n = self.constexpr()
            if not (0 <= n < 64):
                raise TranslateError("%s: shift amount %d not in 0..63" % (self.name, n))
            l = "(%s %s %d)" % (".shl" if o == "<<" else ".shr", l, n)
        return l

    def constexpr(self):
        tok = self.eat()
        if tok == "(":
            v = self.constexpr(); self.eat(")"); return v
        if re.match(r"\d", tok):
            return lit(tok)
        raise TranslateError("%s: shift amount %r is not a literal" % (self.name, tok))

    def unary(self, scope):
        if self.peek() == "~":
            self.eat()
            return "(.not %s)" % self.unary(scope)
        if self.peek() == "(" and self.peek(1) in TYPES:
            self.eat(); ty = self.eat(); self.eat(")")
            e = self.unary(scope)
            if ty == "uint64_t":
                return e
            if ty == "uint32_t":
                return "(.and %s (.const 0xffffffff))" % e
            raise TranslateError("%s: cast to %s not in subset" % (self.name, ty))
        return self.primary(scope)

    def primary(self, scope):
        tok = self.eat()
        if tok == "(":
            e = self.expr(scope); self.eat(")"); return e
        if re.match(r"\d", tok):
            v = lit(tok)
            if v >> 64:
                raise TranslateError("%s: literal exceeds 64 bits" % self.name)
            return "(.const 0x%x)" % v
        if tok in self.helpers and self.peek() == "(":
            self.eat("("); a = self.expr(scope); self.eat(")")
            return self.helpers[tok](a)
        if tok in self.arrays and self.peek() == "[":
            self.eat("["); k = self.index(); self.eat("]")
            base, size = self.arrays[tok]
            if not (0 <= k < size):
                raise TranslateError("%s: %s[%d] out of the declared range %d" % (self.name, tok, k, size))
            if tok in self.u32:      # a uint32_t object read into a 64-bit expression: zero extension
                return "(.and (.reg %d) (.const 0xffffffff))" % (base + k)
            return "(.reg %d)" % (base + k)
        if tok in scope:
            return "(.reg %d)" % scope[tok]
        if tok in self.regs:
            return "(.reg %d)" % self.regs[tok]
        raise TranslateError("%s: identifier %r not in the accepted subset" % (self.name, tok))


def helper_from(src, name):
    """a one-expression static inline helper `uint64_t name(uint64_t x) { return e; }` as an inliner"""
    args, body = find_function(src, name)
    m = re.match(r"\s*uint64_t\s+(\w+)\s*$", args)
    mb = re.match(r"\s*return\s+(.*);\s*$", body, re.S)
    if not m or not mb:
        raise TranslateError("%s: not a single-return helper" % name)
    var, text = m.group(1), mb.group(1)

    def inline(arg):
        f = Fn(name, text, dict(scalars={}, arrays={}, ptrs={}, nparam=0), {})
        f.regs = {}
        # parse with the parameter bound to a placeholder register, then substitute the argument expression
        f.regs[var] = 10**6
        e = f.expr({})
        if f.peek() is not None:
            raise TranslateError("%s: trailing tokens in helper" % name)
        return e.replace("(.reg %d)" % 10**6, arg)
    return inline


# name -> (C function, parameter layout)
LAYOUT = {
    "sbox": ("br_aes_ct64_bitslice_Sbox", r"uint64_t\s*\*\s*q", dict(scalars={}, arrays={"q": (0, 8)}, ptrs={}, nparam=8)),
    "ortho": ("br_aes_ct64_ortho", r"uint64_t\s*\*\s*q", dict(scalars={}, arrays={"q": (0, 8)}, ptrs={}, nparam=8)),
    "interleave_in": ("br_aes_ct64_interleave_in", r"uint64_t\s*\*\s*q0\s*,\s*uint64_t\s*\*\s*q1\s*,\s*const\s+uint32_t\s*\*\s*w",
                      dict(scalars={}, arrays={"w": (0, 4)}, ptrs={"q0": 4, "q1": 5}, nparam=6, u32=["w"])),
    "interleave_out": ("br_aes_ct64_interleave_out", r"uint32_t\s*\*\s*w\s*,\s*uint64_t\s+q0\s*,\s*uint64_t\s+q1",
                       dict(scalars={"q0": 0, "q1": 1}, arrays={"w": (2, 4)}, ptrs={}, nparam=6)),
    "add_round_key": ("add_round_key", r"uint64_t\s*\*\s*q\s*,\s*const\s+uint64_t\s*\*\s*sk",
                      dict(scalars={}, arrays={"q": (0, 8), "sk": (8, 8)}, ptrs={}, nparam=16)),
    "shift_rows": ("shift_rows", r"uint64_t\s*\*\s*q", dict(scalars={}, arrays={"q": (0, 8)}, ptrs={}, nparam=8)),
    "mix_columns": ("mix_columns", r"uint64_t\s*\*\s*q", dict(scalars={}, arrays={"q": (0, 8)}, ptrs={}, nparam=8)),
}


def norm(t):
    return re.sub(r"\s+", " ", t).strip()


def loop_body(text, header_re, where):
    m = re.search(header_re, text)
    if not m:
        raise TranslateError("%s: loop header not of the accepted shape" % where)
    i, depth = m.end(), 1
    while depth:
        depth += {"{": 1, "}": -1}.get(text[i], 0); i += 1
    return text[m.end():i - 1], text[:m.start()], text[i:]


def extract_keysched(src, d, helpers):
    """br_aes_ct64_keysched (word expansion loop: shape-checked, emitted as data for key_len = 32; compression loop: one generic
    iteration translated with the calls inlined), br_aes_ct64_skey_expand (one generic iteration), sub_word (shape)."""
    callees = {
        "br_aes_ct64_interleave_in": dict(prog=d["interleave_in"]["prog"], nreg=d["interleave_in"]["nreg"], nparam=6,
                                          params=[("ptr", 4, 1), ("ptr", 5, 1), ("arr", 0, 4)]),
        "br_aes_ct64_ortho": dict(prog=d["ortho"]["prog"], nreg=d["ortho"]["nreg"], nparam=8, params=[("arr", 0, 8)]),
    }
    args, body = find_function(src, "br_aes_ct64_keysched")
    if norm(args) != "uint64_t *comp_skey, const unsigned char *key, unsigned int key_len":
        raise TranslateError("br_aes_ct64_keysched: unexpected parameters %r" % norm(args))
    comp, pre, post = loop_body(body, r"for\s*\(\s*i\s*=\s*0\s*,\s*j\s*=\s*0\s*;\s*i\s*<\s*nkf\s*;\s*i\s*\+=\s*4\s*,\s*j\s*\+=\s*2\s*\)\s*\{",
                                "br_aes_ct64_keysched (compression loop)")
    if norm(post) != "":
        raise TranslateError("br_aes_ct64_keysched: code after the compression loop")
    f = Fn("br_aes_ct64_keysched/compress", comp, dict(scalars={}, arrays={"skey": (0, 4), "comp_skey": (4, 2)}, ptrs={}, nparam=6,
                                                       u32=["skey"], callees=callees), helpers)
    f.loopvars = {"i": 0, "j": 0}
    f.block({})
    if f.peek() is not None:
        raise TranslateError("keysched compression loop: unparsed tokens")
    d["ks_compress"] = dict(prog=f.prog, nreg=f.nreg, cname="br_aes_ct64_keysched: one iteration of the compression loop (skey + i -> comp_skey[j], comp_skey[j + 1])")
    # ---- the word expansion part, as text
    want_pre = ("unsigned int i, j, k, nk, nkf; uint32_t tmp; uint32_t skey[60]; unsigned nrounds = 10 + ((key_len - 16) >> 2); "
                "nk = (key_len >> 2); nkf = ((nrounds + 1) << 2); br_range_dec32le(skey, (key_len >> 2), key); "
                "tmp = skey[(key_len >> 2) - 1]; for (i = nk, j = 0, k = 0; i < nkf; i++) { if (j == 0) { "
                "tmp = (tmp << 24) | (tmp >> 8); tmp = sub_word(tmp) ^ Rcon[k]; } else if (nk > 6 && j == 4) { tmp = sub_word(tmp); } "
                "tmp ^= skey[i - nk]; skey[i] = tmp; if (++j == nk) { j = 0; k++; } }")
    if norm(pre) != want_pre:
        raise TranslateError("br_aes_ct64_keysched: the word expansion part differs from the accepted text:\n  got  %s\n  want %s" % (norm(pre), want_pre))
    # simulate its control flow for key_len = 32 (the only length AES_256_ECB passes)
    key_len = 32
    nrounds = 10 + ((key_len - 16) >> 2); nk = key_len >> 2; nkf = (nrounds + 1) << 2
    ops, j, k = [], 0, 0
    for i in range(nk, nkf):
        if j == 0:
            ops.append((1, k))          # RotWord, SubWord, xor Rcon[k]
        elif nk > 6 and j == 4:
            ops.append((2, 0))          # SubWord
        else:
            ops.append((0, 0))
        j += 1
        if j == nk:
            j = 0; k += 1
    d["ks_ops"], d["ks_nk"], d["ks_nkf"], d["ks_nrounds"] = ops, nk, nkf, nrounds
    # ---- sub_word
    args, body = find_function(src, "sub_word")
    if norm(args) != "uint32_t x" or norm(body) != ("uint64_t q[8]; memset(q, 0, sizeof q); q[0] = x; br_aes_ct64_ortho(q); "
                                                      "br_aes_ct64_bitslice_Sbox(q); br_aes_ct64_ortho(q); return (uint32_t)q[0];"):
        raise TranslateError("sub_word: body differs from the accepted text: %s" % norm(body))
    # ---- skey_expand
    args, body = find_function(src, "br_aes_ct64_skey_expand")
    if norm(args) != "uint64_t *skey, const uint64_t *comp_skey, unsigned int nrounds":
        raise TranslateError("br_aes_ct64_skey_expand: unexpected parameters")
    exp, pre, post = loop_body(body, r"for\s*\(\s*u\s*=\s*0\s*,\s*v\s*=\s*0\s*;\s*u\s*<\s*n\s*;\s*u\s*\+\+\s*,\s*v\s*\+=\s*4\s*\)\s*\{",
                               "br_aes_ct64_skey_expand")
    if norm(pre) != "unsigned u, v, n; n = (nrounds + 1) << 1;" or norm(post) != "":
        raise TranslateError("br_aes_ct64_skey_expand: prologue/epilogue differ from the accepted text: %r" % norm(pre))
    f = Fn("br_aes_ct64_skey_expand", exp, dict(scalars={}, arrays={"comp_skey": (0, 1), "skey": (1, 4)}, ptrs={}, nparam=5), helpers)
    f.loopvars = {"u": 0, "v": 0}
    f.block({})
    if f.peek() is not None:
        raise TranslateError("skey_expand loop: unparsed tokens")
    d["ks_expand"] = dict(prog=f.prog, nreg=f.nreg, cname="br_aes_ct64_skey_expand: one iteration (comp_skey[u] -> skey[v .. v+3])")
    # ---- the wrappers, as text
    for fn, a, b in (
        ("AES_256_ECB", "const uint8_t *input, const unsigned char *key, unsigned char *output",
         "aes256ctx ctx; aes256_ecb_keyexp(&ctx, key); aes256_ecb(output, input, 1, &ctx); aes256_ctx_release(&ctx);"),
        ("aes256_ecb_keyexp", "aes256ctx *r, const unsigned char *key",
         "uint64_t skey[30]; r->sk_exp = malloc(sizeof(uint64_t) * 120); if (r->sk_exp == ((void *)0)) { exit(111); } "
         "br_aes_ct64_keysched(skey, key, 32); br_aes_ct64_skey_expand(r->sk_exp, skey, 14);"),
        ("aes256_ecb", "unsigned char *out, const unsigned char *in, size_t nblocks, const aes256ctx *ctx",
         "aes_ecb(out, in, nblocks, ctx->sk_exp, 14);"),
        ("aes_ecb", "unsigned char *out, const unsigned char *in, size_t nblocks, const uint64_t *rkeys, unsigned int nrounds",
         "uint32_t blocks[16]; unsigned char t[64]; while (nblocks >= 4) { br_range_dec32le(blocks, 16, in); aes_ecb4x(out, blocks, rkeys, nrounds); "
         "nblocks -= 4; in += 64; out += 64; } if (nblocks) { br_range_dec32le(blocks, nblocks * 4, in); aes_ecb4x(t, blocks, rkeys, nrounds); "
         "memcpy(out, t, nblocks * 16); }"),
        ("aes_ecb4x", "unsigned char out[64], const uint32_t ivw[16], const uint64_t *sk_exp, unsigned int nrounds",
         "uint32_t w[16]; uint64_t q[8]; unsigned int i; memcpy(w, ivw, sizeof(w)); for (i = 0; i < 4; i++) { "
         "br_aes_ct64_interleave_in(&q[i], &q[i + 4], w + (i << 2)); } br_aes_ct64_ortho(q); add_round_key(q, sk_exp); "
         "for (i = 1; i < nrounds; i++) { br_aes_ct64_bitslice_Sbox(q); shift_rows(q); mix_columns(q); add_round_key(q, sk_exp + (i << 3)); } "
         "br_aes_ct64_bitslice_Sbox(q); shift_rows(q); add_round_key(q, sk_exp + 8 * nrounds); br_aes_ct64_ortho(q); for (i = 0; i < 4; i++) { "
         "br_aes_ct64_interleave_out(w + (i << 2), q[i], q[i + 4]); } br_range_enc32le(out, w, 16);"),
        ("br_dec32le", "const unsigned char *src",
         "return (uint32_t)src[0] | ((uint32_t)src[1] << 8) | ((uint32_t)src[2] << 16) | ((uint32_t)src[3] << 24);"),
        ("br_enc32le", "unsigned char *dst, uint32_t x",
         "dst[0] = (unsigned char)x; dst[1] = (unsigned char)(x >> 8); dst[2] = (unsigned char)(x >> 16); dst[3] = (unsigned char)(x >> 24);"),
        ("br_range_dec32le", "uint32_t *v, size_t num, const unsigned char *src", "while (num-- > 0) { *v++ = br_dec32le(src); src += 4; }"),
        ("br_range_enc32le", "unsigned char *dst, const uint32_t *v, size_t num", "while (num-- > 0) { br_enc32le(dst, *v++); dst += 4; }"),
    ):
        ar, bo = find_function(src, fn)
        if norm(ar) != a or norm(bo) != b:
            raise TranslateError("%s: control code differs from the accepted text (hand-modelled in SqiModel.AesCt):\n  got  (%s) %s" % (fn, norm(ar), norm(bo)))


def extract(repo):
    path = os.path.join(repo, "src/common/generic/aes_c.c")
    src = preprocess(path)
    helpers = {"rotr32": helper_from(src, "rotr32")}
    d = {}
    for key, (cname, argpat, layout) in LAYOUT.items():
        args, body = find_function(src, cname)
        if not re.match(r"\s*" + argpat + r"\s*$", args):
            raise TranslateError("%s: unexpected parameter list %r" % (cname, args))
        f = Fn(cname, body, layout, helpers)
        f.block({})
        if f.peek() is not None:
            raise TranslateError("%s: unparsed trailing tokens from %r" % (cname, f.peek()))
        # uint32_t output arrays are truncated on store
        if key == "interleave_out":
            f.prog = [(dst, "(.and %s (.const 0xffffffff))" % e if 2 <= dst < 6 else e) for dst, e in f.prog]
        # every local register must be written before it is read (C locals are uninitialised)
        written = set(range(layout["nparam"]))
        for dst, ex in f.prog:
            for r in re.findall(r"\(\.reg (\d+)\)", ex):
                if int(r) not in written:
                    raise TranslateError("%s: local register %s read before it is assigned" % (cname, r))
            written.add(dst)
        d[key] = dict(prog=f.prog, nreg=f.nreg, cname=cname)
    extract_keysched(src, d, helpers)
    m = re.search(r"static\s+const\s+unsigned\s+char\s+Rcon\s*\[\s*\]\s*=\s*\{([^}]*)\}\s*;", src)
    if not m:
        raise TranslateError("Rcon table not found")
    d["Rcon"] = [lit(x.strip()) for x in m.group(1).split(",") if x.strip()]
    return d


def emit(d):
    L = ["/- GENERATED by tools/translate/aes.py from src/common/generic/aes_c.c (after gcc -E) — do not edit.",
         "   The bitsliced AES primitives as straight-line 64-bit register programs (SqiModel.Bitslice.Prog). -/",
         "import SqiModel.Bitslice", "namespace SqiGen.Aes", "open SqiModel.Bitslice", ""]
    for key in list(LAYOUT) + ["ks_compress", "ks_expand"]:
        e = d[key]
        L.append("/-- `%s`; registers: parameters first (see tools/translate/aes.py LAYOUT), then locals -/" % e["cname"])
        L.append("def %s_nreg : Nat := %d" % (key, e["nreg"]))
        L.append("def %s_prog : Prog := [" % key)
        L.append(",\n".join("  (%d, %s)" % (dst, ex) for dst, ex in e["prog"]))
        L.append("]")
        L.append("")
    L.append("/-- word expansion of br_aes_ct64_keysched for key_len = 32, control flow simulated: per word i = nk … nkf−1 the pair")
    L.append("    (1, k) = RotWord, SubWord, xor Rcon[k];  (2, _) = SubWord;  (0, _) = plain -/")
    L.append("def ks_ops : List (Nat × Nat) := [" + ", ".join("(%d, %d)" % o for o in d["ks_ops"]) + "]")
    L.append("def ks_nk : Nat := %d" % d["ks_nk"])
    L.append("def ks_nkf : Nat := %d" % d["ks_nkf"])
    L.append("def ks_nrounds : Nat := %d" % d["ks_nrounds"])
    L.append("")
    L.append("def Rcon : List UInt8 := [" + ", ".join("0x%02x" % x for x in d["Rcon"]) + "]")
    L += ["", "end SqiGen.Aes", ""]
    return "\n".join(L)


def generate(repo, outdir):
    d = extract(repo)
    return ["Aes.lean regenerated"] if write_if_changed(os.path.join(outdir, "Aes.lean"), emit(d)) else []


if __name__ == "__main__":
    import vlib
    print(generate(vlib.REPO, os.path.join(vlib.LEAN, "SqiGen")))

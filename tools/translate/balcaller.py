"""Translator (tie T) for the integer constants of the CALLER `theta_chain_comput_balanced`
(src/hd/ref/hdx/theta_isogenies.c) -> lean/SqiGen/BalCaller.lean.

Re-extracted from the C text on every run (every expression is copied token by token; only integer literals, the
identifiers n / i / log / len, `true`/`false`, + - * and parentheses are accepted, anything else is refused):
  (a) the stack-depth computation: `long log, len = E;  for (log = E0; len > E1; len >>= K) log++;` and the VLA sizes
      `theta_point_t stack1[E]; theta_point_t stack2[E];`
  (b) the element counts `theta_isogeny_t steps[E];` and `out->steps = malloc((E) * sizeof(theta_isogeny_t));`
  (c) the arguments of the (single) call `theta_chain_comput_rec(out, &codomain, &R1, &R2, len, index, advance, stack1,
      stack2, stacklen, total_length)` (the pointer arguments must be literally these), the slot of `stackX[E] = QX;`
      before and `QX = stackX[E];` after the call, and the doubling count of `double_iter(&RX, &codomain, &QX, E)` that
      sets up the kernel before the call
  (d) the trailing loop `for (int i = E; i < E; i++)`, every index `out->steps[E]` and every `double_iter` count in its
      body, and the index of `splitting_comput(&out->last_step, &out->steps[E].codomain)`.
Occurrence counts of `log`, `len`, `steps[` in the whole function are checked so that no other use escapes the slice.
"""
import os, re, sys

sys.path.insert(0, os.path.dirname(os.path.dirname(os.path.abspath(__file__))))
sys.path.insert(0, os.path.dirname(os.path.abspath(__file__)))
from vlib import write_if_changed
import chainskel
from chainskel import TranslateError, preprocess, tokenize, function_body

SRC = "src/hd/ref/hdx/theta_isogenies.c"
FN = "theta_chain_comput_balanced"
IDS = {"n", "i", "log", "len"}


def expr(s, allowed=IDS):
    """C integer expression -> (Lean Int expression, python expression); refuses everything outside the tiny subset"""
    toks = tokenize(s)
    if not toks:
        raise TranslateError("balcaller: empty expression")
    out = []
    for t in toks:
        if re.fullmatch(r"\d+", t):
            out.append(str(int(t)))
        elif t in ("false", "true"):
            out.append("0" if t == "false" else "1")
        elif t in allowed:
            out.append(t)
        elif t in ("+", "-", "*", "(", ")"):
            out.append(t)
        else:
            raise TranslateError("balcaller: token %r not accepted in %r" % (t, s))
    e = " ".join(out)
    try:
        eval(e, {"__builtins__": {}}, {k: 7 for k in allowed})
    except Exception:
        raise TranslateError("balcaller: malformed expression %r" % s)
    return e


def one(pat, text, what, count=1):
    ms = list(re.finditer(pat, text, flags=re.S))
    if len(ms) != count:
        raise TranslateError("balcaller: expected %d occurrence(s) of %s, found %d" % (count, what, len(ms)))
    return ms


def extract(repo):
    src = preprocess(open(os.path.join(repo, SRC)).read())
    _, body = function_body(src, FN)
    body = re.sub(r'"[^"\n]*"', '""', body)
    d = {}
    d["stepsVla"] = expr(one(r"theta_isogeny_t\s+steps\s*\[([^\]]*)\]\s*;", body, "steps VLA")[0].group(1), {"n"})
    d["stepsMalloc"] = expr(one(r"out\s*->\s*steps\s*=\s*malloc\s*\(\s*\(([^;]*?)\)\s*\*\s*sizeof\s*\(\s*theta_isogeny_t\s*\)\s*\)\s*;",
                                body, "out->steps = malloc((E) * sizeof(theta_isogeny_t))")[0].group(1), {"n"})
    call = one(r"theta_chain_comput_rec\s*\(([^;]*)\)\s*;", body, "call of theta_chain_comput_rec")[0]
    args = [a.strip() for a in call.group(1).split(",")]
    if len(args) != 11 or [re.sub(r"\s+", "", a) for a in args[:4] + args[7:9]] != ["out", "&codomain", "&R1", "&R2", "stack1", "stack2"]:
        raise TranslateError("balcaller: unexpected argument list of theta_chain_comput_rec: %r" % args)
    for k, a in zip(("recLen", "recIndex", "recAdvance", "recStacklen", "recTotal"), args[4:7] + args[9:11]):
        d[k] = expr(a, {"n"})
    pre, post = body[:call.start()], body[call.end():]
    m = one(r"long\s+log\s*,\s*len\s*=\s*([^;]*);", pre, "long log, len = E;")[0]
    d["lenInit"] = expr(m.group(1), {"n"})
    m = one(r"for\s*\(\s*log\s*=\s*([^;]*);\s*len\s*>\s*([^;]*);\s*len\s*>>=\s*([^)]*)\)\s*log\s*\+\+\s*;", pre, "for (log = E; len > E; len >>= K) log++;")[0]
    d["logInit"], d["logBound"], d["logShift"] = expr(m.group(1), set()), expr(m.group(2), set()), expr(m.group(3), set())
    if not re.fullmatch(r"\d+", d["logShift"]):
        raise TranslateError("balcaller: shift amount must be a literal")
    for s in ("1", "2"):
        d["stack%sSize" % s] = expr(one(r"theta_point_t\s+stack%s\s*\[([^\]]*)\]\s*;" % s, pre, "stack%s VLA" % s)[0].group(1), {"n", "log"})
        d["stack%sPush" % s] = expr(one(r"stack%s\s*\[([^\]]*)\]\s*=\s*Q%s\s*;" % (s, s), pre, "stack%s[E] = Q%s" % (s, s))[0].group(1), {"n"})
        d["stack%sPop" % s] = expr(one(r"Q%s\s*=\s*stack%s\s*\[([^\]]*)\]\s*;" % (s, s), post, "Q%s = stack%s[E]" % (s, s))[0].group(1), {"n"})
        d["kernelDbl%s" % s] = expr(one(r"double_iter\s*\(\s*&R%s\s*,\s*&codomain\s*,\s*&Q%s\s*,([^;]*)\)\s*;" % (s, s), pre, "double_iter(&R%s, &codomain, &Q%s, E)" % (s, s))[0].group(1), {"n"})
    toks = re.findall(r"[A-Za-z_]\w*", re.sub(r'"[^"\n]*"', '""', body))
    if toks.count("log") != 5 or toks.count("len") != 3 or toks.count("stack1") != 4 or toks.count("stack2") != 4:
        raise TranslateError("balcaller: unexpected further uses of log/len/stack1/stack2 (%d/%d/%d/%d)" %
                             (toks.count("log"), toks.count("len"), toks.count("stack1"), toks.count("stack2")))
    m = one(r"for\s*\(\s*int\s+i\s*=\s*([^;]*);\s*i\s*<\s*([^;]*);\s*i\s*\+\+\s*\)\s*\{", post, "trailing for (int i = E; i < E; i++)")[0]
    d["tailLo"], d["tailHi"] = expr(m.group(1), {"n"}), expr(m.group(2), {"n"})
    j, depth = m.end(), 1
    while depth:
        if j >= len(post):
            raise TranslateError("balcaller: unbalanced braces in the trailing loop")
        depth += {"{": 1, "}": -1}.get(post[j], 0); j += 1
    loop, rest = post[m.end():j - 1], post[j:]
    idx = [expr(x.group(1), {"n", "i"}) for x in re.finditer(r"out\s*->\s*steps\s*\[([^\]]*)\]", loop)]
    if loop.count("steps") != len(idx) or not idx:
        raise TranslateError("balcaller: unrecognised use of steps in the trailing loop")
    d["tailStepIdx"] = idx
    dbl = [expr(x.group(2), {"n", "i"}) for x in re.finditer(r"double_iter\s*\(\s*&R([12])\s*,\s*&codomain\s*,\s*&Q\1\s*,([^;]*)\)\s*;", loop)]
    if loop.count("double_iter") != len(dbl) or len(dbl) != 2:
        raise TranslateError("balcaller: unrecognised double_iter in the trailing loop")
    d["tailDbl"] = dbl
    d["splitIdx"] = expr(one(r"splitting_comput\s*\(\s*&\s*out\s*->\s*last_step\s*,\s*&\s*out\s*->\s*steps\s*\[([^\]]*)\]\s*\.\s*codomain\s*\)", rest,
                             "splitting_comput(&out->last_step, &out->steps[E].codomain)")[0].group(1), {"n"})
    # every other mention of `steps` in the function is accounted for: VLA, malloc, trailing loop, splitting
    if len(re.findall(r"\bsteps\b", body)) != 2 + len(idx) + 1:
        raise TranslateError("balcaller: further uses of steps[] in %s" % FN)
    if re.search(r"\bfor\b|\bwhile\b|\bgoto\b", rest) or len(re.findall(r"\bfor\b|\bwhile\b|\bgoto\b", body)) != 2:
        raise TranslateError("balcaller: further loops in %s" % FN)
    return d


def py_eval(e, **env):
    return eval(e, {"__builtins__": {}}, env)


def py_stack_size(d, n, which="1"):
    ln, lg = py_eval(d["lenInit"], n=n), py_eval(d["logInit"])
    while ln > py_eval(d["logBound"]):
        ln >>= int(d["logShift"]); lg += 1
    return py_eval(d["stack%sSize" % which], n=n, log=lg)


def find_failing_n(repo, hi=4097):
    """failing-input search for the proof stage: smallest chain length n >= 4 for which the caller's text (as extracted)
    lets theta_chain_comput_rec write P1[stacklen] outside stack1/stack2, touches out->steps outside its allocation, or
    does not cover the steps 0 .. n-2 exactly once.  Returns (n, reason) or None."""
    import functools
    d = extract(repo)

    @functools.lru_cache(maxsize=None)
    def need(ln):            # slots the recursion of the C (right = 2*len/3, left = len - right) writes above its entry level
        if ln <= 1:
            return 0
        r = 2 * ln // 3
        return max(1 + need(r), need(ln - r))
    for n in range(4, hi):
        caps = [py_stack_size(d, n, "1"), py_stack_size(d, n, "2")]
        ln, idx, sl, tot = (py_eval(d[k], n=n) for k in ("recLen", "recIndex", "recStacklen", "recTotal"))
        top = sl + need(ln) - 1 if ln > 1 else sl - 1          # highest slot written or evaluated
        for w, cap in zip("12", caps):
            for what, slot in (("stack%s[%s] = Q%s" % (w, d["stack%sPush" % w], w), py_eval(d["stack%sPush" % w], n=n)),
                               ("Q%s = stack%s[%s]" % (w, w, d["stack%sPop" % w]), py_eval(d["stack%sPop" % w], n=n)),
                               ("P%s[stacklen] in theta_chain_comput_rec" % w, top)):
                if not (0 <= slot < cap):
                    return n, "%s: slot %d outside stack%s[%s] = %d elements" % (what, slot, w, d["stack%sSize" % w], cap)
        alloc = min(py_eval(d["stepsMalloc"], n=n), py_eval(d["stepsVla"], n=n))
        touched = list(range(idx, idx + max(ln, 0)))
        for i in range(py_eval(d["tailLo"], n=n), py_eval(d["tailHi"], n=n)):
            if any(py_eval(e, n=n, i=i) < 0 for e in d["tailDbl"]):
                return n, "trailing loop: negative double_iter count at i = %d" % i
            touched += sorted(set(py_eval(e, n=n, i=i) for e in d["tailStepIdx"]))
        for i in touched + [py_eval(d["splitIdx"], n=n)]:
            if not (0 <= i < alloc):
                return n, "out->steps[%d] outside the %d allocated elements" % (i, alloc)
        if touched != list(range(n - 1)) or tot != n or py_eval(d["splitIdx"], n=n) != n - 2:
            return n, "steps computed %r (total_length %d, splitting reads %d): not exactly 0 .. n-2" % (touched[:8] + ["..."] + touched[-4:], tot, py_eval(d["splitIdx"], n=n))
        if py_eval(d["kernelDbl1"], n=n) != 2 or py_eval(d["kernelDbl2"], n=n) != 2:
            return n, "kernel of the first recursive step is not [4]Q"
    return None


def lean_text(d):
    L = []
    A = L.append
    A("/- GENERATED by tools/translate/balcaller.py from %s (%s) -- do not edit -/" % (SRC, FN))
    A("set_option linter.unusedVariables false")
    A("namespace SqiGen.BalCaller")
    A("")
    def f(name, params, e, doc):
        A("/-- `%s` -/" % doc)
        A("def %s %s: Int := %s" % (name, "".join("(%s : Int) " % p for p in params), e))
    f("stepsVla", ["n"], d["stepsVla"], "theta_isogeny_t steps[E];")
    f("stepsMalloc", ["n"], d["stepsMalloc"], "out->steps = malloc((E) * sizeof(theta_isogeny_t));")
    f("kernelDbl1", ["n"], d["kernelDbl1"], "double_iter(&R1, &codomain, &Q1, E);")
    f("kernelDbl2", ["n"], d["kernelDbl2"], "double_iter(&R2, &codomain, &Q2, E);")
    f("lenInit", ["n"], d["lenInit"], "long log, len = E;")
    f("logInit", [], d["logInit"], "for (log = E; ...")
    A("/-- `for (log = %s; len > %s; len >>= %s) log++;` with an explicit iteration fuel -/" % (d["logInit"], d["logBound"], d["logShift"]))
    A("def logLoop : Nat → Int → Int → Int")
    A("  | 0, _, log => log")
    A("  | f + 1, len, log => if len > %s then logLoop f (len >>> (%s : Nat)) (log + 1) else log" % (d["logBound"], d["logShift"]))
    for s in ("1", "2"):
        f("stack%sSize" % s, ["n", "log"], d["stack%sSize" % s], "theta_point_t stack%s[E];" % s)
        f("stack%sPush" % s, ["n"], d["stack%sPush" % s], "stack%s[E] = Q%s;" % (s, s))
        f("stack%sPop" % s, ["n"], d["stack%sPop" % s], "Q%s = stack%s[E];" % (s, s))
    for k, doc in (("recLen", "len"), ("recIndex", "index"), ("recAdvance", "advance"), ("recStacklen", "stacklen"), ("recTotal", "total_length")):
        f(k, ["n"], d[k], "theta_chain_comput_rec(out, &codomain, &R1, &R2, …): argument %s" % doc)
    f("tailLo", ["n"], d["tailLo"], "for (int i = E; …")
    f("tailHi", ["n"], d["tailHi"], "for (…; i < E; i++)")
    A("/-- every `out->steps[E]` in the body of the trailing loop -/")
    A("def tailStepIdx (n i : Int) : List Int := [%s]" % ", ".join(d["tailStepIdx"]))
    A("/-- the counts of the two `double_iter(&R, &codomain, &Q, E)` in the body of the trailing loop -/")
    A("def tailDbl (n i : Int) : List Int := [%s]" % ", ".join(d["tailDbl"]))
    f("splitIdx", ["n"], d["splitIdx"], "splitting_comput(&out->last_step, &out->steps[E].codomain)")
    A("")
    A("end SqiGen.BalCaller")
    return "\n".join(L) + "\n"


def generate(repo, outdir):
    d = extract(repo)
    write_if_changed(os.path.join(outdir, "BalCaller.lean"), lean_text(d))
    return ["BalCaller: caller constants of %s (stack %s, steps %s, rec(%s, %s, %s, …, %s, %s), tail %s..%s)" %
            (FN, d["stack1Size"], d["stepsMalloc"], d["recLen"], d["recIndex"], d["recAdvance"], d["recStacklen"], d["recTotal"], d["tailLo"], d["tailHi"])]


if __name__ == "__main__":
    for m in generate(sys.argv[1], sys.argv[2]):
        print(m)

#!/usr/bin/env python3
"""Translator T (C10): control skeleton of the four hint routines of src/ec/ref/ecx/basis.c -> lean/SqiGen/BasisSearch.lean.

  ec_curve_to_point_2f_not_above_montgomery, ec_curve_to_point_2f_above_montgomery          (searches, `for(;;)` loops with `break`)
  ec_curve_to_point_2f_not_above_montgomery_from_hint, ec_curve_to_point_2f_above_montgomery_from_hint
  ec_curve_to_basis_2f_to_hint / _from_hint                                                  (which search feeds hint[0] / hint[1])

The C text (comments and verification-hook regions stripped) is parsed into statements `for(;;){…}`, `if (c) {…} else {…}`, `break;`
and simple statements; simple statements are classified into the operations of the model:
    V = TABLE[hint]                          table read (out of bounds = Res.oob)
    fp_set_one(&V.im) / fp_set_small(&V.re, hint - k) / fp_add(&V.re, &V.re, &one)     updates of the state variables x, z1, z2
    fp2_mul(&x, &z2, &alpha)                 x := mulAlpha z2
    hint += 1
    statements that only write temporaries (t, t0, t1) from x and curve data            the curve test: abstracted as the oracle `oc hint x`
    fp2_copy(&P->x, &x); fp2_set_one(&P->z)  the output (x at the break)
conditions are built from `hint < N`, `hint <= N`, `hint == N`, `hint >= N`, `fp2_is_square(&V)` (V a state variable: the oracle
`E.sq`, V a temporary: the curve-test oracle), `!`, `&&`. Anything else is refused (a check failure by design).
Each `for(;;)` becomes a fuel-recursive definition over the generated loop body (a function St → Step); SqiProofs/BasisGen.lean proves
the generated definitions equal to the hand model SqiModel.Basis, so the C10 theorems are statements about this text."""
import os, re, sys
sys.path.insert(0, os.path.dirname(os.path.dirname(os.path.abspath(__file__))))
from vlib import write_if_changed

GUARD = "SQISIGN_SQISIGN2D_WEST_AC24_VERIF"
SRC = "src/ec/ref/ecx/basis.c"
STATE = ("x", "z1", "z2")
TEMPS = ("t", "t0", "t1")


class SearchError(Exception):
    pass


def strip(s):
    s = re.sub(r"/\*.*?\*/", "", s, flags=re.S)
    s = re.sub(r"//[^\n]*", "", s)
    out, nest = [], []
    for line in s.split("\n"):
        d = re.match(r"\s*#\s*(ifdef|ifndef|if|elif|else|endif)\b(.*)", line)
        if d:
            kw, rest = d.group(1), d.group(2)
            if kw in ("ifdef", "ifndef", "if"):
                nest.append(kw != "ifndef" and GUARD in rest)
            elif kw in ("else", "elif") and nest:
                nest[-1] = False
            elif kw == "endif" and nest:
                nest.pop()
            continue
        if not any(nest) and not re.match(r"\s*#", line):
            out.append(line)
    return "\n".join(out)


def body_of(src, fn):
    m = re.search(r"^%s\s*\(" % re.escape(fn), src, re.M)
    if not m:
        raise SearchError("basissearch: function %s not found" % fn)
    i = src.index("{", m.end()); depth, j = 0, i
    while True:
        if src[j] == "{": depth += 1
        elif src[j] == "}":
            depth -= 1
            if depth == 0: break
        j += 1
    return src[i + 1:j]


# ------------------------------------------------------------------ statement parser
def parse_block(s, pos=0):
    """parse statements until the closing brace of the current block (or end); returns (list, newpos)"""
    out = []
    n = len(s)
    while True:
        while pos < n and s[pos].isspace():
            pos += 1
        if pos >= n:
            return out, pos
        if s[pos] == "}":
            return out, pos + 1
        m = re.match(r"for\s*\(\s*;\s*;\s*\)\s*\{", s[pos:])
        if m:
            body, pos = parse_block(s, pos + m.end())
            out.append(("for", body)); continue
        if re.match(r"if\s*\(", s[pos:]):
            k = s.index("(", pos); depth, j = 0, k
            while True:
                if s[j] == "(": depth += 1
                elif s[j] == ")":
                    depth -= 1
                    if depth == 0: break
                j += 1
            cond = s[k + 1:j]
            m2 = re.match(r"\s*\{", s[j + 1:])
            if not m2:
                raise SearchError("basissearch: `if` without braces: %r" % s[pos:pos + 60])
            then, pos = parse_block(s, j + 1 + m2.end())
            els = []
            m3 = re.match(r"\s*else\s*\{", s[pos:])
            if m3:
                els, pos = parse_block(s, pos + m3.end())
            elif re.match(r"\s*else\b", s[pos:]):
                raise SearchError("basissearch: `else` without braces")
            out.append(("if", cond, then, els)); continue
        j = s.index(";", pos)
        st = " ".join(s[pos:j].split())
        pos = j + 1
        if st == "break":
            out.append(("break",))
        elif st:
            out.append(("stmt", st))


# ------------------------------------------------------------------ conditions
def cond_lean(c, intmode=False):
    """C condition -> Lean Bool expression over `s` (search) or `hint : Int` (from_hint)"""
    c = c.strip()
    parts = split_top(c, "&&")
    if len(parts) > 1:
        return "(" + " && ".join(cond_lean(p, intmode) for p in parts) + ")"
    if c.startswith("(") and c.endswith(")") and balanced(c[1:-1]):
        return cond_lean(c[1:-1], intmode)
    if c.startswith("!"):
        return "(!" + cond_lean(c[1:], intmode) + ")"
    m = re.match(r"^hint\s*(<=|>=|==|<|>)\s*(\d+)$", c)
    if m:
        op = {"<": "<", "<=": "≤", ">": ">", ">=": "≥", "==": "="}[m.group(1)]
        if intmode:
            return "decide (hint %s (%s : Int))" % (op, m.group(2))
        return "decide (s.hint %s %s)" % (op, m.group(2))
    m = re.match(r"^fp2_is_square\s*\(\s*&\s*([A-Za-z_0-9]+)\s*\)$", c)
    if m and not intmode:
        v = m.group(1)
        if v in STATE:
            return "E.sq s.%s" % v
        if v in TEMPS:
            return "oc s.hint s.x"
    raise SearchError("basissearch: condition not in the accepted subset: %r" % c)


def balanced(s):
    d = 0
    for ch in s:
        if ch == "(": d += 1
        elif ch == ")":
            d -= 1
            if d < 0: return False
    return d == 0


def split_top(s, sep):
    out, d, cur, i = [], 0, "", 0
    while i < len(s):
        if s[i] == "(": d += 1
        elif s[i] == ")": d -= 1
        if d == 0 and s.startswith(sep, i):
            out.append(cur); cur = ""; i += len(sep); continue
        cur += s[i]; i += 1
    out.append(cur)
    return out


# ------------------------------------------------------------------ simple statements of the searches
def classify(st, table):
    """returns ('read', V) | ('upd', leanUpdate) | ('skip',) | ('inc',)"""
    m = re.match(r"^([A-Za-z_0-9]+) = %s\[hint\]$" % table, st)
    if m and m.group(1) in STATE:
        return ("read", m.group(1))
    if re.match(r"^[A-Za-z_0-9]+ = [A-Z_]+\[", st):
        raise SearchError("basissearch: unexpected table read %r (expected %s[hint])" % (st, table))
    if st == "hint += 1":
        return ("inc",)
    if st == "fp_set_one(&one)":
        return ("skip",)
    m = re.match(r"^fp_set_one\(&([a-z0-9]+)\.im\)$", st)
    if m and m.group(1) in STATE:
        v = m.group(1); return ("upd", "%s := (s.%s.1, E.one)" % (v, v))
    m = re.match(r"^fp_set_small\(&([a-z0-9]+)\.re, hint(?: - (\d+))?\)$", st)
    if m and m.group(1) in STATE:
        v = m.group(1); k = m.group(2)
        return ("upd", "%s := (E.setSmall (s.hint%s), s.%s.2)" % (v, (" - " + k) if k else "", v))
    m = re.match(r"^fp_add\(&([a-z0-9]+)\.re, &([a-z0-9]+)\.re, &one\)$", st)
    if m and m.group(1) == m.group(2) and m.group(1) in STATE:
        v = m.group(1); return ("upd", "%s := (E.add1 s.%s.1, s.%s.2)" % (v, v, v))
    if st == "fp2_mul(&x, &z2, &alpha)":
        return ("upd", "x := mulAlpha s.z2")
    if st in ("fp2_copy(&P->x, &x)", "fp2_set_one(&P->z)"):
        return ("skip",)
    # curve test: writes only temporaries, reads only x / temporaries / curve data
    m = re.match(r"^(fp2?_[a-z_]+)\((.*)\)$", st)
    if m:
        args = [a.strip() for a in m.group(2).split(",")]
        dst = args[0]
        md = re.match(r"^&(t0|t1|t)(\.re|\.im)?$", dst)
        if md:
            for a in args[1:]:
                if not re.match(r"^&(t0|t1|t|x|a|one|curve->A|curve->C)(\.re|\.im)?$", a):
                    raise SearchError("basissearch: curve test reads something else than x / temporaries / curve data: %r" % st)
            return ("skip",)
    raise SearchError("basissearch: statement not in the accepted subset: %r" % st)


class Gen:
    def __init__(self, name, table, uses_alpha):
        self.name, self.table, self.uses_alpha = name, table, uses_alpha
        self.defs = []
        self.count = 0

    def params(self):
        return "(E : Env Fp) (oc : Nat → Fp × Fp → Bool)" + (" (mulAlpha : Fp × Fp → Fp × Fp)" if self.uses_alpha else "") + " (tab : List (Fp × Fp))"

    def args(self):
        return "E oc" + (" mulAlpha" if self.uses_alpha else "") + " tab"

    def loop(self, body):
        """emit a definition for `for(;;){body}`; returns its name"""
        idx = self.count; self.count += 1
        nm = "%s_loop%d" % (self.name, idx)
        term = self.seq(body, 3, inloop=True)
        d = ["def %s %s : Nat → St Fp → Res (St Fp)" % (nm, self.params()),
             "  | 0, _ => .fuel",
             "  | n + 1, s =>",
             "    match (",
             term,
             "    : Step (St Fp)) with",
             "    | .cont s' => %s %s n s'" % (nm, self.args()),
             "    | .brk s' => .ok s'",
             "    | .oob => .oob",
             "    | .fuel => .fuel"]
        self.defs.append("\n".join(d))
        return nm

    def seq(self, stmts, ind, inloop):
        pad = "  " * ind
        if not stmts:
            return pad + ".cont s"
        h, rest = stmts[0], stmts[1:]
        if h[0] == "break":
            return pad + ".brk s"
        if h[0] == "for":
            nm = self.loop(h[1])       # inner loop: runs with the remaining fuel n
            return (pad + "match %s %s n s with\n" % (nm, self.args()) + pad + "| .ok s =>\n" + self.seq(rest, ind + 1, inloop) + "\n" +
                    pad + "| .oob => .oob\n" + pad + "| .fuel => .fuel")
        if h[0] == "if":
            c = cond_lean(h[1])
            return (pad + "if %s then\n" % c + self.seq(h[2] + rest, ind + 1, inloop) + "\n" + pad + "else\n" + self.seq(h[3] + rest, ind + 1, inloop))
        k = classify(h[1], self.table)
        if k[0] == "skip":
            return self.seq(rest, ind, inloop)
        if k[0] == "inc":
            return pad + "let s : St Fp := { s with hint := s.hint + 1 }\n" + self.seq(rest, ind, inloop)
        if k[0] == "upd":
            return pad + "let s : St Fp := { s with %s }\n" % k[1] + self.seq(rest, ind, inloop)
        if k[0] == "read":
            return (pad + "match readTab tab (s.hint : Int) with\n" + pad + "| .ok t =>\n" + pad + "  let s : St Fp := { s with %s := t }\n" % k[1] +
                    self.seq(rest, ind + 1, inloop) + "\n" + pad + "| .oob => .oob\n" + pad + "| .fuel => .fuel")
        raise SearchError("unreachable")


def gen_search(src, fn, name, table, uses_alpha):
    body = body_of(src, fn)
    stmts, _ = parse_block(body)
    loops = [s for s in stmts if s[0] == "for"]
    if len(loops) != 1:
        raise SearchError("basissearch: %s: expected exactly one outer for(;;)" % fn)
    pre = stmts[:stmts.index(loops[0])]
    post = stmts[stmts.index(loops[0]) + 1:]
    if not any(s == ("stmt", "int hint = 0") for s in pre):
        raise SearchError("basissearch: %s: `int hint = 0;` not found before the loop" % fn)
    if [s for s in pre if s[0] in ("for", "if", "break")] or post != [("stmt", "return hint")]:
        raise SearchError("basissearch: %s: unexpected control flow outside the search loop" % fn)
    g = Gen(name, table, uses_alpha)
    top = g.loop(loops[0][1])
    return g.defs, top


def gen_from_hint(src, fn, name, table, uses_alpha):
    body = body_of(src, fn)
    stmts, _ = parse_block(body)
    ifs = [s for s in stmts if s[0] == "if"]
    if len(ifs) != 1 or [s for s in stmts if s[0] in ("for", "break")]:
        raise SearchError("basissearch: %s: expected exactly one if/else" % fn)
    _, cond, then, els = ifs[0]
    var = "z2" if uses_alpha else "x"
    if then != [("stmt", "%s = %s[hint]" % (var, table))]:
        raise SearchError("basissearch: %s: then-branch is not `%s = %s[hint];`" % (fn, var, table))
    if sorted(els) != sorted([("stmt", "fp_set_small(&%s.re, hint)" % var), ("stmt", "fp_set_one(&%s.im)" % var)]):
        raise SearchError("basissearch: %s: else-branch is not fp_set_small(&%s.re, hint); fp_set_one(&%s.im);" % (fn, var, var))
    after = [s[1] for s in stmts[stmts.index(ifs[0]) + 1:] if s[0] == "stmt"]
    want = (["fp2_mul(&x, &z2, &alpha)"] if uses_alpha else []) + ["fp2_copy(&P->x, &x)", "fp2_set_one(&P->z)"]
    if after != want:
        raise SearchError("basissearch: %s: unexpected statements after the if/else: %r" % (fn, after))
    g = cond_lean(cond, intmode=True)
    if uses_alpha:
        return ("def %s (E : Env Fp) (mulAlpha : Fp × Fp → Fp × Fp) (tab : List (Fp × Fp)) (hint : Int) : Res (Fp × Fp) :=\n"
                "  match (if %s then readTab tab hint else Res.ok (E.setSmall (toDigit hint), E.one)) with\n"
                "  | .ok z2 => .ok (mulAlpha z2)\n  | .oob => .oob\n  | .fuel => .fuel" % (name, g))
    return ("def %s (E : Env Fp) (tab : List (Fp × Fp)) (hint : Int) : Res (Fp × Fp) :=\n"
            "  if %s then readTab tab hint else Res.ok (E.setSmall (toDigit hint), E.one)" % (name, g))


def wrappers(src):
    """which routine feeds hint[0] / hint[1] (searches) and consumes them (from_hint); P is built first, Q second"""
    res = {}
    b = " ".join(body_of(src, "ec_curve_to_basis_2f_to_hint").split())
    m0 = re.search(r"hint\[0\] = (\w+)\(&P, curve\);", b); m1 = re.search(r"hint\[1\] = (\w+)\(&Q, curve\);", b)
    if not (m0 and m1 and b.index(m0.group(0)) < b.index(m1.group(0))):
        raise SearchError("basissearch: ec_curve_to_basis_2f_to_hint: hint[0] / hint[1] assignments not in the expected shape")
    res["to"] = (m0.group(1), m1.group(1))
    b = " ".join(body_of(src, "ec_curve_to_basis_2f_from_hint").split())
    m0 = re.search(r"(\w+)\(&P, curve, hint\[0\]\);", b); m1 = re.search(r"(\w+)\(&Q, curve, hint\[1\]\);", b)
    if not (m0 and m1):
        raise SearchError("basissearch: ec_curve_to_basis_2f_from_hint: calls not in the expected shape")
    res["from"] = (m0.group(1), m1.group(1))
    return res


def generate(repo, outdir):
    src = strip(open(os.path.join(repo, SRC)).read())
    na_defs, na_top = gen_search(src, "ec_curve_to_point_2f_not_above_montgomery", "notAbove", "NQR_TABLE", False)
    ab_defs, ab_top = gen_search(src, "ec_curve_to_point_2f_above_montgomery", "above", "Z_NQR_TABLE", True)
    fh_na = gen_from_hint(src, "ec_curve_to_point_2f_not_above_montgomery_from_hint", "notAboveFromHint", "NQR_TABLE", False)
    fh_ab = gen_from_hint(src, "ec_curve_to_point_2f_above_montgomery_from_hint", "aboveFromHint", "Z_NQR_TABLE", True)
    w = wrappers(src)
    L = ["/- GENERATED by tools/translate/basissearch.py from src/ec/ref/ecx/basis.c — do not edit.",
         "   Control skeleton of the hint searches and of the from_hint routines (verification hooks and comments stripped). -/",
         "import SqiModel.Basis", "", "namespace SqiGen.BasisSearch", "open SqiModel.Basis", "",
         "/-- mutable state of a search: the counter and the GF(p²) locals -/",
         "structure St (Fp : Type) where", "  hint : Nat", "  x : Fp × Fp", "  z1 : Fp × Fp", "  z2 : Fp × Fp", "",
         "inductive Step (α : Type) where", "  | cont : α → Step α", "  | brk : α → Step α", "  | oob : Step α", "  | fuel : Step α", "",
         "variable {Fp : Type}", ""]
    for d in na_defs + ab_defs:
        L += [d, ""]
    L += ["/-- outermost loop of the two searches -/",
          "def notAboveTop := @%s" % na_top, "def aboveTop := @%s" % ab_top, "", fh_na, "", fh_ab, "",
          "/-- routines called by ec_curve_to_basis_2f_to_hint for hint[0], hint[1] and by ec_curve_to_basis_2f_from_hint -/",
          "def wrapperCalls : List String := [%s]" % ", ".join('"%s"' % x for x in (w["to"] + w["from"])), "",
          "end SqiGen.BasisSearch", ""]
    return ["SqiGen/BasisSearch.lean regenerated"] if write_if_changed(os.path.join(outdir, "BasisSearch.lean"), "\n".join(L)) else []


if __name__ == "__main__":
    import tempfile
    d = tempfile.mkdtemp()
    print(generate(sys.argv[1] if len(sys.argv) > 1 else os.environ.get("VERIF_REPO", "/repo"), d))
    print(open(os.path.join(d, "BasisSearch.lean")).read())

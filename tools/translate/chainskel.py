#!/usr/bin/env python3
"""Translator T (C09/C12): the *integer skeleton* of the strategy-driven chain routines -> lean/SqiGen/ChainSkel.lean.

A slicing translator: of the C function it keeps exactly the statements over the integer state — declarations and
assignments of `int` / `uint8_t` / `digit_t` variables and int arrays (VLAs), the reads of the strategy tables
(`STRATEGY4[r][c]`, `strategy[c]`), loop headers and branch conditions over those — and replaces every other statement
(field / point / theta arithmetic) by an *opaque event* carrying the indices at which it touches the tracked
non-integer arrays (`SPLITTING_POINTS`, `points1`, `Q1`, …) and its integer arguments.  A branch on non-integer data
(`if (fp2_is_zero(&T.x))`) becomes a branch on an oracle.  The output is a structured program over a small
integer-state record, written against the verified interpreter `SqiModel.Skel` (`whileF` with fuel, `IArr`, `rdTab`).

C subset accepted (anything else raises TranslateError = check failure by design): local declarations (scalars with
optional initialiser, VLAs), expression statements with `=`, `+=`, `-=`, `*=`, `>>=`, `++`, `--`, calls; `for`, `while`,
`if/else`, blocks, empty statements; expressions over int variables, int-array elements, table reads, literals with
`+ - * / % >> == != < > <= >= && || !`, casts to integer types; calls are opaque unless they take the address of an
integer variable (refused).  `assert(...)`, hook regions (`#ifdef SQISIGN_SQISIGN2D_WEST_AC24_VERIF`) and
`#ifndef NDEBUG` regions are dropped.  Unsigned arithmetic: an operation with a `digit_t`/`uint64_t` operand is done
modulo 2^64 (operands converted), assignments to `uint8_t` modulo 2^8; `int` arithmetic is exact (signed overflow is
outside the model)."""
import os, re, sys

sys.path.insert(0, os.path.dirname(os.path.dirname(os.path.abspath(__file__))))
from vlib import write_if_changed

GUARD = "SQISIGN_SQISIGN2D_WEST_AC24_VERIF"

# classification of the opaque statements: (callee, argument pattern) -> (event kind, which of the collected integer
# arguments are passed on).  pattern letters: i = index into a tracked array, A = a whole tracked array, n = integer
# expression, _ = opaque.  A callee that touches a tracked array and is not listed here is refused.
KINDS = {
    ("vla", ""): ("vla", None),
    ("cond", "i"): ("read", None),                 # an opaque branch condition reads a tracked scalar
    ("copy_point", "ii"): ("copy", None), ("copy_point", "i_"): ("copyIn", None),
    ("xDBL_A24", "ii_"): ("dbl", None), ("xDBL_A24_normalized", "ii_"): ("dbl", None),
    ("xDBL_A24_normalized", "_i_"): ("read", None), ("xDBL_A24", "_i_"): ("read", None),
    ("xisog_4", "__i"): ("isog4", None), ("xisog_4_singular", "__i_"): ("isog4", None),
    ("xeval_4", "AAn_"): ("eval4", None), ("xeval_4_singular", "AAni_"): ("eval4", [0]),
    ("xeval_4_singular", "__ni_"): ("read", [1]),
    ("xisog_2", "__i"): ("isog2", None),
    # naive chain (ec_eval_small_chain): the scalar points big_K / small_K are slots 0 / 1 of a virtual tracked array
    ("xeval_2", "iin_"): ("eval2", None), ("xeval_2_singular", "iin_"): ("eval2", None),
    # theta chains (arrays: points1/2, Q1/2, steps); with array ids every index is passed as (array id, index)
    ("copy_jac_point", "i_"): ("copyIn", None), ("copy_jac_point", "_i"): ("read", None),
    ("double_couple_jac_point_iter", "in_i"): ("dblIterP", None),
    ("gluing_eval_basis", "iiii__"): ("glueEval", None),
    ("double_iter", "i_in"): ("dblIter", None),
    ("assign", "_i"): ("loadR", None),
    ("theta_isogeny_comput", "i___nn"): ("step", None),
    ("theta_isogeny_comput4", "i___nn"): ("step4", None),
    ("theta_isogeny_comput2", "i___nn"): ("step2", None),
    ("theta_isogeny_eval", "iii"): ("evalStep", None),
    ("theta_isogeny_eval", "_i_"): ("evalR", None),
    ("splitting_comput", "_i"): ("split", None),
    # balanced recursion (theta_chain_comput_rec): R1/R2 (pointer + offset), the stacks P1/P2, out->steps
    ("theta_isogeny_comput", "i_iinn"): ("stepR", None),
    ("assign", "ii"): ("copyA", None),
}


class TranslateError(Exception):
    pass


# ------------------------------------------------------------------------------------------------ lexing
def preprocess(src):
    src = re.sub(r"/\*.*?\*/", " ", src, flags=re.S)
    src = re.sub(r"//[^\n]*", "", src)
    out, skip = [], []
    for line in src.split("\n"):
        m = re.match(r"\s*#\s*(ifdef|ifndef|if|else|elif|endif)\b\s*(.*)", line)
        if m:
            kw, rest = m.group(1), m.group(2)
            if kw in ("ifdef", "ifndef", "if"):
                drop = (kw == "ifdef" and GUARD in rest) or (kw == "ifndef" and "NDEBUG" in rest)
                skip.append(drop)
            elif kw in ("else", "elif"):
                if skip:
                    skip[-1] = not skip[-1] if kw == "else" and skip[-1] in (True,) else skip[-1]
            elif kw == "endif" and skip:
                skip.pop()
            continue
        if re.match(r"\s*#", line):
            continue
        out.append("" if any(skip) else line)
    return "\n".join(out)


TOKEN = re.compile(r"\s*(0[xX][0-9a-fA-F]+|\d+|[A-Za-z_]\w*|->|\+\+|--|<<=|>>=|<<|>>|<=|>=|==|!=|&&|\|\||\+=|-=|\*=|/=|[-+*/%<>=!&|^~?:;,.(){}\[\]])")


def tokenize(s):
    toks, i = [], 0
    while i < len(s):
        m = TOKEN.match(s, i)
        if not m:
            if s[i:].strip() == "":
                break
            raise TranslateError("chainskel: cannot tokenize near %r" % s[i:i + 30])
        toks.append(m.group(1)); i = m.end()
    return toks


def function_body(src, name):
    m = re.search(r"\n(?:static\s+)?(?:void|int)\s*\n?" + name + r"\s*\(([^)]*)\)\s*\{", src)
    if not m:
        raise TranslateError("chainskel: function %s not found" % name)
    i = m.end(); depth = 1; j = i
    while depth:
        if j >= len(src):
            raise TranslateError("chainskel: unbalanced braces in %s" % name)
        depth += {"{": 1, "}": -1}.get(src[j], 0); j += 1
    return m.group(1), src[i:j - 1]


INT_TYPES = {"int": "int", "uint8_t": "u8", "digit_t": "u64", "uint64_t": "u64", "long": "int", "unsigned": "int", "short": "int", "uint32_t": "int"}


# ------------------------------------------------------------------------------------------------ parsing
class Parser:
    def __init__(self, toks):
        self.t, self.i = toks, 0

    def peek(self, k=0):
        return self.t[self.i + k] if self.i + k < len(self.t) else None

    def eat(self, x=None):
        t = self.peek()
        if t is None or (x is not None and t != x):
            raise TranslateError("chainskel: expected %r, found %r (token %d)" % (x, t, self.i))
        self.i += 1
        return t

    # expressions (precedence climbing)
    BIN = [["||"], ["&&"], ["|"], ["^"], ["&"], ["==", "!="], ["<", ">", "<=", ">="], ["<<", ">>"], ["+", "-"], ["*", "/", "%"]]

    def expr(self, lvl=0):
        if lvl == len(self.BIN):
            return self.unary()
        a = self.expr(lvl + 1)
        while self.peek() in self.BIN[lvl]:
            op = self.eat()
            a = ("bin", op, a, self.expr(lvl + 1))
        return a

    def unary(self):
        t = self.peek()
        if t in ("!", "-", "&", "*", "~"):
            self.eat()
            return ("un", t, self.unary())
        if t == "(" and self.peek(1) in INT_TYPES and self.peek(2) == ")":
            self.eat(); ty = self.eat(); self.eat(")")
            return ("cast", INT_TYPES[ty], self.unary())
        return self.postfix()

    def postfix(self):
        t = self.eat()
        if t == "(":
            e = self.expr(); self.eat(")")
        elif re.match(r"\d|0[xX]", t):
            e = ("lit", int(t, 0))
        elif re.match(r"[A-Za-z_]", t):
            e = ("var", t)
        else:
            raise TranslateError("chainskel: unexpected token %r in expression" % t)
        while True:
            p = self.peek()
            if p == "[":
                self.eat(); ix = self.expr(); self.eat("]"); e = ("idx", e, ix)
            elif p == "(":
                self.eat(); args = []
                while self.peek() != ")":
                    args.append(self.expr())
                    if self.peek() == ",":
                        self.eat()
                self.eat(")"); e = ("call", e, args)
            elif p in (".", "->"):
                self.eat(); f = self.eat(); e = ("field", e, f)
            elif p in ("++", "--"):
                self.eat(); e = ("post", p, e)
            else:
                return e

    def assign_expr(self):
        if self.peek() in ("++", "--"):
            op = self.eat()
            return ("post", op, self.unary())
        a = self.expr()
        if self.peek() in ("=", "+=", "-=", "*=", ">>=", "/="):
            op = self.eat()
            return ("assign", op, a, self.assign_expr())
        return a

    def comma_list(self):
        out = [self.assign_expr()]
        while self.peek() == ",":
            self.eat(); out.append(self.assign_expr())
        return out

    # statements
    def block(self):
        self.eat("{"); out = []
        while self.peek() != "}":
            out.append(self.stmt())
        self.eat("}")
        return ("block", out)

    def stmt(self):
        t = self.peek()
        if t == "{":
            return self.block()
        if t == ";":
            self.eat(); return ("block", [])
        if t == "if":
            self.eat(); self.eat("("); c = self.expr(); self.eat(")")
            a = self.stmt(); b = ("block", [])
            if self.peek() == "else":
                self.eat(); b = self.stmt()
            return ("if", c, a, b)
        if t == "while":
            self.eat(); self.eat("("); c = self.expr(); self.eat(")")
            return ("while", c, self.stmt())
        if t == "for":
            self.eat(); self.eat("(")
            if self.peek() in ("int",):                     # for (int i = …; …)
                init = [self.decl()]
            else:
                init = [] if self.peek() == ";" else [("expr", e) for e in self.comma_list()]
                self.eat(";")
            c = ("lit", 1) if self.peek() == ";" else self.expr()
            self.eat(";")
            step = [] if self.peek() == ")" else [("expr", e) for e in self.comma_list()]
            self.eat(")")
            return ("for", init, c, step, self.stmt())
        if t == "return":
            self.eat()
            e = None if self.peek() == ";" else self.expr()
            self.eat(";")
            return ("return", e)
        if t in ("const", "static") or (re.match(r"[A-Za-z_]\w*$", t or "") and re.match(r"[A-Za-z_]\w*$", self.peek(1) or "")
                                          and self.peek(1) not in ("=",)):
            return self.decl()
        es = self.comma_list(); self.eat(";")
        return ("block", [("expr", e) for e in es]) if len(es) > 1 else ("expr", es[0])

    def decl(self):
        while self.peek() in ("const", "static"):
            self.eat()
        ty = self.eat()
        items = []
        while True:
            ptr = False
            while self.peek() == "*":
                self.eat(); ptr = True
            name = self.eat()
            size = init = None
            if self.peek() == "[":
                self.eat(); size = self.expr(); self.eat("]")
            if self.peek() == "=":
                self.eat(); init = self.expr()
            items.append((name, size, init, ptr))
            if self.peek() == ",":
                self.eat(); continue
            break
        self.eat(";")
        return ("decl", ty, items)


# ------------------------------------------------------------------------------------------------ translation
class Ctx:
    def __init__(self, fname, struct, int_params, table2d, row_ptr, tracked_hint, consts):
        self.fname, self.struct = fname, struct
        self.params = dict(int_params)            # name -> ctype  (function arguments, constant during the run)
        self.vars = {}                             # int locals: name -> ctype
        self.iarr = []                             # int arrays
        self.tracked = set(tracked_hint)           # non-integer arrays whose indices are observed
        self.table2d, self.row_ptr, self.consts = table2d, row_ptr, dict(consts)
        self.loops = []                            # generated loop bodies (name, text)
        self.nloop = 0
        self.noracle = 0
        self.order = []                            # field order
        self.array_ids = None                      # name -> id: when set, every tracked index is passed as (id, index)
        self.field_arrays = {}                     # `x->steps[i]`: field name -> tracked array name
        self.returned = False
        self.scalars = {}                          # tracked scalar objects: name -> slot of the virtual array "K"
        self.dyn_oracle = False                    # opaque conditions inside `for` loops: oracle index depends on the loop variable
        self.loopvars = []                         # stack of `for` loop variables (None for while loops)
        self.ptrs = {}                             # tracked pointer parameters: name -> name of the integer offset parameter
        self.lets = {}                             # int locals initialised once and never assigned again: name -> init expression
        self.recursive = False
        self.formals = []                          # formal parameter names of the function, in order

    # ---- int expressions: returns (binds, pure, ctype); binds = [(name, except_expr)]
    def fresh(self, binds):
        return "r%d" % len(binds)

    def ie(self, e, binds):
        k = e[0]
        if k == "lit":
            return "(%d : Int)" % e[1], "int"
        if k == "var":
            n = e[1]
            if n in self.vars:
                return "s.%s" % n, self.vars[n]
            if n in self.lets:
                return self.ie(self.lets[n], binds)
            if n in self.params:
                return n, self.params[n]
            if n in self.consts:
                return n, self.consts[n]
            raise TranslateError("chainskel: %s: `%s` is not an integer variable of the skeleton" % (self.fname, n))
        if k == "cast":
            v, t = self.ie(e[2], binds)
            return self.conv(v, t, e[1]), e[1]
        if k == "un":
            if e[1] == "-":
                v, t = self.ie(e[2], binds)
                return "(-%s)" % v, t
            if e[1] == "!":
                return "(b2i (!%s))" % self.be(e[2], binds), "int"
            raise TranslateError("chainskel: %s: unary %s on integers not in subset" % (self.fname, e[1]))
        if k == "idx":
            base = e[1]
            if base[0] == "var" and base[1] in self.iarr:
                i, _ = self.ie(e[2], binds)
                r = self.fresh(binds); binds.append((r, 'rdArr "%s" s.%s %s' % (base[1], base[1], i)))
                return r, "int"
            if base[0] == "var" and base[1] == self.row_ptr:
                i, _ = self.ie(e[2], binds)
                r = self.fresh(binds); binds.append((r, "rdRow row %s" % i))
                return r, "int"
            if base[0] == "idx" and base[1][0] == "var" and base[1][1] == self.table2d:
                rr, _ = self.ie(base[2], binds); cc, _ = self.ie(e[2], binds)
                r = self.fresh(binds); binds.append((r, "rdTab T %s %s" % (rr, cc)))
                return r, "int"
            raise TranslateError("chainskel: %s: indexing %r is not an int array / strategy table" % (self.fname, base))
        if k == "bin":
            op = e[1]
            if op in ("==", "!=", "<", ">", "<=", ">=", "&&", "||"):
                return "(b2i %s)" % self.be(e, binds), "int"
            a, ta = self.ie(e[2], binds); b, tb = self.ie(e[3], binds)
            t = "u64" if "u64" in (ta, tb) else "int"
            if op == ">>":
                if e[3] != ("lit", 1):
                    raise TranslateError("chainskel: %s: only `>> 1` is in the subset" % self.fname)
                return "(%s / 2)" % a, ("u64" if ta == "u64" else "int")
            if op in ("+", "-", "*"):
                if t == "u64":
                    return "((%s %s %s) %% W64)" % (self.conv(a, ta, "u64"), op, self.conv(b, tb, "u64")), "u64"
                return "(%s %s %s)" % (a, op, b), "int"
            if op == "%" and t == "int":
                return "(%s %% %s)" % (a, b), "int"
            if op == "/" and t == "int":
                return "(%s / %s)" % (a, b), "int"
            raise TranslateError("chainskel: %s: operator %s (%s,%s) not in subset" % (self.fname, op, ta, tb))
        raise TranslateError("chainskel: %s: expression %r not in the integer subset" % (self.fname, e))

    def conv(self, v, frm, to):
        if frm == to or to == "int" and frm in ("u8",):
            return v
        if to == "u64":
            return v if frm in ("u64", "u8") else "(%s %% W64)" % v
        if to == "u8":
            return "(%s %% 256)" % v
        if to == "int":
            return v                                                   # (int) of a small unsigned value
        raise TranslateError("chainskel: conversion %s -> %s" % (frm, to))

    def be(self, e, binds):
        """boolean expression -> Lean Bool term"""
        if e[0] == "bin" and e[1] in ("&&", "||"):
            return "(%s %s %s)" % (self.be(e[2], binds), e[1], self.be(e[3], binds))
        if e[0] == "un" and e[1] == "!":
            return "(!%s)" % self.be(e[2], binds)
        if e[0] == "bin" and e[1] in ("==", "!=", "<", ">", "<=", ">="):
            a, ta = self.ie(e[2], binds); b, tb = self.ie(e[3], binds)
            if "u64" in (ta, tb):
                a, b = self.conv(a, ta, "u64"), self.conv(b, tb, "u64")
            op = {"==": "=", "!=": "≠", "<": "<", ">": ">", "<=": "≤", ">=": "≥"}[e[1]]
            return "(decide (%s %s %s))" % (a, op, b)
        v, _ = self.ie(e, binds)
        return "(truthy %s)" % v

    def is_int_expr(self, e):
        try:
            self.ie(e, [])
            return True
        except TranslateError:
            return False

    def wrap(self, binds, body):
        """`body` (a state term using the bound names) under the reads; a faulting read records the fault"""
        for r, ex in reversed(binds):
            body = "(match %s with | .ok %s => %s | .error f => s.fail f)" % (ex, r, body)
        return body

    # ---- statements: each returns a Lean term of type  St σ → St σ
    def assign(self, lhs, op, rhs):
        binds = []
        v, t = self.ie(rhs, binds)
        if lhs[0] == "var" and lhs[1] in self.vars:
            n, tn = lhs[1], self.vars[lhs[1]]
            cur = "s.%s" % n
            if op == "=":
                val = self.conv(v, t, tn)
            elif op in ("+=", "-=", "*="):
                o = op[0]
                val = ("((%s %s %s) %% W64)" % (cur, o, self.conv(v, t, "u64"))) if tn == "u64" else \
                      ("((%s %s %s) %% 256)" % (cur, o, v)) if tn == "u8" else "(%s %s %s)" % (cur, o, v)
            elif op == ">>=":
                if rhs != ("lit", 1):
                    raise TranslateError("chainskel: only `>>= 1`")
                val = "(%s / 2)" % cur
            else:
                raise TranslateError("chainskel: assignment operator %s" % op)
            return "(fun s => %s)" % self.wrap(binds, "{ s with %s := %s }" % (n, val))
        if lhs[0] == "idx" and lhs[1][0] == "var" and lhs[1][1] in self.iarr:
            a = lhs[1][1]
            if op != "=":
                raise TranslateError("chainskel: compound assignment to an int array element")
            i, _ = self.ie(lhs[2], binds)
            body = '(if s.%s.inb %s then { s with %s := s.%s.set %s %s } else s.fail (.index "%s" %s s.%s.size))' % (a, i, a, a, i, v, a, i, a)
            return "(fun s => %s)" % self.wrap(binds, body)
        raise TranslateError("chainskel: %s: assignment to %r" % (self.fname, lhs))

    def mentions_int_lvalue(self, e):
        """does the expression take the address of / assign an integer variable?"""
        if e[0] == "un" and e[1] == "&" and e[2][0] == "var" and (e[2][1] in self.vars or e[2][1] in self.iarr):
            return True
        return any(isinstance(x, tuple) and self.mentions_int_lvalue(x) for x in e[1:]) or \
            any(isinstance(x, list) and any(self.mentions_int_lvalue(y) for y in x) for x in e[1:])

    def tracked_base(self, e):
        """(array, index-expr or None) when e denotes (an element of) a tracked array"""
        while e[0] == "un" and e[1] in ("&", "*"):
            e = e[2]
        while e[0] == "field":
            e = e[1]
        if e[0] == "var" and e[1] in self.scalars:
            return "K", ("lit", self.scalars[e[1]])
        if e[0] == "var" and e[1] in self.ptrs:                                   # p, *p
            return e[1], ("var", self.ptrs[e[1]])
        if e[0] == "bin" and e[1] == "+" and e[2][0] == "var" and e[2][1] in self.ptrs:   # p + e
            return e[2][1], ("bin", "+", ("var", self.ptrs[e[2][1]]), e[3])
        if e[0] == "idx" and e[1][0] == "var" and e[1][1] in self.ptrs:           # p[e]
            return e[1][1], ("bin", "+", ("var", self.ptrs[e[1][1]]), e[2])
        if e[0] == "var" and e[1] in self.tracked:
            return e[1], None
        if e[0] == "idx" and e[1][0] == "var" and e[1][1] in self.tracked:
            return e[1][1], e[2]
        if e[0] == "idx" and e[1][0] == "field" and e[1][2] in self.field_arrays:
            return self.field_arrays[e[1][2]], e[2]
        return None

    def is_guard_return(self, x):
        """`if (<int condition>) { return; }` without else"""
        a, b = x[2], x[3]
        body = a[1] if a[0] == "block" else [a]
        return len(body) == 1 and body[0][0] == "return" and body[0][1] is None and b == ("block", []) and self.is_int_expr(x[1])

    def tracked_reads(self, e):
        """slots of the tracked scalars mentioned in an (opaque) expression, in order of appearance"""
        out = []
        def walk(x):
            if isinstance(x, tuple):
                if len(x) >= 2 and x[0] == "var" and x[1] in self.scalars:
                    if self.scalars[x[1]] not in out:
                        out.append(self.scalars[x[1]])
                for y in x[1:]:
                    walk(y)
            elif isinstance(x, list):
                for y in x:
                    walk(y)
        walk(e)
        return out

    def idx_args(self, arr, v):
        return [str(self.array_ids[arr]), v] if self.array_ids is not None else [v]

    def call(self, e):
        name = e[1][1] if e[1][0] == "var" else None
        if name is None:
            raise TranslateError("chainskel: indirect call")
        if name == "assert":
            return None
        if self.recursive and name == self.fname:
            if len(e[2]) != len(self.formals):
                raise TranslateError("chainskel: %s: recursive call with %d arguments" % (self.fname, len(e[2])))
            binds, vals = [], {}
            for f, a in zip(self.formals, e[2]):
                if f in self.ptrs:
                    tb = self.tracked_base(a)
                    if not tb or tb[0] != f:
                        raise TranslateError("chainskel: %s: recursive call passes %r for the tracked pointer %s" % (self.fname, a, f))
                    vals[self.ptrs[f]], _ = self.ie(tb[1], binds)
                elif f in self.params:
                    vals[f], _ = self.ie(a, binds)
                elif not (a[0] == "var" and a[1] == f):
                    raise TranslateError("chainskel: %s: recursive call changes the opaque argument %s" % (self.fname, f))
            args = " ".join("(%s)" % vals[q] for q in self.params)
            return "(fun s => %s)" % self.wrap(binds, "%s O row oracle fuel rf %s s" % (self.fname, args))
        if self.mentions_int_lvalue(e):
            raise TranslateError("chainskel: %s: call %s takes the address of an integer variable" % (self.fname, name))
        pat, args, binds, touches = "", [], [], False
        for a in e[2]:
            tb = self.tracked_base(a)
            if tb:
                touches = True
                if tb[1] is None:
                    pat += tb[0][0].upper() if False else "A"
                else:
                    v, _ = self.ie(tb[1], binds); pat += "i"; args += self.idx_args(tb[0], v)
            elif self.is_int_expr(a):
                v, _ = self.ie(a, binds); pat += "n"; args.append(v)
            else:
                pat += "_"
        if not touches:
            return None                                   # does not touch the tracked state: sliced away
        return "(fun s => %s)" % self.wrap(binds, self.event(name, pat, args))

    def event(self, name, pat, args):
        if (name, pat) not in KINDS:
            raise TranslateError("chainskel: %s: opaque statement %s/%s touches a tracked array and is not classified" % (self.fname, name, pat))
        kind, sel = KINDS[(name, pat)]
        if sel is not None:
            args = [args[k] for k in sel]
        return '{ s with obs := O.ev s.obs EvKind.%s [%s] } /- %s/%s -/' % (kind, ", ".join(args), name, pat)

    def stmts(self, st, out):
        n0, was = len(out), self.returned
        self._stmts(st, out)
        if was and len(out) > n0:
            raise TranslateError("chainskel: %s: integer / tracked statements after an early `return` are not in the subset" % self.fname)

    def _stmts(self, st, out):
        k = st[0]
        if k == "block":
            items = st[1]
            for n_, x in enumerate(items):
                if self.recursive and x[0] == "if" and self.is_guard_return(x) and n_ + 1 < len(items):
                    rest = []
                    self.stmts(("block", items[n_ + 1:]), rest)
                    binds = []; c = self.be(x[1], binds)
                    out.append("(fun s => %s)" % self.wrap(binds, "(if %s then (fun s => s) s else %s s)" % (c, self.seq(rest))))
                    return
                if self.recursive and x[0] == "if" and self.is_guard_return(x):
                    return                                                   # `if (c) return;` as the last statement
                self.stmts(x, out)
        elif k == "decl":
            ty, items = st[1], st[2]
            for (name, size, init, ptr) in items:
                if ty in INT_TYPES and not ptr:
                    if size is not None:
                        binds = []; v, _ = self.ie(size, binds)
                        self.iarr.append(name); self.order.append((name, "arr"))
                        out.append('(fun s => %s)' % self.wrap(binds, '(if 0 < %s then { s with %s := IArr.new %s } else s.fail (.vla "%s" %s))' % (v, name, v, name, v)))
                    elif self.recursive and init is not None and self.is_int_expr(init) and name in self.once:
                        self.lets[name] = init          # per-frame constant: substituted (a state field would be clobbered by the inner call)
                    else:
                        if name not in self.vars:
                            self.vars[name] = INT_TYPES[ty]; self.order.append((name, "var"))
                        if init is not None:
                            if init[0] == "call" and not self.is_int_expr(init):
                                c = self.call(init)
                                if c:
                                    out.append(c)
                                k_ = self.noracle; self.noracle += 1
                                out.append("(fun s => { s with %s := b2i (oracle %d) })" % (name, k_))
                            else:
                                out.append(self.assign(("var", name), "=", init))
                else:
                    if size is not None:                  # VLA of a non-integer type: tracked array
                        binds = []; v, _ = self.ie(size, binds)
                        self.tracked.add(name)
                        if self.array_ids is not None and name not in self.array_ids:
                            raise TranslateError("chainskel: %s: VLA %s of a non-integer type is not a known tracked array" % (self.fname, name))
                        out.append('(fun s => %s)' % self.wrap(binds, self.event("vla", "", self.idx_args(name, v))))
                    # other opaque locals: nothing
        elif k == "expr":
            e = st[1]
            if e[0] == "assign":
                lhs = e[2]
                if (lhs[0] == "var" and (lhs[1] in self.vars)) or (lhs[0] == "idx" and lhs[1][0] == "var" and lhs[1][1] in self.iarr):
                    out.append(self.assign(lhs, e[1], e[3]))
                elif self.tracked_base(lhs) or self.tracked_base(e[3]):
                    # struct copy between tracked array elements / opaque locals:  A[i] = A[j];  R = A[i];
                    binds, args, pat = [], [], ""
                    for side in (lhs, e[3]):
                        tb = self.tracked_base(side)
                        if tb and tb[1] is not None:
                            v, _ = self.ie(tb[1], binds); args += self.idx_args(tb[0], v); pat += "i"
                        else:
                            pat += "_"
                    out.append("(fun s => %s)" % self.wrap(binds, self.event("assign", pat, args)))
                elif self.mentions_int_lvalue(e):
                    raise TranslateError("chainskel: %s: opaque assignment involving integer state" % self.fname)
                # else: opaque assignment (e.g. image->flag = false): sliced away
            elif e[0] == "post":
                tgt = e[2]
                out.append(self.assign(tgt, "+=" if e[1] == "++" else "-=", ("lit", 1)))
            elif e[0] == "call":
                c = self.call(e)
                if c:
                    out.append(c)
            else:
                raise TranslateError("chainskel: %s: expression statement %r" % (self.fname, e[0]))
        elif k == "if":
            a, b = [], []
            self.stmts(st[2], a); self.stmts(st[3], b)
            if not a and not b:
                return
            if self.is_int_expr(st[1]):
                binds = []; c = self.be(st[1], binds)
                out.append("(fun s => %s)" % self.wrap(binds, "(if %s then %s s else %s s)" % (c, self.seq(a), self.seq(b))))
            else:
                if self.mentions_int_lvalue(st[1]):
                    raise TranslateError("chainskel: opaque condition over integer state")
                k_ = self.noracle; self.noracle += 1
                for slot in self.tracked_reads(st[1]):     # the condition reads these tracked scalars
                    out.append("(fun s => %s)" % self.event("cond", "i", [ "(%d : Int)" % slot ]))
                idx = "%d" % k_
                if self.dyn_oracle and self.loopvars and self.loopvars[-1]:
                    idx = "(%d + NORACLE * (s.%s).toNat)" % (k_, self.loopvars[-1])
                out.append("(fun s => if oracle %s then %s s else %s s)" % (idx, self.seq(a), self.seq(b)))
        elif k in ("while", "for"):
            lv = None
            if k == "for":
                for x in st[1]:
                    self.stmts(x, out)
                    if x[0] == "decl" and len(x[2]) == 1:
                        lv = x[2][0][0]
                    elif x[0] == "expr" and x[1][0] == "assign" and x[1][2][0] == "var":
                        lv = x[1][2][1]
                cond, body, step = st[2], st[4], st[3]
            else:
                cond, body, step = st[1], st[2], []
            idx = self.nloop; self.nloop += 1
            inner = []
            self.loopvars.append(lv if lv in self.vars else None)
            self.stmts(body, inner)
            self.loopvars.pop()
            for x in step:
                self.stmts(x, inner)
            binds = []; c = self.be(cond, binds)
            lname = "%s_loop%d" % (self.fname, idx)
            cdef = "def %s_cond %s (s : %s σ) : Except Fault Bool :=\n  %s" % (lname, self.sig(), self.struct, self.wrap_ex(binds, ".ok %s" % c))
            bdef = "def %s_body %s (s : %s σ) : %s σ :=\n%s" % (lname, self.sig(), self.struct, self.struct, self.body_text(inner))
            self.loops.append(cdef); self.loops.append(bdef)
            out.append("(whileF (%s.live O) (fun s => match %s_cond %s s with | .ok b => b | .error _ => true)\n"
                       "      (fun s => match %s_cond %s s with | .ok _ => %s_body %s s | .error f => s.fail f) (fun s => s.fail .fuel) fuel)"
                       % (self.struct, lname, self.args(), lname, self.args(), lname, self.args()))
        elif k == "return":
            self.returned = True
        else:
            raise TranslateError("chainskel: statement kind %s" % k)

    def wrap_ex(self, binds, body):
        for r, ex in reversed(binds):
            body = "(match %s with | .ok %s => %s | .error f => .error f)" % (ex, r, body)
        return body

    def seq(self, fs):
        if not fs:
            return "(fun s => s)"
        return "(fun s =>\n" + self.body_text(fs, 6) + ")"

    def body_text(self, fs, ind=2):
        pad = " " * ind
        lines = ["%slet s := %s.step O %s s" % (pad, self.struct, f) for f in fs]
        return "\n".join(lines + [pad + "s"])

    def sig(self):
        ps = " ".join("(%s : Int)" % p for p in self.params)
        cs = " ".join("(%s : Int)" % c for c in self.consts)
        tb = "(T : List (List Nat))" if self.table2d else "(row : List Nat)"
        return "{σ : Type} (O : Obs σ) %s %s (oracle : Nat → Bool) (fuel : Nat) %s" % (tb, cs, ps)

    def args(self):
        return "O %s %s oracle fuel %s" % ("T" if self.table2d else "row", " ".join(self.consts), " ".join(self.params))


def once_assigned(ast):
    """names of locals that are declared with an initialiser and never assigned / incremented afterwards"""
    decl, assigned = set(), set()
    def walk(x):
        if isinstance(x, tuple):
            if x and x[0] == "decl":
                for (name, size, init, ptr) in x[2]:
                    if init is not None and size is None and not ptr:
                        decl.add(name)
                    walk(init)
                return
            if x and x[0] == "assign" and x[2][0] == "var":
                assigned.add(x[2][1])
            if x and x[0] == "post" and x[2][0] == "var":
                assigned.add(x[2][1])
            for y in x[1:]:
                walk(y)
        elif isinstance(x, list):
            for y in x:
                walk(y)
    walk(ast)
    return decl - assigned


def translate(src, fname, struct, int_params, table2d=None, row_ptr=None, tracked=(), consts=(), array_ids=None, field_arrays=None,
              scalars=None, dyn_oracle=False, recursive=False, ptrs=None):
    formals, body = function_body(src, fname)
    ast = Parser(tokenize("{" + body + "}")).block()
    cx = Ctx(fname, struct, int_params, table2d, row_ptr, tracked, consts)
    cx.array_ids = array_ids
    cx.field_arrays = field_arrays or {}
    cx.scalars = dict(scalars or {})
    cx.dyn_oracle = dyn_oracle
    cx.recursive = recursive
    cx.ptrs = dict(ptrs or {})
    cx.formals = [re.sub(r".*[\s*]", "", f.strip()) for f in formals.split(",")] if recursive else []
    cx.once = once_assigned(ast) if recursive else set()
    top = []
    cx.stmts(ast, top)
    fields = ["  %s : %s" % (n, "Int" if k == "var" else "IArr") for n, k in cx.order]
    init = ", ".join("%s := %s" % (n, "0" if k == "var" else "IArr.new 0") for n, k in cx.order)
    out = ["/-- integer state of `%s` -/" % fname, "structure %s (σ : Type) where" % struct] + fields + \
          ["  fault : Option Fault", "  obs : σ", "",
           "def %s.live {σ : Type} (O : Obs σ) (s : %s σ) : Bool := s.fault.isNone && O.ok s.obs" % (struct, struct),
           "def %s.fail {σ : Type} (s : %s σ) (f : Fault) : %s σ := { s with fault := some f }" % (struct, struct, struct),
           "/-- every statement is skipped once a fault has been recorded -/",
           "def %s.step {σ : Type} (O : Obs σ) (f : %s σ → %s σ) (s : %s σ) : %s σ := if %s.live O s then f s else s" % ((struct,) * 6),
           "def %s.init {σ : Type} (o : σ) : %s σ := { %s, fault := none, obs := o }" % (struct, struct, init), ""]
    out += [x + "\n" for x in cx.loops]
    if recursive:
        out += ["/-- `%s`: integer skeleton; `rf` bounds the recursion depth (structural recursion), the pointer parameters" % fname,
                "    %s are represented by their offsets %s -/" % (", ".join(cx.ptrs), ", ".join(cx.ptrs.values())),
                "def %s %s (s : %s σ) : %s σ :=\n  match rf with\n  | 0 => s.fail .fuel\n  | rf + 1 =>\n%s"
                % (fname, cx.sig().replace("(fuel : Nat)", "(fuel : Nat) (rf : Nat)"), struct, struct, cx.body_text(top, 4)), ""]
    else:
        out += ["/-- `%s`: integer skeleton -/" % fname,
                "def %s %s (s : %s σ) : %s σ :=\n%s" % (fname, cx.sig(), struct, struct, cx.body_text(top)), ""]
    txt = "\n".join(out).replace("NORACLE", str(max(cx.noracle, 1)))
    return txt, cx


def generate(repo, outdir):
    parts = ["/- GENERATED by tools/translate/chainskel.py from src/ec/ref/ecx/isog_chains.c and src/hd/ref/hdx/theta_isogenies.c",
             "   (integer skeletons of the strategy-driven chain routines). Do not edit. -/",
             "import SqiModel.Skel", "", "namespace SqiGen.ChainSkel", "open SqiModel.Skel", ""]
    src = preprocess(open(os.path.join(repo, "src/ec/ref/ecx/isog_chains.c")).read())
    txt, _ = translate(src, "ec_eval_even_strategy", "EvenSt", [("isog_len", "int"), ("points_len", "int")],
                       table2d="STRATEGY4", consts=[("TORSION_PLUS_EVEN_POWER", "u64")])
    parts.append(txt)
    # the naive chain: no table, the points big_K / small_K are the slots 0 / 1; the singular test may differ per iteration
    txt, _ = translate(src, "ec_eval_small_chain", "SmallSt", [("len", "int"), ("len_points", "int")],
                       scalars={"big_K": 0, "small_K": 1}, dyn_oracle=True)
    parts.append(txt)
    src2 = preprocess(open(os.path.join(repo, "src/hd/ref/hdx/theta_isogenies.c")).read())
    ids = {"points1": 1, "points2": 2, "Q1": 3, "Q2": 4, "steps": 5}
    for fn, st in (("theta_chain_comput_strategy", "ThetaSt"), ("theta_chain_comput_strategy_faster_no_eval", "ThetaFSt")):
        txt, _ = translate(src2, fn, st, [("n", "int"), ("eight_above", "int")], row_ptr="strategy",
                           array_ids=ids, field_arrays={"steps": "steps"})
        parts.append(txt)
    # the balanced recursion: R1/R2 are pointers that may be advanced (offset parameters), P1/P2 the stacks
    txt, _ = translate(src2, "theta_chain_comput_rec", "RecSt",
                       [("len", "int"), ("index", "int"), ("advance", "int"), ("stacklen", "int"), ("total_length", "int"),
                        ("R1_off", "int"), ("R2_off", "int"), ("P1_off", "int"), ("P2_off", "int")],
                       array_ids={"R1": 6, "R2": 7, "P1": 8, "P2": 9, "steps": 5}, field_arrays={"steps": "steps"},
                       recursive=True, ptrs={"R1": "R1_off", "R2": "R2_off", "P1": "P1_off", "P2": "P2_off"})
    parts.append(txt)
    parts.append("end SqiGen.ChainSkel\n")
    ch = write_if_changed(os.path.join(outdir, "ChainSkel.lean"), "\n".join(parts))
    return ["SqiGen/ChainSkel.lean regenerated"] if ch else []


if __name__ == "__main__":
    import vlib
    print(generate(vlib.REPO, os.path.join(vlib.LEAN, "SqiGen")))

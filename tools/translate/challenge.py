"""Translator T, challenge part: `hash_to_challenge` of the three sign.c files -> lean/SqiGen/Challenge.lean.

The function is a fixed call sequence; it is re-extracted on every run as a `SqiModel.Challenge.Script`:
  * the malloc size of `buf` (as a·FP2_ENCODED_BYTES + b·length),
  * which curve each j-invariant variable is computed from (`ec_j_inv(&j1, com_curve)`, `ec_j_inv(&j2, &pk->curve)`),
  * the writes into `buf` in program order: `fp2_encode(buf + k·FP2_ENCODED_BYTES, &jX)` and
    `memcpy(buf + k·FP2_ENCODED_BYTES, message, length)`,
  * the SHAKE256 call (output `digits` of `sizeof(digits)` = NWORDS_FIELD digits, input `buf`, input length),
  * the optional re-hash loop `for (int i = 0; i < SQIsign2D_heuristic_challenge_hash_iteration; i++)
    SHAKE256((void *)digits, sizeof(digits), (void *)digits, sizeof(digits));`,
  * the conversion `ibz_set(&(*scalars)[1], 1); ibz_copy_digit_array(&(*scalars)[1], digits);` and
    `ibz_set(&((*scalars)[0]), 1);`, and `free(buf)`.
Any other statement, a different order of the arguments, another length expression, … raises TranslateError.
SqiProps.C20 proves that running the extracted script equals the hand model `hashToChallenge`."""
import os, re, sys

sys.path.insert(0, os.path.dirname(os.path.dirname(os.path.abspath(__file__))))
from vlib import write_if_changed
from keccak import TranslateError, strip_c_comments, find_function

FILES = {"dim2": "src/sqisigndim2/ref/sqisigndim2x/sign.c",
         "heuristic": "src/sqisigndim2_heuristic/ref/sqisigndim2_heuristicx/sign.c",
         "hd": "src/sqisignhd/ref/sqisignhdx/sign.c"}
ITER_MACRO = "SQIsign2D_heuristic_challenge_hash_iteration"


def size_expr(s, where):
    """a sum of FP2_ENCODED_BYTES and length -> (nFp2, nLen)"""
    a = b = 0
    for t in [x.strip() for x in s.split("+")]:
        if t == "FP2_ENCODED_BYTES":
            a += 1
        elif t == "length":
            b += 1
        else:
            raise TranslateError("%s: size term %r not in {FP2_ENCODED_BYTES, length}" % (where, t))
    return a, b


def buf_offset(s, where):
    s = s.strip()
    if s == "buf":
        return 0
    m = re.match(r"buf\s*\+\s*(.*)$", s)
    if not m:
        raise TranslateError("%s: destination %r is not buf + k*FP2_ENCODED_BYTES" % (where, s))
    a, b = size_expr(m.group(1), where)
    if b:
        raise TranslateError("%s: destination offset depends on length" % where)
    return a


def extract_one(src, where):
    args, body = find_function(src, "hash_to_challenge")
    if not re.match(r"\s*ibz_vec_2_t\s*\*\s*scalars\s*,\s*const\s+ec_curve_t\s*\*\s*com_curve\s*,\s*const\s+unsigned\s+char\s*\*\s*message\s*,"
                    r"\s*const\s+public_key_t\s*\*\s*pk\s*,\s*size_t\s+length\s*$", args):
        raise TranslateError("%s: unexpected parameter list of hash_to_challenge" % where)
    d = dict(jvars={}, writes=[], iterated=False)
    # the re-hash loop (single statement body)
    loop = re.search(r"for\s*\(\s*int\s+i\s*=\s*0\s*;\s*i\s*<\s*(\w+)\s*;\s*i\s*\+\+\s*\)\s*\{([^{}]*)\}", body)
    if loop:
        if loop.group(1) != ITER_MACRO:
            raise TranslateError("%s: loop bound %s is not %s" % (where, loop.group(1), ITER_MACRO))
        if not re.match(r"\s*SHAKE256\s*\(\s*\(void\s*\*\)\s*digits\s*,\s*sizeof\s*\(\s*digits\s*\)\s*,\s*\(void\s*\*\)\s*digits\s*,\s*sizeof\s*\(\s*digits\s*\)\s*\)\s*;\s*$",
                        loop.group(2)):
            raise TranslateError("%s: loop body is not SHAKE256(digits -> digits, sizeof(digits) both)" % where)
        body = body[:loop.start()] + " __REHASH__; " + body[loop.end():]
    flat = body.replace("{", ";").replace("}", ";")
    seq = []
    for st in [x.strip() for x in flat.split(";")]:
        if not st:
            continue
        m = re.match(r"unsigned\s+char\s*\*\s*buf\s*=\s*malloc\s*\((.*)\)$", st, re.S)
        if m:
            d["buf"] = size_expr(m.group(1), where); seq.append("alloc"); continue
        m = re.match(r"fp2_t\s+(\w+)\s*,\s*(\w+)$", st)
        if m:
            seq.append("decl"); continue
        m = re.match(r"ec_j_inv\s*\(\s*&\s*(\w+)\s*,\s*(.*)\)$", st, re.S)
        if m:
            c = m.group(2).strip()
            if c == "com_curve":
                d["jvars"][m.group(1)] = "com"
            elif re.match(r"&\s*pk\s*->\s*curve$", c):
                d["jvars"][m.group(1)] = "pk"
            else:
                raise TranslateError("%s: ec_j_inv of %r" % (where, c))
            seq.append("jinv"); continue
        m = re.match(r"fp2_encode\s*\((.*),\s*&\s*(\w+)\s*\)$", st, re.S)
        if m:
            if m.group(2) not in d["jvars"]:
                raise TranslateError("%s: fp2_encode of %s before its ec_j_inv" % (where, m.group(2)))
            d["writes"].append((buf_offset(m.group(1), where), d["jvars"][m.group(2)])); seq.append("write"); continue
        m = re.match(r"memcpy\s*\((.*),\s*message\s*,\s*length\s*\)$", st, re.S)
        if m:
            d["writes"].append((buf_offset(m.group(1), where), "msg")); seq.append("write"); continue
        m = re.match(r"digit_t\s+digits\s*\[\s*NWORDS_FIELD\s*\]$", st)
        if m:
            seq.append("digits"); continue
        m = re.match(r"SHAKE256\s*\(\s*\(void\s*\*\)\s*digits\s*,\s*sizeof\s*\(\s*digits\s*\)\s*,\s*buf\s*,(.*)\)$", st, re.S)
        if m:
            d["hashin"] = size_expr(m.group(1), where); seq.append("hash"); continue
        if st == "__REHASH__":
            d["iterated"] = True; seq.append("rehash"); continue
        m = re.match(r"ibz_set\s*\(\s*&\s*\(\s*\*\s*scalars\s*\)\s*\[\s*1\s*\]\s*,\s*(\d+)\s*\)$", st)
        if m:
            d["s1init"] = int(m.group(1)); seq.append("set1"); continue
        if re.match(r"ibz_copy_digit_array\s*\(\s*&\s*\(\s*\*\s*scalars\s*\)\s*\[\s*1\s*\]\s*,\s*digits\s*\)$", st):
            seq.append("copy"); continue
        m = re.match(r"ibz_set\s*\(\s*&\s*\(\s*\(\s*\*\s*scalars\s*\)\s*\[\s*0\s*\]\s*\)\s*,\s*(\d+)\s*\)$", st)
        if m:
            d["s0"] = int(m.group(1)); seq.append("set0"); continue
        if re.match(r"free\s*\(\s*buf\s*\)$", st):
            seq.append("free"); continue
        raise TranslateError("%s: statement not in the accepted call sequence: %r" % (where, st[:80]))
    want = ["alloc", "decl", "jinv", "jinv", "write", "write", "write", "digits", "hash"] + (["rehash"] if d["iterated"] else []) + \
           ["set1", "copy", "set0", "free"]
    if seq != want:
        raise TranslateError("%s: call sequence %s differs from the accepted order %s" % (where, seq, want))
    return d


def extract(repo):
    return {k: extract_one(strip_c_comments(open(os.path.join(repo, f)).read()), f) for k, f in FILES.items()}


def emit(ds):
    L = ["/- GENERATED by tools/translate/challenge.py from the three sign.c files — do not edit.",
         "   `hash_to_challenge` as a call-sequence script (SqiModel.Challenge.Script). -/",
         "import SqiModel.Challenge", "namespace SqiGen.Challenge", "open SqiModel.Challenge", ""]
    src = {"com": "Src.j Curve.com", "pk": "Src.j Curve.pk", "msg": "Src.msg"}
    for k, d in ds.items():
        L += ["/-- %s -/" % FILES[k],
              "def %s : Script :=" % k,
              "  { bufFp2 := %d, bufLen := %d," % d["buf"],
              "    writes := [" + ", ".join("(%d, %s)" % (o, src[s]) for o, s in d["writes"]) + "],",
              "    hashInFp2 := %d, hashInLen := %d," % d["hashin"],
              "    iterated := %s, scalar0 := %d, scalar1Init := %d }" % ("true" if d["iterated"] else "false", d["s0"], d["s1init"]), ""]
    L += ["end SqiGen.Challenge", ""]
    return "\n".join(L)


def generate(repo, outdir):
    return ["Challenge.lean regenerated"] if write_if_changed(os.path.join(outdir, "Challenge.lean"), emit(extract(repo))) else []


if __name__ == "__main__":
    import vlib
    print(generate(vlib.REPO, os.path.join(vlib.LEAN, "SqiGen")))

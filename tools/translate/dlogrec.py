#!/usr/bin/env python3
"""Translator T (C11): recursion structure of fp2_dlog_2e_rec / fp2_dlog_2e (src/ec/ref/ecx/biextension.c) -> lean/SqiGen/DlogRec.lean.

The C text is parsed (comments stripped) into if / else-if / else chains, counted `for` loops and simple statements. Extracted and
re-emitted as a Lean definition `dlogRecGen` over the same stack-as-list representation as the hand model (C entry [stacklen-1] = `top`,
entries [0 .. stacklen-2] = `below`):
  * the case split on `len` (0 / 1 / else) as written;
  * the leaf (`len == 1`): the chain of tests as written (`fp2_is_one(&pows_f[stacklen-1])`, `fp2_is_equal(&pows_f[stacklen-1], &pows_g[stacklen-1])`,
    a final `else`), the value stored in `a` in each branch (all limbs 0, or a[0] = 1), the update loop over i < stacklen-1 statement by
    statement (`fp2_sqr(&pows_g[i], &pows_g[i])`, `fp2_mul(&pows_f[i], &pows_f[i], &pows_g[i])`), and `return true/false`;
  * the split: `right = (double)len * 0.5` (= len / 2 for len < 2^53), `left = len - right`; the push of the top entry and the number of
    squarings; the two recursive calls with their (length, stacklen) arguments in program order and the early `return false`; the
    combination `a = dlp1 + (dlp2 << right)`.
Anything outside these shapes is refused. SqiProofs/DlogGen.lean proves `dlogRecGen = SqiModel.Dlog.dlogRec`, so `dlog_2e_correct` is a theorem
about this text."""
import os, re, sys
sys.path.insert(0, os.path.dirname(os.path.dirname(os.path.abspath(__file__))))
from vlib import write_if_changed

SRC = "src/ec/ref/ecx/biextension.c"


class DlogError(Exception):
    pass


def strip(s):
    s = re.sub(r"/\*.*?\*/", "", s, flags=re.S)
    return re.sub(r"//[^\n]*", "", s)


def body_of(src, fn):
    m = re.search(r"^%s\s*\(" % re.escape(fn), src, re.M)
    if not m:
        raise DlogError("dlogrec: function %s not found" % fn)
    i = src.index("{", m.end()); depth, j = 0, i
    while True:
        if src[j] == "{": depth += 1
        elif src[j] == "}":
            depth -= 1
            if depth == 0: break
        j += 1
    return src[i + 1:j]


def paren(s, k):
    depth, j = 0, k
    while True:
        if s[j] == "(": depth += 1
        elif s[j] == ")":
            depth -= 1
            if depth == 0: return j
        j += 1


def parse_block(s, pos=0):
    out, n = [], len(s)
    while True:
        while pos < n and s[pos].isspace():
            pos += 1
        if pos >= n:
            return out, pos
        if s[pos] == "}":
            return out, pos + 1
        if re.match(r"for\s*\(", s[pos:]):
            k = s.index("(", pos); j = paren(s, k)
            hdr = "".join(s[k + 1:j].split())
            m2 = re.match(r"\s*\{", s[j + 1:])
            if not m2:                      # single statement body
                e = s.index(";", j)
                body = [("stmt", "".join(s[j + 1:e].split()))]; pos = e + 1
                out.append(("for", hdr, body)); continue
            body, pos = parse_block(s, j + 1 + m2.end())
            out.append(("for", hdr, body)); continue
        if re.match(r"if\s*\(", s[pos:]):
            node, pos = parse_if(s, pos)
            out.append(node); continue
        j = s.index(";", pos)
        st = "".join(s[pos:j].split())
        pos = j + 1
        if st:
            out.append(("stmt", st))


def parse_if(s, pos):
    k = s.index("(", pos); j = paren(s, k)
    cond = "".join(s[k + 1:j].split())
    m2 = re.match(r"\s*\{", s[j + 1:])
    if m2:
        then, pos = parse_block(s, j + 1 + m2.end())
    else:                                   # single statement without braces (`if (!ok) return false;`)
        e = s.index(";", j)
        then = [("stmt", "".join(s[j + 1:e].split()))]; pos = e + 1
    els = None
    m3 = re.match(r"\s*else\s+if\s*\(", s[pos:])
    if m3:
        node, pos = parse_if(s, pos + re.match(r"\s*else\s+", s[pos:]).end())
        els = [node]
    else:
        m4 = re.match(r"\s*else\s*\{", s[pos:])
        if m4:
            els, pos = parse_block(s, pos + m4.end())
    return ("if", cond, then, els), pos


ZERO_ALL = ("for", "inti=0;i<NWORDS_ORDER;i++", [("stmt", "a[i]=0")])
ZERO_REST = ("for", "inti=1;i<NWORDS_ORDER;i++", [("stmt", "a[i]=0")])
UPD = {"fp2_sqr(&pows_g[i],&pows_g[i])": "let g := mul g g", "fp2_mul(&pows_f[i],&pows_f[i],&pows_g[i])": "let f := mul f g"}
TESTS = {"fp2_is_one(&pows_f[stacklen-1])": "top.1 = one", "fp2_is_equal(&pows_f[stacklen-1],&pows_g[stacklen-1])": "top.1 = top.2"}


def leaf_branch(stmts):
    """a leaf branch: value of a, update loop, return -> Lean term"""
    st = [s for s in stmts if s != ("stmt", "fp2_ttmp")]
    st = [s for s in st if not (s[0] == "stmt" and re.match(r"^fp2_t\w+$", s[1]))]      # unused local declaration
    if st == [("stmt", "returnfalse")]:
        return "none"
    if st and st[-1] == ("stmt", "returntrue"):
        st = st[:-1]
    else:
        raise DlogError("dlogrec: leaf branch does not end with return true/false: %r" % (stmts,))
    if st and st[0] == ZERO_ALL:
        val, st = 0, st[1:]
    elif len(st) >= 2 and st[0] == ("stmt", "a[0]=1") and st[1] == ZERO_REST:
        val, st = 1, st[2:]
    else:
        raise DlogError("dlogrec: leaf branch does not set a to 0 or 1 in the accepted shape: %r" % (st[:2],))
    if len(st) != 1 or st[0][0] != "for" or st[0][1] not in ("inti=0;i<stacklen-1;++i", "inti=0;i<stacklen-1;i++"):
        raise DlogError("dlogrec: leaf branch: expected one update loop over i < stacklen - 1, got %r" % (st,))
    ups = []
    for s in st[0][2]:
        if s[0] != "stmt" or s[1] not in UPD:
            raise DlogError("dlogrec: leaf update statement not in the accepted subset: %r" % (s,))
        ups.append(UPD[s[1]])
    upd = "(fun fg => let f := fg.1; let g := fg.2; " + "".join(u + "; " for u in ups) + "(f, g))"
    return "some (%d, below.map %s)" % (val, upd)


def leaf(node, ind):
    """if / else-if / else chain of the len == 1 case"""
    pad = " " * ind
    if node[0] != "if":
        raise DlogError("dlogrec: leaf: expected an if chain")
    _, cond, then, els = node
    if cond not in TESTS:
        raise DlogError("dlogrec: leaf test not in the accepted subset: %r" % cond)
    out = pad + "if %s then %s\n" % (TESTS[cond], leaf_branch(then))
    if els is None:
        raise DlogError("dlogrec: leaf chain without final else")
    if len(els) == 1 and els[0][0] == "if":
        return out + pad + "else\n" + leaf(els[0], ind + 2)
    return out + pad + "else %s" % leaf_branch(els)


def rec_case(stmts):
    want_prefix = [("stmt", "longright=(double)len*0.5"), ("stmt", "longleft=len-right"),
                   ("stmt", "pows_f[stacklen]=pows_f[stacklen-1]"), ("stmt", "pows_g[stacklen]=pows_g[stacklen-1]")]
    if stmts[:4] != want_prefix:
        raise DlogError("dlogrec: split / push not in the accepted shape: %r" % (stmts[:4],))
    rest = stmts[4:]
    if not rest or rest[0][0] != "for":
        raise DlogError("dlogrec: squaring loop missing")
    m = re.match(r"^inti=0;i<(left|right);i\+\+$", rest[0][1])
    if not m or sorted(rest[0][2]) != sorted([("stmt", "fp2_sqr(&pows_f[stacklen],&pows_f[stacklen])"), ("stmt", "fp2_sqr(&pows_g[stacklen],&pows_g[stacklen])")]):
        raise DlogError("dlogrec: squaring loop not in the accepted shape: %r" % (rest[0],))
    cnt = m.group(1)
    rest = [s for s in rest[1:] if not (s[0] == "stmt" and re.match(r"^(digit_tdlp1\[NWORDS_ORDER\],dlp2\[NWORDS_ORDER\]|boolok)$", s[1]))]
    calls = []
    i = 0
    while i < len(rest) and rest[i][0] == "stmt" and rest[i][1].startswith("ok=fp2_dlog_2e_rec("):
        m = re.match(r"^ok=fp2_dlog_2e_rec\((dlp\d),(left|right),pows_f,pows_g,(stacklen\+1|stacklen)\)$", rest[i][1])
        if not m:
            raise DlogError("dlogrec: recursive call not in the accepted shape: %r" % rest[i][1])
        if i + 1 >= len(rest) or rest[i + 1] != ("if", "!ok", [("stmt", "returnfalse")], None):
            raise DlogError("dlogrec: recursive call not followed by `if (!ok) return false;`")
        calls.append(m.groups()); i += 2
    tail = rest[i:]
    if len(calls) != 2 or calls[0][2] != "stacklen+1" or calls[1][2] != "stacklen":
        raise DlogError("dlogrec: expected the calls (…, stacklen + 1) then (…, stacklen): %r" % (calls,))
    m = tail and tail[0][0] == "stmt" and re.match(r"^multiple_mp_shiftl\((dlp\d),(left|right),NWORDS_ORDER\)$", tail[0][1])
    if not m or len(tail) != 3 or tail[2] != ("stmt", "returntrue"):
        raise DlogError("dlogrec: combination of the two halves not in the accepted shape: %r" % (tail,))
    shifted, sh = m.group(1), m.group(2)
    ma = re.match(r"^mp_add\(a,(dlp\d),(dlp\d),NWORDS_ORDER\)$", tail[1][1])
    if not ma or sorted(ma.groups()) != ["dlp1", "dlp2"]:
        raise DlogError("dlogrec: final mp_add not in the accepted shape")
    d = {calls[0][0]: "d1", calls[1][0]: "d2"}
    other = "dlp1" if shifted == "dlp2" else "dlp2"
    comb = "%s + 2 ^ %s * %s" % (d[other], sh, d[shifted])
    return cnt, calls[0][1], calls[1][1], comb


def generate(repo, outdir):
    src = strip(open(os.path.join(repo, SRC)).read())
    stmts, _ = parse_block(body_of(src, "fp2_dlog_2e_rec"))
    if len(stmts) != 1 or stmts[0][0] != "if" or stmts[0][1] != "len==0":
        raise DlogError("dlogrec: top-level `if (len == 0)` chain not found")
    _, _, case0, els = stmts[0]
    if case0 != [ZERO_ALL, ("stmt", "returntrue")]:
        raise DlogError("dlogrec: len == 0 case not in the accepted shape: %r" % (case0,))
    if not els or els[0][0] != "if" or els[0][1] != "len==1":
        raise DlogError("dlogrec: `else if (len == 1)` not found")
    _, _, case1, els2 = els[0]
    if len(case1) != 1:
        raise DlogError("dlogrec: len == 1 case: expected a single if chain")
    leaf_txt = leaf(case1[0], 4)
    if els2 is None:
        raise DlogError("dlogrec: recursive case missing")
    cnt, len1, len2, comb = rec_case(els2)
    # wrapper
    w = [s for s in parse_block(body_of(src, "fp2_dlog_2e"))[0]]
    flat = [s[1] for s in w if s[0] == "stmt"]
    need = ["pows_f[0]=*f", "pows_g[0]=*g", "fp2_inv(&pows_g[0])", "boolok=fp2_dlog_2e_rec(scal,e,pows_f,pows_g,1)"]
    for x in need:
        if x not in flat:
            raise DlogError("dlogrec: fp2_dlog_2e: statement %r not found" % x)
    if not (flat.index("pows_g[0]=*g") < flat.index("fp2_inv(&pows_g[0])") < flat.index(need[3])):
        raise DlogError("dlogrec: fp2_dlog_2e: order of the set-up statements")
    logloop = [s for s in w if s[0] == "for"]
    if not logloop or logloop[0][1] != "log=0;len>1;len>>=1" or logloop[0][2] != [("stmt", "log++")] or "log+=1" not in flat or "fp2_tpows_f[log],pows_g[log]" not in flat:
        raise DlogError("dlogrec: fp2_dlog_2e: stack size computation not in the accepted shape")
    L = ["/- GENERATED by tools/translate/dlogrec.py from src/ec/ref/ecx/biextension.c (fp2_dlog_2e_rec, fp2_dlog_2e) — do not edit. -/",
         "import SqiModel.Dlog", "", "namespace SqiGen.DlogRec", "open SqiModel.Dlog", "", "variable {M : Type} [DecidableEq M]", "",
         "def dlogRecGen (mul : M → M → M) (one : M) (len : Nat) (top : M × M) (below : List (M × M)) : Option (Nat × List (M × M)) :=",
         "  if len = 0 then some (0, below)", "  else if len = 1 then", leaf_txt, "  else",
         "    let right := len / 2", "    let left := len - right",
         "    let top' := (sqrIter mul %s top.1, sqrIter mul %s top.2)" % (cnt, cnt),
         "    match dlogRecGen mul one %s top' (top :: below) with" % len1,
         "    | some (d1, top1 :: below1) =>",
         "      match dlogRecGen mul one %s top1 below1 with" % len2,
         "      | some (d2, below2) => some (%s, below2)" % comb,
         "      | none => none", "    | _ => none", "termination_by len", "decreasing_by all_goals omega", "",
         "/-- fp2_dlog_2e: stack initialised with (f, g⁻¹), recursion started with len = e at stacklen = 1; stacks of size ⌊log₂ e⌋ + 1 -/",
         "def dlog2eGen (mul : M → M → M) (one : M) (inv : M → M) (f g : M) (e : Nat) : Option Nat :=",
         "  (dlogRecGen mul one e (f, inv g) []).map Prod.fst", "",
         "def stackSizeText : String := \"for (log = 0; len > 1; len >>= 1) log++; log += 1; fp2_t pows_f[log], pows_g[log]\"", "",
         "end SqiGen.DlogRec", ""]
    return ["SqiGen/DlogRec.lean regenerated"] if write_if_changed(os.path.join(outdir, "DlogRec.lean"), "\n".join(L)) else []


if __name__ == "__main__":
    import tempfile
    d = tempfile.mkdtemp()
    print(generate(sys.argv[1] if len(sys.argv) > 1 else os.environ.get("VERIF_REPO", "/repo"), d))
    print(open(os.path.join(d, "DlogRec.lean")).read())

#!/usr/bin/env python3
"""Translator T (C09): the dispatch of `ec_eval_even` (src/ec/ref/ecx/isog_chains.c) -> lean/SqiGen/EvenGuard.lean.

`ec_eval_even` is the only entry point of the (static) strategy routine `ec_eval_even_strategy`.  Its body must have
one of the two shapes
      [ if (<cond>) { …; ec_eval_small_chain(…, phi->length, …); …; return; } ]
      ec_curve_normalize_A24(&phi->curve);
      ec_eval_even_strategy(…, phi->length);
and <cond> is re-read from the C text: `||`, `&&`, `!`, parentheses, comparisons `< <= > >= == !=` between sums /
differences of the atoms  phi->length,  TORSION_PLUS_EVEN_POWER,  sizeof(STRATEGY4) / sizeof(STRATEGY4[0]),
integer literals.  The emitted definition `SqiGen.EvenGuard.naive len tpep nrows : Bool` is the condition with C's
unsigned 64-bit arithmetic (`TORSION_PLUS_EVEN_POWER` is `uint64_t`, so every operand is converted to it: `-` wraps
modulo 2^64).  Without the `if` the definition is `false` (every length goes to the strategy routine).  Any other
shape is refused (TranslateError) — the refusal is a check failure by design."""
import os, re, sys

sys.path.insert(0, os.path.dirname(os.path.dirname(os.path.abspath(__file__))))
from vlib import write_if_changed

GUARD = "SQISIGN_SQISIGN2D_WEST_AC24_VERIF"
W = 2 ** 64


class TranslateError(Exception):
    pass


def strip(src):
    src = re.sub(r"/\*.*?\*/", " ", src, flags=re.S)
    src = re.sub(r"//[^\n]*", "", src)
    # drop hook regions and other preprocessor lines
    out, skip = [], 0
    for line in src.split("\n"):
        if re.match(r"\s*#\s*ifdef\s+" + GUARD, line):
            skip += 1; continue
        if skip and re.match(r"\s*#\s*endif", line):
            skip -= 1; continue
        if skip or re.match(r"\s*#", line):
            continue
        out.append(line)
    return "\n".join(out)


def body_of(src, name):
    m = re.search(r"\n" + name + r"\s*\(([^)]*)\)\s*\{", src)
    if not m:
        raise TranslateError("evenguard: function %s not found" % name)
    i = m.end()
    depth = 1
    j = i
    while depth:
        if j >= len(src):
            raise TranslateError("evenguard: unbalanced braces in %s" % name)
        depth += {"{": 1, "}": -1}.get(src[j], 0)
        j += 1
    return src[i:j - 1]


TOK = re.compile(r"\s*(sizeof\s*\(\s*STRATEGY4\s*\)\s*/\s*sizeof\s*\(\s*STRATEGY4\s*\[\s*0\s*\]\s*\)|phi\s*->\s*length|"
                 r"TORSION_PLUS_EVEN_POWER|\d+|\|\||&&|<=|>=|==|!=|[<>!()+\-])")


def tokenize(s):
    toks, i = [], 0
    s = s.strip()
    while i < len(s):
        m = TOK.match(s, i)
        if not m:
            raise TranslateError("evenguard: construct not in subset in the condition of ec_eval_even near %r" % s[i:i + 30])
        t = re.sub(r"\s+", "", m.group(1))
        toks.append(t)
        i = m.end()
        while i < len(s) and s[i].isspace():
            i += 1
    return toks


class P:
    def __init__(self, toks):
        self.t, self.i = toks, 0

    def peek(self):
        return self.t[self.i] if self.i < len(self.t) else None

    def eat(self, x=None):
        t = self.peek()
        if t is None or (x is not None and t != x):
            raise TranslateError("evenguard: unexpected token %r in the condition of ec_eval_even" % t)
        self.i += 1
        return t

    def orx(self):
        a = self.andx()
        while self.peek() == "||":
            self.eat(); a = "(%s || %s)" % (a, self.andx())
        return a

    def andx(self):
        a = self.notx()
        while self.peek() == "&&":
            self.eat(); a = "(%s && %s)" % (a, self.notx())
        return a

    def notx(self):
        if self.peek() == "!":
            self.eat(); return "(!%s)" % self.notx()
        if self.peek() == "(":
            # parenthesised boolean or arithmetic: try boolean first
            save = self.i
            try:
                self.eat("("); a = self.orx(); self.eat(")")
                if self.peek() in ("<", "<=", ">", ">=", "==", "!=", "+", "-"):
                    raise TranslateError("arith")
                return a
            except TranslateError:
                self.i = save
        return self.cmp()

    def cmp(self):
        a = self.arith()
        op = self.peek()
        if op not in ("<", "<=", ">", ">=", "==", "!="):
            raise TranslateError("evenguard: comparison expected in the condition of ec_eval_even, got %r" % op)
        self.eat()
        b = self.arith()
        lop = {"<": "<", "<=": "≤", ">": ">", ">=": "≥", "==": "=", "!=": "≠"}[op]
        return "decide (%s %s %s)" % (a, lop, b)

    def arith(self):
        a = self.atom()
        while self.peek() in ("+", "-"):
            op = self.eat()
            b = self.atom()
            a = "((%s + %s) %% W)" % (a, b) if op == "+" else "((%s + W - %s) %% W)" % (a, b)
        return a

    def atom(self):
        t = self.eat()
        if t == "(":
            a = self.arith(); self.eat(")"); return a
        if t.startswith("phi->length"):
            return "len"
        if t == "TORSION_PLUS_EVEN_POWER":
            return "tpep"
        if t.startswith("sizeof"):
            return "nrows"
        if t.isdigit():
            return t
        raise TranslateError("evenguard: atom not in subset: %r" % t)


def generate(repo, outdir):
    src = strip(open(os.path.join(repo, "src/ec/ref/ecx/isog_chains.c")).read())
    body = body_of(src, "ec_eval_even")
    flat = re.sub(r"\s+", " ", body).strip()
    tail = r"ec_curve_normalize_A24\(\s*&phi->curve\s*\);\s*ec_eval_even_strategy\(\s*image\s*,\s*points\s*,\s*length\s*,\s*&phi->curve\.A24\s*,\s*&phi->kernel\s*,\s*phi->length\s*\);\s*$"
    mt = re.search(tail, flat)
    if not mt:
        # the A24 may be passed through a local copy (proposed repair of the A24 clobbering)
        tail2 = r"ec_curve_normalize_A24\(\s*&phi->curve\s*\);\s*ec_point_t (\w+) = phi->curve\.A24;\s*ec_eval_even_strategy\(\s*image\s*,\s*points\s*,\s*length\s*,\s*&\1\s*,\s*&phi->kernel\s*,\s*phi->length\s*\);\s*$"
        mt = re.search(tail2, flat)
    if not mt:
        raise TranslateError("evenguard: tail of ec_eval_even is not `ec_curve_normalize_A24(&phi->curve); ec_eval_even_strategy(image, points, length, &phi->curve.A24, &phi->kernel, phi->length);`")
    head = flat[:mt.start()].strip()
    if head == "":
        cond_lean, cond_c, guarded = "false", "(none)", "false"
    else:
        m = re.match(r"if \((.*)\) \{(.*)\}$", head)
        if not m:
            raise TranslateError("evenguard: statements before the strategy call are not a single `if (…) { … }`: %r" % head[:120])
        # split condition / block at the matching parenthesis
        depth, k = 0, None
        s = head[3:]
        for idx, ch in enumerate(s):
            depth += {"(": 1, ")": -1}.get(ch, 0)
            if depth == 0:
                k = idx; break
        cond_c = s[1:k]
        block = s[k + 1:].strip()
        if not (block.startswith("{") and block.endswith("}")):
            raise TranslateError("evenguard: guarded block is not braced")
        blk = block[1:-1].strip()
        if not re.search(r"ec_eval_small_chain\(\s*&?\w+\s*,\s*&phi->kernel\s*,\s*phi->length\s*,\s*points\s*,\s*length\s*\);", blk) \
                or not blk.endswith("return;") or "ec_eval_even_strategy" in blk:
            raise TranslateError("evenguard: guarded block does not evaluate the naive chain of length phi->length and return: %r" % blk[:160])
        p = P(tokenize(cond_c))
        cond_lean = p.orx()
        if p.peek() is not None:
            raise TranslateError("evenguard: trailing tokens in the condition of ec_eval_even")
        guarded = "true"
    out = ["/- GENERATED by tools/translate/evenguard.py from src/ec/ref/ecx/isog_chains.c (ec_eval_even). Do not edit. -/",
           "namespace SqiGen.EvenGuard", "",
           "/-- 2^64: `TORSION_PLUS_EVEN_POWER` is `uint64_t`, the operands are converted to it -/",
           "def W : Nat := 18446744073709551616", "",
           "/-- C text of the condition: %s -/" % cond_c.replace("-/", "- /"),
           "def naive (len tpep nrows : Nat) : Bool :=", "  " + cond_lean, "",
           "/-- is there an `if (…) { naive chain; return; }` in front of the strategy call? -/",
           "def guarded : Bool := %s" % guarded, "", "end SqiGen.EvenGuard", ""]
    ch = write_if_changed(os.path.join(outdir, "EvenGuard.lean"), "\n".join(out))
    return ["SqiGen/EvenGuard.lean regenerated"] if ch else []


if __name__ == "__main__":
    import vlib
    print(generate(vlib.REPO, os.path.join(vlib.LEAN, "SqiGen")))

"""Translator T (C07): the fiat-crypto files of the ref back-end (src/gf/ref/lvl{1,3,5}/fp_p*.c) ->
lean/SqiGen/Fiat{1,3,5}.lean.  Each translated fiat function becomes a *program*: a list of instructions over
numbered registers (`SqiModel.Fiat.Instr`: mulx / adc / sbb / cmov / mov / out, operands = registers, inputs,
literals, +, &, |, <<, >>), executed by the small interpreter `SqiModel.Fiat.run` (core Lean).  Exactly the
statement forms fiat-crypto emits are accepted; anything else raises TranslateError (the check reports it).

Translated: mul, square, add, sub, opp, from_montgomery, to_montgomery, nonzero, selectznz, to_bytes, from_bytes,
set_one.  Not translated (never called by the library): msat, divstep, divstep_precomp."""
import os, re, sys

sys.path.insert(0, os.path.dirname(os.path.dirname(os.path.abspath(__file__))))
from vlib import write_if_changed

FILES = {1: ("fp_p5248.c", "p5248", 4), 3: ("fp_p65376.c", "p65376", 6), 5: ("fp_p27500.c", "p27500", 8)}
FUNCS = ["mul", "square", "add", "sub", "opp", "from_montgomery", "to_montgomery", "nonzero", "selectznz",
         "to_bytes", "from_bytes", "set_one"]
SKIPPED = ["msat", "divstep", "divstep_precomp"]


class TranslateError(Exception):
    pass


def strip_comments(s):
    return re.sub(r"/\*.*?\*/", "", s, flags=re.S)


class Expr:
    """recursive-descent parser for fiat's C expressions -> `SqiModel.Fiat.Opnd` terms. Casts are dropped: every
    operand is evaluated modulo 2^64 by the interpreter and every assignment is truncated to the declared width
    of its target (uint64_t / uint8_t / uint1), which is what the C code does for the value ranges fiat emits."""

    def __init__(self, text, where, scalars):
        self.t = re.findall(r"0x[0-9a-fA-F]+|UINT64_C|UINT8_C|[A-Za-z_][A-Za-z_0-9]*|\d+|<<|>>|[()\[\]+&|]", text)
        if "".join(self.t) != re.sub(r"\s+", "", text):
            raise TranslateError("%s: unsupported expression %r" % (where, text))
        self.i, self.where, self.scalars = 0, where, scalars

    def peek(self, k=0):
        return self.t[self.i + k] if self.i + k < len(self.t) else None

    def eat(self, x=None):
        v = self.peek()
        if v is None or (x is not None and v != x):
            raise TranslateError("%s: expected %r got %r" % (self.where, x, v))
        self.i += 1
        return v

    def parse(self):
        e = self.binop()
        if self.peek() is not None:
            raise TranslateError("%s: trailing tokens %r" % (self.where, self.t[self.i:]))
        return e

    def binop(self):
        e = self.atom()
        while self.peek() in ("+", "&", "|", "<<", ">>"):
            op = self.eat()
            if op in ("<<", ">>"):
                k = self.eat()
                if not re.match(r"\d+$", k):
                    raise TranslateError("%s: shift by a non-literal" % self.where)
                e = "(.%s %s %s)" % ("shl" if op == "<<" else "shr", e, k)
            else:
                r = self.atom()
                e = "(.%s %s %s)" % ({"+": "add", "&": "and", "|": "or"}[op], e, r)
        return e

    def atom(self):
        v = self.peek()
        if v == "(":
            nxt = self.peek(1) or ""
            if nxt in ("uint64_t", "uint8_t") or re.match(r"fiat_\w+_(uint1|int1|uint128)$", nxt):
                if self.peek(2) != ")":
                    raise TranslateError("%s: bad cast" % self.where)
                self.i += 3
                return self.atom()
            self.eat("(")
            e = self.binop()
            self.eat(")")
            return e
        if v in ("UINT64_C", "UINT8_C"):
            self.eat(); self.eat("(")
            lit = self.eat(); self.eat(")")
            return "(.lit %s)" % lit
        if re.match(r"0x[0-9a-fA-F]+$|\d+$", v or ""):
            return "(.lit %s)" % self.eat()
        m = re.match(r"arg(\d)$", v or "")
        if m:
            self.eat()
            if self.peek() == "[":
                self.eat("["); k = self.eat(); self.eat("]")
                return "(.arg %s %s)" % (m.group(1), k)
            if int(m.group(1)) not in self.scalars:
                raise TranslateError("%s: array argument used as scalar" % self.where)
            return "(.arg %s 0)" % m.group(1)
        m = re.match(r"x(\d+)$", v or "")
        if m:
            self.eat()
            return "(.reg %s)" % m.group(1)
        raise TranslateError("%s: unsupported token %r" % (self.where, v))


def split_args(s, where):
    out, depth, cur = [], 0, ""
    for ch in s:
        if ch == "(":
            depth += 1
        elif ch == ")":
            depth -= 1
        if ch == "," and depth == 0:
            out.append(cur.strip()); cur = ""
        else:
            cur += ch
    if cur.strip():
        out.append(cur.strip())
    if depth != 0:
        raise TranslateError("%s: unbalanced" % where)
    return out


def translate_function(src, pfx, name, where):
    m = re.search(r"\nvoid\s+fiat_%s_%s\(([^)]*)\)\s*\{(.*?)\n\}" % (pfx, name), src, re.S)
    if not m:
        raise TranslateError("%s: function fiat_%s_%s not found" % (where, pfx, name))
    params = [" ".join(p.split()) for p in m.group(1).split(",")]
    # parameter kinds: out1 first; argK arrays / scalars
    scalars, nout, arity = set(), None, []
    for p in params:
        mm = re.match(r"(?:const )?(?:uint64_t|uint8_t|fiat_%s_\w+) (out1|arg\d)(?:\[(\d+)\])?$" % pfx, p) or \
             re.match(r"(uint64_t) \*(out1)$", p)
        if not mm:
            raise TranslateError("%s:%s: unsupported parameter %r" % (where, name, p))
        if "out1" in p:
            if p.startswith("uint64_t *"):
                nout = 1
            elif mm.group(2):
                nout = int(mm.group(2))
            else:
                nout = None      # typedef'd field element: n limbs, filled below
        else:
            k = int(re.search(r"arg(\d)", p).group(1))
            if "[" not in p and "element" not in p:
                scalars.add(k)
            arity.append(k)
    body = m.group(2)
    width = {}
    code, outs = [], set()
    for raw in body.split(";"):
        st = " ".join(raw.split()).replace("( ", "(").replace(" )", ")")
        if not st:
            continue
        w = "%s:%s: %s" % (where, name, st[:90])
        mm = re.match(r"(uint64_t|uint8_t|fiat_%s_uint1) x(\d+)$" % pfx, st)
        if mm:
            width[int(mm.group(2))] = {"uint64_t": 64, "uint8_t": 8}.get(mm.group(1), 1)
            continue
        E = lambda t: Expr(t, w, scalars).parse()
        mm = re.match(r"fiat_%s_(addcarryx|subborrowx|mulx)_u64\(&x(\d+), &x(\d+), (.*)\)$" % pfx, st)
        if mm:
            kind, o1, o2, rest = mm.groups()
            args = split_args(rest, w)
            if kind == "mulx":
                if len(args) != 2:
                    raise TranslateError(w)
                code.append(".mulx %s %s %s %s" % (o1, o2, E(args[0]), E(args[1])))
            else:
                if len(args) != 3:
                    raise TranslateError(w)
                code.append(".%s %s %s %s %s %s" % ("adc" if kind == "addcarryx" else "sbb", o1, o2, E(args[0]), E(args[1]), E(args[2])))
            continue
        mm = re.match(r"fiat_%s_cmovznz_u64\(&x(\d+), (.*)\)$" % pfx, st)
        if mm:
            args = split_args(mm.group(2), w)
            if len(args) != 3:
                raise TranslateError(w)
            code.append(".cmov %s %s %s %s" % (mm.group(1), E(args[0]), E(args[1]), E(args[2])))
            continue
        mm = re.match(r"x(\d+) = (.*)$", st)
        if mm:
            r = int(mm.group(1))
            if r not in width:
                raise TranslateError("%s: assignment to undeclared register" % w)
            code.append(".mov %d %d %s" % (r, width[r], E(mm.group(2))))
            continue
        mm = re.match(r"out1\[(\d+)\] = (.*)$", st) or re.match(r"\*out1() = (.*)$", st)
        if mm:
            i = int(mm.group(1) or 0)
            outs.add(i)
            code.append(".out %d %s" % (i, E(mm.group(2))))
            continue
        raise TranslateError("%s: statement outside the accepted subset" % w)
    if nout is None:
        nout = len(outs)
    if sorted(outs) != list(range(nout)):
        raise TranslateError("%s:%s: outputs %r, expected 0..%d" % (where, name, sorted(outs), nout - 1))
    return nout, code


def gen_level(repo, lvl):
    fn, pfx, n = FILES[lvl]
    path = os.path.join(repo, "src", "gf", "ref", "lvl%d" % lvl, fn)
    src = strip_comments(open(path).read())
    out = ["/- GENERATED by tools/translate/fiat.py from src/gf/ref/lvl%d/%s — do not edit." % (lvl, fn),
           "   fiat-crypto functions as instruction lists for `SqiModel.Fiat.run`. -/",
           "import SqiModel.Fiat", "set_option maxRecDepth 100000", "namespace SqiGen.Fiat%d" % lvl, "open SqiModel.Fiat", "",
           "def nlimbs : Nat := %d" % n, ""]
    for f in FUNCS:
        nout, code = translate_function(src, pfx, f, fn)
        chunks = [code[i:i + 64] for i in range(0, len(code), 64)] or [[]]
        for ci, ch in enumerate(chunks):
            out.append("def %s_code%d : List Instr :=\n  [%s]" % (f, ci, ",\n   ".join(ch)))
        out.append("def %s : Prog := ⟨%d, %s⟩\n" % (f, nout, " ++ ".join("%s_code%d" % (f, ci) for ci in range(len(chunks)))))
    # the wrappers at the end of the file: which fiat function implements which fp_* entry point
    for cfn, fiat in (("fp_add", "add"), ("fp_sub", "sub"), ("fp_sqr", "square"), ("fp_mul", "mul"), ("fp_tomont", "to_montgomery"),
                      ("fp_frommont", "from_montgomery"), ("fp_mont_setone", "set_one")):
        if not re.search(r"\n%s\([^)]*\)\s*\{\s*fiat_%s_%s\(" % (cfn, pfx, fiat), src):
            raise TranslateError("%s: wrapper %s does not call fiat_%s_%s" % (fn, cfn, pfx, fiat))
    out.append("end SqiGen.Fiat%d\n" % lvl)
    return "\n".join(out)


def generate(repo, outdir):
    msgs = []
    for lvl in (1, 3, 5):
        if write_if_changed(os.path.join(outdir, "Fiat%d.lean" % lvl), gen_level(repo, lvl)):
            msgs.append("Fiat%d.lean regenerated" % lvl)
    return msgs


if __name__ == "__main__":
    print(generate(sys.argv[1] if len(sys.argv) > 1 else "/repo",
                   sys.argv[2] if len(sys.argv) > 2 else os.path.join(os.path.dirname(__file__), "..", "..", "lean", "SqiGen")))

"""Translator T (C07): the loop function `fp2_pow_vartime` of src/gf/ref/gfx/fp2.c -> lean/SqiGen/Fp2Loops.lean, generic over the
operation record `FpOps α`.  Structured translation: `for (int v = 0; v < BOUND; v++) { … }` (BOUND an `int` parameter or the macro
RADIX, read from tutil.h, 64-bit configuration) becomes `loopAcc 0 BOUND body state` (SqiModel.FpRefSem) whose state is the tuple of the
fp2_t variables assigned in the body; `if (v == 1) { calls }` becomes an `if … then … else` on the assigned variable;
`v = (arr[j] >> i) & 1` a Nat expression (`>>>`, `&&&`, `List.getD`); calls of fp2_mul / fp2_sqr / fp2_copy / fp2_set_one become calls
of the GENERATED straight-line definitions `SqiGen.Fp2Ref.*` (old content of the destination passed as their first argument).
An uninitialised fp2_t local is an explicit extra parameter `<name>_uninit`.  Anything else raises TranslateError."""
import os, re, sys

sys.path.insert(0, os.path.dirname(os.path.dirname(os.path.abspath(__file__))))
sys.path.insert(0, os.path.dirname(os.path.abspath(__file__)))
from vlib import write_if_changed
from fp2ref import split_functions, split_args, TranslateError

FUNCS = ["fp2_pow_vartime"]
CALLS = {"fp2_mul": 2, "fp2_sqr": 1, "fp2_copy": 1, "fp2_set_one": 0}   # number of inputs after the destination
FOR = re.compile(r"for\s*\(\s*int\s+(\w+)\s*=\s*([01])\s*;\s*(\w+)\s*<\s*(\w+)\s*;\s*(\w+)\+\+\s*\)\s*\{")
IF = re.compile(r"if\s*\(\s*(\w+)\s*==\s*1\s*\)\s*\{")
BITEXPR = re.compile(r"(\w+)\s*=\s*\(\s*(\w+)\[(\w+)\]\s*>>\s*(\w+)\s*\)\s*&\s*1$")


def parse_block(s, name):
    out, i = [], 0
    while True:
        while i < len(s) and s[i].isspace():
            i += 1
        if i >= len(s):
            return out
        m = FOR.match(s, i) or IF.match(s, i)
        if m:
            depth, j = 1, m.end()
            while depth:
                if j >= len(s):
                    raise TranslateError("%s: unbalanced braces" % name)
                depth += {"{": 1, "}": -1}.get(s[j], 0)
                j += 1
            body = parse_block(s[m.end():j - 1], name)
            if m.re is FOR:
                if not (m.group(1) == m.group(3) == m.group(5)):
                    raise TranslateError("%s: loop header %r" % (name, m.group(0)))
                out.append(("for" if m.group(2) == "0" else "for1", m.group(1), m.group(4), body))
            else:
                out.append(("if", m.group(1), body))
            i = j
            continue
        j = s.find(";", i)
        if j < 0 or "{" in s[i:j] or "}" in s[i:j]:
            raise TranslateError("%s: statement %r" % (name, s[i:i + 60]))
        out.append(("simple", " ".join(s[i:j].split())))
        i = j + 1


def assigned(stmts, fp2vars, ptr_params):
    """fp2_t variables written in a block, in order of first write"""
    r = []
    for st in stmts:
        if st[0] == "simple":
            m = re.match(r"(\w+)\((.*)\)$", st[1])
            if m and m.group(1) in CALLS:
                d = split_args(m.group(2))[0].strip().lstrip("&")
                if d not in r:
                    r.append(d)
        else:
            for d in assigned(st[-1], fp2vars, ptr_params):
                if d not in r:
                    r.append(d)
    return r


def tup(xs):
    return xs[0] if len(xs) == 1 else "(" + ", ".join(xs) + ")"


def proj(s, k, n):
    if n == 1:
        return s
    return s + ".2" * k + (".1" if k < n - 1 else "")


class Fn:
    def __init__(self, name, params, body, radix):
        self.name, self.radix = name, radix
        self.defs, self.nloop, self.cnt = [], 0, {}
        self.out_params, self.const_fp2, self.arrays, self.ints, self.sig = [], [], [], [], []
        for p in [x.strip() for x in params.split(",") if x.strip()]:
            m = re.match(r"(const\s+)?fp2_t\s*\*\s*(\w+)$", p)
            if m:
                (self.const_fp2 if m.group(1) else self.out_params).append(m.group(2))
                self.sig.append("(%s : Fp2 α)" % m.group(2))
                continue
            m = re.match(r"const\s+digit_t\s*\*\s*(\w+)$", p)
            if m:
                self.arrays.append(m.group(1))
                self.sig.append("(%s : List Nat)" % m.group(1))
                continue
            m = re.match(r"const\s+int\s+(\w+)$", p)
            if m:
                self.ints.append(m.group(1))
                self.sig.append("(%s : Nat)" % m.group(1))
                continue
            raise TranslateError("%s: parameter %r" % (name, p))
        if len(self.out_params) != 1:
            raise TranslateError("%s: exactly one output expected" % name)
        self.locals_fp2, self.scalars = [], []
        self.stmts = parse_block(body, name)

    def fresh(self, v):
        self.cnt[v] = self.cnt.get(v, 0) + 1
        return "%s_%d" % (v, self.cnt[v])

    def val(self, env, v):
        if v not in env:
            raise TranslateError("%s: %r read before being defined" % (self.name, v))
        return env[v]

    def fp2arg(self, a):
        a = a.strip()
        m = re.match(r"&(\w+)$", a)
        if m:
            if m.group(1) not in self.locals_fp2:
                raise TranslateError("%s: &%s is not an fp2_t local" % (self.name, m.group(1)))
            return m.group(1)
        if a in self.out_params or a in self.const_fp2:
            return a
        raise TranslateError("%s: argument %r" % (self.name, a))

    def block(self, stmts, env, lines, loopvars, toplevel=False):
        for st in stmts:
            if st[0] == "simple":
                t = st[1]
                m = re.match(r"fp2_t\s+(\w+)$", t)
                if m and toplevel:
                    self.locals_fp2.append(m.group(1))
                    env[m.group(1)] = m.group(1) + "_uninit"
                    self.sig.append("(%s_uninit : Fp2 α)" % m.group(1))
                    continue
                m = re.match(r"digit_t\s+(\w+)$", t)
                if m and toplevel:
                    self.scalars.append(m.group(1))
                    continue
                m = BITEXPR.match(t)
                if m:
                    v, arr, j, i = m.groups()
                    if v not in self.scalars or arr not in self.arrays or j not in loopvars or i not in loopvars:
                        raise TranslateError("%s: assignment %r" % (self.name, t))
                    n = self.fresh(v)
                    lines.append("let %s := ((%s.getD %s 0) >>> %s) &&& 1" % (n, arr, j, i))
                    env[v] = n
                    continue
                m = re.match(r"(\w+)\((.*)\)$", t)
                if m and m.group(1) in CALLS:
                    args = [self.fp2arg(a) for a in split_args(m.group(2))]
                    if len(args) != CALLS[m.group(1)] + 1 or args[0] in self.const_fp2:
                        raise TranslateError("%s: call %r" % (self.name, t))
                    rhs = "Fp2Ref.%s O %s" % (m.group(1), " ".join(self.val(env, a) for a in args))
                    n = self.fresh(args[0])
                    lines.append("let %s := %s" % (n, rhs))
                    env[args[0]] = n
                    continue
                raise TranslateError("%s: statement %r" % (self.name, t))
            elif st[0] == "if":
                c, body = st[1], st[2]
                if c not in self.scalars or any(b[0] != "simple" for b in body):
                    raise TranslateError("%s: if (%s == 1) body" % (self.name, c))
                ws = assigned(body, None, None)
                if len(ws) != 1:
                    raise TranslateError("%s: if-body must write exactly one variable" % self.name)
                env2, l2 = dict(env), []
                self.block(body, env2, l2, loopvars)
                inner = "(" + "; ".join(l2 + [env2[ws[0]]]) + ")"
                n = self.fresh(ws[0])
                lines.append("let %s := if %s = 1 then %s else %s" % (n, self.val(env, c), inner, self.val(env, ws[0])))
                env[ws[0]] = n
            else:
                if st[0] != "for":
                    raise TranslateError("%s: loop start" % self.name)
                _, v, bound, body = st
                if bound == "RADIX":
                    b = str(self.radix)
                elif bound in self.ints:
                    b = bound
                else:
                    raise TranslateError("%s: loop bound %r" % (self.name, bound))
                ws = assigned(body, None, None)
                for w in ws:
                    self.val(env, w)
                self.nloop += 1
                lname = "%s_loop_%d" % (self.name, self.nloop)
                # the body as a separate definition: state = written fp2_t variables, context = const parameters + enclosing indices
                ctx = ["(%s : Fp2 α)" % c for c in self.const_fp2] + ["(%s : List Nat)" % a for a in self.arrays] + \
                      ["(%s : Nat)" % k for k in self.ints] + ["(%s : Nat)" % k for k in loopvars]
                ctxargs = self.const_fp2 + self.arrays + self.ints + list(loopvars)
                env2 = {c: c for c in self.const_fp2}
                l2 = []
                for k, w in enumerate(ws):
                    l2.append("let %s := %s" % (w, proj("s", k, len(ws))))
                    env2[w] = w
                self.block(body, env2, l2, loopvars + [v])
                sty = " × ".join("Fp2 α" for _ in ws)
                self.defs.append("\n".join(["def %s (O : FpOps α) %s (s : %s) (%s : Nat) : %s :=" % (lname, " ".join(ctx), sty, v, sty)] +
                                           ["  " + l for l in l2] + ["  " + tup([env2[w] for w in ws])]))
                r = self.fresh("loop")
                lines.append("let %s := loopAcc 0 %s (%s O %s) %s" % (r, b, lname, " ".join(ctxargs), tup([env[w] for w in ws])))
                for k, w in enumerate(ws):
                    n = self.fresh(w)
                    lines.append("let %s := %s" % (n, proj(r, k, len(ws))))
                    env[w] = n
                for sc in self.scalars:      # scalars written in a loop body are not tracked across iterations: undefined afterwards
                    env.pop(sc, None)

    def emit(self):
        env = {p: p for p in self.out_params + self.const_fp2}
        lines = []
        self.block(self.stmts, env, lines, [], toplevel=True)
        main = "\n".join(["def %s (O : FpOps α) %s : Fp2 α :=" % (self.name, " ".join(self.sig))] + ["  " + l for l in lines] +
                         ["  " + env[self.out_params[0]]])
        return "\n\n".join(self.defs + [main])


# ---- fp2_batched_inv: arrays as lists (List.set / List.getD), every loop body a separate step definition -------------------------
BI_ARR, BI_Z, BI_SC = ["x", "t1", "t2"], ["z"], ["inverse", "one", "zero"]
BI_ALL = BI_ARR + BI_Z + BI_SC
BI_CALLS = {"fp2_mul": 2, "fp2_copy": 1, "fp2_inv": 0, "fp2_set_one": 0, "fp2_set_zero": 0, "fp2_select": 3}
IDX = re.compile(r"(?:\w+)(?:\s*-\s*\w+)*$")


def bi_ty(v):
    return "List (Fp2 α)" if v in BI_ARR else "List Nat" if v in BI_Z else "Fp2 α"


def bi_translate(name, params, body):
    if [p.strip() for p in params.split(",")] != ["fp2_t *x", "int len"]:
        raise TranslateError("%s: parameters %r" % (name, params))
    stmts = parse_block(body, name)
    decls = [s[1] for s in stmts if s[0] == "simple" and re.match(r"(fp2_t|uint32_t)\s", s[1])]
    if decls != ["fp2_t t1[len], t2[len]", "fp2_t inverse", "fp2_t one, zero", "uint32_t z[len]"]:
        raise TranslateError("%s: declarations %r" % (name, decls))
    stmts = [s for s in stmts if not (s[0] == "simple" and s[1] in decls)]
    defs, cnt, nloop = [], {}, [0]

    def idx(e, ivars):
        e = " ".join(e.split())
        if not IDX.match(e) or any(not (t.isdigit() or t == "len" or t in ivars) for t in re.findall(r"\w+", e)):
            raise TranslateError("%s: index %r" % (name, e))
        return e

    def place(a, ivars):
        a = a.strip()
        m = re.match(r"&(\w+)\[(.*)\]$", a)
        if m and m.group(1) in BI_ARR:
            return (m.group(1), idx(m.group(2), ivars))
        m = re.match(r"&(\w+)$", a)
        if m and m.group(1) in BI_SC:
            return (m.group(1), None)
        raise TranslateError("%s: argument %r" % (name, a))

    def rd(env, pl):
        return env[pl[0]] if pl[1] is None else "(%s.getD (%s) junk)" % (env[pl[0]], pl[1])

    def wr(env, lines, v, i, val):
        cnt[v] = cnt.get(v, 0) + 1
        n = "%s_%d" % (v, cnt[v])
        lines.append("let %s := %s" % (n, val if i is None else "%s.set (%s) (%s)" % (env[v], i, val)))
        env[v] = n

    def written(ss):
        r = []
        for st in ss:
            if st[0] != "simple":
                raise TranslateError("%s: nested control flow" % name)
            m = re.match(r"(\w+)\[[^\]]*\]\s*=", st[1]) or re.match(r"\w+\(\s*&(\w+)", st[1])
            if not m:
                raise TranslateError("%s: statement %r" % (name, st[1]))
            if m.group(1) not in r:
                r.append(m.group(1))
        return r

    def simple(t, env, lines, ivars):
        m = re.match(r"z\[(.*?)\]\s*=\s*fp2_is_zero\((.*)\)$", t)
        if m:
            wr(env, lines, "z", idx(m.group(1), ivars), "Fp2Ref.fp2_is_zero O %s" % rd(env, place(m.group(2), ivars)))
            return
        m = re.match(r"(\w+)\((.*)\)$", t)
        if not m or m.group(1) not in BI_CALLS:
            raise TranslateError("%s: statement %r" % (name, t))
        args = split_args(m.group(2))
        if len(args) != BI_CALLS[m.group(1)] + 1:
            raise TranslateError("%s: arity in %r" % (name, t))
        d = place(args[0], ivars)
        if m.group(1) != "fp2_select":
            ins = [rd(env, place(a, ivars)) for a in args[1:]]
        else:
            mz = re.match(r"\s*z\[(.*)\]$", args[3])
            if not mz:
                raise TranslateError("%s: select control %r" % (name, args[3]))
            ins = [rd(env, place(a, ivars)) for a in args[1:3]] + ["(%s.getD (%s) 0)" % (env["z"], idx(mz.group(1), ivars))]
        wr(env, lines, d[0], d[1], "Fp2Ref.%s O %s %s" % (m.group(1), rd(env, d), " ".join(ins)))

    env = {v: (v if v == "x" else v + "_uninit") for v in BI_ALL}
    lines = []
    for st in stmts:
        if st[0] == "simple":
            simple(st[1], env, lines, [])
        elif st[0] in ("for", "for1"):
            _, v, bound, body = st
            if bound != "len":
                raise TranslateError("%s: loop bound %r" % (name, bound))
            ws = written(body)
            ctx = [c for c in BI_ALL if c not in ws]
            nloop[0] += 1
            lname = "%s_loop_%d" % (name, nloop[0])
            env2, l2 = {c: c for c in BI_ALL}, []
            for k, w in enumerate(ws):
                l2.append("let %s := %s" % (w, proj("s", k, len(ws))))
            for b in body:
                simple(b[1], env2, l2, [v])
            sty = " × ".join(bi_ty(w) for w in ws)
            defs.append("\n".join(["def %s (O : FpOps α) (junk : Fp2 α) (len : Nat) %s (s : %s) (%s : Nat) : %s :=" %
                                   (lname, " ".join("(%s : %s)" % (c, bi_ty(c)) for c in ctx), sty, v, sty)] +
                                  ["  " + l for l in l2] + ["  " + tup([env2[w] for w in ws])]))
            cnt["loop"] = cnt.get("loop", 0) + 1
            r = "loop_%d" % cnt["loop"]
            lines.append("let %s := loopAcc %s len (%s O junk len %s) %s" % (r, "0" if st[0] == "for" else "1", lname,
                                                                             " ".join(env[c] for c in ctx), tup([env[w] for w in ws])))
            for k, w in enumerate(ws):
                wr(env, lines, w, None, proj(r, k, len(ws)))
        else:
            raise TranslateError("%s: control flow" % name)
    sig = "(junk : Fp2 α) (x : List (Fp2 α)) (len : Nat) " + " ".join("(%s_uninit : %s)" % (v, bi_ty(v)) for v in BI_ALL if v != "x")
    main = "\n".join(["def %s (O : FpOps α) %s : List (Fp2 α) :=" % (name, sig)] + ["  " + l for l in lines] + ["  " + env["x"]])
    return "\n\n".join(defs + [main])


def gen(repo):
    fns = split_functions(open(os.path.join(repo, "src", "gf", "ref", "gfx", "fp2.c")).read())
    tutil = open(os.path.join(repo, "src", "common", "generic", "include", "tutil.h")).read()
    if not re.search(r"#define\s+RADIX\s+64\b", tutil):
        raise TranslateError("tutil.h: no 64-bit RADIX")
    out = ["/- GENERATED by tools/translate/fp2loops.py from src/gf/ref/gfx/fp2.c — do not edit.",
           "   Loop functions of fp2.c over an operation record `FpOps α` (RADIX = 64); loops are `loopAcc` over the written fp2_t variables. -/",
           "import SqiGen.Fp2Ref", "", "set_option linter.unusedVariables false", "",
           "namespace SqiGen.Fp2Loops", "open SqiModel.Gf SqiModel.FpRefSem SqiGen", "variable {α : Type}", ""]
    for f in FUNCS:
        if f not in fns:
            raise TranslateError("fp2.c: %s missing" % f)
        out.append(Fn(f, fns[f][1], fns[f][2], 64).emit())
        out.append("")
    if "fp2_batched_inv" not in fns:
        raise TranslateError("fp2.c: fp2_batched_inv missing")
    out.append(bi_translate("fp2_batched_inv", fns["fp2_batched_inv"][1], fns["fp2_batched_inv"][2]))
    out.append("")
    out.append("end SqiGen.Fp2Loops")
    return "\n".join(out) + "\n"


def generate(repo, outdir):
    return ["Fp2Loops.lean regenerated"] if write_if_changed(os.path.join(outdir, "Fp2Loops.lean"), gen(repo)) else []


if __name__ == "__main__":
    print(generate(sys.argv[1] if len(sys.argv) > 1 else "/repo",
                   sys.argv[2] if len(sys.argv) > 2 else os.path.join(os.path.dirname(__file__), "..", "..", "lean", "SqiGen")))

"""Translator T (C07): the straight-line functions of src/gf/ref/gfx/fp2.c -> lean/SqiGen/Fp2Ref.lean, generic over the
operation record `FpOps α` (so `generated = hand model` is stated once for every back-end record).  Accepted statement forms:
declarations of `fp_t` locals, calls of the fp_* API on `&(v->re)`, `&(v->im)`, `&local`, `&ONE`, scalar parameters, and
`return <call> & <call>` / `return <call>`; for fp2_sqrt also `uint32_t v = <mask expression>` (`~`, `&`, `|`, value calls,
`-((uint32_t)buf[0] & 1)`), mask expressions as the last argument of fp_select / fp_cswap, and `fp_encode(buf, &v)` into a local byte buffer.  Anything else raises TranslateError.  Not translated (loops, byte buffers, `~`
): fp2_batched_inv, fp2_encode, fp2_decode, fp2_print; fp2_pow_vartime is translated by fp2loops.py (listed; the set of functions of the
file is checked)."""
import os, re, sys

sys.path.insert(0, os.path.dirname(os.path.dirname(os.path.abspath(__file__))))
from vlib import write_if_changed

TRANSLATED = ["fp2_sqrt", "fp2_set_small", "fp2_set_one", "fp2_set_zero", "fp2_is_zero", "fp2_is_equal", "fp2_is_one", "fp2_select", "fp2_cswap",
              "fp2_copy", "fp2_half", "fp2_add", "fp2_sub", "fp2_neg", "fp2_mul", "fp2_sqr", "fp2_inv", "fp2_is_square"]
NOT_TRANSLATED = ["fp2_encode", "fp2_decode", "fp2_batched_inv", "fp2_pow_vartime", "fp2_print"]
# fp_* call -> (lean op, number of inputs after the output, in-place?)
OUT1 = {"fp_add": ("O.add", 2), "fp_sub": ("O.sub", 2), "fp_mul": ("O.mul", 2), "fp_sqr": ("O.sqr", 1), "fp_neg": ("O.neg", 1),
        "fp_half": ("O.half", 1), "fp_copy": ("", 1), "fp_set_zero": ("O.zero", 0), "fp_set_one": ("O.one", 0), "fp_set_small": ("O.setSmall", 1)}
INPLACE = {"fp_inv": "O.inv", "fp_sqrt": "O.sqrt"}
VALUE = {"fp_is_zero": ("O.isZero", 1), "fp_is_equal": ("O.isEqual", 2), "fp_is_square": ("O.isSquare", 1)}


class TranslateError(Exception):
    pass


def split_functions(src):
    src = re.sub(r"/\*.*?\*/", "", src, flags=re.S)
    src = re.sub(r"//[^\n]*", "", src)
    fns = {}
    for m in re.finditer(r"\n(void|uint32_t)\s*\n(\w+)\(([^)]*)\)\s*\{", src):
        i = m.end()
        depth, j = 1, i
        while depth:
            depth += {"{": 1, "}": -1}.get(src[j], 0)
            j += 1
        fns[m.group(2)] = (m.group(1), m.group(3), src[i:j - 1])
    return fns



ETOK = re.compile(r"\s*(\w+|->|.)")


class Expr:
    """uint32_t mask expressions: | & ~ - ( ) (uint32_t) idents, value calls, buf[0]"""

    def __init__(self, text, name, val, arg, bufs):
        self.t = [m.group(1) for m in ETOK.finditer(text) if m.group(1).strip()]
        self.i, self.name, self.val, self.arg, self.bufs = 0, name, val, arg, bufs

    def peek(self):
        return self.t[self.i] if self.i < len(self.t) else None

    def eat(self, x=None):
        y = self.peek()
        if x is not None and y != x:
            raise TranslateError("%s: expected %r got %r in expression" % (self.name, x, y))
        self.i += 1
        return y

    def parse(self):
        e = self.bor()
        if self.peek() is not None:
            raise TranslateError("%s: trailing %r in expression" % (self.name, self.peek()))
        return e

    def bor(self):
        e = self.band()
        while self.peek() == "|":
            self.eat(); e = "%s ||| %s" % (P(e), P(self.band()))
        return e

    def band(self):
        e = self.un()
        while self.peek() == "&":
            self.eat(); e = "%s &&& %s" % (P(e), P(self.un()))
        return e

    def un(self):
        t = self.peek()
        if t == "~":
            self.eat(); return "not32 %s" % P(self.un())
        if t == "-":
            self.eat(); return "negw 32 %s" % P(self.un())
        if t == "(":
            if self.t[self.i + 1] == "uint32_t" and self.t[self.i + 2] == ")":
                self.i += 3; return "u32 %s" % P(self.un())
            self.eat("("); e = self.bor(); self.eat(")"); return e
        if t == "1":
            self.eat(); return "1"
        name = self.eat()
        if self.peek() == "(":
            depth, j = 0, self.i
            while True:
                depth += {"(": 1, ")": -1}.get(self.t[j], 0)
                j += 1
                if depth == 0:
                    break
            inner = " ".join(self.t[self.i + 1:j - 1]).replace(" - > ", "->").replace("- >", "->")
            self.i = j
            if name not in VALUE:
                raise TranslateError("%s: call of %s in an expression" % (self.name, name))
            op, n = VALUE[name]
            args = [self.arg(a.replace(" ", "")) for a in split_args(inner)]
            if len(args) != n:
                raise TranslateError("%s: arity of %s" % (self.name, name))
            return "%s %s" % (op, " ".join(self.val(a) for a in args))
        if self.peek() == "[":
            self.eat("["); idx = self.eat(); self.eat("]")
            if name not in self.bufs or idx != "0":
                raise TranslateError("%s: buffer access %s[%s]" % (self.name, name, idx))
            return "%s %% 256" % P(self.val(name))     # first little-endian byte of the encoded integer
        return self.val(name)


def P(s):
    return s if re.match(r"[\w.']+$", s) else "(" + s + ")"


def translate(name, ret, params, body):
    env, cnt, lines, bufs = {}, {}, [], set()
    ins, outs = [], []
    for p in [x.strip() for x in params.split(",") if x.strip()]:
        m = re.match(r"(const\s+)?fp2_t\s*\*\s*(\w+)$", p)
        if m:
            v = m.group(2)
            env[(v, "re")], env[(v, "im")] = "%s.re" % v, "%s.im" % v
            ins.append("(%s : Fp2 α)" % v)
            if not m.group(1):
                outs.append(v)
            continue
        m = re.match(r"(?:const\s+)?(uint32_t|digit_t)\s+(\w+)$", p)
        if m:
            env[m.group(2)] = m.group(2)
            ins.append("(%s : Nat)" % m.group(2))
            continue
        raise TranslateError("%s: parameter %r" % (name, p))

    def arg(a):
        a = a.strip()
        m = re.match(r"&\(?\s*(\w+)->(re|im)\s*\)?$", a)
        if m:
            return (m.group(1), m.group(2))
        m = re.match(r"&(\w+)$", a)
        if m:
            return m.group(1)
        if re.match(r"\w+$", a):
            return a
        return ("expr", a)

    def val(k):
        if isinstance(k, tuple) and k[0] == "expr":
            return P(Expr(k[1], name, val, arg, bufs).parse())
        if k == "ONE":
            return "O.one"
        if k not in env:
            raise TranslateError("%s: %r read before being defined" % (name, k))
        return env[k]

    def assign(k, lean):
        base = "%s_%s" % k if isinstance(k, tuple) else k
        cnt[base] = cnt.get(base, 0) + 1
        n = "%s_%d" % (base, cnt[base])
        lines.append("let %s := %s" % (n, lean))
        env[k] = n

    def call_value(text):
        m = re.match(r"(\w+)\((.*)\)$", text.strip())
        if not m or m.group(1) not in VALUE:
            raise TranslateError("%s: value expression %r" % (name, text))
        op, n = VALUE[m.group(1)]
        args = [arg(a) for a in split_args(m.group(2))]
        if len(args) != n:
            raise TranslateError("%s: arity of %s" % (name, m.group(1)))
        return "%s %s" % (op, " ".join(val(a) for a in args))

    result = None
    for st in [s.strip() for s in body.split(";") if s.strip()]:
        m = re.match(r"fp_t\s+(.*)$", st)
        if m:
            for v in m.group(1).split(","):
                env.pop(v.strip(), None)      # declared, undefined until written
            continue
        m = re.match(r"uint8_t\s+(\w+)\[FP_ENCODED_BYTES\]$", st)
        if m:
            bufs.add(m.group(1))
            continue
        m = re.match(r"uint32_t\s+(\w+)\s*=\s*(.*)$", st, flags=re.S)
        if m:
            assign(m.group(1), Expr(m.group(2), name, val, arg, bufs).parse())
            continue
        m = re.match(r"fp_encode\((\w+),\s*&(\w+)\)$", st)
        if m and m.group(1) in bufs:
            assign(m.group(1), "O.encode %s" % val(m.group(2)))
            continue
        m = re.match(r"return\s+(.*)$", st, flags=re.S)
        if m:
            parts = [p for p in re.split(r"\s&\s", m.group(1))]
            result = " &&& ".join(call_value(p) for p in parts)
            continue
        m = re.match(r"(\w+)\((.*)\)$", st, flags=re.S)
        if not m:
            raise TranslateError("%s: statement %r" % (name, st))
        f, args = m.group(1), [arg(a) for a in split_args(m.group(2))]
        if f in OUT1:
            op, n = OUT1[f]
            if len(args) != n + 1:
                raise TranslateError("%s: arity of %s" % (name, f))
            assign(args[0], ("%s %s" % (op, " ".join(val(a) for a in args[1:]))).strip())
        elif f in INPLACE:
            if len(args) != 1:
                raise TranslateError("%s: arity of %s" % (name, f))
            assign(args[0], "%s %s" % (INPLACE[f], val(args[0])))
        elif f == "fp_select":
            if len(args) != 4:
                raise TranslateError("%s: arity of fp_select" % name)
            assign(args[0], "O.select %s %s %s" % (val(args[1]), val(args[2]), val(args[3])))
        elif f == "fp_cswap":
            if len(args) != 3:
                raise TranslateError("%s: arity of fp_cswap" % name)
            cnt["sw"] = cnt.get("sw", 0) + 1
            t = "sw_%d" % cnt["sw"]
            lines.append("let %s := O.cswap %s %s %s" % (t, val(args[0]), val(args[1]), val(args[2])))
            assign(args[0], t + ".1")
            assign(args[1], t + ".2")
        else:
            raise TranslateError("%s: call of %s" % (name, f))
    if ret == "void":
        if not outs:
            raise TranslateError("%s: no output" % name)
        res = ["(⟨%s, %s⟩ : Fp2 α)" % (val((o, "re")), val((o, "im"))) for o in outs]
        result = res[0] if len(res) == 1 else "(" + ", ".join(res) + ")"
        rty = " × ".join("Fp2 α" for _ in outs)
    else:
        if result is None:
            raise TranslateError("%s: no return" % name)
        rty = "Nat"
    return "\n".join(["def %s (O : FpOps α) %s : %s :=" % (name, " ".join(ins), rty)] + ["  " + l for l in lines] + ["  " + result])


def split_args(s):
    out, depth, cur = [], 0, ""
    for ch in s:
        if ch == "(":
            depth += 1
        if ch == ")":
            depth -= 1
        if ch == "," and depth == 0:
            out.append(cur); cur = ""
        else:
            cur += ch
    if cur.strip():
        out.append(cur)
    return out


def gen(repo):
    fns = split_functions(open(os.path.join(repo, "src", "gf", "ref", "gfx", "fp2.c")).read())
    unknown = sorted(set(fns) - set(TRANSLATED) - set(NOT_TRANSLATED))
    missing = sorted(set(TRANSLATED) - set(fns))
    if unknown or missing:
        raise TranslateError("fp2.c: functions outside the translated set: new %r, missing %r" % (unknown, missing))
    out = ["/- GENERATED by tools/translate/fp2ref.py from src/gf/ref/gfx/fp2.c — do not edit.",
           "   The straight-line GF(p²) functions over an operation record `FpOps α`; pointer parameters are inputs, non-const ones are returned. -/",
           "import SqiModel.Gf", "import SqiModel.FpRefSem", "", "set_option linter.unusedVariables false", "",
           "namespace SqiGen.Fp2Ref", "open SqiModel.Gf SqiModel.FpRefSem", "variable {α : Type}", ""]
    for f in TRANSLATED:
        out.append(translate(f, *fns[f]))
        out.append("")
    out.append("end SqiGen.Fp2Ref")
    return "\n".join(out) + "\n"


def generate(repo, outdir):
    return ["Fp2Ref.lean regenerated"] if write_if_changed(os.path.join(outdir, "Fp2Ref.lean"), gen(repo)) else []


if __name__ == "__main__":
    print(generate(sys.argv[1] if len(sys.argv) > 1 else "/repo",
                   sys.argv[2] if len(sys.argv) > 2 else os.path.join(os.path.dirname(__file__), "..", "..", "lean", "SqiGen")))

"""Translator T (C07): the composites of src/gf/ref/gfx/fp.c -> lean/SqiGen/FpRef.lean.
A small structured translator for exactly the statement forms this file uses: calls to the fp_* primitives / fiat
wrappers and to other functions of the file, limb loops `for (i = lo; i < NWORDS_FIELD; i++)`, the accumulate loops of
fp_is_zero / fp_is_equal, the SUBC borrow loop of fp_neg, the bit loop of fp_exp3div4 (memcpy of p, mp_shiftr by one,
`if (bit == 1)`), the `uint32_t` mask idioms (`-(uint32_t)…`, `(uint64_t) * (int32_t *)&ctl`), `return`.  Every integer
variable carries its declared C width and every assignment / arithmetic operation is truncated to it (so narrowing an
accumulator changes the generated text).  Anything else raises TranslateError.  The byte-level functions (fp_encode,
fp_decode, fp_decode_reduce, enc64le, dec64le) and fp_copy are NOT translated (listed in NOT_TRANSLATED; the set of
functions of the file is checked, so a new function is refused).  Semantics of the emitted combinators:
lean/SqiModel/FpRefSem.lean; proofs `generated = hand model`: lean/SqiProofs/FpRefGen.lean."""
import os, re, sys

sys.path.insert(0, os.path.dirname(os.path.dirname(os.path.abspath(__file__))))
from vlib import write_if_changed

TRANSLATED = ["fp_select", "fp_cswap", "fp_set_zero", "fp_set_one", "fp_set_small", "fp_is_equal", "fp_is_zero", "fp_neg",
              "fp_half", "fp_exp3div4", "fp_inv", "fp_is_square", "fp_sqrt"]
NOT_TRANSLATED = ["fp_copy", "enc64le", "dec64le", "fp_encode", "fp_decode_reduce", "fp_decode"]
# primitives (fiat wrappers of fp_p*.c, proved against the extracted programs): name -> (lean function, #inputs after the output)
PRIMS = {"fp_mul": ("Ref.fp_mul P", 2), "fp_sqr": ("Ref.fp_sqr P", 1), "fp_add": ("Ref.fp_add P", 2), "fp_sub": ("Ref.fp_sub P", 2),
         "fp_tomont": ("Ref.fp_tomont P", 1), "fp_frommont": ("Ref.fp_frommont P", 1), "fp_mont_setone": ("Ref.fp_set_one P", 0)}
WIDTH = {"uint64_t": 64, "digit_t": 64, "uint32_t": 32, "unsigned int": 32, "int": 32, "uint8_t": 8}


class TranslateError(Exception):
    pass


TOK = re.compile(r"\s*(0x[0-9a-fA-F]+|\d+|[A-Za-z_]\w*|<<|>>|\^=|\|=|&=|==|\+\+|->|.)")


def tokenize(s):
    out, i = [], 0
    s = s.strip()
    while i < len(s):
        m = TOK.match(s, i)
        if not m:
            raise TranslateError("cannot tokenize %r" % s[i:i + 20])
        out.append(m.group(1))
        i = m.end()
    return out


class Fn:
    def __init__(self, name, ret, params, body):
        self.name, self.ret, self.params, self.body = name, ret, params, body


def split_functions(src):
    src = re.sub(r"/\*.*?\*/", "", src, flags=re.S)
    src = re.sub(r"//[^\n]*", "", src)
    fns = {}
    for m in re.finditer(r"\n((?:static\s+)?(?:inline\s+)?)(void|uint32_t|uint64_t)\s*\n(\w+)\(([^)]*)\)\s*\{", src):
        i = m.end()
        depth, j = 1, i
        while depth:
            depth += {"{": 1, "}": -1}.get(src[j], 0)
            j += 1
        fns[m.group(3)] = Fn(m.group(3), m.group(2), m.group(4), src[i:j - 1])
    return fns


class P:
    """parser/emitter for one function"""

    def __init__(self, fn, allfns):
        self.fn, self.all = fn, allfns
        self.toks = tokenize(fn.body)
        self.i = 0
        self.vars = {}      # name -> ("arr",) | ("int", width) | ("ptr", const?)  ; pointers to fp_t are arrays
        self.lines = []     # emitted `let` lines
        self.inputs, self.outs = [], []
        for p in [x.strip() for x in fn.params.split(",") if x.strip()]:
            m = re.match(r"(const\s+)?fp_t\s*\*\s*(\w+)$", p)
            if m:
                self.vars[m.group(2)] = ("arr",)
                self.inputs.append(m.group(2))
                if not m.group(1):
                    self.outs.append(m.group(2))
                continue
            m = re.match(r"(?:const\s+)?(uint32_t|digit_t|uint64_t)\s+(\w+)$", p)
            if m:
                self.vars[m.group(2)] = ("int", WIDTH[m.group(1)])
                self.inputs.append(m.group(2))
                continue
            raise TranslateError("%s: parameter %r" % (fn.name, p))

    # ---- token helpers
    def peek(self, k=0):
        return self.toks[self.i + k] if self.i + k < len(self.toks) else None

    def eat(self, t=None):
        x = self.peek()
        if t is not None and x != t:
            raise TranslateError("%s: expected %r, got %r (…%s)" % (self.fn.name, t, x, " ".join(self.toks[max(0, self.i - 6):self.i + 4])))
        self.i += 1
        return x

    # ---- expressions: return (lean, width) for integers, (lean, "arr") for arrays
    def typename(self):
        """at '(' : is this a cast?  returns the type string (with '*' suffix for pointers) and consumes it, else None"""
        j = self.i + 1
        words = []
        while self.toks[j] in ("unsigned", "int", "uint64_t", "uint32_t", "digit_t", "uint8_t", "int32_t", "fp_t", "const"):
            words.append(self.toks[j]); j += 1
        if not words:
            return None
        ptr = ""
        while self.toks[j] == "*":
            ptr += "*"; j += 1
        if self.toks[j] != ")":
            return None
        self.i = j + 1
        return " ".join(w for w in words if w != "const") + ptr

    def primary(self):
        t = self.peek()
        if t == "(":
            # (*X) dereference of an array pointer
            if self.peek(1) == "*" and self.peek(3) == ")" and self.vars.get(self.peek(2)) == ("arr",):
                name = self.peek(2)
                self.i += 4
                return self.postfix((self.cur(name), "arr"))
            self.eat("(")
            e = self.expr()
            self.eat(")")
            return self.postfix(e)
        if re.match(r"0x|\d", t):
            self.eat()
            return (str(int(t, 0)), 32 if int(t, 0) < 2 ** 31 else 64)
        if re.match(r"[A-Za-z_]\w*$", t):
            self.eat()
            if self.peek() == "(":
                return self.call_expr(t)
            if t == "p":
                return self.postfix(("P.p", "arr"))
            if t == "NWORDS_FIELD":
                return ("P.n", 32)
            if t == "RADIX":
                return ("64", 32)
            if t not in self.vars:
                raise TranslateError("%s: unknown identifier %s" % (self.fn.name, t))
            v = self.vars[t]
            return self.postfix((self.cur(t), "arr" if v[0] == "arr" else v[1]))
        raise TranslateError("%s: unexpected token %r in expression" % (self.fn.name, t))

    def cur(self, name):
        return self.env.get(name, name)

    def postfix(self, e):
        while self.peek() == "[":
            if e[1] != "arr":
                raise TranslateError("%s: indexing a non-array" % self.fn.name)
            self.eat("[")
            idx = self.expr()
            self.eat("]")
            e = ("limb %s %s" % (paren(e[0]), paren(idx[0])), 64)
        return e

    def call_expr(self, f):
        self.eat("(")
        args = []
        while self.peek() != ")":
            args.append(self.expr())
            if self.peek() == ",":
                self.eat(",")
        self.eat(")")
        if f in ("is_digit_zero_ct", "is_digit_lessthan_ct"):
            return ("%s %s" % (f, " ".join(paren(a[0]) for a in args)), 32)
        if f in self.all and self.all[f].ret != "void" and f in TRANSLATED:
            return ("SqiGen.FpRef.%s P %s" % (f, " ".join(paren(a[0]) for a in args)), WIDTH[self.all[f].ret])
        raise TranslateError("%s: call of %s in an expression" % (self.fn.name, f))

    def unary(self):
        t = self.peek()
        if t == "(":
            save = self.i
            ty = self.typename()
            if ty is not None:
                if ty == "int32_t*":
                    self.eat("&")
                    v = self.eat()
                    if self.vars.get(v) != ("int", 32):
                        raise TranslateError("%s: (int32_t *)& of a non-uint32_t" % self.fn.name)
                    return (self.cur(v), "s32ptr")
                if ty == "fp_t*":
                    self.eat("&")
                    if self.eat() != "p":
                        raise TranslateError("%s: (fp_t *)& of something else than p" % self.fn.name)
                    return ("P.p", "arr")
                e = self.unary()
                if e[1] == "s32":
                    if ty != "uint64_t":
                        raise TranslateError("%s: signed value cast to %s" % (self.fn.name, ty))
                    return ("sext32 %s" % paren(e[0]), 64)
                if ty not in WIDTH or e[1] == "arr":
                    raise TranslateError("%s: cast to %s" % (self.fn.name, ty))
                w = WIDTH[ty]
                return (e[0], w) if (isinstance(e[1], int) and e[1] <= w) else ("u%d %s" % (w, paren(e[0])), w)
            self.i = save
        if t == "-":
            self.eat()
            e = self.unary()
            w = max(e[1], 32)
            return ("negw %d %s" % (w, paren(e[0])), w)
        if t == "*":
            self.eat()
            e = self.unary()
            if e[1] == "s32ptr":
                return (e[0], "s32")
            raise TranslateError("%s: unsupported dereference" % self.fn.name)
        if t == "&":
            self.eat()
            v = self.eat()
            if self.vars.get(v) != ("arr",):
                raise TranslateError("%s: &%s" % (self.fn.name, v))
            return (self.cur(v), "arr")
        return self.primary()

    def binlevel(self, ops, sub):
        e = sub()
        while self.peek() in ops and self.peek(1) != "=":
            op = self.eat()
            r = sub()
            e = self.binop(op, e, r)
        return e

    def binop(self, op, a, b):
        if a[1] == "arr" or b[1] == "arr":
            raise TranslateError("%s: arithmetic on arrays" % self.fn.name)
        w = max(a[1], b[1], 32)
        A, B = paren(a[0]), paren(b[0])
        if op in ("^", "&", "|"):
            return ("%s %s %s" % (A, {"^": "^^^", "&": "&&&", "|": "|||"}[op], B), w)
        if op == "-":
            if getattr(self, "bound_mode", False):
                # loop bounds are `int` constant expressions (NWORDS_FIELD * RADIX - 2): signed, no wrap-around; emitted as
                # plain naturals (exact for 2 <= 64 n < 2^31, a hypothesis of the equivalence theorems)
                return ("%s - %s" % (A, B), w)
            return ("subw %d %s %s" % (w, A, B), w)
        if op == ">>":
            return ("%s / 2 ^ %s" % (A, B), a[1])
        if op == "*" and re.match(r"\d+$", b[0]) or op == "*" and re.match(r"\d+$", a[0]) or op == "*":
            return ("%s * %s" % (A, B), w)      # only used in loop bounds (constants)
        if op == "==":
            return ("(if %s = %s then 1 else 0)" % (A, B), 32)
        raise TranslateError("%s: operator %s" % (self.fn.name, op))

    def expr(self):
        mul = lambda: self.binlevel(("*",), self.unary)
        add = lambda: self.binlevel(("-",), mul)
        sh = lambda: self.binlevel((">>",), add)
        eq = lambda: self.binlevel(("==",), sh)
        band = lambda: self.binlevel(("&",), eq)
        bxor = lambda: self.binlevel(("^",), band)
        return self.binlevel(("|",), bxor)

    # ---- statements; env maps C variable -> current Lean name
    def fresh(self, name):
        self.cnt[name] = self.cnt.get(name, 0) + 1
        return "%s_%d" % (name, self.cnt[name])

    def assign(self, name, lean, out):
        n = self.fresh(name)
        out.append("let %s := %s" % (n, lean))
        self.env[name] = n

    def trunc(self, name, e):
        v = self.vars[name]
        if v[0] == "arr":
            if e[1] != "arr":
                raise TranslateError("%s: integer assigned to array %s" % (self.fn.name, name))
            return e[0]
        if e[1] == "arr":
            raise TranslateError("%s: array assigned to integer %s" % (self.fn.name, name))
        return "u%d %s" % (v[1], paren(e[0]))

    def lvalue(self):
        """returns ('var', name) or ('limb', arrayname, indexlean)"""
        if self.peek() == "(" and self.peek(1) == "*":
            self.eat("("); self.eat("*"); name = self.eat(); self.eat(")")
        else:
            name = self.eat()
        if name not in self.vars:
            raise TranslateError("%s: assignment to unknown %s" % (self.fn.name, name))
        if self.peek() == "[":
            self.eat("[")
            idx = self.expr()
            self.eat("]")
            return ("limb", name, idx[0])
        return ("var", name)

    def decl(self, out):
        words = []
        while self.peek() in ("unsigned", "int", "uint64_t", "uint32_t", "digit_t", "fp_t"):
            words.append(self.eat())
        ty = " ".join(words)
        while True:
            name = self.eat()
            if ty == "fp_t":
                self.vars[name] = ("arr",)
                self.assign(name, "0", out)          # uninitialised local array: every use below follows a full write
            else:
                self.vars[name] = ("int", WIDTH[ty])
                if self.peek() == "=":
                    self.eat("=")
                    self.assign(name, self.trunc(name, self.expr()), out)
                else:
                    self.assign(name, "0", out)
            if self.peek() == ",":
                self.eat(",")
                continue
            self.eat(";")
            return

    def stmt(self, out):
        t = self.peek()
        if t in ("unsigned", "int", "uint64_t", "uint32_t", "digit_t", "fp_t"):
            return self.decl(out)
        if t == "for":
            return self.loop(out)
        if t == "if":
            return self.cond(out)
        if t == "return":
            self.eat()
            e = self.expr()
            self.eat(";")
            if e[1] == "arr":
                raise TranslateError("%s: returns an array" % self.fn.name)
            w = WIDTH[self.fn.ret]
            self.retval = e[0] if e[1] <= w else "u%d %s" % (w, paren(e[0]))
            return
        if t == "{":
            self.eat("{")
            while self.peek() != "}":
                self.stmt(out)
            self.eat("}")
            return
        if re.match(r"[A-Za-z_]\w*$", t) and self.peek(1) == "(":
            return self.call_stmt(out)
        lv = self.lvalue()
        op = self.eat()
        if op not in ("=", "^=", "|="):
            raise TranslateError("%s: assignment operator %s" % (self.fn.name, op))
        e = self.expr()
        self.eat(";")
        if lv[0] == "var":
            name = lv[1]
            if op != "=":
                e = self.binop(op[0], (self.cur(name), self.vars[name][1]), e)
            self.assign(name, self.trunc(name, e), out)
        else:
            _, name, idx = lv
            if e[1] == "arr":
                raise TranslateError("%s: array stored into a limb" % self.fn.name)
            if op != "=":
                e = self.binop(op[0], ("limb %s %s" % (paren(self.cur(name)), paren(idx)), 64), e)
            self.assign(name, "setLimb P.n %s %s %s" % (paren(self.cur(name)), paren(idx), paren(e[0])), out)

    def call_stmt(self, out):
        f = self.eat()
        self.eat("(")
        if f == "memcpy":
            dst = self.copy_operand()
            self.eat(",")
            src = self.copy_operand()
            self.eat(",")
            size = []
            while self.peek() != ";":
                size.append(self.eat())
            size = " ".join(size[:-1])
            if size not in ("sizeof ( fp_t )", "NWORDS_FIELD * RADIX / 8"):
                raise TranslateError("%s: memcpy size %r" % (self.fn.name, size))
            self.eat(";")
            if dst == "P.p":
                raise TranslateError("%s: memcpy into p" % self.fn.name)
            self.assign(dst, src if src == "P.p" else self.cur(src), out)
            return
        if f == "SUBC":
            d = self.lvalue(); self.eat(",")
            bo = self.eat(); self.eat(",")
            a = self.expr(); self.eat(",")
            b = self.expr(); self.eat(",")
            bi = self.expr(); self.eat(")"); self.eat(";")
            if d[0] != "limb" or self.vars.get(bo, ("", 0))[0] != "int":
                raise TranslateError("%s: SUBC operands" % self.fn.name)
            tmp = self.fresh("subc")
            out.append("let %s := subc %s %s %s" % (tmp, paren(a[0]), paren(b[0]), paren(bi[0])))
            self.assign(d[1], "setLimb P.n %s %s %s.1" % (paren(self.cur(d[1])), paren(d[2]), tmp), out)
            self.assign(bo, "u%d %s.2" % (self.vars[bo][1], tmp), out)
            return
        if f == "mp_shiftr":
            x = self.eat(); self.eat(",")
            k = self.eat(); self.eat(",")
            n = self.eat(); self.eat(")"); self.eat(";")
            if (k, n) != ("1", "NWORDS_FIELD") or self.vars.get(x) != ("arr",):
                raise TranslateError("%s: mp_shiftr form" % self.fn.name)
            self.assign(x, "mp_shiftr1 %s" % paren(self.cur(x)), out)
            return
        args = []
        while self.peek() != ")":
            # remember which C variable an argument names (for outputs)
            j = self.i
            e = self.expr()
            cname = None
            toks = self.toks[j:self.i]
            if toks[0] == "&" and len(toks) == 2:
                cname = toks[1]
            elif len(toks) == 1:
                cname = toks[0]
            args.append((e, cname))
            if self.peek() == ",":
                self.eat(",")
        self.eat(")"); self.eat(";")
        if f in PRIMS:
            lean, nin = PRIMS[f]
            if len(args) != nin + 1 or args[0][1] is None:
                raise TranslateError("%s: call %s arity" % (self.fn.name, f))
            self.assign(args[0][1], ("%s %s" % (lean, " ".join(paren(a[0][0]) for a in args[1:]))).strip(), out)
            return
        if f in TRANSLATED and f in self.all:
            callee = P(self.all[f], self.all)
            if len(args) != len(callee.inputs):
                raise TranslateError("%s: call %s arity" % (self.fn.name, f))
            call = "SqiGen.FpRef.%s P %s" % (f, " ".join(paren(a[0][0]) for a in args))
            outs = [args[callee.inputs.index(o)][1] for o in callee.outs]
            if any(o is None for o in outs) or self.all[f].ret != "void":
                raise TranslateError("%s: call %s outputs" % (self.fn.name, f))
            if len(outs) == 1:
                self.assign(outs[0], call.strip(), out)
            else:
                tmp = self.fresh("r")
                out.append("let %s := %s" % (tmp, call))
                for k, o in enumerate(outs):
                    self.assign(o, "%s.%d" % (tmp, k + 1), out)
            return
        raise TranslateError("%s: call of %s" % (self.fn.name, f))

    def copy_operand(self):
        toks = []
        while self.peek() not in (",",):
            toks.append(self.eat())
        s = " ".join(toks)
        m = re.match(r"(?:\( digit_t \* \) )?\*? ?(\w+)$", s)
        if not m:
            raise TranslateError("%s: memcpy operand %r" % (self.fn.name, s))
        name = m.group(1)
        if name == "p":
            return "P.p"
        if self.vars.get(name) != ("arr",):
            raise TranslateError("%s: memcpy operand %r" % (self.fn.name, s))
        return name

    def assigned_in(self, lo, hi):
        """C variables assigned by the statements in toks[lo:hi] (syntactic scan)"""
        names, seq = [], self.toks[lo:hi]
        for k, t in enumerate(seq):
            nm = None
            if t in ("=", "^=", "|=") and seq[k - 1] != "=" and (k + 1 >= len(seq) or seq[k + 1] != "="):
                j = k - 1
                if seq[j] == "]":
                    while seq[j] != "[":
                        j -= 1
                    j -= 1
                if seq[j] == ")":
                    j -= 1
                nm = seq[j]
            elif t in PRIMS or (t in TRANSLATED and k + 1 < len(seq) and seq[k + 1] == "("):
                if t in PRIMS:
                    j = k + 2
                    nm = seq[j + 1] if seq[j] == "&" else seq[j]
                else:
                    callee = P(self.all[t], self.all)
                    # outputs by position: scan the arguments
                    depth, arg, cur, argsl = 0, 0, [], []
                    j = k + 2
                    while not (seq[j] == ")" and depth == 0):
                        if seq[j] == "(":
                            depth += 1
                        if seq[j] == ")":
                            depth -= 1
                        if seq[j] == "," and depth == 0:
                            argsl.append(cur); cur = []
                        else:
                            cur.append(seq[j])
                        j += 1
                    argsl.append(cur)
                    for o in callee.outs:
                        a = argsl[callee.inputs.index(o)]
                        names.append(a[-1])
                    continue
            elif t == "SUBC":
                j = k + 2
                names.append(seq[j + 2] if seq[j] == "(" else seq[j])
                # borrowOut: second argument
                depth, j2, commas = 0, k + 2, 0
                while commas < 1:
                    if seq[j2] == "(":
                        depth += 1
                    if seq[j2] == ")":
                        depth -= 1
                    if seq[j2] == "," and depth == 0:
                        commas += 1
                    j2 += 1
                names.append(seq[j2])
                continue
            elif t == "mp_shiftr":
                nm = seq[k + 2]
            elif t == "memcpy":
                continue
            if nm is not None:
                names.append(nm)
        res = []
        for n in names:
            if n in self.vars and n not in res:
                res.append(n)
        return res

    def block_span(self):
        """token span [lo, hi) of the statement starting at self.i"""
        j = self.i
        if self.toks[j] == "{":
            depth = 0
            while True:
                depth += {"{": 1, "}": -1}.get(self.toks[j], 0)
                j += 1
                if depth == 0:
                    return self.i, j
        depth = 0
        while not (self.toks[j] == ";" and depth == 0):
            depth += {"(": 1, ")": -1}.get(self.toks[j], 0)
            j += 1
        return self.i, j + 1

    def state_tuple(self, names):
        return names[0] if len(names) == 1 else "(" + ", ".join(names) + ")"

    def loop(self, out):
        self.eat("for"); self.eat("(")
        while self.peek() in ("unsigned", "int"):
            self.eat()
        iv = self.eat(); self.eat("=")
        lo = self.eat(); self.eat(";")
        if self.eat() != iv or self.eat() != "<":
            raise TranslateError("%s: loop condition" % self.fn.name)
        self.bound_mode = True
        hi = self.expr(); self.eat(";")
        self.bound_mode = False
        if self.eat() != iv or self.eat() != "++":
            raise TranslateError("%s: loop increment" % self.fn.name)
        self.eat(")")
        if lo not in ("0", "1"):
            raise TranslateError("%s: loop start %s" % (self.fn.name, lo))
        had = iv in self.vars
        self.vars[iv] = ("int", 32)
        a, b = self.block_span()
        state = [n for n in self.assigned_in(a, b) if n != iv]
        if not state:
            raise TranslateError("%s: loop without effect" % self.fn.name)
        # body as a function of (state, i)
        saved_env = dict(self.env)
        for n in state:
            self.env[n] = n + "'"
        self.env[iv] = iv
        body = []
        self.stmt(body)
        res = self.state_tuple([self.env[n] for n in state])
        pat = self.state_tuple([n + "'" for n in state])
        init = self.state_tuple([saved_env.get(n, n) for n in state])
        self.env = saved_env
        if not had:
            del self.vars[iv]
        tmp = self.fresh("loop")
        # the loop body becomes a definition of its own (small terms unfold cheaply in proofs)
        text = "\n".join(body) + "\n" + res
        known = list(self.inputs) + [l.split()[1] for l in out if l.startswith("let ")]
        caps = [k for k in dict.fromkeys(known) if re.search(r"(?<![\w'.])%s(?![\w'])" % re.escape(k), text) and k not in [n + "'" for n in state]]
        bname = "%s_%s" % (self.fn.name, tmp)
        projs = {}
        for k, n in enumerate(state):
            projs[n] = "s" if len(state) == 1 else "s" + (".1" if k == 0 else ".2" * k + (".1" if k < len(state) - 1 else ""))
        self.aux.append("def %s (P : RefParams) %s (s : %s) (%s : Nat) : %s :=\n  %s\n  %s\n  %s" % (
            bname, " ".join("(%s : Nat)" % c for c in caps), " × ".join("Nat" for _ in state), iv, " × ".join("Nat" for _ in state),
            "\n  ".join("let %s' := %s" % (n, projs[n]) for n in state), "\n  ".join(body), res))
        out.append("let %s := loopAcc %s %s (%s P %s) %s" % (tmp, lo, paren(hi[0]), bname, " ".join(caps), init))
        if len(state) == 1:
            self.env[state[0]] = tmp
        else:
            for k, n in enumerate(state):
                proj = ".1" if k == 0 else ".2" * k + (".1" if k < len(state) - 1 else "")
                self.assign(n, tmp + proj, out)

    def cond(self, out):
        self.eat("if"); self.eat("(")
        c = self.expr()
        self.eat(")")
        a, b = self.block_span()
        names = self.assigned_in(a, b)
        saved = dict(self.env)
        body = []
        self.stmt(body)
        if self.peek() == "else":
            raise TranslateError("%s: else branch" % self.fn.name)
        new = {n: self.env[n] for n in names}
        self.env = saved
        tmp = self.fresh("br")
        out.append("let %s := if %s = 1 then (%s; %s) else %s" % (
            tmp, paren(c[0]), "; ".join(body), self.state_tuple([new[n] for n in names]), self.state_tuple([saved.get(n, n) for n in names])))
        if len(names) == 1:
            self.env[names[0]] = tmp
        else:
            for k, n in enumerate(names):
                proj = ".1" if k == 0 else ".2" * k + (".1" if k < len(names) - 1 else "")
                self.assign(n, tmp + proj, out)

    def translate(self):
        self.env, self.cnt, self.retval, self.aux = {}, {}, None, []
        out = []
        while self.peek() is not None:
            self.stmt(out)
        if self.fn.ret == "void":
            if not self.outs:
                raise TranslateError("%s: void function without output" % self.fn.name)
            result = self.state_tuple([self.cur(o) for o in self.outs])
            rty = " × ".join("Nat" for _ in self.outs)
        else:
            if self.retval is None:
                raise TranslateError("%s: no return" % self.fn.name)
            result, rty = self.retval, "Nat"
        args = " ".join("(%s : Nat)" % a for a in self.inputs)
        head = "def %s (P : RefParams) %s : %s :=" % (self.fn.name, args, rty)
        return "\n\n".join(self.aux + ["\n".join([head.replace("  ", " ")] + ["  " + l for l in out] + ["  " + result])])


def paren(s):
    return s if re.match(r"[\w.']+$", s) else "(" + s + ")"


def gen(repo):
    path = os.path.join(repo, "src", "gf", "ref", "gfx", "fp.c")
    fns = split_functions(open(path).read())
    unknown = sorted(set(fns) - set(TRANSLATED) - set(NOT_TRANSLATED))
    missing = sorted(set(TRANSLATED) - set(fns))
    if unknown or missing:
        raise TranslateError("fp.c: functions outside the translated set: new %r, missing %r" % (unknown, missing))
    out = ["/- GENERATED by tools/translate/fpref.py from src/gf/ref/gfx/fp.c — do not edit.",
           "   The composites of the ref GF(p) layer over the fiat primitives (`Ref.fp_mul`, … = the extracted programs, proved).",
           "   Pointer parameters are inputs (the previous content of an output array included); non-const ones are returned. -/",
           "import SqiModel.GfRef", "import SqiModel.FpRefSem", "",
           "set_option linter.unusedVariables false", "", "namespace SqiGen.FpRef", "open SqiModel.Gf SqiModel.FpRefSem", ""]
    order = ["fp_select", "fp_cswap", "fp_set_zero", "fp_set_one", "fp_set_small", "fp_is_equal", "fp_is_zero", "fp_neg",
             "fp_exp3div4", "fp_inv", "fp_half", "fp_is_square", "fp_sqrt"]
    for f in order:
        out.append(P(fns[f], fns).translate())
        out.append("")
    out.append("end SqiGen.FpRef")
    return "\n".join(out) + "\n"


def generate(repo, outdir):
    return ["FpRef.lean regenerated"] if write_if_changed(os.path.join(outdir, "FpRef.lean"), gen(repo)) else []


if __name__ == "__main__":
    print(generate(sys.argv[1] if len(sys.argv) > 1 else "/repo",
                   sys.argv[2] if len(sys.argv) > 2 else os.path.join(os.path.dirname(__file__), "..", "..", "lean", "SqiGen")))

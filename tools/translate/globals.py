#!/usr/bin/env python3
"""Translator T (C19): enumerate every object with static storage duration that is not `const` in the library sources
(file-scope variables and function-local `static`s; tests/benchmarks excluded) -> lean/SqiGen/Globals.lean.
The theorem SqiProps.C19.globals_are_audited states that this list equals the audited allow-list, so a new hidden
static (a cache, a counter, a lazily initialised table) breaks a proof obligation.
Lexical, ctags-level analysis: comments/strings stripped, preprocessor lines dropped (all conditional branches are
scanned), brace depth tracked; a declaration is `[static|extern]? type-words declarator (= init)? ;` at depth 0 that is
not a typedef / prototype / extern / pure type definition, or a `static` declaration inside a function body."""
import os, re, sys

sys.path.insert(0, os.path.dirname(os.path.dirname(os.path.abspath(__file__))))
from vlib import write_if_changed

GUARD = "SQISIGN_SQISIGN2D_WEST_AC24_VERIF"
EXTERNAL_STATE = ["mpf_set_default_prec", "mp_set_memory_functions", "srand", "rand", "random", "setlocale", "signal", "getenv", "setenv",
                  "time", "clock", "clock_gettime", "gettimeofday", "cpucycles", "__rdtsc", "fopen", "open", "syscall", "getrandom"]
SKIP_DIR = re.compile(r"/(test|tests|bench|benchmark|apps?)(/|$)|/_build")


def strip(src):
    src = re.sub(r"/\*.*?\*/", lambda m: "\n" * m.group(0).count("\n"), src, flags=re.S)
    src = re.sub(r"//[^\n]*", "", src)
    src = re.sub(r'"(?:\\.|[^"\\])*"', '""', src)
    src = re.sub(r"'(?:\\.|[^'\\])*'", "'c'", src)
    # drop preprocessor lines (with continuations); blank out regions guarded by the verification-hook macro
    out, cont = [], False
    nest = []          # stack of booleans: True = this conditional level is a hook region (#ifdef GUARD, up to #else/#endif)
    for line in src.split("\n"):
        if cont or re.match(r"\s*#", line):
            if not cont:
                d = re.match(r"\s*#\s*(ifdef|ifndef|if|elif|else|endif)\b(.*)", line)
                if d:
                    kw, rest = d.group(1), d.group(2)
                    if kw in ("ifdef", "if", "ifndef"):
                        nest.append(kw != "ifndef" and GUARD in rest)
                    elif kw in ("else", "elif") and nest:
                        nest[-1] = (kw == "else" and False)
                    elif kw == "endif" and nest:
                        nest.pop()
            cont = line.rstrip().endswith("\\")
            out.append("")
        else:
            out.append("" if any(nest) else line)
    return "\n".join(out)


def statements(src):
    """yield (depth_at_start, text, lineno, in_function) for each ';'-terminated statement, with initialiser braces and
    struct bodies kept inside the statement; function bodies are entered (depth increases)."""
    depth = 0
    cur = []
    start_line = 1
    line = 1
    stack = []          # kind of each open brace: 'fn' | 'init' | 'block'
    i, n = 0, len(src)
    while i < n:
        ch = src[i]
        if ch == "\n":
            line += 1
        if ch == "{":
            text = "".join(cur).strip()
            # initialiser / aggregate type body: keep as part of the statement
            if re.search(r"=\s*$", text) or re.search(r"\b(struct|union|enum)\b[^;{}()]*$", text) or (stack and stack[-1] == "init"):
                stack.append("init"); cur.append(ch)
            else:
                kind = "fn" if (not any(k == "fn" for k in stack) and re.search(r"\)\s*$", text)) else "block"
                stack.append(kind)
                cur = []; start_line = line
        elif ch == "}":
            k = stack.pop() if stack else "block"
            if k == "init":
                cur.append(ch)
            else:
                cur = []; start_line = line
        elif ch == ";" and not (stack and stack[-1] == "init"):
            text = " ".join("".join(cur).split())
            if text:
                yield (any(k == "fn" for k in stack), text, start_line)
            cur = []; start_line = line
        else:
            if not cur and ch.isspace():
                start_line = line + (1 if ch == "\n" else 0)
            cur.append(ch)
        i += 1


DECL = re.compile(r"^(?P<quals>(?:(?:static|extern|const|volatile|unsigned|signed|long|short|struct|union|enum|inline|_Thread_local|__thread|register)\s+)*)"
                  r"(?P<type>[A-Za-z_][A-Za-z_0-9]*)\s*(?P<rest>.*)$")


def parse_decl(text, in_fn):
    """return list of (name, is_const, is_static) for variable declarations in `text`, [] if not a variable declaration"""
    if re.match(r"^(typedef|return|goto|break|continue|case|default|if|else|for|while|do|switch)\b", text):
        return []
    if in_fn and not re.match(r"^static\b", text):
        return []                       # automatic variable / statement
    if re.match(r"^extern\b", text):
        return []                       # declaration only; the definition is found where it lives
    head = text.split("=")[0] if "=" in text else text
    # remove aggregate bodies from the head: `struct x { ... } name`
    head_nobody = re.sub(r"\{[^{}]*\}", "", head)
    if re.match(r"^(static\s+)?(struct|union|enum)\s+[A-Za-z_0-9]*\s*(\{.*\})?\s*$", text):
        return []                       # pure type definition
    if re.search(r"\btypedef\b", head_nobody):
        return []
    if "(" in head_nobody:
        k = head_nobody.index("(")
        mm = re.match(r"\(\s*\*\s*(const\s+)?([A-Za-z_][A-Za-z_0-9]*)", head_nobody[k:])
        if not mm:
            return []                   # function prototype
        return [(mm.group(2), bool(mm.group(1)), bool(re.search(r"\bstatic\b", head_nobody[:k])))]
    m = DECL.match(head_nobody)
    if not m:
        return []
    toks = re.findall(r"[A-Za-z_][A-Za-z_0-9]*|\*|\[|\]|\(|\)|,", head_nobody)
    words = [t for t in toks if re.match(r"[A-Za-z_]", t)]
    if len(words) < 2:
        return []
    # declarator names: identifiers followed by [ , ; = or end, after the type words
    decls = head_nobody
    # strip array dimensions
    decls = re.sub(r"\[[^\]]*\]", "", decls)
    parts = [p.strip() for p in decls.split(",")]
    names = []
    first = parts[0]
    fw = re.findall(r"[A-Za-z_][A-Za-z_0-9]*", first)
    if len(fw) < 2:
        return []
    names.append(fw[-1])
    for p in parts[1:]:
        w = re.findall(r"[A-Za-z_][A-Za-z_0-9]*", p)
        if len(w) == 1:
            names.append(w[0])
    is_static = bool(re.search(r"\bstatic\b", first))
    # const-ness: `const` qualifying the object (before the name, not only the pointee of a pointer declarator)
    before = first[:first.rfind(names[0])]
    if "*" in before:
        is_const = bool(re.search(r"\*\s*const\b", before))
    else:
        is_const = bool(re.search(r"\bconst\b", before))
    return [(nm, is_const, is_static) for nm in names]


def scan(repo):
    found = []
    roots = [os.path.join(repo, "src"), os.path.join(repo, "include")]
    files = []
    for r in roots:
        for d, _, fs in os.walk(r):
            rel = os.path.relpath(d, repo)
            if SKIP_DIR.search("/" + rel + "/"):
                continue
            for f in fs:
                if f.endswith((".c", ".h", ".inc")):
                    files.append(os.path.join(d, f))
    for path in sorted(files):
        rel = os.path.relpath(path, repo)
        src = strip(open(path, errors="replace").read())
        for in_fn, text, line in statements(src):
            for (nm, is_const, is_static) in parse_decl(text, in_fn):
                if is_const:
                    continue
                kind = "local-static" if in_fn else ("file-static" if is_static else "global")
                found.append((rel, nm, kind))
    # stable, duplicate-free
    return sorted(set(found))


def scan_external(repo):
    """(file, function) for every call of a libc/GMP routine that reads or writes process-global state"""
    out = set()
    for r in (os.path.join(repo, "src"), os.path.join(repo, "include")):
        for d, _, fs in os.walk(r):
            rel = os.path.relpath(d, repo)
            if SKIP_DIR.search("/" + rel + "/"):
                continue
            for f in fs:
                if f.endswith((".c", ".h", ".inc")):
                    src = strip(open(os.path.join(d, f), errors="replace").read())
                    for fn in EXTERNAL_STATE:
                        if re.search(r"(?<![A-Za-z_0-9])%s\s*\(" % re.escape(fn), src):
                            out.add((os.path.relpath(os.path.join(d, f), repo), fn))
    return sorted(out)


def generate(repo, outdir):
    items = scan(repo)
    lines = ["/- GENERATED by tools/translate/globals.py from the repo working tree — do not edit.",
             "   Every non-const object with static storage duration in the library sources (tests/benchmarks excluded):",
             "   (file, name, kind) with kind ∈ {global, file-static, local-static}. -/",
             "namespace SqiGen.Globals", "",
             "def mutableStatics : List (String × String × String) := ["]
    lines += ["  (\"%s\", \"%s\", \"%s\")%s" % (f, n, k, "," if i + 1 < len(items) else "") for i, (f, n, k) in enumerate(items)]
    ext = scan_external(repo)
    lines += ["]", "", "/-- calls of external routines that touch process-global state (GMP default precision, libc RNG, clocks, environment, files) -/",
              "def externalStateCalls : List (String × String) := ["]
    lines += ["  (\"%s\", \"%s\")%s" % (f, n, "," if i + 1 < len(ext) else "") for i, (f, n) in enumerate(ext)]
    lines += ["]", "", "end SqiGen.Globals", ""]
    ch = write_if_changed(os.path.join(outdir, "Globals.lean"), "\n".join(lines))
    return ["SqiGen/Globals.lean regenerated (%d objects)" % len(items)] if ch else []


if __name__ == "__main__":
    R = sys.argv[1] if len(sys.argv) > 1 else os.environ.get("VERIF_REPO", "/repo")
    for it in scan(R):
        print(*it)
    for it in scan_external(R):
        print("EXT", *it)

"""Translator T (C14): `ibz_mat_4x8_hnf_core` / `ibz_mat_4x4_hnf_mod` (dim4.c) -> lean/SqiGen/HnfCore.lean.

What is extracted from the C text on every run:
  * the three arithmetic blocks of the Hermite-normal-form loop as Lean functions over an abstract vector type
    (`get`, `lc` = ibz_vec_4_linear_combination, `neg` = ibz_vec_4_negate are parameters, so the file imports nothing):
      - `inner_step`   : the guarded body of the inner `while (j != 0)` loop  (xgcd, the `u == 0` repair, the two linear
                         combinations with their coefficients/signs, the copy into a[k])         -> (a[j]', a[k]')
      - `normalise`    : `b = a[k][i]; if (b < 0) { a[k] = -a[k]; b = -b; }`                        -> (a[k]', b)
      - `reduce_step`  : the body of `for (j = k+1; j < 8; j++)` (truncated quotient, floor adjustment, subtraction) -> a[j]'
    if/else is if-converted (all operations are total), `a[k]`, `a[j]`, `a[k][i]` keep their symbolic indices;
  * the control skeleton as data (`skeleton : List String`): declarations of i, j, k with their initial values, loop
    headers, guards, the integer updates of i/j/k and the places of the three blocks, the input copy loop and the output
    copy loop with their index expressions; likewise for `ibz_mat_4x4_hnf_mod` (construction of [mat | mod·I]).
SqiProps/C14.lean proves: the three blocks = the corresponding pieces of the hand model (`hnfStep`, the normalisation in
`hnfRow`, the body of `hnfReduce`), and skeleton = the control structure the hand model implements (a literal kept next
to the model).  Anything outside the accepted subset is refused loudly.
"""
import os, re, sys

sys.path.insert(0, os.path.dirname(os.path.dirname(os.path.abspath(__file__))))
from vlib import write_if_changed


class TranslateError(Exception):
    pass


def strip_c_comments(s):
    s = re.sub(r"/\*.*?\*/", "", s, flags=re.S)
    return re.sub(r"//[^\n]*", "", s)


def func_body(src, name):
    m = re.search(r"\bvoid\s+%s\s*\(([^)]*)\)\s*\{" % re.escape(name), src)
    if not m:
        raise TranslateError("function %s not found in dim4.c" % name)
    i, depth = m.end(), 1
    while depth:
        if i >= len(src):
            raise TranslateError("unbalanced braces in %s" % name)
        depth += {"{": 1, "}": -1}.get(src[i], 0)
        i += 1
    return src[m.end():i - 1]


def take_braced(s, i, name):
    """s[i] is just after '{' ; returns (inner, index after matching '}')"""
    j, depth = i, 1
    while depth:
        if j >= len(s):
            raise TranslateError("%s: unbalanced block" % name)
        depth += {"{": 1, "}": -1}.get(s[j], 0)
        j += 1
    return s[i:j - 1], j


def take_paren(s, i, name):
    j, depth = i, 1
    while depth:
        if j >= len(s):
            raise TranslateError("%s: unbalanced parenthesis" % name)
        depth += {"(": 1, ")": -1}.get(s[j], 0)
        j += 1
    return s[i:j - 1], j


def parse(s, name):
    """AST: ('stmt', text) | ('while', cond, body) | ('if', cond, then, else|None) | ('for', header, body)"""
    out, i, n = [], 0, len(s)
    while i < n:
        if s[i].isspace():
            i += 1
            continue
        m = re.match(r"(while|if|for)\s*\(", s[i:])
        if m:
            kw = m.group(1)
            cond, j = take_paren(s, i + m.end(), name)
            mm = re.match(r"\s*\{", s[j:])
            if not mm:
                raise TranslateError("%s: %s without braces" % (name, kw))
            body, j = take_braced(s, j + mm.end(), name)
            node_body = parse(body, name)
            if kw == "if":
                me = re.match(r"\s*else\s*\{", s[j:])
                els = None
                if me:
                    eb, j = take_braced(s, j + me.end(), name)
                    els = parse(eb, name)
                out.append(("if", " ".join(cond.split()), node_body, els))
            else:
                out.append((kw, " ".join(cond.split()), node_body))
            i = j
            continue
        j = s.find(";", i)
        if j < 0:
            if s[i:].strip():
                raise TranslateError("%s: trailing text: %r" % (name, s[i:].strip()[:60]))
            break
        out.append(("stmt", " ".join(s[i:j].split())))
        i = j + 1
    return out


# ------------------------------------------------------------------------------------------------ arithmetic blocks
def norm_op(a):
    a = re.sub(r"\s+", "", a)
    while a.startswith("&"):
        a = a[1:]
    while a.startswith("(") and a.endswith(")"):
        a = a[1:-1]
        while a.startswith("&"):
            a = a[1:]
    if not re.match(r"^\w+(\[\w+\]){0,2}$", a):
        raise TranslateError("hnf_core: operand not in subset: %r" % a)
    return a


def split_args(s):
    args, depth, cur = [], 0, ""
    for ch in s:
        if ch == "," and depth == 0:
            args.append(cur); cur = ""; continue
        depth += {"(": 1, "[": 1, ")": -1, "]": -1}.get(ch, 0)
        cur += ch
    if cur.strip():
        args.append(cur)
    return args


class Blk:
    """symbolic execution of a block: scalars and the vectors a[k], a[j], c are Lean expressions"""

    def __init__(self, scal, vec):
        self.scal, self.vec, self.lets, self.n = dict(scal), dict(vec), [], 0

    def fresh(self, expr, ty):
        self.n += 1
        v = "t%d" % self.n
        self.lets.append("  let %s : %s := %s" % (v, ty, expr))
        return v

    def rd(self, op):
        m = re.match(r"^(a\[\w+\])\[(\w+)\]$", op)
        if m:
            if m.group(1) not in self.vec:
                raise TranslateError("hnf_core: read of vector %s not available in this block" % m.group(1))
            return "(get %s %s)" % (self.vec[m.group(1)], m.group(2))
        if op in self.scal:
            return self.scal[op]
        raise TranslateError("hnf_core: read of unassigned scalar %s" % op)

    def rdv(self, op):
        if op not in self.vec:
            raise TranslateError("hnf_core: read of vector %s not available in this block" % op)
        return self.vec[op]

    def cond(self, c):
        m = re.match(r"^(!?)ibz_is_zero\((.*)\)$", c)
        if m:
            return "(%s %s 0)" % (self.rd(norm_op(m.group(2))), "≠" if m.group(1) else "=")
        m = re.match(r"^ibz_cmp\((.*)\)\s*<\s*0$", c)
        if m:
            a, b = [norm_op(x) for x in split_args(m.group(1))]
            return "(%s < %s)" % (self.rd(a), self.rd(b))
        raise TranslateError("hnf_core: condition not in subset: %r" % c)

    def run(self, ast):
        for st in ast:
            if st[0] == "if":
                c = self.cond(st[1])
                s0, v0 = dict(self.scal), dict(self.vec)
                self.run(st[2])
                s1, v1 = self.scal, self.vec
                self.scal, self.vec = dict(s0), dict(v0)
                if st[3] is not None:
                    self.run(st[3])
                s2, v2 = self.scal, self.vec
                self.scal, self.vec = dict(s0), dict(v0)
                for k in sorted(set(s1) | set(s2)):
                    a, b = s1.get(k, s0.get(k)), s2.get(k, s0.get(k))
                    if a != b:
                        if a is None or b is None:
                            continue          # temporary defined on one path only: unusable afterwards (a read raises)
                        self.scal[k] = self.fresh("if %s then %s else %s" % (c, a, b), "Int")
                    else:
                        self.scal[k] = a
                for k in sorted(set(v1) | set(v2)):
                    a, b = v1.get(k, v0.get(k)), v2.get(k, v0.get(k))
                    if a != b:
                        if a is None or b is None:
                            continue
                        self.vec[k] = self.fresh("if %s then %s else %s" % (c, a, b), "V")
                    else:
                        self.vec[k] = a
                continue
            if st[0] != "stmt":
                raise TranslateError("hnf_core: nested %s inside an arithmetic block" % st[0])
            m = re.match(r"^(\w+)\s*\((.*)\)$", st[1])
            if not m:
                raise TranslateError("hnf_core: statement not in subset: %r" % st[1])
            f, raw = m.group(1), split_args(m.group(2))
            if f == "ibz_set":
                lit = raw[1].strip()
                if not re.match(r"^-?\d+$", lit):
                    raise TranslateError("hnf_core: ibz_set with non-literal")
                self.scal[norm_op(raw[0])] = self.fresh(lit if not lit.startswith("-") else "(%s)" % lit, "Int")
                continue
            a = [norm_op(x) for x in raw]
            if f == "ibz_xgcd":
                x, y = self.rd(a[3]), self.rd(a[4])
                g = self.fresh("xgcd %s %s" % (x, y), "Int × Int × Int")
                self.scal[a[0]] = self.fresh("%s.1" % g, "Int")
                self.scal[a[1]] = self.fresh("%s.2.1" % g, "Int")
                self.scal[a[2]] = self.fresh("%s.2.2" % g, "Int")
            elif f == "ibz_div":
                x, y = self.rd(a[2]), self.rd(a[3])
                self.scal[a[0]] = self.fresh("tdiv %s %s" % (x, y), "Int")
                self.scal[a[1]] = self.fresh("tmod %s %s" % (x, y), "Int")
            elif f in ("ibz_sub", "ibz_add", "ibz_mul"):
                x, y = self.rd(a[1]), self.rd(a[2])
                self.scal[a[0]] = self.fresh("%s %s %s" % (x, {"ibz_sub": "-", "ibz_add": "+", "ibz_mul": "*"}[f], y), "Int")
            elif f == "ibz_neg":
                self.scal[a[0]] = self.fresh("-%s" % self.rd(a[1]), "Int")
            elif f == "ibz_copy":
                self.scal[a[0]] = self.fresh(self.rd(a[1]), "Int")
            elif f == "ibz_vec_4_linear_combination":
                e = "lc %s %s %s %s" % (self.rd(a[1]), self.rdv(a[2]), self.rd(a[3]), self.rdv(a[4]))
                self.vec[a[0]] = self.fresh(e, "V")
            elif f == "ibz_vec_4_copy":
                self.vec[a[0]] = self.fresh(self.rdv(a[1]), "V")
            elif f == "ibz_vec_4_negate":
                self.vec[a[0]] = self.fresh("neg %s" % self.rdv(a[1]), "V")
            else:
                raise TranslateError("hnf_core: call not in subset: %s" % f)


PARAMS = "{V : Type} (xgcd : Int → Int → Int × Int × Int) (tdiv tmod : Int → Int → Int) (get : V → Nat → Int)\n" \
         "    (lc : Int → V → Int → V → V) (neg : V → V)"


# ------------------------------------------------------------------------------------------------ control program
FUEL = 16


def only_copies(ast):
    for st in ast:
        if st[0] == "stmt":
            if not re.match(r"^(ibz_copy|ibz_set|\w+_init|\w+_finalize)\(", st[1]):
                return False
        elif st[0] in ("for", "while"):
            if not only_copies(st[2]):
                return False
        else:
            return False
    return True


def int_expr(e, ints):
    e = e.strip()
    m = re.match(r"^(\w+)\s*([+-])\s*(\d+)$", e)
    if m and m.group(1) in ints:
        return "s.%s %s %s" % (m.group(1), m.group(2), m.group(3))
    if e in ints:
        return "s.%s" % e
    if re.match(r"^-?\d+$", e):
        return e if not e.startswith("-") else "(%s)" % e
    raise TranslateError("hnf_core: integer expression not in subset: %r" % e)


def int_cond(c, ints):
    c = c.strip()
    m = re.match(r"^(\w+)\s*(!=|<|==)\s*(-?\d+)$", c)
    if m and m.group(1) in ints:
        lit = m.group(3) if not m.group(3).startswith("-") else "(%s)" % m.group(3)
        op = {"!=": "!=", "==": "==", "<": "<"}[m.group(2)]
        return "(s.%s %s %s)" % (m.group(1), op, lit) if op != "<" else "(decide (s.%s < %s))" % (m.group(1), lit)
    m = re.match(r"^(!?)ibz_is_zero\(\s*&(\w+)\s*\)$", c)
    if m and m.group(2) == "b":
        return "(s.b %s 0)" % ("!=" if m.group(1) else "==")
    raise TranslateError("hnf_core: control condition not in subset: %r" % c)


def prog(ast, ints, marks, ind):
    """Lean term of type `St C` computing the effect of the statement list on `s` (a chain of `let s := …`)"""
    lines = []
    pad = "  " * ind
    for st in ast:
        if id(st) in marks:
            mk = marks[id(st)]
            if mk == "inner":
                lines.append(pad + "let s : St C := { s with a := innerStep s.i.toNat s.k.toNat s.j.toNat s.a }")
            elif mk == "norm":
                lines.append(pad + "let s : St C := { s with a := (normalise s.i.toNat s.k.toNat s.a).1, b := (normalise s.i.toNat s.k.toNat s.a).2 }")
            elif mk == "reduce":
                lines.append(pad + "let s : St C := { s with a := reduceStep s.i.toNat s.k.toNat s.j.toNat s.b s.a }")
            continue
        if st[0] == "stmt":
            t = st[1]
            if re.match(r"^(ibz_t|ibz_vec_4_t|ibz_mat_4x8_t)\b", t) or re.match(r"^\w+_(init|finalize)\(", t) or \
               re.match(r"^int\s+\w+\s*=", t) or t == "ibz_set(&zero, 0)":
                continue
            m = re.match(r"^(\w+)\s*=\s*(.+)$", t)
            if m and m.group(1) in ints:
                lines.append(pad + "let s : St C := { s with %s := %s }" % (m.group(1), int_expr(m.group(2), ints)))
                continue
            raise TranslateError("hnf_core: control statement not in subset: %r" % t)
        if st[0] in ("for", "while") and only_copies(st[2]):
            continue                          # input / output copy loops (kept in `skeleton`)
        if st[0] == "while":
            lines.append(pad + "let s : St C := whileF %d (fun s => %s) (fun s =>" % (FUEL, int_cond(st[1], ints)))
            lines += prog(st[2], ints, marks, ind + 2)
            lines.append(pad + "    s) s")
        elif st[0] == "for":
            m = re.match(r"^(\w+)\s*=\s*([^;]+);\s*([^;]+);\s*(\w+)\s*\+\+$", st[1])
            if not m or m.group(1) != m.group(4) or m.group(1) not in ints:
                raise TranslateError("hnf_core: for-loop header not in subset: %r" % st[1])
            lines.append(pad + "let s : St C := { s with %s := %s }" % (m.group(1), int_expr(m.group(2), ints)))
            lines.append(pad + "let s : St C := whileF %d (fun s => %s) (fun s =>" % (FUEL, int_cond(m.group(3), ints)))
            lines += prog(st[2], ints, marks, ind + 2)
            lines.append(pad + "    let s : St C := { s with %s := s.%s + 1 }" % (m.group(1), m.group(1)))
            lines.append(pad + "    s) s")
        elif st[0] == "if":
            lines.append(pad + "let s : St C := if %s then (" % int_cond(st[1], ints))
            lines += prog(st[2], ints, marks, ind + 2)
            lines.append(pad + "    s) else (")
            if st[3] is not None:
                lines += prog(st[3], ints, marks, ind + 2)
            lines.append(pad + "    s)")
    return lines


# ------------------------------------------------------------------------------------------------ skeleton
def skel(ast, depth, marks, out):
    for st in ast:
        ind = "  " * depth
        if id(st) in marks:
            out.append(ind + marks[id(st)])
            continue
        if st[0] == "stmt":
            t = st[1]
            if re.match(r"^(ibz_t|ibz_vec_4_t|ibz_mat_4x8_t)\b", t) or re.match(r"^\w+_(init|finalize)\(", t):
                continue                      # declarations / init / finalize of GMP objects carry no control
            out.append(ind + t)
        elif st[0] == "if":
            out.append(ind + "if (" + st[1] + ")")
            skel(st[2], depth + 1, marks, out)
            if st[3] is not None:
                out.append(ind + "else")
                skel(st[3], depth + 1, marks, out)
        else:
            sub = []
            skel(st[2], depth + 1, marks, sub)
            if not sub and st[0] == "for":
                continue                      # init / finalize loops over GMP objects
            out.append(ind + "%s (%s)" % (st[0], st[1]))
            out.extend(sub)


def lean_str_list(xs):
    return "[" + ",\n   ".join('"%s"' % x.replace("\\", "\\\\").replace('"', '\\"') for x in xs) + "]"


def generate(repo, outdir):
    src = strip_c_comments(open(os.path.join(repo, "src/quaternion/ref/generic/dim4.c")).read())
    ast = parse(func_body(src, "ibz_mat_4x8_hnf_core"), "ibz_mat_4x8_hnf_core")
    outer = [s for s in ast if s[0] == "while"]
    if len(outer) != 1:
        raise TranslateError("hnf_core: expected exactly one outer while loop")
    outer = outer[0]
    inner = [s for s in outer[2] if s[0] == "while"]
    if len(inner) != 1 or outer[2][0] is not inner[0]:
        raise TranslateError("hnf_core: expected the inner while loop first in the outer body")
    inner = inner[0]
    guards = [s for s in inner[2] if s[0] == "if"]
    if len(guards) != 1:
        raise TranslateError("hnf_core: expected exactly one guarded block in the inner loop")
    guard = guards[0]
    post = outer[2][1:]
    # normalisation = statements up to and including the first `if` of `post`; then the if/else with the reduction loop
    idx = [n for n, s in enumerate(post) if s[0] == "if"]
    if len(idx) < 2:
        raise TranslateError("hnf_core: expected sign normalisation and the b == 0 test after the inner loop")
    norm_ast = post[:idx[0] + 1]
    btest = post[idx[1]]
    if btest[3] is None or len(btest[3]) != 1 or btest[3][0][0] != "for":
        raise TranslateError("hnf_core: expected `if (b == 0) k = k + 1; else for (...) reduce`")
    red = btest[3][0]
    zero = {"zero": "0"}
    out = ["/- GENERATED by tools/translate/hnfcore.py from src/quaternion/ref/generic/dim4.c — do not edit. -/",
           "namespace SqiGen.HnfCore", ""]
    b = Blk(zero, {"a[k]": "ak", "a[j]": "aj"})
    b.run([guard])
    out += ["/-- guarded body of the inner loop `while (j != 0)`: returns (a[j], a[k]) after the step -/",
            "def inner_step %s\n    (i : Nat) (ak aj : V) : V × V :=" % PARAMS] + b.lets + ["  (%s, %s)" % (b.vec["a[j]"], b.vec["a[k]"]), ""]
    b = Blk(zero, {"a[k]": "ak"})
    b.run(norm_ast)
    out += ["/-- sign normalisation of the pivot: returns (a[k], b) -/",
            "def normalise %s\n    (i : Nat) (ak : V) : V × Int :=" % PARAMS] + b.lets + ["  (%s, %s)" % (b.vec["a[k]"], b.scal["b"]), ""]
    b = Blk(dict(zero, b="b"), {"a[k]": "ak", "a[j]": "aj"})
    b.run(red[2])
    out += ["/-- body of the reduction loop `for (j = k + 1; j < 8; j++)`: returns a[j] -/",
            "def reduce_step %s\n    (i : Nat) (b : Int) (ak aj : V) : V :=" % PARAMS] + b.lets + ["  %s" % b.vec["a[j]"], ""]
    marks = {id(guard): "<inner_step: if (%s) ...>" % guard[1]}
    for s in norm_ast:
        marks[id(s)] = None
    sk = []
    # replace the normalisation statements by one mark and the reduction body by one mark
    marks2 = dict(marks)
    first = True
    for s in norm_ast:
        marks2[id(s)] = "<normalise>" if first else "<normalise (cont.)>"
        first = False
    for s in red[2]:
        marks2[id(s)] = "<reduce_step>" if s is red[2][0] else "<reduce_step (cont.)>"
    skel(ast, 0, marks2, sk)
    sk = [x for x in sk if not x.strip().endswith("(cont.)>")]
    out += ["/-- control skeleton of `ibz_mat_4x8_hnf_core` (loop headers, guards, integer updates, copy loops) -/",
            "def skeleton : List String :=\n  " + lean_str_list(sk), ""]
    # ---- the control program
    ints = {}
    for st in ast:
        m = re.match(r"^int\s+(\w+)\s*=\s*(-?\d+)$", st[1]) if st[0] == "stmt" else None
        if m:
            ints[m.group(1)] = int(m.group(2))
    if sorted(ints) != ["i", "j", "k"]:
        raise TranslateError("hnf_core: expected exactly the integer variables i, j, k, found %s" % sorted(ints))
    pm = {id(guard): "inner"}
    for n_, s_ in enumerate(norm_ast):
        pm[id(s_)] = "norm" if n_ == 0 else "skip"
    for n_, s_ in enumerate(red[2]):
        pm[id(s_)] = "reduce" if n_ == 0 else "skip"
    body = prog(ast, ints, pm, 1)
    out += ["/-- state of the control program: the C integers i, j, k, the work array a[0..7] and the scalar b -/",
            "structure St (C : Type) where", "  i : Int", "  j : Int", "  k : Int", "  a : C", "  b : Int", "",
            "/-- `while (c) body` with a fuel bound (the loops of hnf_core run at most 8 times; the theorem",
            "    `SqiProps.C14.hnf_core_text` shows the generated program never runs out of fuel) -/",
            "def whileF {σ : Type} : Nat → (σ → Bool) → (σ → σ) → σ → σ",
            "  | 0, _, _, s => s",
            "  | n + 1, c, f, s => if c s then whileF n c f (f s) else s", "",
            "/-- the control flow of `ibz_mat_4x8_hnf_core` as translated (loops, guards, integer updates), over abstract",
            "    arithmetic blocks; returns the final state (work array, i, j, k) -/",
            "def core {C : Type} (innerStep : Nat → Nat → Nat → C → C) (normalise : Nat → Nat → C → C × Int)",
            "    (reduceStep : Nat → Nat → Nat → Int → C → C) (a0 : C) : St C :=",
            "  let s : St C := { i := %d, j := %d, k := %d, a := a0, b := 0 }" % (ints["i"], ints["j"], ints["k"])] + body + ["  s", ""]
    ast2 = parse(func_body(src, "ibz_mat_4x4_hnf_mod"), "ibz_mat_4x4_hnf_mod")
    sk2 = []
    skel(ast2, 0, {}, sk2)
    out += ["/-- `ibz_mat_4x4_hnf_mod`: construction of the 4x8 input [mat | mod·I] and the call -/",
            "def skeleton_mod : List String :=\n  " + lean_str_list(sk2), "", "end SqiGen.HnfCore", ""]
    changed = write_if_changed(os.path.join(outdir, "HnfCore.lean"), "\n".join(out))
    return ["HnfCore.lean regenerated"] if changed else []


if __name__ == "__main__":
    import vlib
    print(generate(vlib.REPO, os.path.join(vlib.LEAN, "SqiGen")))

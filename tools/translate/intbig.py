#!/usr/bin/env python3
"""Translator T (C17): control flow and mpz-call sequences of selected functions of
src/intbig/ref/generic/intbig.c and src/quaternion/ref/generic/integers.c  ->  lean/SqiGen/Intbig.lean.

Accepted C subset (anything else raises IntbigError = the check fails, by design):
  declarations of mpz_t / ibz_t / int / size_t / mp_limb_t locals (mpz locals start at 0 = mpz_init),
  statement calls of the GMP primitives listed in PRIMS with register (`x`, `*x`, `&x`) or integer-expression operands,
  `v = expr;`, `v++;`, `if / else if / else`, `while (cond) stmt`, `for (int i = 0; i < n; ++i) {…}` (i unused in the body),
  `do {…} while (1);` with `break` / `goto <final label>`, `goto <final label>;`, `return expr;`,
  a final label followed only by mpz_clear calls and `return ret;`.
Preprocessor: DEBUG_VERBOSE and TARGET_BIG_ENDIAN are off, NDEBUG is on (pinned build); DEBUG_STR_* macros are empty.

Each function becomes one Lean definition in the language of lean/SqiModel/CProg.lean: `let` per assignment / mpz call
(re-binding = in-place update), `if`, loop combinators (whileFuel / forN / doLoop) over the tuple of registers the loop
modifies, `match … with | none => Res.ub` for partial operations.  Loop fuels are annotations of this file (FUEL): C has none.
"""
import os, re, sys
sys.path.insert(0, os.path.dirname(os.path.dirname(os.path.abspath(__file__))))
from vlib import write_if_changed


class IntbigError(Exception):
    pass


# name -> (indices of destination arguments, partial?)      (pure functions used in expressions: dest = ())
PRIMS = {
    "mpz_set": ((0,), False), "mpz_set_ui": ((0,), False), "mpz_add": ((0,), False), "mpz_sub": ((0,), False),
    "mpz_mul": ((0,), False), "mpz_add_ui": ((0,), False), "mpz_sub_ui": ((0,), False), "mpz_mod": ((0,), False),
    "mpz_mul_2exp": ((0,), True), "mpz_fdiv_q_2exp": ((0,), False), "mpz_powm": ((0,), False), "mpz_powm_ui": ((0,), False),
    "mpz_mod_ui": ((0,), False), "mpz_roinit_n": ((0,), False), "mpz_tdiv_q_2exp": ((0,), False), "mpz_gcdext": ((0, 1, 2), False), "mpz_tdiv_qr": ((0, 1), False), "mpz_fdiv_qr": ((0, 1), False),
}
PRIMS.update({
    "ibz_set": ((0,), False), "ibz_copy": ((0,), False), "ibz_add": ((0,), False), "ibz_sub": ((0,), False),
    "ibz_mul": ((0,), False), "ibz_div": ((0, 1), True),
})
PURE = {"ibz_cmp", "ibz_is_one", "ibz_is_zero", "mpz_jacobi", "mpz_legendre", "mpz_cmp", "mpz_cmp_ui", "mpz_sgn", "mpz_tstbit", "mpz_scan1", "mpz_sizeinbase", "mpz_fdiv_ui"}
IGNORED = {"mpz_init", "mpz_clear", "ibz_init", "ibz_finalize"}
RES_PRIMS = {"ibz_sqrt": 1}            # primitives returning int and writing their first argument (modelled: Res)
MPZ_TYPES = {"mpz_t", "ibz_t"}
INT_TYPES = {"int", "size_t", "mp_limb_t", "unsigned", "long"}

# function -> (file, lean parameters, result kind, fuel annotations in order of the loops)
FUNCS = [
    ("ibz_div", "src/intbig/ref/generic/intbig.c", dict(kind="out", outs=["quotient", "remainder"], fuels=[])),
    ("ibz_div_2exp", "src/intbig/ref/generic/intbig.c", dict(kind="out", outs=["quotient"], fuels=[])),
    ("ibz_xgcd", "src/intbig/ref/generic/intbig.c", dict(kind="out", outs=["gcd", "u", "v"], fuels=[])),
    ("ibz_mod", "src/intbig/ref/generic/intbig.c", dict(kind="out", outs=["r"], fuels=[])),
    ("ibz_div_floor", "src/intbig/ref/generic/intbig.c", dict(kind="out", outs=["q", "r"], fuels=[])),
    ("ibz_two_adic", "src/intbig/ref/generic/intbig.c", dict(kind="ret", outs=[], fuels=[])),
    ("ibz_crt", "src/intbig/ref/generic/intbig.c", dict(kind="out", outs=["crt"], fuels=[])),
    ("ibz_sqrt_mod_p", "src/intbig/ref/generic/intbig.c", dict(kind="res", outs=["sqrt"], fuels=["q.toNat", "p.toNat - 1"])),
    ("ibz_sqrt_mod_2p", "src/intbig/ref/generic/intbig.c", dict(kind="res", outs=["sqrt"], fuels=[])),
    ("ibz_rand_interval", "src/intbig/ref/generic/intbig.c", dict(kind="res", outs=["rand", "stream"], fuels=["stream.length + 1"], stream=True)),
    ("ibz_cornacchia_prime", "src/quaternion/ref/generic/integers.c", dict(kind="res", outs=["x", "y"], fuels=["p.natAbs + 2"], retvar="res")),
]
RES_FUNCS = {"ibz_sqrt_mod_p": 1, "ibz_sqrt": 1}      # translated callees returning int + writing their first argument


# ------------------------------------------------------------------------------------------- source preparation
def strip(src):
    src = re.sub(r"/\*.*?\*/", lambda m: re.sub(r"[^\n]", " ", m.group(0)), src, flags=re.S)
    src = re.sub(r"//[^\n]*", "", src)
    return src


def preprocess(body):
    """resolve the conditionals of the pinned configuration; refuse any other directive"""
    out, skip = [], []
    for ln in body.split("\n"):
        s = ln.strip()
        if s.startswith("#"):
            m = re.match(r"#\s*(ifdef|ifndef|endif|else)\s*(\w*)", s)
            if not m:
                raise IntbigError("preprocessor directive not in subset: %r" % s)
            d, name = m.groups()
            if d in ("ifdef", "ifndef"):
                known = {"DEBUG_VERBOSE": False, "TARGET_BIG_ENDIAN": False, "NDEBUG": True}
                if name not in known:
                    raise IntbigError("unknown configuration macro %s" % name)
                on = known[name] if d == "ifdef" else not known[name]
                skip.append(not on)
            elif d == "else":
                skip[-1] = not skip[-1]
            else:
                skip.pop()
            out.append("")
            continue
        out.append("" if any(skip) else ln)
    body = "\n".join(out)
    body = re.sub(r"DEBUG_STR_\w+\s*\((?:[^()]|\([^()]*\))*\)\s*;?", "", body)
    return body


def function_body(src, name):
    m = re.search(r"^%s\s*\(([^)]*)\)\s*\{" % re.escape(name), src, re.M)
    if not m:
        raise IntbigError("function %s not found" % name)
    i = m.end() - 1
    depth, j = 0, i
    while True:
        if src[j] == "{":
            depth += 1
        elif src[j] == "}":
            depth -= 1
            if depth == 0:
                break
        j += 1
    params = []
    for p in m.group(1).split(","):
        t = p.replace("const", " ").split()
        nm = t[-1].lstrip("*")
        params.append((nm, t[0]))
    return params, src[i + 1:j]


# ------------------------------------------------------------------------------------------- tokenizer / parser
TOK = re.compile(r"\s*(?:(\d+)(?:UL|ul|U|L)?|([A-Za-z_]\w*)|(<<|>>|<=|>=|==|!=|&&|\|\||&=|\+\+|--|[-+*/%<>=!&|(){}\[\];,:?~^]))")


def tokenize(text):
    toks, i = [], 0
    text = text.rstrip()
    while i < len(text):
        m = TOK.match(text, i)
        if not m:
            if text[i:].strip() == "":
                break
            raise IntbigError("cannot tokenize near %r" % text[i:i + 30])
        if m.group(1) is not None:
            toks.append(("num", int(m.group(1))))
        elif m.group(2) is not None:
            toks.append(("id", m.group(2)))
        else:
            toks.append(("op", m.group(3)))
        i = m.end()
    return toks


class P:
    def __init__(self, toks):
        self.t, self.i = toks, 0

    def peek(self, k=0):
        return self.t[self.i + k] if self.i + k < len(self.t) else ("eof", None)

    def next(self):
        x = self.peek(); self.i += 1; return x

    def accept(self, v):
        if self.peek()[1] == v and self.peek()[0] in ("op", "id"):
            self.i += 1; return True
        return False

    def expect(self, v):
        if not self.accept(v):
            raise IntbigError("expected %r, found %r" % (v, self.peek()))

    # expressions ---------------------------------------------------------------------------------
    LEVELS = [["||"], ["&&"], ["==", "!="], ["<", "<=", ">", ">="], ["<<", ">>"], ["+", "-"], ["*", "/", "%"]]

    def expr(self, lvl=0):
        if lvl == len(self.LEVELS):
            return self.unary()
        a = self.expr(lvl + 1)
        while self.peek()[0] == "op" and self.peek()[1] in self.LEVELS[lvl]:
            op = self.next()[1]
            b = self.expr(lvl + 1)
            a = ("bin", op, a, b)
        return a

    def unary(self):
        k, v = self.peek()
        if k == "op" and v in ("!", "-", "*", "&"):
            self.next()
            e = self.unary()
            return e if v in ("*", "&") else ("un", v, e)      # *x and &x denote the register x
        if k == "op" and v == "(":
            # cast: (int) / (unsigned long int) / (mp_limb_t) ...
            j = 1
            names = []
            while self.peek(j)[0] == "id":
                names.append(self.peek(j)[1]); j += 1
            ptr = False
            if names and self.peek(j) == ("op", "*"):
                ptr = True; j += 1
            if names and self.peek(j) == ("op", ")") and all(n in INT_TYPES | {"unsigned", "int", "long", "signed", "char"} for n in names):
                self.i += j + 1
                inner = self.unary()
                return inner if ptr else ("cast", " ".join(names), inner)
            self.next()
            e = self.expr()
            self.expect(")")
            return e
        if k == "num":
            self.next(); return ("num", v)
        if k == "id":
            self.next()
            if v == "sizeof":
                self.expect("("); t = self.next(); self.expect(")")
                if t[1] != "mp_limb_t":
                    raise IntbigError("sizeof(%s) not in subset" % t[1])
                return ("num", 8)
            if self.accept("("):
                args = []
                if not self.accept(")"):
                    while True:
                        args.append(self.expr())
                        if self.accept(")"):
                            break
                        self.expect(",")
                return ("call", v, args)
            if self.accept("["):
                idx = self.expr(); self.expect("]")
                return ("index", v, idx)
            return ("id", v)
        raise IntbigError("expression not in subset at %r" % (self.peek(),))

    # statements ----------------------------------------------------------------------------------
    def block(self):
        if self.accept("{"):
            out = []
            while not self.accept("}"):
                out += self.stmt()
            return out
        return self.stmt()

    def stmt(self):
        k, v = self.peek()
        if k == "id" and v in MPZ_TYPES | INT_TYPES:
            self.next()
            while self.peek()[0] == "id" and self.peek()[1] in INT_TYPES | {"int"}:
                self.next()
            out = []
            while True:
                name = self.next()[1]
                if self.accept("["):
                    if v != "mp_limb_t":
                        raise IntbigError("array declaration not in subset (%s)" % name)
                    self.expr(); self.expect("]")
                    out.append(("decl", "mpz_t", name, None))      # a limb array is one register (its little-endian value)
                    if self.accept(";"):
                        break
                    self.expect(","); continue
                init = None
                if self.accept("="):
                    init = self.expr()
                out.append(("decl", v, name, init))
                if self.accept(";"):
                    break
                self.expect(",")
            return out
        if k == "id" and v == "if":
            self.next(); self.expect("("); c = self.expr(); self.expect(")")
            th = self.block()
            el = []
            if self.accept("else"):
                el = self.block()
            return [("if", c, th, el)]
        if k == "id" and v == "while":
            self.next(); self.expect("("); c = self.expr(); self.expect(")")
            return [("while", c, self.block())]
        if k == "id" and v == "do":
            self.next(); body = self.block(); self.expect("while"); self.expect("(")
            c = self.expr(); self.expect(")"); self.expect(";")
            if c != ("num", 1):
                raise IntbigError("do-while with a condition other than 1")
            return [("doloop", body)]
        if k == "id" and v == "for":
            self.next(); self.expect("(")
            self.expect("int"); var = self.next()[1]; self.expect("=")
            if self.next() != ("num", 0):
                raise IntbigError("for loop must start at 0")
            self.expect(";")
            if self.next()[1] != var:
                raise IntbigError("for loop condition shape")
            self.expect("<"); hi = self.expr(); self.expect(";")
            if not ((self.accept("++") and self.next()[1] == var) or (self.next()[1] == var and self.accept("++"))):
                raise IntbigError("for loop increment shape")
            self.expect(")")
            return [("for", var, hi, self.block())]
        if k == "id" and v == "goto":
            self.next(); lab = self.next()[1]; self.expect(";")
            return [("goto", lab)]
        if k == "id" and v == "break":
            self.next(); self.expect(";")
            return [("break",)]
        if k == "id" and v == "return":
            self.next()
            e = None if self.peek() == ("op", ";") else self.expr()
            self.expect(";")
            return [("return", e)]
        if k == "id" and self.peek(1) == ("op", ":"):
            self.next(); self.next()
            return [("label", v)]
        if k == "op" and v == ";":
            self.next(); return []
        # expression statement: call, assignment, increment
        e = self.expr()
        if self.accept("="):
            rhs = self.expr(); self.expect(";")
            if e[0] != "id":
                raise IntbigError("assignment target not a variable")
            if rhs[0] == "bin" and rhs[1] == "&&" and rhs[2] == e:
                # short-circuit conjunction: the right operand (possibly a call with a destination) runs only if v != 0
                return [("if", e, [("assignbool", e[1], rhs[3])], [])]
            return [("assign", e[1], rhs)]
        if self.accept("&="):
            rhs = self.expr(); self.expect(";")
            if e[0] != "index":
                raise IntbigError("`&=` is accepted on an indexed limb only")
            return [("andassign", e[1], e[2], rhs)]
        if self.accept("++"):
            self.expect(";")
            return [("assign", e[1], ("bin", "+", e, ("num", 1)))]
        self.expect(";")
        if e[0] != "call":
            raise IntbigError("statement not in subset: %r" % (e,))
        return [("call", e[1], e[2])]


# ------------------------------------------------------------------------------------------- Lean emission
LEAN_KW = {"end", "from", "at", "in", "show", "have", "fun", "do", "then", "else", "if", "with", "open", "mod"}


def ln(name):
    return name + "'" if name in LEAN_KW else name


class Emit:
    def __init__(self, fname, cfg, params):
        self.fname, self.cfg, self.params = fname, cfg, params
        self.fuels = list(cfg["fuels"])
        self.final_label = None
        self.loop_tuple = []
        self.ub = ["Res.ub"]
        self.fuelmap = {}

    # expressions
    def ex(self, e, prop=False):
        k = e[0]
        if k == "num":
            return str(e[1])
        if k == "id":
            return ln(e[1])
        if k == "cast":
            if "mp_limb_t" in e[1] or "unsigned" in e[1]:
                return "(ulOfInt %s)" % self.atom(e[2])
            return self.ex(e[2])
        if k == "un":
            if e[1] == "-":
                return "(-%s)" % self.ex(e[2])
            if e[1] == "!":
                return "(%s = 0)" % self.ex(e[2]) if prop else self.err("`!` outside a condition")
        if k == "call":
            if e[1] in PURE:
                return "(%s %s)" % (self.prim(e[1]), " ".join(self.atom(a) for a in e[2]))
            self.err("call %s inside an expression" % e[1])
        if k == "bin":
            op = e[1]
            if op in ("==", "!=", "<", "<=", ">", ">=", "&&", "||"):
                if not prop:
                    self.err("comparison used as a value")
                m = {"==": "=", "!=": "≠", "&&": "∧", "||": "∨", "<": "<", "<=": "≤", ">": ">", ">=": "≥"}[op]
                if op in ("&&", "||"):
                    return "(%s %s %s)" % (self.cond(e[2]), m, self.cond(e[3]))
                return "(%s %s %s)" % (self.ex(e[2]), m, self.ex(e[3]))
            if op in ("+", "-", "*", "/", "%"):
                return "(%s %s %s)" % (self.ex(e[2]), op, self.ex(e[3]))
            if op in ("<<", ">>"):
                self.err("word shift inside an expression must be the whole right-hand side")
        self.err("expression not in subset: %r" % (e,))

    def atom(self, e):
        s = self.ex(e)
        return s if re.match(r"^[\w']+$", s) or s.startswith("(") else "(" + s + ")"

    def cond(self, e):
        """C condition -> Lean Prop"""
        if e[0] == "bin" and e[1] in ("==", "!=", "<", "<=", ">", ">=", "&&", "||"):
            return self.ex(e, prop=True)
        if e[0] == "un" and e[1] == "!":
            return "(%s = 0)" % self.ex(e[2])
        return "(%s ≠ 0)" % self.ex(e)

    def err(self, msg):
        raise IntbigError("%s: %s" % (self.fname, msg))

    # analysis
    def modified(self, stmts):
        out = []

        def add(v):
            if v not in out:
                out.append(v)
        for s in stmts:
            if s[0] == "call":
                if s[1] in PRIMS:
                    for i in PRIMS[s[1]][0]:
                        add(self.reg(s[2][i]))
                elif s[1] in RES_FUNCS:
                    add(self.reg(s[2][0]))
            elif s[0] == "assign":
                add(s[1])
                if s[2][0] == "call" and s[2][1] == "randombytes":
                    add(self.reg(s[2][2][0])); add("stream")
            elif s[0] == "andassign":
                add(s[1])
            elif s[0] == "assignbool":
                add(s[1])
                if s[2][0] == "call" and s[2][1] in RES_FUNCS:
                    add(self.reg(s[2][2][0]))
            elif s[0] == "decl" and s[3] is not None:
                add(s[2])
            elif s[0] == "if":
                for v in self.modified(s[2]) + self.modified(s[3]) + self.hoisted(s[1]):
                    add(v)
            elif s[0] in ("while",):
                for v in self.modified(s[2]) + self.hoisted(s[1]):
                    add(v)
            elif s[0] == "for":
                for v in self.modified(s[3]):
                    add(v)
            elif s[0] == "doloop":
                for v in self.modified(s[1]):
                    add(v)
        return out

    def transfers(self, stmts):
        """does the block need the continuation-duplicating translation (jump, partial operation, loop with fuel, declaration)?"""
        for s in stmts:
            if s[0] in ("goto", "return", "break", "while", "doloop", "decl"):
                return True
            if s[0] == "call" and ((s[1] in PRIMS and PRIMS[s[1]][1] and not self.literal_count(s)) or s[1] in RES_FUNCS):
                return True
            if s[0] == "call" and any(a[0] == "bin" and a[1] in ("<<", ">>") for a in s[2]):
                return True
            if s[0] == "assignbool" and s[2][0] == "call" and s[2][1] in RES_FUNCS:
                return True
            if s[0] == "assign" and (s[2][0] == "bin" and s[2][1] in ("<<", ">>") or s[2][0] == "call" and s[2][1] in set(RES_FUNCS) | {"randombytes"}):
                return True
            if s[0] == "if" and (self.transfers(s[2]) or self.transfers(s[3])):
                return True
            if s[0] in ("while", "doloop") and self.transfers(s[-1]):
                return True
        return False

    def assign_fuels(self, stmts):
        """fuel annotations are matched to the loops in source order (a loop may be emitted several times)"""
        for s in stmts:
            if s[0] in ("while", "doloop"):
                if not self.fuels:
                    self.err("no fuel annotation for a loop")
                self.fuelmap[id(s)] = self.fuels.pop(0)
            for x in s[1:]:
                if isinstance(x, list) and x and isinstance(x[0], tuple) and isinstance(x[0][0], str):
                    self.assign_fuels(x)

    def fuel_of(self, s):
        return self.fuelmap[id(s)]

    def prim(self, f):
        """Lean name of a primitive: the ibz-layer wrappers used as primitives get a prefix (their translations keep the C name)"""
        return "prim_" + f if f.startswith("ibz_") else f

    def literal_count(self, s):
        return s[1] == "mpz_mul_2exp" and s[2][2][0] == "num"

    def reg(self, e):
        if e[0] != "id":
            self.err("destination operand is not a register: %r" % (e,))
        return e[1]

    def hoisted(self, cond):
        """registers written by calls with a destination inside a condition (mpz_mod_ui)"""
        out = []

        def walk(e):
            if e[0] == "call" and e[1] in PRIMS:
                out.append(self.reg(e[2][0]))
            for x in e[1:]:
                if isinstance(x, tuple):
                    walk(x)
                elif isinstance(x, list):
                    for y in x:
                        walk(y)
        walk(cond)
        return out

    def hoist(self, cond, ind):
        """`if (mpz_mod_ui(tmp, p, 4) == 3)`: emit the store, replace the call by the stored value"""
        pre = []

        def walk(e):
            if e[0] == "call" and e[1] in PRIMS:
                if e[1] != "mpz_mod_ui":
                    self.err("call with a destination inside a condition: %s" % e[1])
                d = self.reg(e[2][0])
                pre.append("%slet %s := %s %s" % (ind, ln(d), e[1], " ".join(self.atom(a) for a in e[2][1:])))
                return ("id", d)
            return tuple(walk(x) if isinstance(x, tuple) else ([walk(y) for y in x] if isinstance(x, list) else x) for x in e)
        c = walk(cond)
        return pre, c

    def tup(self, vs):
        vs = [ln(v) for v in vs]
        return vs[0] if len(vs) == 1 else "(" + ", ".join(vs) + ")"

    # statements: compile `stmts` followed by the continuation text produced by k(indent)
    def comp(self, stmts, ind, k):
        if not stmts:
            return k(ind)
        s, rest = stmts[0], stmts[1:]
        kind = s[0]
        if kind == "decl":
            if s[3] is None:
                # mpz locals start at 0 (mpz_init); an uninitialised int local is bound to 0 (reading it before an
                # assignment would be undefined in C and is not modelled)
                return "%slet %s : Int := 0\n" % (ind, ln(s[2])) + self.comp(rest, ind, k)
            return self.comp([("assign", s[2], s[3])] + rest, ind, k)
        if kind == "assign":
            rhs = s[2]
            if rhs[0] == "bin" and rhs[1] in ("<<", ">>"):
                f = "ulShl" if rhs[1] == "<<" else "ulShr"
                return ("%smatch %s %s %s with\n%s| none => Res.ub\n%s| some %s =>\n" % (
                    ind, f, self.atom(rhs[2]), self.atom(rhs[3]), ind, ind, ln(s[1]))) + self.comp(rest, ind + "  ", k)
            if rhs[0] == "call" and rhs[1] in RES_FUNCS:
                return self.res_call(s[1], rhs, rest, ind, k)
            if rhs[0] == "call" and rhs[1] == "randombytes":
                buf = self.reg(rhs[2][0])
                okb = self.comp(rest, ind + "  ", k)
                failb = self.comp(rest, ind + "  ", k)
                return ("%smatch randombytes stream %s with\n%s| none =>\n%s  let %s : Int := 1\n%s%s| some (%s, stream) =>\n%s  let %s : Int := 0\n%s" % (
                    ind, self.atom(rhs[2][1]), ind, ind, ln(s[1]), failb, ind, ln(buf), ind, ln(s[1]), okb))
            return "%slet %s : Int := %s\n" % (ind, ln(s[1]), self.ex(rhs)) + self.comp(rest, ind, k)
        if kind == "call":
            f, args = s[1], s[2]
            if f in IGNORED:
                return self.comp(rest, ind, k)
            if f not in PRIMS:
                self.err("call of %s is not in the accepted primitive set" % f)
            dests, partial = PRIMS[f]
            ds = [self.reg(args[i]) for i in dests]
            srcs = [args[i] for i in range(len(args)) if i not in dests]
            # a word shift as operand (mpz_set_ui(exp, 1UL << (e - 2))) is a partial operation of its own
            for j, a in enumerate(srcs):
                if a[0] == "bin" and a[1] in ("<<", ">>"):
                    tmpv = "w%d" % j
                    return self.comp([("assign", tmpv, a), ("call", f, [args[i] for i in dests] + srcs[:j] + [("id", tmpv)] + srcs[j + 1:])] + rest, ind, k) \
                        if dests == (0,) else self.err("shift operand in a multi-destination call")
            call = "%s %s" % (self.prim(f), " ".join(self.atom(a) for a in srcs))
            if partial and self.literal_count(s):
                call = "mpz_mul_2exp_lit %s" % " ".join(self.atom(a) for a in srcs)
                partial = False
            if partial:
                return ("%smatch %s with\n%s| none => %s\n%s| some %s =>\n" % (ind, call, ind, self.ub[-1], ind, self.tup(ds))) + self.comp(rest, ind + "  ", k)
            return "%slet %s := %s\n" % (ind, self.tup(ds), call) + self.comp(rest, ind, k)
        if kind == "if":
            pre, c = self.hoist(s[1], ind)
            head = "".join(p + "\n" for p in pre)
            if not self.transfers(s[2]) and not self.transfers(s[3]):
                vs = self.modified(s[2]) + [v for v in self.modified(s[3]) if v not in self.modified(s[2])]
                if not vs:
                    return head + self.comp(rest, ind, k)
                t = self.tup(vs)
                th = self.comp(s[2], ind + "    ", lambda i2: "%s%s\n" % (i2, t))
                el = self.comp(s[3], ind + "    ", lambda i2: "%s%s\n" % (i2, t))
                return head + "%slet %s :=\n%s  if %s then\n%s%s  else\n%s" % (ind, t, ind, self.cond(c), th, ind, el) + self.comp(rest, ind, k)
            th = self.comp(s[2] + rest, ind + "  ", k)
            el = self.comp(s[3] + rest, ind + "  ", k)
            return head + "%sif %s then\n%s%selse\n%s" % (ind, self.cond(c), th, ind, el)
        if kind == "while":
            partial_body = any(st[0] == "call" and st[1] in PRIMS and PRIMS[st[1]][1] for st in s[2])
            if self.hoisted(s[1]) or any(st[0] != "call" or (st[1] not in PRIMS) for st in s[2]) and self.transfers(s[2]):
                self.err("while loop with a jump or a store in its condition")
            fuel = self.fuel_of(s)
            vs = self.modified(s[2])
            t = self.tup(vs)
            if partial_body:
                self.ub.append("none")
                body = self.comp(s[2], ind + "      ", lambda i2: "%ssome %s\n" % (i2, t))
                self.ub.pop()
                return ("%smatch whileFuelO (fun %s => decide %s)\n%s    (fun %s =>\n%s%s    ) (%s) %s with\n%s| none => %s\n%s| some %s =>\n" % (
                    ind, t, self.cond(s[1]), ind, t, body, ind, fuel, t, ind, self.ub[-1], ind, t)) + self.comp(rest, ind + "  ", k)
            body = self.comp(s[2], ind + "      ", lambda i2: "%s%s\n" % (i2, t))
            return ("%smatch whileFuel (fun %s => decide %s)\n%s    (fun %s =>\n%s%s    ) (%s) %s with\n%s| none => Res.ub\n%s| some %s =>\n" % (
                ind, t, self.cond(s[1]), ind, t, body, ind, fuel, t, ind, ind, t)) + self.comp(rest, ind + "  ", k)
        if kind == "for":
            def uses(e, v):
                return e == ("id", v) or any(uses(x, v) if isinstance(x, tuple) else (any(uses(y, v) for y in x) if isinstance(x, list) else False) for x in e[1:])

            def suses(st, v):
                return any(uses(x, v) if isinstance(x, tuple) else (suses(x, v) if isinstance(x, list) else False) for s2 in st for x in s2[1:])
            if self.transfers(s[3]) or suses(s[3], s[1]):
                self.err("for loop with a jump or a use of its counter")
            vs = self.modified(s[3])
            t = self.tup(vs)
            body = self.comp(s[3], ind + "      ", lambda i2: "%s%s\n" % (i2, t))
            return ("%slet %s := forN\n%s    (fun %s =>\n%s%s    ) (%s).toNat %s\n" % (ind, t, ind, t, body, ind, self.ex(s[2]), t)) + self.comp(rest, ind, k)
        if kind == "assignbool":
            rhs = s[2]
            if rhs[0] == "call" and rhs[1] in RES_FUNCS:
                return self.res_call(s[1], rhs, rest, ind, k)
            return "%slet %s : Int := if %s then 1 else 0\n" % (ind, ln(s[1]), self.cond(rhs)) + self.comp(rest, ind, k)
        if kind == "andassign":
            return "%slet %s := maskTopLimb %s %s %s\n" % (ind, ln(s[1]), ln(s[1]), self.atom(s[2]), self.atom(s[3])) + self.comp(rest, ind, k)
        if kind == "doloop":
            fuel = self.fuel_of(s)
            vs = self.modified(s[1])
            t = self.tup(vs)
            self.loop_tuple.append(t)
            body = self.comp(s[1], ind + "      ", lambda i2: "%sStep.next %s\n" % (i2, t))
            self.loop_tuple.pop()
            return ("%smatch doLoop (fun %s =>\n%s%s    ) (%s) %s with\n%s| none => Res.ub\n%s| some (Sum.inr res) => res\n%s| some (Sum.inl %s) =>\n" % (
                ind, t, body, ind, fuel, t, ind, ind, ind, t)) + self.comp(rest, ind + "  ", k)
        if kind == "break":
            if not self.loop_tuple:
                self.err("break outside a do-while loop")
            return "%sStep.stop %s\n" % (ind, self.loop_tuple[-1])
        if kind == "goto":
            if s[1] != self.final_label:
                self.err("goto %s: only the final label is accepted" % s[1])
            if self.loop_tuple:
                return "%sStep.exit (\n%s%s)\n" % (ind, self.epilogue(ind + "  "), ind)
            return self.epilogue(ind)
        if kind == "return":
            return self.ret_text(s[1], ind)
        if kind == "label":
            if s[1] != self.final_label:
                self.err("label %s is not the final label" % s[1])
            for r in rest[:-1]:
                if not (r[0] == "call" and r[1] in IGNORED):
                    self.err("statement after the final label other than mpz_clear: %r" % (r,))
            if not rest or rest[-1][0] != "return":
                self.err("the final label must be followed by `return`")
            return self.ret_text(rest[-1][1], ind)
        self.err("statement not in subset: %r" % (s,))

    def res_call(self, dst, rhs, rest, ind, k):
        f, args = rhs[1], rhs[2]
        out = self.reg(args[0])
        call = "%s %s" % (f if f in ("ibz_sqrt_mod_p",) else self.prim(f), " ".join(self.atom(a) for a in args))
        ok = self.comp(rest, ind + "  ", k)
        fail = self.comp(rest, ind + "  ", k)
        return ("%smatch %s with\n%s| Res.ub => Res.ub\n%s| Res.fail =>\n%s  let %s : Int := 0\n%s%s| Res.ok v =>\n%s  let %s : Int := 1\n%s  let %s : Int := v\n%s" % (
            ind, call, ind, ind, ind, ln(dst), fail, ind, ind, ln(dst), ind, ln(out), ok))

    def ret_text(self, e, ind):
        kind = self.cfg["kind"]
        if kind == "res":
            rv = self.cfg.get("retvar", "ret")
            if e != ("id", rv):
                self.err("int-returning routine must end with `return %s;`" % rv)
            return "%sfinish %s %s\n" % (ind, ln(rv), self.tup(self.cfg["outs"]))
        if kind == "ret":
            return "%s%s\n" % (ind, self.ex(e))
        if kind == "out":
            if e is not None:
                self.err("void routine returns a value")
            return "%s%s\n" % (ind, self.tup(self.cfg["outs"]))
        self.err("unknown result kind")

    def epilogue(self, ind):
        return self.ret_text(("id", self.cfg.get("retvar", "ret")), ind)


def translate(repo, fname, path, cfg):
    src = strip(open(os.path.join(repo, path)).read())
    params, body = function_body(src, fname)
    body = preprocess(body)
    stmts = []
    p = P(tokenize(body))
    while p.peek()[0] != "eof":
        stmts += p.stmt()
    em = Emit(fname, cfg, params)
    labels = [s[1] for s in stmts if s[0] == "label"]
    if len(labels) > 1:
        raise IntbigError("%s: more than one label" % fname)
    em.final_label = labels[0] if labels else None
    # void routines: implicit return at the end
    if cfg["kind"] == "out" and (not stmts or stmts[-1][0] != "return"):
        stmts = stmts + [("return", None)]
    em.assign_fuels(stmts)
    text = em.comp(stmts, "  ", lambda ind: em.err("control reaches the end of the function without return"))
    if em.fuels:
        raise IntbigError("%s: unused fuel annotations (a loop disappeared)" % fname)
    res = {"res": "Res " + ("(Int × List Nat)" if cfg.get("stream") else "Int" if len(cfg["outs"]) == 1 else "(" + " × ".join(["Int"] * len(cfg["outs"])) + ")"),
           "ret": "Int",
           "out": "Int" if len(cfg["outs"]) == 1 else "(" + " × ".join(["Int"] * len(cfg["outs"])) + ")"}[cfg["kind"]]
    sig = " ".join("(%s : Int)" % ln(n) for n, _ in params) + (" (stream : List Nat)" if cfg.get("stream") else "")
    return "/-- translated from %s:%s -/\ndef %s %s : %s :=\n%s" % (path, fname, fname, sig, res, text)


def generate(repo, outdir):
    parts = ["/- GENERATED by tools/translate/intbig.py from intbig.c / integers.c — do not edit.",
             "   One definition per C function, in the language of SqiModel.CProg (let / if / loop combinators / GMP primitives). -/",
             "import SqiModel.CProg", "namespace SqiGen.Intbig", "open SqiModel.Intbig SqiModel.CProg", ""]
    for fname, path, cfg in FUNCS:
        parts.append(translate(repo, fname, path, cfg))
    parts += ["end SqiGen.Intbig", ""]
    return ["SqiGen/Intbig.lean regenerated"] if write_if_changed(os.path.join(outdir, "Intbig.lean"), "\n".join(parts)) else []


if __name__ == "__main__":
    import vlib
    print(generate(vlib.REPO, os.path.join(vlib.LEAN, "SqiGen")))

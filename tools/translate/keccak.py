"""Translator T, Keccak part: src/common/generic/fips202.c -> lean/SqiGen/Keccak.lean.

Re-extracted from the C text on every run:
  * the round-constant table `KeccakF_RoundConstants[NROUNDS]`, `NROUNDS`, the `ROL` macro body;
  * the body of `KeccakF1600_StatePermute`: loads `X = state[k]`, the loop
    `for (round = 0; round < NROUNDS; round += 2) { ... }` whose body is straight-line code over
    uint64_t locals with `=`, `^=`, `^`, `&`, `~`, `ROL(x, n)` and `KeccakF_RoundConstants[round (+1)]`,
    and the stores `state[k] = X`.  The body is emitted as two Lean let-chains
       roundA : State -> UInt64 -> State      (first round of the pair: A-lanes -> E-lanes)
       roundB : State -> UInt64 -> State      (second round: E-lanes -> A-lanes)
    and `round2 s rcA rcB := roundB (roundA s rcA) rcB`, `keccakF` = the loop over the constant table.
    The split point is *checked*: after the first half every E lane is assigned, and the second half
    reads nothing but E lanes and temporaries it has itself assigned (so the 25 E lanes are exactly the
    live variables at the cut) and assigns every A lane.
  * the rate macros and, for each public SHAKE wrapper, the rate macro and domain-separation byte it
    passes to the keccak_* core (`shake256_absorb -> (SHAKE256_RATE, 0x1F)`, ...), and the output lengths
    / rates / domain bytes of the SHA3 wrappers (not used by the library, extracted for completeness).
Anything outside this subset raises TranslateError (the check reports it as a failed obligation).
"""
import os, re, sys

sys.path.insert(0, os.path.dirname(os.path.dirname(os.path.abspath(__file__))))
from vlib import write_if_changed


class TranslateError(Exception):
    pass


def strip_c_comments(s):
    s = re.sub(r"/\*.*?\*/", lambda m: re.sub(r"[^\n]", " ", m.group(0)), s, flags=re.S)
    return re.sub(r"//[^\n]*", "", s)


# ------------------------------------------------------------------ tiny expression parser
TOK = re.compile(r"\s*(0[xX][0-9a-fA-F]+(?:ULL|UL|U|LL|L)?|\d+(?:ULL|UL|U|LL|L)?|[A-Za-z_]\w*|<<|>>|\^=|\|=|[()\[\]^&|~+\-=,;])")


def tokenize(s, where):
    out, i = [], 0
    s = s.strip()
    while i < len(s):
        m = TOK.match(s, i)
        if not m:
            raise TranslateError("%s: cannot tokenize %r" % (where, s[i:i + 30]))
        out.append(m.group(1)); i = m.end()
    return out


def lit(tok):
    return int(re.sub(r"[uUlL]+$", "", tok), 0)


class P:
    """precedence (loosest to tightest):  |   ^   &   << >>   + -   unary ~   primary"""

    def __init__(self, toks, where, idents, allow_rc=False):
        self.t, self.i, self.where, self.idents, self.allow_rc = toks, 0, where, idents, allow_rc
        self.reads, self.rc_used = [], []

    def peek(self):
        return self.t[self.i] if self.i < len(self.t) else None

    def eat(self, x=None):
        tok = self.peek()
        if tok is None or (x is not None and tok != x):
            raise TranslateError("%s: expected %r, got %r" % (self.where, x, tok))
        self.i += 1
        return tok

    def binlevel(self, sub, ops):
        l = sub()
        while self.peek() in ops:
            o = self.eat()
            r = sub()
            l = "(%s %s %s)" % (l, ops[o], r)
        return l

    def expr(self):
        return self.binlevel(self.xor, {"|": "|||"})

    def xor(self):
        return self.binlevel(self.band, {"^": "^^^"})

    def band(self):
        return self.binlevel(self.shift, {"&": "&&&"})

    def shift(self):
        return self.binlevel(self.add, {"<<": "<<<", ">>": ">>>"})

    def add(self):
        return self.binlevel(self.unary, {"+": "+", "-": "-"})

    def unary(self):
        if self.peek() == "~":
            self.eat()
            return "(~~~ %s)" % self.unary()
        return self.primary()

    def primary(self):
        tok = self.eat()
        if tok == "(":
            e = self.expr(); self.eat(")"); return e
        if re.match(r"\d", tok):
            return "%d" % lit(tok)
        if tok == "ROL":
            self.eat("("); a = self.expr(); self.eat(","); n = self.eat(); self.eat(")")
            if not re.match(r"\d+$", n) or not (0 < int(n) < 64):
                raise TranslateError("%s: ROL offset must be a literal in 1..63, got %r" % (self.where, n))
            return "(ROL %s %s)" % (a, n)
        if tok == "KeccakF_RoundConstants" and self.allow_rc:
            self.eat("["); self.eat("round")
            k = 0
            if self.peek() == "+":
                self.eat(); k = lit(self.eat())
            self.eat("]")
            self.rc_used.append(k)
            return "rc"
        if tok in self.idents:
            self.reads.append(tok)
            return tok
        raise TranslateError("%s: identifier %r not in the accepted subset" % (self.where, tok))

    def done(self):
        if self.peek() is not None:
            raise TranslateError("%s: trailing tokens %r" % (self.where, self.t[self.i:]))


def find_function(src, name):
    m = re.search(r"\b%s\s*\(([^)]*)\)\s*\{" % re.escape(name), src)
    if not m:
        raise TranslateError("function %s not found" % name)
    i, depth = m.end(), 1
    while depth:
        if i >= len(src):
            raise TranslateError("unbalanced braces in %s" % name)
        depth += {"{": 1, "}": -1}.get(src[i], 0)
        i += 1
    return m.group(1), src[m.end():i - 1]


def statements(body, where):
    out = []
    for st in body.split(";"):
        st = st.strip()
        if st:
            if "{" in st or "}" in st:
                raise TranslateError("%s: nested block not in subset: %r" % (where, st[:60]))
            out.append(st)
    return out


def extract(repo):
    path = os.path.join(repo, "src/common/generic/fips202.c")
    src = strip_c_comments(open(path).read())
    d = {}
    # ---- macros
    for name in ("NROUNDS", "SHAKE128_RATE", "SHAKE256_RATE", "SHA3_256_RATE", "SHA3_384_RATE", "SHA3_512_RATE"):
        ms = re.findall(r"^\s*#\s*define\s+%s\s+(\d+)\s*$" % name, src, re.M)
        if len(ms) != 1:
            raise TranslateError("macro %s: expected exactly one numeric #define, found %d" % (name, len(ms)))
        d[name] = int(ms[0])
    ms = re.findall(r"^\s*#\s*define\s+ROL\s*\(\s*a\s*,\s*offset\s*\)\s+(.*)$", src, re.M)
    if len(ms) != 1:
        raise TranslateError("macro ROL(a, offset): expected exactly one definition")
    p = P(tokenize(ms[0], "ROL macro"), "ROL macro", {"a", "offset"})
    d["ROL"] = p.expr(); p.done()
    # ---- round constants
    m = re.search(r"static\s+const\s+uint64_t\s+KeccakF_RoundConstants\s*\[\s*NROUNDS\s*\]\s*=\s*\{([^}]*)\}\s*;", src)
    if not m:
        raise TranslateError("KeccakF_RoundConstants[NROUNDS] initialiser not found")
    rcs = [x.strip() for x in m.group(1).split(",") if x.strip()]
    for x in rcs:
        if not re.match(r"0[xX][0-9a-fA-F]{1,16}ULL$", x):
            raise TranslateError("round constant %r not a 64-bit hex literal" % x)
    d["RC"] = [lit(x) for x in rcs]
    if len(d["RC"]) > d["NROUNDS"]:
        raise TranslateError("more round constants than NROUNDS")
    d["RC"] += [0] * (d["NROUNDS"] - len(d["RC"]))      # C zero-fills a short initialiser
    # ---- the permutation
    args, body = find_function(src, "KeccakF1600_StatePermute")
    if not re.match(r"\s*uint64_t\s*\*\s*state\s*$", args):
        raise TranslateError("KeccakF1600_StatePermute: unexpected parameters %r" % args)
    m = re.search(r"for\s*\(\s*round\s*=\s*0\s*;\s*round\s*<\s*NROUNDS\s*;\s*round\s*\+=\s*2\s*\)\s*\{", body)
    if not m:
        raise TranslateError("KeccakF1600_StatePermute: loop header is not `for (round = 0; round < NROUNDS; round += 2)`")
    if d["NROUNDS"] % 2:
        raise TranslateError("NROUNDS odd: the two-round loop would index past the table")
    pre = body[:m.start()]
    j, depth = m.end(), 1
    while depth:
        depth += {"{": 1, "}": -1}.get(body[j], 0); j += 1
    loop, post = body[m.end():j - 1], body[j:]
    idents, loads = [], {}
    for st in statements(pre, "permute prologue"):
        if re.match(r"int\s+round$", st):
            continue
        mm = re.match(r"uint64_t\s+(.*)$", st, re.S)
        if mm:
            idents += [x.strip() for x in mm.group(1).split(",")]
            continue
        mm = re.match(r"(\w+)\s*=\s*state\s*\[\s*(\d+)\s*\]$", st)
        if mm and mm.group(1) in idents:
            if mm.group(1) in loads:
                raise TranslateError("lane variable %s loaded twice" % mm.group(1))
            loads[mm.group(1)] = int(mm.group(2)); continue
        raise TranslateError("permute prologue: statement not in subset: %r" % st)
    if sorted(loads.values()) != list(range(25)):
        raise TranslateError("permute prologue: the loads do not cover state[0..24] exactly once")
    for x in idents:
        if not re.match(r"[A-Za-z_]\w*$", x):
            raise TranslateError("bad identifier %r" % x)
    stores = {}
    for st in statements(post, "permute epilogue"):
        mm = re.match(r"state\s*\[\s*(\d+)\s*\]\s*=\s*(\w+)$", st)
        if not mm or mm.group(2) not in idents:
            raise TranslateError("permute epilogue: statement not in subset: %r" % st)
        stores[int(mm.group(1))] = mm.group(2)
    if sorted(stores) != list(range(25)) or any(loads[stores[k]] != k for k in stores):
        raise TranslateError("permute epilogue: state[k] is not stored from the variable loaded from state[k]")
    a_of = {k: v for v, k in loads.items()}                    # lane index -> A variable
    a_vars = set(loads)
    e_of = {}
    for k, a in a_of.items():
        e = "E" + a[1:]
        if not a.startswith("A") or e not in idents:
            raise TranslateError("no E-lane counterpart for %s" % a)
        e_of[k] = e
    e_vars = set(e_of.values())
    # ---- loop body: list of (target, leanexpr, reads, rc index)
    sts = []
    for st in statements(loop, "permute loop"):
        mm = re.match(r"(\w+)\s*(\^=|=)\s*(.*)$", st, re.S)
        if not mm or mm.group(1) not in idents:
            raise TranslateError("permute loop: statement not in subset: %r" % st[:80])
        p = P(tokenize(mm.group(3), "permute loop `%s`" % st[:40]), "permute loop `%s`" % st[:40], set(idents), allow_rc=True)
        e = p.expr(); p.done()
        reads = list(p.reads)
        if mm.group(2) == "^=":
            e = "(%s ^^^ %s)" % (mm.group(1), e); reads.append(mm.group(1))
        sts.append((mm.group(1), e, reads, p.rc_used))
    # split point: first position after which every E lane has been assigned
    seen, cut = set(), None
    for i, (t, _, _, _) in enumerate(sts):
        seen.add(t)
        if e_vars <= seen:
            cut = i + 1; break
    if cut is None:
        raise TranslateError("permute loop: not every E lane is assigned")

    def check_half(half, inputs, outputs, rcidx, name):
        defined = set(inputs)
        for t, _, reads, rc in half:
            for r in reads:
                if r not in defined:
                    raise TranslateError("%s: reads %s before it is assigned in this half (live-variable check of the cut failed)" % (name, r))
            for k in rc:
                if k != rcidx:
                    raise TranslateError("%s: uses KeccakF_RoundConstants[round + %d], expected [round + %d]" % (name, k, rcidx))
            defined.add(t)
        assigned = {t for t, _, _, _ in half}
        if not outputs <= assigned:
            raise TranslateError("%s: output lanes never assigned: %s" % (name, sorted(outputs - assigned)))
        if sum(len(rc) for _, _, _, rc in half) != 1:
            raise TranslateError("%s: expected exactly one use of the round constant" % name)

    check_half(sts[:cut], a_vars, e_vars, 0, "roundA")
    check_half(sts[cut:], e_vars, a_vars, 1, "roundB")
    d["a_of"], d["e_of"], d["halfA"], d["halfB"] = a_of, e_of, sts[:cut], sts[cut:]
    # ---- wrappers: rate macro and domain byte handed to the keccak_* core
    wr = {}
    core = {"keccak_absorb": (1, 4), "keccak_inc_absorb": (1, None), "keccak_inc_finalize": (1, 2),
            "keccak_inc_squeeze": (3, None), "keccak_squeezeblocks": (3, None)}
    for fam in ("shake128", "shake256"):
        for suf, cfn in (("_absorb", "keccak_absorb"), ("_squeezeblocks", "keccak_squeezeblocks"),
                         ("_inc_absorb", "keccak_inc_absorb"), ("_inc_finalize", "keccak_inc_finalize"),
                         ("_inc_squeeze", "keccak_inc_squeeze")):
            _, b = find_function(src, fam + suf)
            calls = re.findall(r"\b(keccak_\w+)\s*\(([^;]*)\)\s*;", b)
            calls = [c for c in calls if c[0] in core]
            if len(calls) != 1 or calls[0][0] != cfn:
                raise TranslateError("%s%s: expected exactly one call of %s" % (fam, suf, cfn))
            a = [x.strip() for x in calls[0][1].split(",")]
            ri, pi = core[cfn]
            if a[ri] not in d:
                raise TranslateError("%s%s: rate argument %r is not a known rate macro" % (fam, suf, a[ri]))
            wr[fam + suf + "_rate"] = d[a[ri]]
            if pi is not None:
                if not re.match(r"0[xX][0-9a-fA-F]{1,2}$", a[pi]):
                    raise TranslateError("%s%s: domain byte %r is not a hex byte literal" % (fam, suf, a[pi]))
                wr[fam + suf + "_domain"] = int(a[pi], 16)
        # one-shot: nblocks = outlen / RATE; tail via one block
        _, b = find_function(src, fam)
        rates = set(re.findall(r"\b(SHA\w+_RATE)\b", b))
        if len(rates) != 1 or list(rates)[0] not in d:
            raise TranslateError("%s: one-shot does not use a single rate macro" % fam)
        wr[fam + "_oneshot_rate"] = d[list(rates)[0]]
        # the exported SHAKE128 / SHAKE256 just forward to the one-shot function
        _, b = find_function(src, fam.upper())
        if not re.search(r"\b%s\s*\(\s*output\s*,\s*outputByteLen\s*,\s*input\s*,\s*inputByteLen\s*\)\s*;" % fam, b):
            raise TranslateError("%s does not forward (output, outputByteLen, input, inputByteLen) to %s" % (fam.upper(), fam))
    d["wr"] = wr
    # ---- text tripwire for sponge control code that is hand-modelled only.  Since sponge.py / spongewrap.py translate every
    # function of the SHAKE path (keccak_inc_init, shake128, shake256 were the last ones), the accepted-text table is empty.
    import json
    golden = json.load(open(os.path.join(os.path.dirname(os.path.abspath(__file__)), "fips202_control_text.json")))
    for fn, (a, b) in golden.items():
        ar, bo = find_function(src, fn)
        na, nb = re.sub(r"\s+", " ", ar).strip(), re.sub(r"\s+", " ", bo).strip()
        if na != a or nb != b:
            raise TranslateError("%s: the sponge control code differs from the text SqiModel.Sponge models (tools/translate/"
                                 "fips202_control_text.json); re-validate the hand model, then refresh the accepted text" % fn)
    return d


def emit(d):
    L = ["/- GENERATED by tools/translate/keccak.py from src/common/generic/fips202.c — do not edit.",
         "   Tie T for C20: the Keccak-f[1600] permutation exactly as the C text computes it. -/",
         "namespace SqiGen.Keccak", "",
         "abbrev State := Vector UInt64 25", "",
         "def NROUNDS : Nat := %d" % d["NROUNDS"],
         "/-- the C macro `ROL(a, offset)` -/",
         "def ROL (a offset : UInt64) : UInt64 := %s" % d["ROL"], "",
         "/-- `KeccakF_RoundConstants` -/",
         "def RC : List UInt64 := [" + ", ".join("0x%016x" % x for x in d["RC"]) + "]", ""]

    def half(name, sts, ins, outs, doc):
        L.append("/-- %s -/" % doc)
        L.append("def %s (state : State) (rc : UInt64) : State :=" % name)
        for k in range(25):
            L.append("  let %s := state[%d]" % (ins[k], k))
        for t, e, _, _ in sts:
            L.append("  let %s := %s" % (t, e))
        L.append("  #v[" + ", ".join(outs[k] for k in range(25)) + "]")
        L.append("")

    half("roundA", d["halfA"], d["a_of"], d["e_of"], "first half of the loop body: round `round`, A lanes to E lanes")
    half("roundB", d["halfB"], d["e_of"], d["a_of"], "second half of the loop body: round `round + 1`, E lanes to A lanes")
    L += ["/-- one iteration of `for (round = 0; round < NROUNDS; round += 2)` -/",
          "def round2 (s : State) (rcA rcB : UInt64) : State := roundB (roundA s rcA) rcB", "",
          "/-- `KeccakF1600_StatePermute` -/",
          "def keccakF (s : State) : State :=",
          "  (List.range (NROUNDS / 2)).foldl (fun s i => round2 s (RC.getD (2 * i) 0) (RC.getD (2 * i + 1) 0)) s", ""]
    L += ["end SqiGen.Keccak", ""]
    return "\n".join(L)


def emit_params(d):
    """rates and domain bytes (separate file: editing a wrapper does not invalidate the permutation proofs)"""
    L = ["/- GENERATED by tools/translate/keccak.py from src/common/generic/fips202.c — do not edit.",
         "   Rate macros and, per public SHAKE wrapper, the rate and domain-separation byte it passes on. -/",
         "namespace SqiGen.Keccak", ""]
    for k in ("SHAKE128_RATE", "SHAKE256_RATE", "SHA3_256_RATE", "SHA3_384_RATE", "SHA3_512_RATE"):
        L.append("def %s : Nat := %d" % (k, d[k]))
    L.append("")
    for k in sorted(d["wr"]):
        if k.endswith("_domain"):
            L.append("def %s : UInt8 := 0x%02x" % (k, d["wr"][k]))
        else:
            L.append("def %s : Nat := %d" % (k, d["wr"][k]))
    L += ["", "end SqiGen.Keccak", ""]
    return "\n".join(L)


def generate(repo, outdir):
    d = extract(repo)
    msgs = []
    if write_if_changed(os.path.join(outdir, "Keccak.lean"), emit(d)):
        msgs.append("Keccak.lean regenerated")
    if write_if_changed(os.path.join(outdir, "KeccakParams.lean"), emit_params(d)):
        msgs.append("KeccakParams.lean regenerated")
    return msgs


if __name__ == "__main__":
    import vlib
    print(generate(vlib.REPO, os.path.join(vlib.LEAN, "SqiGen")))

#!/usr/bin/env python3
"""Tie T for the *loops* of src/ec/ref/ecx/ec.c: xMUL, xMULv2, ec_ladder3pt, xDBLMUL, xDBLMUL_bounded, DBLMUL,
DBLMUL_generic -> lean/SqiGen/Ladder.lean (core Lean only, imports SqiGen.Ec).

Extends the straight-line translator (straightline.Translator) by exactly the loop shapes these functions use and
refuses everything else:
  * `for (i = lo; i < hi; i++)`, `for (i = E - 1; i >= 0; i--)`, `for (j = E; j > 0; j--)` with bounds built from
    literals, integer parameters and the macros BITS / NWORDS_FIELD / NWORDS_ORDER / TORSION_PLUS_EVEN_POWER (which become
    `Nat` parameters of the generated definition): a loop becomes `List.foldl` of a generated body definition
    `<f>_loop<k>` over the index list; the fold state is the tuple of the variables that are live into the loop and
    written in it; every other variable the body reads is a parameter of the body definition;
  * scalars: `unsigned int` / `digit_t` / `bool` locals are typed Bool (bits and masks: `x & 1`, `a ^ b`, `0 - (digit_t)b`,
    `-(cond)`, `~m`) or Nat by a small inference; digit arrays (`digit_t const *k`, `digit_t k_t[NWORDS_ORDER]`) are `Nat`
    (little-endian, 64-bit words): `k[e]` = word e, `(k[i >> LOG2RADIX] >> (i & (RADIX-1))) & 1` = `k.testBit i`,
    `(k[e] >> s)` = `k / 2^(64 e + s) % 2^(64 - s)`…; `mp_sub` / `mp_shiftr(·,1,·)` / `select_ct` / `swap_ct` are built in
    with their word-count argument; an array indexed by loop expressions (`r[2*i]`) is a function `Nat → Nat`;
  * everything else (calls of translated functions, struct copies, if-conversion) is inherited.
All integers are `Nat` (negative lengths are not modelled; `E - 1` is truncated subtraction exactly where C requires
`E ≥ 1`). The generated definitions are proved equal to the hand models of SqiModel/Ladder.lean
(SqiProofs/LadderGen.lean), so every ladder theorem of SqiProps/C08.lean is a theorem about generated code."""
import copy, os, re, sys
HERE = os.path.dirname(os.path.abspath(__file__))
sys.path.insert(0, HERE)
import _cparse as cp
from _cparse import Unsupported
import straightline as sl
from straightline import Translator, Fn, FP, INT_TYPES, lean_ident, tuple_proj, Uninit

FILES = ["src/ec/ref/ecx/ec.c"]
FUNCTIONS = ["xMUL", "xMULv2", "ec_ladder3pt", "xDBLMUL", "xDBLMUL_bounded", "DBLMUL", "DBLMUL_generic", "ec_dbl_iter"]
MACROS = {"BITS", "NWORDS_FIELD", "NWORDS_ORDER", "TORSION_PLUS_EVEN_POWER"}
WORD = 64
STILL_HAND = {"DBLMUL2": "fixed 128-bit variant of DBLMUL (two unrolled 64-bit loops); covered by the model jacDBLMUL",
              "ec_biscalar_mul_bounded": "wrapper with a word loop (`acck |= k[i]`) before xDBLMUL_bounded; hand model biscalarMulBounded"}


class LT(Translator):
    def __init__(self, world, fn, out):
        super().__init__(world, fn)
        self.out = out                 # shared: list of emitted body defs, counter
        self.kind = {}                 # path -> 'bool' | 'nat'
        self.bigs = set()              # roots that are multi-word naturals
        self.fns = set()               # roots that are Nat -> Nat functions
        self.macros_used = []
        self.loopvars = []
        self.nloops = 0

    # ------------------------------------------------------------ parameters / declarations
    def setup_params(self):
        fn = self.fn
        digit = [p for p in fn.params if p[0] == "digit_t" and p[2]]
        ints = [p for p in fn.params if p[0] in INT_TYPES and not p[2]]
        rest = [p for p in fn.params if p not in digit and p not in ints]
        saved = fn.params
        fn.params = rest
        try:
            super().setup_params()
        finally:
            fn.params = saved
        for ctype, name, is_ptr, const, dims in digit:
            self.big_params = getattr(self, "big_params", []) + [name]
            self.vty[name] = "digit_t"
            self.env[(name,)] = lean_ident(name)
            self.kind[(name,)] = "nat"
            self.bigs.add(name)
            self.param_mode[name] = "val"
        for ctype, name, is_ptr, const, dims in ints:
            self.vty[name] = ctype
            self.env[(name,)] = lean_ident(name)
            self.kind[(name,)] = "nat"
            self.param_mode[name] = "val"
            self.int_params.add(name)

    def infer_kinds(self, body):
        """bool/nat typing of scalar locals (least fixed point; default bool when only 0/1 literals and bit ops)"""
        assigns = {}

        def walk(ss):
            for s in ss:
                k = s[0]
                if k == "decl":
                    for name, ptr, dims, init in s[2]:
                        if s[1] in INT_TYPES and not dims:
                            assigns.setdefault(name, [])
                            if init is not None:
                                assigns[name].append(init)
                        if s[1] in INT_TYPES and dims and dims[0][0] == "num" and init is not None:
                            for i in range(dims[0][1]):
                                assigns.setdefault("%s[%d]" % (name, i), []).append(("num", 0))
                elif k == "assign":
                    key = self.skey(s[1])
                    if key:
                        assigns.setdefault(key, []).append(s[2])
                elif k == "expr" and s[1][0] == "call" and s[1][1] == "select_ct" and s[1][2][4] == ("num", 1):
                    key = self.skey(s[1][2][0])
                    if key:
                        assigns.setdefault(key, []).append(("sel", s[1][2][1], s[1][2][2]))
                elif k in ("block",):
                    walk(s[1])
                elif k == "if":
                    walk(s[2]); walk(s[3] or [])
                elif k == "for":
                    walk(s[4])
                elif k == "forg":
                    walk(s[6])
        walk(body)
        kinds = {k: "bool" for k in assigns}
        changed = True
        while changed:
            changed = False
            for v, rhss in assigns.items():
                for r in rhss:
                    if self.etype(r, kinds) == "nat" and kinds[v] != "nat":
                        kinds[v] = "nat"; changed = True
        self.skinds = kinds

    def skey(self, e):
        if e[0] == "id":
            return e[1]
        if e[0] == "un" and e[1] in ("&", "*"):
            return self.skey(e[2])
        if e[0] == "index" and e[1][0] == "id" and e[2][0] == "num":
            return "%s[%d]" % (e[1][1], e[2][1])
        return None

    def etype(self, e, kinds):
        k = e[0]
        if k == "num":
            return "lit" if e[1] in (0, 1) else "nat"
        if k == "sel":
            a, b = self.etype(e[1], kinds), self.etype(e[2], kinds)
            return "nat" if "nat" in (a, b) else "bool"
        if k in ("id", "index") or (k == "un" and e[1] in ("&", "*")):
            key = self.skey(e)
            if key in kinds:
                return kinds[key]
            return "nat"
        if k == "cast":
            return self.etype(e[2], kinds)
        if k == "un" and e[1] in ("!", "~"):
            return "bool"
        if k == "un" and e[1] == "-":
            return "bool"          # -(cond) : a mask
        if k == "bin":
            op, a, b = e[1], e[2], e[3]
            if op in ("==", "!=", "<", ">", "<=", ">=", "&&", "||"):
                return "bool"
            if op == "&" and (b == ("num", 1) or a == ("num", 1)):
                return "lit"       # a single bit: Bool unless stored in a Nat variable
            ta, tb = self.etype(a, kinds), self.etype(b, kinds)
            if op in ("^", "&", "|"):
                return "nat" if "nat" in (ta, tb) else "bool"
            if op == "-" and a == ("num", 0):
                return "bool"      # 0 - (digit_t)bit : a mask
            return "nat"
        if k == "call":
            return "bool" if e[1] in ("mp_shiftr", "fp2_is_zero", "fp2_is_equal", "ec_is_zero") else "nat"
        return "nat"

    def decl(self, s):
        _, ty, decls, ln = s
        if ty not in INT_TYPES:
            # struct locals: brace initialisers `= { 0 }` are ignored (every field is written before it is read,
            # otherwise the read raises)
            decls2 = [(n, p, d, None if (i is not None and i[0] == "init") else i) for n, p, d, i in decls]
            return super().decl(("decl", ty, decls2, ln))
        for name, ptr, dims, init in decls:
            if ptr:
                self.err(ln, "pointer to integer local")
            if name in self.vty:
                self.err(ln, "redeclaration of %s" % name)
            if not dims:
                self.vty[name] = ty
                self.kind[(name,)] = self.skinds.get(name, "bool")
                if init is not None:
                    self.assign(("id", name), init, ln)
                continue
            if len(dims) != 1:
                self.err(ln, "multi-dimensional integer array")
            d = dims[0]
            zero = init is not None and init[0] == "init" and all(x == ("num", 0) for x in init[1])
            if init is not None and not zero:
                self.err(ln, "initialiser of integer array other than { 0 }")
            if d[0] == "num":
                self.vty[name] = ("arr", ty, d[1])
                for i in range(d[1]):
                    self.kind[(name, i)] = self.skinds.get("%s[%d]" % (name, i), "bool")
                    if zero:
                        self.write((name, i), "false" if self.kind[(name, i)] == "bool" else "0", ln)
            elif d == ("id", "NWORDS_ORDER") or d == ("id", "NWORDS_FIELD"):
                self.vty[name] = "digit_t"
                self.bigs.add(name)
                self.kind[(name,)] = "nat"
                self.bigdim = getattr(self, "bigdim", {})
                self.bigdim[name] = d[1]
                if zero:
                    self.write((name,), "0", ln)
            else:
                self.vty[name] = "digit_t"
                self.fns.add(name)
                self.kind[(name,)] = "nat"
                if zero:
                    self.write((name,), "(fun (_ : Nat) => (0 : Nat))", ln)

    # ------------------------------------------------------------ scalar expressions
    def macro(self, name):
        if name not in self.macros_used:
            self.macros_used.append(name)
        return name

    def nat(self, e, ln):
        s, k = self.sexpr(e, ln)
        return s if k == "nat" else "(%s).toNat" % s

    def boolx(self, e, ln):
        s, k = self.sexpr(e, ln)
        return s if k == "bool" else "(decide (%s ≠ 0))" % s

    def is_bit_idiom(self, e):
        """(k[i >> LOG2RADIX] >> (i & (RADIX - 1)))  -> (k, i)"""
        if e[0] == "bin" and e[1] == ">>" and e[2][0] == "index" and e[2][1][0] == "id" and e[2][1][1] in self.bigs:
            idx, sh = e[2][2], e[3]
            if (idx[0] == "bin" and idx[1] == ">>" and idx[3] == ("id", "LOG2RADIX") and sh[0] == "bin" and sh[1] == "&"
                    and sh[2] == idx[2] and sh[3] == ("bin", "-", ("id", "RADIX"), ("num", 1))):
                return e[2][1][1], idx[2]
        return None

    def sexpr(self, e, ln):
        k = e[0]
        if k == "num":
            return str(e[1]), "nat"
        if k == "cast":
            return self.sexpr(e[2], ln)
        if k == "id":
            n = e[1]
            if n in MACROS:
                return self.macro(n), "nat"
            if n in self.loopvars:
                return n, "nat"
            if n in ("RADIX",):
                return str(WORD), "nat"
            p = self.place(e, ln)
            if p[0] in self.bigs or p[0] in self.fns:
                self.err(ln, "digit array %s used as a scalar" % n)
            return self.read(p, ln=ln), self.kind.get(p, "nat")
        if k == "index":
            base = e[1]
            if base[0] == "id" and base[1] in self.bigs:
                w = self.nat(e[2], ln)
                b = self.read((base[1],), ln=ln)
                if w == "0":
                    return "(%s %% 2 ^ %d)" % (b, WORD), "nat"
                return "(%s / 2 ^ (%d * %s) %% 2 ^ %d)" % (b, WORD, self.atom(w), WORD), "nat"
            if base[0] == "id" and base[1] in self.fns:
                return "(%s %s)" % (self.read((base[1],), ln=ln), self.atom(self.nat(e[2], ln))), "nat"
            p = self.place(e, ln)
            return self.read(p, ln=ln), self.kind.get(p, "nat")
        if k == "un" and e[1] in ("&", "*"):
            return self.sexpr(e[2], ln)
        if k == "un" and e[1] == "!":
            return "(!%s)" % self.boolx(e[2], ln), "bool"
        if k == "un" and e[1] == "~":
            s, kd = self.sexpr(e[2], ln)
            if kd != "bool":
                self.err(ln, "bitwise complement of a non-mask")
            return "(!%s)" % s, "bool"
        if k == "un" and e[1] == "-":
            return self.boolx(e[2], ln), "bool"
        if k == "bin":
            op, a, b = e[1], e[2], e[3]
            if op == "&" and b in (("num", 1),) :
                bi = self.is_bit_idiom(a)
                if bi:
                    return "(Nat.testBit %s %s)" % (self.read((bi[0],), ln=ln), self.atom(self.nat(bi[1], ln))), "bool"
                if a[0] == "index" and a[1][0] == "id" and a[1][1] in self.bigs:
                    w = self.nat(a[2], ln)
                    bb = self.read((a[1][1],), ln=ln)
                    return "(Nat.testBit %s %s)" % (bb, "0" if w == "0" else "(%d * %s)" % (WORD, self.atom(w))), "bool"
                s, kd = self.sexpr(a, ln)
                if kd == "bool":
                    return s, "bool"
                return "(Nat.testBit %s 0)" % self.atom(s), "bool"
            if op in ("==", "!=", "<", ">", "<=", ">="):
                x, y = self.nat(a, ln), self.nat(b, ln)
                lop = {"==": "=", "!=": "≠", "<": "<", ">": ">", "<=": "≤", ">=": "≥"}[op]
                return "(decide (%s %s %s))" % (x, lop, y), "bool"
            if op in ("&&", "||"):
                return "(%s %s %s)" % (self.boolx(a, ln), op, self.boolx(b, ln)), "bool"
            if op == "-" and a == ("num", 0):
                return self.boolx(b, ln), "bool"          # mask
            sa, ka = self.sexpr(a, ln)
            sb, kb = self.sexpr(b, ln)
            if op in ("^", "&", "|") and ka == "bool" and kb == "bool":
                f = {"^": "xor %s %s", "&": "%s && %s", "|": "%s || %s"}[op]
                return "(" + f % (self.atom(sa), self.atom(sb)) + ")", "bool"
            if op in ("^", "&", "|") and "bool" in (ka, kb):
                # a literal 0 / 1 next to a bit
                lit = {"0": "false", "1": "true"}
                if ka == "nat" and sa in lit:
                    sa, ka = lit[sa], "bool"
                if kb == "nat" and sb in lit:
                    sb, kb = lit[sb], "bool"
                if ka == kb == "bool":
                    f = {"^": "xor %s %s", "&": "%s && %s", "|": "%s || %s"}[op]
                    return "(" + f % (self.atom(sa), self.atom(sb)) + ")", "bool"
                self.err(ln, "bit operation mixing a mask/bit and an integer")
            x = sa if ka == "nat" else "(%s).toNat" % sa
            y = sb if kb == "nat" else "(%s).toNat" % sb
            if op in ("+", "*", "-"):
                return "(%s %s %s)" % (x, op, y), "nat"
            if op == ">>":
                if not re.match(r"^\d+$", y):
                    return "(%s / 2 ^ %s)" % (x, self.atom(y)), "nat"
                return "(%s / %d)" % (x, 2 ** int(y)), "nat"
            if op == "<<":
                if not re.match(r"^\d+$", y):
                    return "(%s * 2 ^ %s)" % (x, self.atom(y)), "nat"
                return "(%s * %d)" % (x, 2 ** int(y)), "nat"
            if op == "&" and re.match(r"^\d+$", y) and int(y) == 1:
                return "(%s %% 2)" % x, "nat"
            if op == "&":
                return "(Nat.land %s %s)" % (self.atom(x), self.atom(y)), "nat"
            self.err(ln, "integer operator %r" % op)
        if k == "call":
            return super().sexpr(e, ln)
        self.err(ln, "scalar expression outside the subset: %r" % (e,))

    def tobool(self, sk):
        s, k = sk
        return s if k == "bool" else "(decide (%s ≠ 0))" % s

    # ------------------------------------------------------------ assignments / calls
    def scalar_store(self, p, e, ln):
        want = self.kind.get(p, "nat")
        s, k = self.sexpr(e, ln)
        if want == "bool" and k == "nat":
            s = {"0": "false", "1": "true"}.get(s) or "(decide (%s ≠ 0))" % s
        if want == "nat" and k == "bool":
            s = "(%s).toNat" % s
        self.write(p, s, ln)

    def assign(self, lhs, rhs, ln):
        if lhs[0] == "index" and lhs[1][0] == "id" and lhs[1][1] in self.fns:
            name = lhs[1][1]
            i = self.nat(lhs[2], ln)
            v = self.nat(rhs, ln)
            old = self.read((name,), ln=ln)
            self.write((name,), "(fun j => if j = %s then %s else %s j)" % (i, v, self.atom(old)), ln)
            return
        if lhs[0] == "index" and lhs[1][0] == "id" and lhs[1][1] in self.bigs:
            name = lhs[1][1]
            if lhs[2] != ("num", 0) or self.env.get((name,)) != self.pname((name,)) and False:
                pass
            old = self.read((name,), ln=ln)
            # only `x[0] = v` on an all-zero array (the constant `one`)
            if lhs[2] == ("num", 0) and self.zero_bigs.get(name):
                self.write((name,), self.nat(rhs, ln), ln)
                self.zero_bigs[name] = False
                return
            self.err(ln, "word assignment into digit array %s" % name)
        p = self.place(lhs, ln)
        ty = self.type_of(p)
        if ty in INT_TYPES:
            if rhs[0] == "call" and rhs[1] == "mp_shiftr":
                a = rhs[2]
                if a[1] != ("num", 1) or a[0][0] != "id" or a[0][1] not in self.bigs:
                    self.err(ln, "mp_shiftr other than (array, 1, n)")
                x = self.read((a[0][1],), ln=ln)
                if self.kind.get(p) != "bool":
                    self.err(ln, "mp_shiftr result stored in a non-bit variable")
                self.write(p, "(Nat.testBit %s 0)" % self.atom(x), ln)
                self.write((a[0][1],), "(%s / 2)" % x, ln)
                return
            return self.scalar_store(p, rhs, ln)
        return super().assign(lhs, rhs, ln)

    def write(self, path, rhs, ln="?"):
        if path[0] in getattr(self, "zero_bigs", {}) and rhs != "0":
            self.zero_bigs[path[0]] = False
        elif path[0] in self.bigs and rhs == "0":
            self.zero_bigs = getattr(self, "zero_bigs", {})
            self.zero_bigs[path[0]] = True
        return super().write(path, rhs, ln)

    def words(self, e, ln):
        """2^(64·n) for a word-count argument"""
        return "2 ^ (%d * %s)" % (WORD, self.atom(self.nat(e, ln)))

    def do_call(self, e, ln):
        f, args = e[1], e[2]
        big = lambda a: (a[0] == "id" and a[1] in self.bigs)
        if f == "mp_sub":
            c, a, b, n = args
            if not (big(c) and big(a) and big(b)):
                self.err(ln, "mp_sub on non-arrays")
            W = self.words(n, ln)
            x, y = self.read((a[1],), ln=ln), self.read((b[1],), ln=ln)
            return self.write((c[1],), "(%s %% %s + %s - %s %% %s) %% %s" % (x, self.atom(W), self.atom(W), y, self.atom(W), self.atom(W)), ln)
        if f == "select_ct":
            c, a, b, m, n = args
            mk = self.boolx(m, ln)
            if n == ("num", 1) and not big(self.strip(c)):
                pc = self.place(c, ln)
                sa, ka = self.sexpr(a, ln)
                sb, kb = self.sexpr(b, ln)
                want = self.kind.get(pc, "nat")
                conv = lambda s, k: s if k == want else ("(%s).toNat" % s if want == "nat" else "(decide (%s ≠ 0))" % s)
                return self.write(pc, "if %s then %s else %s" % (mk, conv(sb, kb), conv(sa, ka)), ln)
            c, a, b = self.strip(c), self.strip(a), self.strip(b)
            if not (big(c) and big(a) and big(b)):
                self.err(ln, "select_ct on non-arrays")
            x, y = self.read((a[1],), ln=ln), self.read((b[1],), ln=ln)
            return self.write((c[1],), "if %s then %s else %s" % (mk, y, x), ln)
        if f == "swap_ct":
            a, b, m, n = args
            a, b = self.strip(a), self.strip(b)
            if not (big(a) and big(b)):
                self.err(ln, "swap_ct on non-arrays")
            mk = self.boolx(m, ln)
            x, y = self.read((a[1],), ln=ln), self.read((b[1],), ln=ln)
            self.ntmp += 1
            t = "swapct%d%s" % (self.ntmp, self.sfx)
            self.lines.append("let %s := if %s then %s else %s" % (t, mk, x, y))
            self.write((a[1],), "if %s then %s else %s" % (mk, y, x), ln)
            self.write((b[1],), t, ln)
            return
        if f == "ec_dbl":
            # `ec_dbl(res, curve, P)` is `xDBL(res, P, (ec_point_t const *)curve)`: the first two fields (A, C) of the
            # curve structure read as a point (type pun, accepted only in this exact wrapper form)
            res, curve, P = args
            g = self.W.get_fn("xDBL", ln, self)
            pc = self.place(curve, ln)
            if self.type_of(pc) != "ec_curve_t":
                self.err(ln, "ec_dbl on a non-curve")
            ac = "{ x := %s, z := %s }" % (self.read(pc + ("A",), ln=ln), self.read(pc + ("C",), ln=ln))
            pp = self.place(P, ln)
            return self.write(self.place(res, ln), "xDBL %s %s" % (self.atom(self.read(pp, ln=ln)), ac), ln)
        return super().do_call(e, ln)

    def strip(self, e):
        while e[0] == "un" and e[1] in ("&", "*"):
            e = e[2]
        return e

    def call_expr(self, g, args, ln):
        """integer (mask) arguments of generated functions: Bool/Nat -> Int"""
        if len(args) != len(g.params):
            self.err(ln, "call of %s with %d arguments" % (g.name, len(args)))
        parts = [g.name]
        if g.uses_sqrt:
            self.err(ln, "call of a function using sqrt inside a ladder")
        amap = {p[1]: a for p, a in zip(g.params, args)}
        for lname, ty, cparam, mode in g.ins:
            a = amap[cparam]
            if ty in INT_TYPES:
                s, kd = self.sexpr(a, ln)
                parts.append("(if %s then 1 else 0)" % s if kd == "bool" else "(%s : Int)" % s)
            else:
                p = self.place(a, ln)
                if self.type_of(p) != ty:
                    self.err(ln, "argument type mismatch for %s.%s" % (g.name, cparam))
                parts.append(self.atom(self.read(p, ln=ln)))
        return " ".join(parts)

    # ------------------------------------------------------------ loops
    def index_list(self, s, ln):
        if s[0] == "for":
            _, var, lo, hi, body, _ = s
            h = self.nat(hi, ln)
            if lo == ("num", 0):
                return var, "(List.range %s)" % self.atom(h), body
            l = self.nat(lo, ln)
            return var, "(List.range' %s (%s - %s))" % (self.atom(l), h, l), body
        _, var, lo, cmpop, hi, step, body, _ = s
        if step == "--" and cmpop == ">=" and hi == ("num", 0) and lo[0] == "bin" and lo[1] == "-" and lo[3] == ("num", 1):
            return var, "(List.range %s).reverse" % self.atom(self.nat(lo[2], ln)), body
        if step == "--" and cmpop == ">" and hi == ("num", 0):
            return var, "((List.range %s).reverse.map (· + 1))" % self.atom(self.nat(lo, ln)), body
        self.err(ln, "loop shape outside the subset")

    def roots_rw(self, events, r=None, w=None):
        r = set() if r is None else r
        w = set() if w is None else w
        for e in events:
            if e[0] == "if":
                self.roots_rw(e[1], r, w); self.roots_rw(e[2], r, w)
            elif e[0] == "r":
                r.add(e[1][0])
            else:
                w.add(e[1][0])
        return r, w

    def lean_type_of_root(self, root):
        ty = self.vty[root]
        if root in self.fns:
            return "(Nat → Nat)"
        if root in self.bigs:
            return "Nat"
        if isinstance(ty, tuple):
            self.err("?", "array %s carried through a loop as a whole" % root)
        if ty in INT_TYPES:
            return "Bool" if self.kind.get((root,), "nat") == "bool" else "Nat"
        return self.T.lean(ty)

    def carried_units(self, root):
        """a root is carried as one value, arrays of structs / scalars element-wise: -> [(path, leantype)]"""
        ty = self.vty[root]
        if isinstance(ty, tuple):
            out = []
            for i in range(ty[2]):
                if ty[1] in INT_TYPES:
                    out.append(((root, i), "Bool" if self.kind.get((root, i), "nat") == "bool" else "Nat"))
                else:
                    out.append(((root, i), self.T.lean(ty[1])))
            return out
        return [((root,), self.lean_type_of_root(root))]

    def initialised(self, path):
        return any(k[:len(path)] == path or path[:len(k)] == k for k in self.env)

    def do_loop(self, s):
        ln = s[-1]
        var, idx, body = self.index_list(s, ln)
        if var in self.vty and var not in self.loopvars:
            pass
        # ---- discovery pass on a copy
        probe = copy.copy(self)
        probe.env, probe.kind, probe.vty = dict(self.env), dict(self.kind), dict(self.vty)
        probe.lines, probe.events = [], []
        probe.ev_stack = [probe.events]
        probe.loopvars = self.loopvars + [var]
        probe.out = dict(defs=[], n=self.out["n"] + 100)
        probe.macros_used = []
        probe.zero_bigs = dict(getattr(self, "zero_bigs", {}))
        probe.ptr_alias = dict(self.ptr_alias)
        probe.stmts(body)
        rd, wr = self.roots_rw(probe.events)
        declared_in_body = set(probe.vty) - set(self.vty)
        carried = []
        for root in self.vty:
            if root in wr and root not in declared_in_body:
                for path, lt in self.carried_units(root):
                    if self.initialised(path):
                        carried.append((path, lt))
        carried_roots = {p[0] for p, _ in carried}
        free = [r for r in self.vty if r in rd and r not in carried_roots and r not in declared_in_body and r != var
                and self.initialised((r,))]
        # partially carried arrays: the non-carried elements that are read are free too (as whole root it is not possible)
        # ---- the body definition
        self.out["n"] += 1
        name = "%s_loop%d" % (self.fn.name, self.out["n"])
        b = copy.copy(self)
        b.env, b.kind, b.vty = {}, dict(self.kind), dict(self.vty)
        b.lines, b.events = [], []
        b.ev_stack = [b.events]
        b.loopvars = self.loopvars + [var]
        b.ptr_alias = dict(self.ptr_alias)
        b.zero_bigs = {}
        b.sfx = ""
        b.macros_used = []
        params = []
        for r in free:
            if isinstance(self.vty[r], tuple):
                self.err(ln, "array %s read inside a loop without being carried" % r)
            b.env[(r,)] = lean_ident(r)
            params.append("(%s : %s)" % (lean_ident(r), self.lean_type_of_root(r).strip("()") if not self.lean_type_of_root(r).startswith("(Nat") else self.lean_type_of_root(r)))
        n = len(carried)
        sty = " × ".join(lt for _, lt in carried) if n > 1 else carried[0][1].strip("()") if n == 1 else None
        if n == 0:
            self.err(ln, "loop without carried state")
        for i, (path, lt) in enumerate(carried):
            nm = b.pname(path)
            b.lines.append("let %s := st%s" % (nm, ("." + tuple_proj(i, n)) if n > 1 else ""))
            b.env[path] = nm
        b.stmts(body)
        res = [b.read(path, note=False) for path, _ in carried]
        mac = [m for m in b.macros_used]
        for m in mac:
            if m not in self.macros_used:
                self.macros_used.append(m)
        self.uses_sqrt = self.uses_sqrt or b.uses_sqrt
        outer = [v for v in self.loopvars if self.referenced(v, b.lines + res)]
        params = ["(%s : Nat)" % v for v in outer] + params
        head = "def %s%s %s (st : %s) (%s : Nat) : %s :=" % (name, "".join(" (%s : Nat)" % m for m in mac), " ".join(params), sty, var, sty)
        text = head + "\n" + "".join("  " + l + "\n" for l in b.lines) + "  " + (res[0] if n == 1 else "(" + ", ".join(res) + ")") + "\n"
        self.out["defs"].append(text)
        # ---- the fold in the enclosing definition
        init = [self.read(path, ln=ln) for path, _ in carried]
        self.ntmp += 1
        st = "st%d%s" % (self.ntmp, self.sfx)
        call = "%s%s %s" % (name, "".join(" " + m for m in mac), " ".join(outer + [self.atom(self.read((r,), ln=ln)) for r in free]))
        self.lines.append("let %s := %s.foldl (%s) %s" % (st, idx, call.strip(), init[0] if n == 1 else "(" + ", ".join(init) + ")"))
        for i, (path, lt) in enumerate(carried):
            self.write(path, st + (("." + tuple_proj(i, n)) if n > 1 else ""), ln)
        # variables written in the loop but not carried are undefined afterwards
        for root in wr:
            if root not in carried_roots and root not in declared_in_body:
                for k2 in [k2 for k2 in self.env if k2[0] == root]:
                    del self.env[k2]

    def stmts(self, ss):
        i = 0
        while i < len(ss):
            s = ss[i]
            if s[0] in ("for", "forg"):
                self.do_loop(s)
                i += 1
                continue
            if s[0] in ("if",) or s[0] == "return":
                return super().stmts(ss[i:])
            super().stmts([s])
            i += 1

    def branch(self, cond, th, el, ln):
        # conditions of the extended scalar language
        return super().branch(cond, th, el, ln)

    def finish_ladder(self):
        fn = self.fn
        wr = self.written_roots()
        for nm in getattr(self, "big_params", []):
            if nm in wr:
                self.err(fn.line, "digit array parameter %s is written" % nm)
        outs, results = [], []
        for ctype, name, is_ptr, const, dims in fn.params:
            if self.param_mode.get(name) == "ptr" and name in wr:
                outs.append((name, ctype))
                results.append(self.read((name,), note=False))
        if not results:
            self.err(fn.line, "no output")
        texts = self.lines + results
        sig = "".join(" (%s : Nat)" % m for m in self.macros_used)
        for ctype, name, is_ptr, const, dims in fn.params:
            mode = self.param_mode.get(name)
            if name in self.bigs or (ctype in INT_TYPES and not is_ptr):
                if self.referenced(lean_ident(name), texts):
                    sig += " (%s : Nat)" % lean_ident(name)
            elif mode == "val" and self.referenced(lean_ident(name), texts):
                sig += " (%s : %s)" % (lean_ident(name), self.T.lean(ctype).strip("()"))
            elif mode == "ptr":
                if self.referenced(lean_ident(name) + "_in", texts):
                    if name in wr:
                        sig += " (%s_in : %s)" % (lean_ident(name), self.T.lean(ctype).strip("()"))
                    else:
                        sig += " (%s : %s)" % (lean_ident(name), self.T.lean(ctype).strip("()"))
                        pat = re.compile(r"(?<![\w.])%s_in(?![\w'])" % re.escape(lean_ident(name)))
                        self.lines = [pat.sub(lean_ident(name), l) for l in self.lines]
                        results = [pat.sub(lean_ident(name), l) for l in results]
        rty = " × ".join(self.T.lean(t).strip("()") if len(outs) == 1 else self.T.lean(t) for _, t in outs)
        head = "def %s%s : %s :=" % (fn.name, sig, rty)
        res = results[0] if len(results) == 1 else "(" + ", ".join(results) + ")"
        return head + "\n" + "".join("  " + l + "\n" for l in self.lines) + "  " + res + "\n"


HEADER = """import SqiGen.Ec
/- GENERATED by tools/translate/ladders.py from src/ec/ref/ecx/ec.c of the repo working tree — do not edit.
   Loops are `List.foldl` of the generated `<f>_loop<k>` bodies over the index lists; digit arrays are `Nat`. -/
set_option linter.unusedVariables false

namespace SqiGen
variable {F : Type} [Add F] [Sub F] [Mul F] [Neg F] [Inv F] [Zero F] [One F] [NatCast F] [DecidableEq F]

"""


def analyze(repo, functions=None):
    W, _ = sl.analyze(repo)
    txt = HEADER
    for name in (functions or FUNCTIONS):
        fn = W.load_fn(name, FILES)
        if fn is None:
            raise Unsupported("ladders: definition of %s not found" % name)
        out = dict(defs=[], n=0)
        t = LT(W, fn, out)
        t.infer_kinds(fn.body)
        t.setup_params()
        t.stmts(fn.body)
        main = t.finish_ladder()
        txt += "/- %s:%d  %s -/\n" % (fn.file, fn.line, name) + "\n".join(out["defs"]) + "\n" + main + "\n"
    txt += "end SqiGen\n"
    return txt


def generate(repo, outdir):
    sys.path.insert(0, os.path.dirname(HERE))
    from vlib import write_if_changed
    txt = analyze(repo)
    return ["SqiGen/Ladder.lean regenerated"] if write_if_changed(os.path.join(outdir, "Ladder.lean"), txt) else []


if __name__ == "__main__":
    repo = sys.argv[1] if len(sys.argv) > 1 else os.environ.get("VERIF_REPO", "/repo")
    print(analyze(repo, sys.argv[2:] or None))
